---------------------------- MODULE JoinFlow_gen ----------------------------
(* Generation wrapper of JoinFlow.tla (X07): every completed behaviour       *)
(* within the configured bounds is printed as one record for the Go harness *)
(* (harness/cmd/x07): the scenario and what the specification derives - the *)
(* outcome and its error class, every reason that stands against the call,  *)
(* the two requests, the order of the observable steps, the description of  *)
(* the event and of the state snapshot handed to the caller - plus what the *)
(* two as-built rules (Fault = asbuilt_adopt / asbuilt_merge) would give,   *)
(* so that the replay can name a disagreement by the rule the library       *)
(* follows.                                                                  *)
EXTENDS JoinFlow, Json

\* the room versions of the quick tier and of the thorough tier (every registered version)
VersQuick == {"1", "2", "4", "10", "11", "12", "org.matrix.msc4014"}
VersAll   == Versions
VersFault == {"1", "10", "org.matrix.msc4014"}

\* the as-built rules, as pure functions of the behaviour
AsBuiltRet == IF AsBuiltAdoptable(answer.ev) THEN [answer.ev EXCEPT !.uns = out.ev.uns] ELSE out.ev
AsBuiltCallers == IF sc.content = "none" THEN "na"
                  ELSE IF tmpl.content = "override" THEN "overridden"
                  ELSE IF tmpl.content = "null" THEN "dropped" ELSE "kept"
AsBuiltMapping == IF ~Pseudo(sc.ver) THEN "none"
                  ELSE IF tmpl.content = "override" THEN "foreign"
                  ELSE IF tmpl.content = "null" THEN "none" ELSE "j"

Emit == Done =>
    PrintT(ToJson([ver |-> sc.ver, sc |-> sc,
                   out |-> [res |-> out.res, class |-> out.class, why |-> out.why],
                   reasons |-> Reasons,
                   \* the other design (Strict = TRUE) refuses this template before anything is sent to send_join
                   mayrefuse |-> (sc.tpl \in OddTpl),
                   made |-> made,
                   sent |-> sent,
                   order |-> log,
                   tplans |-> tmpl.k,
                   ans |-> answer.k,
                   ret |-> out.ev,
                   snap |-> out.snap,
                   asb |-> [ret |-> AsBuiltRet, callers |-> AsBuiltCallers, mapping |-> AsBuiltMapping]]))
=============================================================================
