SPECIFICATION Spec
CONSTANTS
  Versions = {"12"}
  Strip = "first"
  Drops = 1
INVARIANTS Exactly Sufficient
CHECK_DEADLOCK FALSE
