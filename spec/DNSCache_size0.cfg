SPECIFICATION FairSpec
CONSTANTS
  Procs = {"c1"}
  Hosts = {"a"}
  Size = 0
  MaxCalls = 1
  MaxExpire = 0
  Kinds = {"lookup"}
  ZeroDuration = FALSE
  Faults = FALSE
INVARIANTS TypeOK SizeBound
PROPERTIES EveryCallReturns
