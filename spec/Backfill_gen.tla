---------------------------- MODULE Backfill_gen ----------------------------
(* Generation wrapper of Backfill.tla (X04): every completed behaviour within the configured bounds is      *)
(* printed as one record for the Go harness (harness/cmd/x04): the room as seen on the wire (events with    *)
(* the world's faults applied, provider behaviour and reported state per event), the caller's arguments,    *)
(* the server list, the history of the behaviour (per server asked: the request, the answer PDU by PDU,     *)
(* the class of every PDU, the state-provider calls) and the outcome the specification derives.             *)
EXTENDS Backfill, Json

SlicesAll   == {"error", "empty", "full", "short", "older", "over", "gap"}
SlicesQuick == {"error", "empty", "full", "short", "older", "over"}
SlicesFull  == {"full"}
WiresAll    == {"badsig", "malformed", "dup", "sigcopy", "foreign"}
WiresBadsig == {"badsig"}
FromAll     == {"none", "tip", "fork"}
FromTip     == {"none", "tip"}
Limits0123  == {0, 1, 2, 3}
Limits123   == {1, 2, 3}
Limits013   == {0, 1, 3}
Limits0135  == {0, 1, 3, 5}
Limits24    == {2, 4}
Limits2     == {2}
Limits3     == {3}

EvJson(EM, i) == [id |-> i, type |-> EM[i].type, sender |-> EM[i].sender, skey |-> EM[i].skey,
                  membership |-> EM[i].membership, plu |-> EM[i].plu, jr |-> EM[i].jr,
                  prev |-> EM[i].prev, auth |-> EM[i].auth, depth |-> EM[i].depth, ts |-> EM[i].ts,
                  f |-> sc.F[i], p |-> sc.P[i], sp |-> sc.SP[i]]

AskJson(j) == [server |-> log[j].server, limit |-> log[j].limit, from |-> log[j].from, kind |-> log[j].kind,
               fk |-> log[j].fk, fj |-> log[j].fj, pdus |-> log[j].pdus, classes |-> log[j].classes,
               under |-> log[j].under, spcalls |-> log[j].spcalls, failed |-> log[j].failed]

\* a deviation of the world shows only if some answer that was verified carries the event concerned or an event
\* that cites it (through auth_events, directly or not); behaviours in which it cannot show are not replayed
Carried == UNION {{log[j].pdus[i].id : i \in {x \in DOMAIN log[j].pdus : log[j].pdus[x].w \notin {"malformed", "foreign"}}}
                  : j \in {x \in DOMAIN log : Processed(x)}}
Observable == \A d \in WorldDevs : IF d.d = "S" THEN d.e \in Carried
                                    ELSE IF d.d = "P" THEN d.e \in ChainOf(E, Carried)
                                    ELSE d.e \in Carried \cup ChainOf(E, Carried)

Emit == (Done /\ Observable) =>
    LET EM == Mutated(sc.F) IN
    PrintT(ToJson([ver |-> Ver, events |-> [i \in Ids |-> EvJson(EM, i)], sb |-> sc.sb, cls |-> cls,
                   from |-> sc.from, limit |-> sc.limit, servers |-> sc.servers,
                   cancel |-> (IF ~cancelled THEN "no" ELSE IF \E j \in DOMAIN log : log[j].kind = "cancel" THEN "inflight" ELSE "early"),
                   dev |-> dev, sae |-> sae, asks |-> [j \in DOMAIN log |-> AskJson(j)],
                   out |-> out, sigtol |-> SigTolerance]))
=============================================================================
