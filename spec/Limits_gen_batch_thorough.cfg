SPECIFICATION Spec
CONSTANTS
  Versions <- VersionsAll
  Family = "batch3"
INVARIANTS BatchFilter BatchItemsJudged Accounting BatchEmit
CHECK_DEADLOCK FALSE
