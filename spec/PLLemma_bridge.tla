--------------------------- MODULE PLLemma_bridge ---------------------------
(***************************************************************************)
(* Bridge between the rank model of the power-levels rule (Auth.tla,       *)
(* checked by TLC, replayed against the real library) and its restatement  *)
(* over unbounded integers (PLLemma.tla, discharged by Apalache), so that  *)
(* the two statements cannot silently drift apart.                         *)
(*                                                                         *)
(* For every power-levels scenario of the Auth_gen.tla families (and of a  *)
(* small exhaustive product of its own, family "prod") the rank content is *)
(* realised as an integer content under each of several strictly monotone  *)
(* ladders (rank 1 -> 0 and rank 3 -> 50 always: the specification's       *)
(* defaults) and BOTH pairs of operators are evaluated:                    *)
(*                                                                         *)
(*    Auth!R10_PowerLevels  =  level-free guards /\ PLLemma!R10_PowerLevels *)
(*    Auth!NoEsc            =  PLLemma!NoEscInt                            *)
(*    Auth!UserLevel        =  PLLemma!UserLevel (through the ladder)      *)
(*                                                                         *)
(* The value stored under an absent key of the integer content is junk     *)
(* (a different one per ladder, placed where it would matter) to show that *)
(* the integer operators never read it.  TLC integers are 32-bit: the      *)
(* ladders stay inside, the rules never do arithmetic on levels.           *)
(***************************************************************************)
EXTENDS Auth_gen

\* PLLemma's variables are only read by its Init / lemma operators, which the bridge never evaluates
Lem(top) == INSTANCE PLLemma WITH Fault <- "none", NoPLCreatorLevel <- top,
                                  v <- 0, st <- 0, ev <- 0, s <- 0, st2 <- 0, ev2 <- 0

MaxInt == 2147483647

\* a ladder: of[r] realises rank r (0..4 ordinary levels, 8 = NoPLCreator), junk = what absent entries hold
Ladders == <<
    [of |-> [r \in 0..9 |-> CASE r = 0 -> -5 [] r = 1 -> 0 [] r = 2 -> 25 [] r = 3 -> 50 [] r = 4 -> 100
                              [] r = 8 -> 1000 [] OTHER -> 7777],
     junk |-> 1000000],
    [of |-> [r \in 0..9 |-> CASE r = 0 -> -MaxInt [] r = 1 -> 0 [] r = 2 -> 49 [] r = 3 -> 50 [] r = 4 -> 51
                              [] r = 8 -> MaxInt [] OTHER -> 7777],
     junk |-> MaxInt],
    [of |-> [r \in 0..9 |-> CASE r = 0 -> -1 [] r = 1 -> 0 [] r = 2 -> 1 [] r = 3 -> 50 [] r = 4 -> MaxInt - 1
                              [] r = 8 -> MaxInt [] OTHER -> 7777],
     junk |-> -MaxInt],
    \* junk in the middle of the ladder
    [of |-> [r \in 0..9 |-> CASE r = 0 -> -50 [] r = 1 -> 0 [] r = 2 -> 10 [] r = 3 -> 50 [] r = 4 -> 9000
                              [] r = 8 -> 9001 [] OTHER -> 7777],
     junk |-> 25]
>>

\* every ladder is strictly monotone on the ranks in use and keeps the defaults
LaddersOK ==
    \A i \in 1..Len(Ladders) :
       LET f == Ladders[i].of IN
       /\ f[R0] = 0 /\ f[R50] = 50
       /\ \A a \in Ranks, b \in Ranks : a < b => f[a] < f[b]
       /\ \A a \in Ranks : f[a] < f[NoPLCreator]

(***************************************************************************)
(* Adapters: rank scenario -> integer scenario                             *)
(***************************************************************************)
IntOf(L, x) == IF x = Absent THEN L.junk ELSE L.of[x]

ToContent(c, L) ==
    [scalarHas |-> [k \in ScalarKeys |-> c[k] # Absent], scalar |-> [k \in ScalarKeys |-> IntOf(L, c[k])],
     eventsHas |-> [k \in EvKeys |-> c.events[k] # Absent], events |-> [k \in EvKeys |-> IntOf(L, c.events[k])],
     notifHas  |-> [k \in NKeys |-> c.notif[k] # Absent],   notif  |-> [k \in NKeys |-> IntOf(L, c.notif[k])],
     usersHas  |-> [u \in Users |-> c.users[u] # Absent],   users  |-> [u \in Users |-> IntOf(L, c.users[u])],
     spkind |-> c.spkind, baduser |-> c.baduser]

ToSt(st_, L) == [plPresent |-> st_.pl.present, c |-> ToContent(st_.pl.c, L), addl |-> st_.create.addl]
ToEv(ev_, L) == [sender |-> ev_.sender, isState |-> ev_.skey # "none", newpl |-> ToContent(ev_.newpl, L)]
ToVer(v_) == [notifChecked |-> NotificationsChecked(v_), privCreators |-> PrivilegedCreators(v_),
              intOnly |-> IntegerPowerLevels(v_)]

\* the conjuncts of Auth!Common that do not read levels (PLLemma leaves them out)
LevelFree(v_, st_, ev_) ==
    /\ st_.create.present /\ st_.create.room = "same"
    /\ FederateOK(st_, ev_.sender)
    /\ MemOf(st_, ev_.sender) = "join"
    /\ AtKeyOK(ev_)

Agree(L) ==
    LET top == L.of[NoPLCreator]
        iv == ToVer(ver)  ist == ToSt(st, L)  iev == ToEv(ev, L)
        rl == UserLevel(ver, st, ev.sender)
        il == Lem(top)!UserLevel(iv, ist, ev.sender)
    IN  /\ R10_PowerLevels(ver, st, ev) = (LevelFree(ver, st, ev) /\ Lem(top)!R10_PowerLevels(iv, ist, iev))
        /\ NoEsc(ver, st, ev) = Lem(top)!NoEscInt(iv, ist, iev)
        /\ (rl = Inf) = il.inf
        /\ (rl # Inf => il.n = L.of[rl])

(***************************************************************************)
(* Scenarios                                                               *)
(***************************************************************************)
\* "prod": ALL old/new combinations of three interacting keys at once (not only 1- and 2-key variations):
\* the users triple (default, somebody else, the sender) and, in depth "full", the events triple as well
ProdKeySets == IF PLDepth = "full"
               THEN {<<"users_default", "users.bob", "users.alice">>, <<"events_default", "state_default", "events.msg">>}
               ELSE {<<"users_default", "users.bob", "users.alice">>}
ProdVals == {Absent, 1, 2, 4}

RECURSIVE SetKeys(_, _, _, _)
SetKeys(c, keys, f, i) == IF i = 0 THEN c ELSE SetKeys(SetKey(c, keys[i], f[i]), keys, f, i - 1)

InitProd ==
    \E keys \in ProdKeySets :
    \E o \in [1..3 -> ProdVals], n \in [1..3 -> ProdVals], haspl \in BOOLEAN :
       /\ (~haspl => \A i \in 1..3 : o[i] = Absent)
       /\ st = LET s0 == WithMem(WithMem(BaseSt, "alice", "join"), "creator", "join")
               IN IF haspl THEN WithPL(s0, SetKeys([EmptyPL EXCEPT !.users["creator"] = 4, !.users["alice"] = 3], keys, o, 3)) ELSE s0
       /\ \E sender \in {"alice", "creator"}, cu \in {Absent, 4} :
             ev = [PLEv(SetKeys([EmptyPL EXCEPT !.users["creator"] = cu, !.users["alice"] = 3], keys, n, 3)) EXCEPT !.sender = sender]

BInit ==
    IF Family = "prod"
    THEN /\ ver \in Versions
         /\ phase = "scenario" /\ verdict = FALSE /\ noesc = TRUE
         /\ pre = NoPre /\ ccopy = EmptyPL /\ verdict0 = "na"
         /\ InitProd
    ELSE Init

\* the scenario is chosen by BInit; one step (so that TLC's workers evaluate the invariants in parallel)
BNext == /\ phase = "scenario"
         /\ phase' = "done"
         /\ UNCHANGED <<ver, st, ev, verdict, noesc, pre, ccopy, verdict0>>
BSpec == BInit /\ [][BNext]_vars

\* THE BRIDGE INVARIANT
BridgeAgree == (phase = "done" /\ ev.type = "pl") => \A i \in 1..Len(Ladders) : Agree(Ladders[i])

\* the rank model's own lemma on the bridge's scenarios (also those of family "prod")
RankLemma == (phase = "done" /\ ev.type = "pl" /\ R10_PowerLevels(ver, st, ev)) => NoEsc(ver, st, ev)

\* sanity of the bridge itself
ASSUME BridgeSane == LaddersOK

\* the scenarios are not one-sided: each of these must be VIOLATED on the pl families
NeverAccepts == ~(phase = "done" /\ ev.type = "pl" /\ R10_PowerLevels(ver, st, ev))
NeverRejectsWithNoEsc == ~(phase = "done" /\ ev.type = "pl" /\ ~R10_PowerLevels(ver, st, ev) /\ NoEsc(ver, st, ev))
NeverEscalates == ~(phase = "done" /\ ev.type = "pl" /\ ~NoEsc(ver, st, ev))
=============================================================================
