SPECIFICATION Spec
CONSTANTS
  Family = "event1"
  Versions <- VersionsAll
  TypesC <- TypesB
  Depth = "core"
  FieldSet = "full"
  Entries <- EntriesUntrusted
  MaxOps = 2
  Heavy <- HeavyClassic
  HeavyAfter <- HeavyLiteSet
  Muts <- MutsAll
INVARIANTS TypeOK NoPanic WellOrdered Emit
CHECK_DEADLOCK FALSE
