\* KeyLife_asbuilt.cfg: the store rule keyring.go implements, checked against clause (3) of the property.
\* TLC is EXPECTED to refute RetiredForGood here: the shortest history after which a request timestamped
\* after the expired_ts the key ring once knew verifies again (a stale copy volunteered by the notary has
\* replaced the expired entry in the database).  The records printed on the way are not used.
SPECIFICATION GSpec
CONSTANTS
  Mode = "cover"
  NK = 2
  MaxT = 3
  MaxRot = 1
  MaxReq = 3
  V = 2
  Orders <- BothOrders
  NModes <- NAny
  Sigs <- SGood
  ReqTS <- TS03
  Rules <- RBoth
  StoreRule = "asbuilt"
VIEW View
INVARIANTS TypeOK RetiredForGood
CHECK_DEADLOCK FALSE
