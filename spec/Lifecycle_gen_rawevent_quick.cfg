SPECIFICATION Spec
CONSTANTS
  Family = "rawevent"
  Versions <- VersionsThree
  TypesC <- TypesTwo
  Depth = "core"
  FieldSet = "core"
  Entries <- EntriesUntrusted
  MaxOps = 1
  Heavy <- NoOps
  HeavyAfter <- NoOps
  Muts <- NoOps
INVARIANTS TypeOK NoPanic WellOrdered Emit
CHECK_DEADLOCK FALSE
