SPECIFICATION Spec
CONSTANTS
  Versions <- VersionsAll
INVARIANTS MatchesMatrixBase Monotone EveryTraitProbed SixteenRows Emit
CHECK_DEADLOCK FALSE
