SPECIFICATION Spec
CONSTANTS
  VerSet <- VersFault
  Budget = 2
  Fault = "none"
  Strict = TRUE
INVARIANTS TypeOK Sanity ReturnedIsTheJoin SentIsTheJoin NoLeak StateChecked CheckBeforeReturn ErrorTaxonomy Complete WhySound HonestSucceeds BannedNeverJoins
CHECK_DEADLOCK FALSE
