SPECIFICATION Spec
CONSTANTS
  Family = "rawevent"
  Versions <- VersionsAll
  TypesC <- TypesShapeMore
  Depth = "xshape"
  FieldSet = "all"
  Entries <- EntriesUntrusted
  MaxOps = 1
  Heavy <- NoOps
  HeavyAfter <- NoOps
  Muts <- NoOps
INVARIANTS TypeOK NoPanic WellOrdered ShapeIsForeign Emit
CHECK_DEADLOCK FALSE
