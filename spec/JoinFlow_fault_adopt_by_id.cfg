SPECIFICATION Spec
CONSTANTS
  VerSet <- VersFault
  Budget = 2
  Fault = "adopt_by_id"
  Strict = FALSE
INVARIANTS TypeOK ReturnedIsTheJoin
CHECK_DEADLOCK FALSE
