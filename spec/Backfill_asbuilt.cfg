\* X04: the acceptance rule backfill.go / load.go implement - the first failing check classifies a PDU and a signature
\* failure is tolerated - checked against property P1 (ReturnedSafe).  TLC refutes it: an event that fails the
\* signature check is never put through the auth checks, so an event the auth rules reject is passed on once its
\* signature is destroyed.  checks/x04.py runs this and records the verdict; the real library agrees with this rule.
SPECIFICATION BSpec
CONSTANTS
  Start = 1
  Ver = "10"
  MaxFree = 0
  ForkFrom = 5
  TSChoices = {1}
  IdDesc = FALSE
  Dishonest = FALSE
  MaxBad = 0
  Addl = {}
  NServers = 1
  LimitSet <- Limits2
  FromModes <- FromTip
  SliceKinds <- SlicesFull
  WireKinds <- WiresBadsig
  Budget = 2
  MaxWorld = 1
  SigTolerance = "first"
  Fault = "none"
INVARIANTS TypeOK ReturnedSafe
CHECK_DEADLOCK FALSE
