--------------------------- MODULE Redaction_trace ---------------------------
(***************************************************************************)
(* Trace validation (code -> spec) for Redaction.tla.  Each line of the    *)
(* trace is one real redaction (IRoomVersion.RedactEventJSON or            *)
(* PDU.Redact()) of a seeded random event: the room version, the abstract  *)
(* description of the input (type, present top-level keys, present content *)
(* keys, shape of content.third_party_invite) and the key sets observed in *)
(* the output.  A line is accepted iff Redaction!Redact, with the          *)
(* algorithm MatrixBase assigns to the version, derives the observed sets. *)
(*                                                                         *)
(* With Redaction_trace_expect.cfg the same module prints, for every       *)
(* line, the key sets the specification derives (used to build the probe   *)
(* that re-executes a rejected line in a fresh process).                   *)
(***************************************************************************)
EXTENDS Redaction, Json, IOUtils, SequencesExt

Trace == ndJsonDeserialize(IOEnv.TRACE_FILE)

VARIABLES l,     \* next trace line
          bad    \* lines whose logged result the specification does not explain
vars == <<l, bad>>

Init == l = 1 /\ bad = <<>>

\* the abstract event a line describes (values play no role in which keys survive)
EventOfLine(r) ==
    [type |-> r.type,
     top  |-> [k \in ToSet(r.top) |-> "v"],
     con  |-> [k \in ToSet(r.con) |-> "v"],
     tpi  |-> IF NestedKey \in ToSet(r.con) /\ r.tpiobj
              THEN [obj |-> TRUE, keys |-> [k \in ToSet(r.tpi) |-> "v"]]
              ELSE NoTpi]

Expected(r) == RedactV(r.ver, EventOfLine(r))

Explains(r) ==
    LET a == RedactionAlgo(r.ver)
        e == EventOfLine(r)
        x == Redact(a, e)
        gotcon == ToSet(r.got.con)
    IN /\ r.ver \in AllVersions
       /\ ToSet(r.got.top) = DOMAIN x.top
       /\ gotcon = DOMAIN x.con
       /\ (NestedKey \in DOMAIN x.con => /\ r.got.tpiobj = x.tpi.obj
                                         /\ ToSet(r.got.tpi) = DOMAIN x.tpi.keys)

\* One step per logged call.  A line the specification does not explain is recorded (so the rest of the
\* trace is still checked in the same run) and makes the trace rejected.
Step ==
    /\ l <= Len(Trace)
    /\ bad' = IF Explains(Trace[l]) THEN bad ELSE Append(bad, l)
    /\ l' = l + 1

Next == Step
Spec == Init /\ [][Next]_vars

Report == (l = Len(Trace) + 1 /\ bad # <<>>) => PrintT("TRACE_REJECTED " \o ToJson(bad))
TraceAccepted == TLCGet("stats").diameter - 1 = Len(Trace)

\* expectation emission (Redaction_trace_expect.cfg)
EmitExpected ==
    l <= Len(Trace) =>
        LET r == Trace[l]  a == RedactionAlgo(r.ver)  e == EventOfLine(r)  x == Redact(a, e) IN
        PrintT(ToJson([line |-> l, algo |-> a, ktop |-> DOMAIN x.top, kcon |-> DOMAIN x.con,
                       ktpi |-> DOMAIN x.tpi.keys]))
=============================================================================
