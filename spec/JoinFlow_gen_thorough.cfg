SPECIFICATION Spec
CONSTANTS
  VerSet <- VersAll
  Budget = 3
  Fault = "none"
  Strict = FALSE
INVARIANTS TypeOK Sanity ReturnedIsTheJoin SentIsTheJoin NoLeak StateChecked CheckBeforeReturn ErrorTaxonomy Complete WhySound HonestSucceeds BannedNeverJoins Emit
CHECK_DEADLOCK FALSE
