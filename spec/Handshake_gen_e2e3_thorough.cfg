SPECIFICATION GSpec
CONSTANTS
  Family = "e2e"
  Width = "thorough"
  MaxForge = 3
  ScenarioSet = "e2e_three"
INVARIANTS TypeOK CaseVariantIsAnotherServer MakeJoinExact MakeLeaveExact TemplateShape SendJoinExact InviteExact InviteV3Exact ReturnsCountersigned PerformJoinExact NoJoinWithoutBothHandlers BannedNeverJoins RetrySucceedsWhereAFreshJoinWould UnforgedPublicJoinSucceeds UnforgedRestrictedJoinSucceeds TamperedNeverAccepted TemplateAuthoriser OtherIdentitiesIrrelevant Emit
CHECK_DEADLOCK FALSE
