----------------------------- MODULE Auth_trace -----------------------------
(***************************************************************************)
(* Trace validation (code -> spec) for Auth.tla.  Each line of the trace   *)
(* is one real call of Allowed(): the abstract scenario the Go driver      *)
(* composed (random, full vocabulary) and the verdict the library gave.    *)
(* The line is accepted iff Auth!Allowed re-derives that verdict, and, for *)
(* accepted power-level events, NoEsc holds.                               *)
(* A line may carry `pre`: before the call the caller read a power-levels  *)
(* content through a public accessor and edited the value it got           *)
(* (Auth_gen.tla, action CallerEdit).  That value is the caller's copy: no *)
(* operator below reads `pre` - the verdict is the scenario's, whatever    *)
(* the caller did to its copy.                                             *)
(***************************************************************************)
EXTENDS Auth, Json, IOUtils, SequencesExt

Trace == ndJsonDeserialize(IOEnv.TRACE_FILE)

VARIABLES l,     \* next trace line
          bad    \* lines whose logged result the specification does not explain
vars == <<l, bad>>

NormSt(s) == [s EXCEPT !.create.addl = ToSet(@)]

Init == l = 1 /\ bad = <<>>

\* what the specification says about one logged call
Explains(r) ==
    LET s == NormSt(r.st) IN
    IF IOEnv.TRACE_MODE = "noesc"
    THEN (r.ev.type = "pl" /\ r.got => NoEsc(r.ver, s, r.ev))       \* C08
    ELSE Allowed(r.ver, s, r.ev) = r.got                            \* C07

\* One step per logged call.  A line the specification does not explain is recorded (so the rest of the
\* trace is still checked in the same run) and makes the trace rejected.
Step ==
    /\ l <= Len(Trace)
    /\ bad' = IF Explains(Trace[l]) THEN bad ELSE Append(bad, l)
    /\ l' = l + 1

Next == Step
Spec == Init /\ [][Next]_vars

Report == (l = Len(Trace) + 1 /\ bad # <<>>) => PrintT("TRACE_REJECTED " \o ToJson(bad))
TraceAccepted == TLCGet("stats").diameter - 1 = Len(Trace)
NoRejection == l = Len(Trace) + 1 => bad = <<>>
=============================================================================
