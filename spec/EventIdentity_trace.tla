------------------------- MODULE EventIdentity_trace -------------------------
(***************************************************************************)
(* Trace validation (code -> spec) for C03 / C04.  Each line is one real   *)
(* call on a really built (and possibly tampered-with) event:              *)
(*   ver, op, before / after: the event in the vocabulary of Redaction.tla *)
(*   (every value replaced by a token injective in the value; `content`    *)
(*   and an object-valued content.third_party_invite are represented by    *)
(*   their keys), bred / ared: Redacted() before / after, idsame: whether  *)
(*   EventID() is unchanged, hashmatch (RU): whether hashes.sha256 equals  *)
(*   the SHA-256 of the hashed fields of the event as received (computed   *)
(*   by the recorder, not by the library).                                 *)
(* Operations:                                                             *)
(*   RU  NewEventFromUntrustedJSON (before may have been tampered with)    *)
(*   RT  NewEventFromTrustedJSON    RH  ToHeaderedJSON + ...HeaderedJSON   *)
(*   SU  SetUnsigned   SF  SetUnsignedField   AS  Sign   RD  Redact        *)
(*   PAIR  after is a second event built from a slightly different         *)
(*         proto-event: only the identity is compared                      *)
(* A line is accepted iff the event after, the flag and the identity are   *)
(* what the specification derives.                                         *)
(***************************************************************************)
EXTENDS Redaction, Json, IOUtils, SequencesExt

Trace == ndJsonDeserialize(IOEnv.TRACE_FILE)

VARIABLES l, bad
vars == <<l, bad>>

Init == l = 1 /\ bad = <<>>

FnOf(x) == IF x = <<>> THEN EmptyFn ELSE x      \* the recorder writes {} for an empty object: Json reads it as <<>>
EventOf(a) ==
    [type |-> a.type, top |-> FnOf(a.top), con |-> FnOf(a.con),
     tpi |-> IF NestedKey \in DOMAIN FnOf(a.con) /\ a.tpiobj THEN [obj |-> TRUE, keys |-> FnOf(a.tpi)] ELSE NoTpi]

Stripped(v) == {"outlier", "destinations", "age_ts", "unsigned"}
               \cup (IF EventFormat(v) = 2 THEN {"event_id"} ELSE {})

\* identity: room versions 1-2 the event_id field, later the redacted event without signatures / unsigned
SameIdentity(v, x, y) ==
    IF EventIDFormat(v) = 1
    THEN /\ "event_id" \in DOMAIN x.top /\ "event_id" \in DOMAIN y.top
         /\ x.top["event_id"] = y.top["event_id"]
    ELSE IdentityProj(RedactionAlgo(v), x) = IdentityProj(RedactionAlgo(v), y)

ExpectedAfter(r) ==
    LET a == RedactionAlgo(r.ver)
        b == EventOf(r.before)
    IN CASE r.op = "RU" -> LET rc == DropTop(b, Stripped(r.ver)) IN IF r.hashmatch THEN rc ELSE Redact(a, rc)
         [] r.op = "RD" -> Redact(a, b)
         [] OTHER -> b

\* keys an operation sets to a value the specification does not name
SetKeys(r) == CASE r.op \in {"SU", "SF"} -> {"unsigned"} [] r.op = "AS" -> {"signatures"} [] OTHER -> {}
\* Redact() on an event that is already flagged redacted: neither C03 nor C04 says whether an `unsigned` added
\* since (servers add unsigned.redacted_because to redacted events) goes or stays
FreeKeys(r) == SetKeys(r) \cup (IF r.op = "RD" /\ r.bred THEN {"unsigned"} ELSE {})

AfterOK(r) ==
    r.op = "PAIR" \/
    /\ DropTop(EventOf(r.after), FreeKeys(r)) = DropTop(ExpectedAfter(r), FreeKeys(r))
    /\ SetKeys(r) \subseteq DOMAIN EventOf(r.after).top
FlagOK(r) ==
    CASE r.op = "RU" -> r.ared = ~r.hashmatch
      [] r.op = "RD" -> r.ared = TRUE
      [] r.op = "PAIR" -> TRUE
      [] OTHER -> r.ared = r.bred
IdOK(r) == r.idsame = SameIdentity(r.ver, EventOf(r.before), EventOf(r.after))

Why(r) == IF r.ver \notin AllVersions THEN "version"
          ELSE IF ~WellFormed(EventOf(r.before)) THEN "recorder"
          ELSE IF ~AfterOK(r) THEN "event"
          ELSE IF ~FlagOK(r) THEN "redacted-flag"
          ELSE IF ~IdOK(r) THEN "identity"
          ELSE "ok"
Explains(r) == Why(r) = "ok"

Step ==
    /\ l <= Len(Trace)
    /\ bad' = IF Explains(Trace[l]) THEN bad ELSE Append(bad, l)
    /\ l' = l + 1

Next == Step
Spec == Init /\ [][Next]_vars

Report == (l = Len(Trace) + 1 /\ bad # <<>>) => PrintT("TRACE_REJECTED " \o ToJson(bad))
TraceAccepted == TLCGet("stats").diameter - 1 = Len(Trace)

\* EventIdentity_trace_why.cfg: why a line is rejected (used to key the report)
EmitWhy ==
    (l <= Len(Trace) /\ ~Explains(Trace[l])) => PrintT(ToJson([line |-> l, why |-> Why(Trace[l])]))
=============================================================================
