------------------------------ MODULE Backfill ------------------------------
(***************************************************************************)
(* X04 (growth) - RequestBackfill (backfill.go) together with              *)
(* EventsLoader.LoadAndVerify as it is used there, as a small              *)
(* fault-tolerant protocol between a requesting server and several remote  *)
(* servers.                                                                *)
(*                                                                         *)
(* The world is a room history built by honest servers (Room.tla: a DAG of *)
(* events with real auth relations; the auth rules and state resolution    *)
(* are those of Auth.tla / StateRes.tla, written from the Matrix           *)
(* specification) as the REQUESTING server knows it through its event      *)
(* provider (P: per event ID returns it / returns nothing / errors) and    *)
(* its state provider (SP: per event the state before it - exact, lagging  *)
(* one event behind, nothing, or an error), with world faults F (an event  *)
(* the auth rules do not let its sender send; an event carrying another    *)
(* room's ID).                                                             *)
(*                                                                         *)
(* ONE call of RequestBackfill(room, fromEventIDs, limit) is               *)
(*                                                                         *)
(*   World     (scenario) the faults of the world are fixed                *)
(*   Call      the caller asks for `limit` events before `from`            *)
(*   Lookup    the candidate servers are obtained (ServersAtEvent), in     *)
(*             order of preference                                         *)
(*   Ask       the next server is sent GET /backfill (room, limit, from)   *)
(*   Answer    ENVIRONMENT: the server answers - a transport error, an     *)
(*             empty transaction, the correct slice of history, a shorter  *)
(*             one, an older window (overlapping or continuing what an     *)
(*             earlier server returned), more events than the limit, a     *)
(*             slice with a hole; one PDU of the slice may be carried with *)
(*             a destroyed signature, as unparsable bytes, twice, twice    *)
(*             with one copy's signature destroyed, or be replaced by a    *)
(*             perfectly valid event of ANOTHER room                       *)
(*   Verify    the transaction's PDUs are put through the checks on        *)
(*             receipt of a PDU, earliest event first                      *)
(*   Merge     what passed and is not there yet is added to the collection *)
(*   CancelEarly / CancelInFlight                                          *)
(*             ENVIRONMENT: the caller's context is cancelled before the   *)
(*             call / while a request is in flight (that request fails)    *)
(*   Abort     a cancelled context is honoured when the next server would  *)
(*             be contacted: error, no events                              *)
(*   Finish    enough collected or nobody left to ask: the collection in   *)
(*             topological order, and the error report                     *)
(*                                                                         *)
(* The properties (P1 .. P7 below) are invariants over the history         *)
(* variables (sc, log, out); they do not mention how the requester goes    *)
(* about it.  Sources: the doc comments of RequestBackfill and             *)
(* BackfillRequester, the server-server API (GET /backfill, "Checks        *)
(* performed on receipt of a PDU").                                        *)
(*                                                                         *)
(* Documented tolerance: RequestBackfill passes on events whose ONLY       *)
(* failure is the signature check ("The signature of the event might not   *)
(* be valid anymore, for example if the key ID was reused with a different *)
(* signature").  SigTolerance = "only" is that sentence: the signature     *)
(* verdict is ignored, every other check still decides.  SigTolerance =    *)
(* "first" is the rule "the first failing check classifies the event and a *)
(* signature failure is tolerated" - under it an event that fails the      *)
(* signature check is never put through the auth checks; TLC refutes       *)
(* ReturnedSafe for it (Backfill_asbuilt.cfg).                             *)
(*                                                                         *)
(* Fault plants a defect into the model requester; every fault must        *)
(* violate the invariant checks/x04.py names for it.                       *)
(***************************************************************************)
EXTENDS FedVerify

CONSTANTS NServers,      \* longest server list explored
          LimitSet,      \* values of `limit`
          FromModes,     \* which fromEventIDs are explored: "none" (empty), "tip" (the newest event), "fork" (two branch tips)
          SliceKinds,    \* answers explored: "error" "empty" "full" "short" "older" "over" "gap"
          WireKinds,     \* per-PDU carriage faults explored: "badsig" "malformed" "dup" "sigcopy" "foreign"
          Budget,        \* deviations from the base scenario per behaviour (every server answers the correct slice, no faults)
          MaxWorld,      \* of which at most this many are deviations of the world (F, P, SP)
          SigTolerance,  \* "only" | "first" (see above)
          Fault          \* "none" or a planted defect of the model requester

VARIABLES ph,         \* "room" "world" "called" "idle" "asked" "answered" "verified" "done"
          sc,         \* the scenario: from, limit, servers, F, P, SP, sb (the state the state provider reports per event)
          cls,        \* per event of the room: the first check it fails at the requester, the signature apart ("ok" "chain" "rules")
          log,        \* history: one entry per server asked - the request, the answer, the verdicts, the state-provider calls
          got,        \* the collection: keys of accepted events in order of acceptance
          lastErr,    \* "none" | "transport": the error of the last server that failed
          cancelled,  \* the caller's context is cancelled
          dev,        \* deviations used so far
          sae,        \* number of server lookups (ServersAtEvent)
          out         \* the caller's outcome

bvars == <<ph, sc, cls, log, got, lastErr, cancelled, dev, sae, out>>
allvars == <<vars, bvars>>

Ids == DOMAIN E
Elems(s) == {s[i] : i \in DOMAIN s}
Min2(a, b) == IF a < b THEN a ELSE b
SName(i) == <<"s1", "s2", "s3", "s4">>[i]

(***************************************************************************)
(* The world as the requester knows it                                     *)
(***************************************************************************)
SPKinds == {"exact", "lagging", "nothing", "ids_error", "state_error"}

StBefore(e) == IF E[e].prev = {} THEN {} ELSE StateAt(E[e].prev)
LagState(e) == IF E[e].prev = {} THEN {} ELSE StBefore(MaxOf(E[e].prev))
SPState(SP, e) == CASE SP[e] = "lagging" -> LagState(e) [] SP[e] = "nothing" -> {} [] OTHER -> StBefore(e)
SPMode(SP, e) == IF SP[e] \in {"ids_error", "state_error"} THEN SP[e] ELSE "ok"

\* the first check an event fails when it is put through checks 4 and 5 on receipt of a PDU (allowed by its auth
\* events, recursively, as the event provider has them; allowed by the state before it as the state provider reports it)
BaseClasses(F, P, sb, SP) ==
    LET EM == Mutated(F)
        loc == LocalOK(EM, F, P)
    IN [e \in Ids |-> IF ~AuthChainOKWith(EM, P, loc, e) THEN "chain"
                      ELSE IF ~AuthAtState(EM, F, e, sb[e], TRUE, SPMode(SP, e)) THEN "rules"
                      ELSE "ok"]

\* one deviation of the world
WDev(d, e, k) == [d |-> d, e |-> e, k |-> k]
WorldSingles ==
    {WDev("F", e, "disallowed") : e \in {x \in Ids : CanDisallow(x)}}
      \cup {WDev("F", e, "wrongroom") : e \in {x \in Ids : ~(DomainlessRoomIDs(Ver) /\ E[x].type = "create")}}
      \cup {WDev("P", e, k) : e \in Ids, k \in {"nothing", "errors"}}
      \cup {WDev("S", e, k) : e \in Ids, k \in SPKinds \ {"exact"}}
WorldChoices ==
    LET m == Min2(MaxWorld, Budget) IN
    {{}} \cup (IF m >= 1 THEN {{x} : x \in WorldSingles} ELSE {})
         \cup (IF m >= 2 THEN UNION {{{x, y} : y \in {z \in WorldSingles : z.d # x.d \/ z.e # x.e}} : x \in WorldSingles} ELSE {})

FOf(wd) == [e \in Ids |-> IF \E x \in wd : x.d = "F" /\ x.e = e THEN (CHOOSE x \in wd : x.d = "F" /\ x.e = e).k ELSE NoFault]
POf(wd) == [e \in Ids |-> IF \E x \in wd : x.d = "P" /\ x.e = e THEN (CHOOSE x \in wd : x.d = "P" /\ x.e = e).k ELSE "returns"]
SOf(wd) == [e \in Ids |-> IF \E x \in wd : x.d = "S" /\ x.e = e THEN (CHOOSE x \in wd : x.d = "S" /\ x.e = e).k ELSE "exact"]

(***************************************************************************)
(* The history a correct server answers from: the events named by `from`   *)
(* and everything before them, newest first (event numbers respect the     *)
(* DAG: the predecessors of an event have smaller numbers)                 *)
(***************************************************************************)
AncOf(X) == X \cup UNION {Ancestors(E, x) : x \in X}
HistSeq(from) == SetToSortSeq(AncOf(Elems(from)), LAMBDA a, b : a > b)
Win(H, a, m) == IF a > Len(H) \/ m <= 0 THEN <<>> ELSE SubSeq(H, a, Min2(a + m - 1, Len(H)))

\* the two newest branch tips (the lexicographically largest pair of incomparable events)
ForkFroms ==
    LET pairs == {p \in Ids \X Ids : p[1] > p[2] /\ Incomparable(E, p[1], p[2])} IN
    IF pairs = {} THEN {}
    ELSE LET b == MaxOf({p[1] : p \in pairs})
             a == MaxOf({p[2] : p \in {q \in pairs : q[1] = b}})
         IN {<<b, a>>}
FromChoices == (IF "none" \in FromModes THEN {<<>>} ELSE {})
                 \cup (IF "tip" \in FromModes THEN {<<N>>} ELSE {})
                 \cup (IF "fork" \in FromModes THEN ForkFroms ELSE {})

\* is a deviation of the world of any consequence for what can be returned for (from, limit)?
Relevant(wd, from, limit) ==
    LET H == HistSeq(from)
        W == {H[i] : i \in 1..Min2(Len(H), limit + 2)}       \* the events an answer explored here can carry
        C == ChainOf(E, W)
    IN \A x \in wd : CASE x.d = "F" -> x.e \in W \/ (x.k = "disallowed" /\ x.e \in C)
                       [] x.d = "P" -> x.e \in C
                       [] OTHER -> x.e \in W

(***************************************************************************)
(* What a server can answer.  A PDU on the wire is [id, w]: event `id` of  *)
(* the room carried as w - "none" as it is, "badsig" with a destroyed      *)
(* signature (same event ID), "malformed" as bytes that are no event,      *)
(* "foreign": the event that stands at the same place in ANOTHER room the  *)
(* requester also knows (valid there in every respect).                    *)
(* The key of a PDU is its event ID: id, or 100 + id for the foreign twin. *)
(***************************************************************************)
En(i, w) == [id |-> i, w |-> w]
KeyOfEn(en) == IF en.w = "foreign" THEN 100 + en.id ELSE en.id
InRoom(k) == k < 100
IdOfKey(k) == k % 100
Parsable(en) == en.w # "malformed"

Plain(s) == [j \in DOMAIN s |-> En(s[j], "none")]
WithWire(s, j, fk) ==
    LET p == Plain(s) IN
    CASE fk = "dup"     -> SubSeq(p, 1, j) \o <<p[j]>> \o SubSeq(p, j + 1, Len(p))                 \* the same PDU listed twice
      [] fk = "sigcopy" -> SubSeq(p, 1, j) \o <<En(s[j], "badsig")>> \o SubSeq(p, j + 1, Len(p))   \* twice, one copy forged
      [] OTHER          -> [p EXCEPT ![j].w = fk]

SliceSet(H, L, have) ==
    {[kind |-> "full", ids |-> Win(H, 1, L)]}
      \cup {[kind |-> "short", ids |-> Win(H, 1, m)] : m \in {x \in {1, L - 1} : x >= 1 /\ x < Min2(L, Len(H))}}
      \cup {[kind |-> "older", ids |-> Win(H, 1 + s, L)] : s \in {x \in {1, 2, have} : x >= 1 /\ x < Len(H)}}
      \cup {[kind |-> "over", ids |-> Win(H, 1, L + x)] : x \in {y \in {1, 2} : L + y <= Len(H)}}
      \cup (IF Min2(L + 1, Len(H)) >= 3 THEN {[kind |-> "gap", ids |-> <<H[1]>> \o SubSeq(H, 3, Min2(L + 1, Len(H)))]} ELSE {})

Beh(kind, fk, fj, pdus, cost) == [kind |-> kind, fk |-> fk, fj |-> fj, pdus |-> pdus, cost |-> cost]
\* (wires: the carriage faults explored; a foreign PDU is explored in worlds without deviations only - the twin room
\* is then a room in which everything is in order, and the only thing wrong with the PDU is the room it is of)
Behaviours(H, L, have, wires) ==
    LET SS == {s \in SliceSet(H, L, have) : s.kind \in SliceKinds /\ s.ids # <<>>}
        c0(s) == IF s.kind = "full" THEN 0 ELSE 1
    IN (IF "error" \in SliceKinds THEN {Beh("error", "none", 0, <<>>, 1)} ELSE {})
         \cup (IF "empty" \in SliceKinds THEN {Beh("empty", "none", 0, <<>>, 1)} ELSE {})
         \cup {Beh(s.kind, "none", 0, Plain(s.ids), c0(s)) : s \in SS}
         \cup UNION {{Beh(s.kind, fk, j, WithWire(s.ids, j, fk), 1 + c0(s)) : j \in DOMAIN s.ids, fk \in wires} : s \in SS}

(***************************************************************************)
(* The checks on receipt of a PDU, per PDU of a transaction                *)
(***************************************************************************)
\* the first failing check with the signature verdict left aside
Underlying(en) == CASE en.w = "malformed" -> "invalid"
                    [] en.w = "foreign"   -> "ok"          \* valid in its own room; providers know that room
                    [] OTHER              -> cls[en.id]
\* the first failing check (what LoadAndVerify reports for the input: one result per input)
WireClass(en) == IF en.w = "badsig" THEN "sig" ELSE Underlying(en)

\* is the event with this key an event of the room that is backfilled?  (not: the twin room's events; an event of
\* the history that carries another room's ID - the create event of another room, say, is valid all by itself)
OfRoom(k) == InRoom(k) /\ sc.F[k] # "wrongroom"

\* does the requester pass the PDU on?
Acceptable(en) ==
    /\ Parsable(en)
    /\ OfRoom(KeyOfEn(en)) \/ Fault = "no_room_check"
    /\ IF Fault = "keep_auth_failures" THEN TRUE
       ELSE IF Fault = "drop_sig_failures" THEN WireClass(en) = "ok"
       ELSE IF SigTolerance = "first" THEN WireClass(en) \in {"ok", "sig"}
       ELSE Underlying(en) = "ok"

\* the order in which a transaction is verified: earliest event first (indices into pdus)
VOrder(pdus) ==
    IF Fault = "sp_unsorted" THEN [j \in DOMAIN pdus |-> j]
    ELSE SortSeq([j \in DOMAIN pdus |-> j],
                 LAMBDA a, b : pdus[a].id < pdus[b].id \/ (pdus[a].id = pdus[b].id /\ a < b))

\* PDUs whose judgement needs the state before them (they got as far as check 5)
NeedsState(en) == /\ Parsable(en)
                  /\ Underlying(en) \in {"ok", "rules"}
                  /\ en.w # "badsig" \/ SigTolerance = "only"

RECURSIVE MergeIn(_, _)
MergeIn(acc, ks) ==
    IF ks = <<>> THEN acc
    ELSE MergeIn(IF Head(ks) \in Elems(acc) /\ Fault # "no_dedup" THEN acc ELSE Append(acc, Head(ks)), Tail(ks))

SelectIdx(order, pdus, Test(_)) == SelectSeq(order, LAMBDA j : Test(pdus[j]))

(***************************************************************************)
(* Actions                                                                 *)
(***************************************************************************)
NoOut == [events |-> <<>>, err |-> "", errloose |-> FALSE]
NoScen == [from |-> <<>>, limit |-> 0, servers |-> <<>>, F |-> <<>>, P |-> <<>>, SP |-> <<>>, sb |-> <<>>]

BInit == /\ Init
         /\ ph = "room" /\ sc = NoScen /\ cls = <<>> /\ log = <<>> /\ got = <<>> /\ lastErr = "none"
         /\ cancelled = FALSE /\ dev = 0 /\ sae = 0 /\ out = NoOut

Grow == ph = "room" /\ Next /\ UNCHANGED bvars

\* (scenario) the deviations of the world; what every event is worth at the requester is evaluated once
World ==
    /\ ph = "room" /\ N >= Base
    /\ \E wd \in WorldChoices :
         LET F == FOf(wd)  P == POf(wd)  SP == SOf(wd)
             sb == [e \in Ids |-> SPState(SP, e)] IN
         /\ sc' = [NoScen EXCEPT !.F = F, !.P = P, !.SP = SP, !.sb = sb]
         /\ cls' = BaseClasses(F, P, sb, SP)
         /\ dev' = Cardinality(wd)
    /\ ph' = "world"
    /\ UNCHANGED <<vars, log, got, lastErr, cancelled, sae, out>>

WorldDevs == {WDev("F", e, sc.F[e]) : e \in {x \in Ids : sc.F[x] # NoFault}}
               \cup {WDev("P", e, sc.P[e]) : e \in {x \in Ids : sc.P[x] # "returns"}}
               \cup {WDev("S", e, sc.SP[e]) : e \in {x \in Ids : sc.SP[x] # "exact"}}

\* the caller: RequestBackfill(room, from, limit) with a requester whose ServersAtEvent yields ns servers
Call ==
    /\ ph = "world"
    /\ \E from \in FromChoices, limit \in LimitSet, ns \in 0..NServers :
         /\ IF from # <<>> /\ ns > 0 /\ limit > 0 THEN Relevant(WorldDevs, from, limit) ELSE dev = 0
         /\ sc' = [sc EXCEPT !.from = from, !.limit = limit, !.servers = [i \in 1..ns |-> SName(i)]]
    /\ ph' = "called"
    /\ UNCHANGED <<vars, cls, log, got, lastErr, cancelled, dev, sae, out>>

\* ENVIRONMENT: the context is already cancelled when the call is made
CancelEarly ==
    /\ ph = "called" /\ ~cancelled /\ dev + 1 <= Budget
    /\ dev = 0                 \* (nothing will be verified: the deviations of the world are of no consequence)
    /\ cancelled' = TRUE /\ dev' = dev + 1
    /\ UNCHANGED <<vars, ph, sc, cls, log, got, lastErr, sae, out>>

\* nothing to backfill from: nobody is asked, not even for candidate servers
NothingToDo ==
    /\ ph = "called" /\ sc.from = <<>>
    /\ out' = [events |-> <<>>, err |-> "none", errloose |-> FALSE]
    /\ ph' = "done"
    /\ UNCHANGED <<vars, sc, cls, log, got, lastErr, cancelled, dev, sae>>

Lookup ==
    /\ ph = "called" /\ sc.from # <<>>
    /\ sae' = sae + 1
    /\ ph' = "idle"
    /\ UNCHANGED <<vars, sc, cls, log, got, lastErr, cancelled, dev, out>>

AskDue == /\ Len(log) < Len(sc.servers)
          /\ Len(got) < sc.limit \/ Fault = "ask_all"
          /\ ~(Fault = "stop_on_error" /\ lastErr # "none")

Pending == [server |-> "", limit |-> 0, from |-> <<>>, aftercancel |-> FALSE, kind |-> "pending", fk |-> "none", fj |-> 0,
            pdus |-> <<>>, classes |-> <<>>, under |-> <<>>, spcalls |-> <<>>, failed |-> FALSE]

Ask ==
    /\ ph = "idle" /\ AskDue
    /\ ~cancelled \/ Fault = "cancel_ignored"
    /\ log' = Append(log, [Pending EXCEPT !.server = sc.servers[Len(log) + 1], !.limit = sc.limit, !.from = sc.from,
                                          !.aftercancel = cancelled])
    /\ ph' = "asked"
    /\ UNCHANGED <<vars, sc, cls, got, lastErr, cancelled, dev, sae, out>>

\* a cancelled context is honoured at the next point a server would be contacted
Abort ==
    /\ ph = "idle" /\ AskDue /\ cancelled /\ Fault # "cancel_ignored"
    /\ out' = [events |-> <<>>, err |-> "cancelled", errloose |-> FALSE]
    /\ ph' = "done"
    /\ UNCHANGED <<vars, sc, cls, log, got, lastErr, cancelled, dev, sae>>

K == Len(log)
dev0world == WorldDevs = {}

\* ENVIRONMENT: the server's answer
Answer ==
    /\ ph = "asked"
    /\ \E b \in Behaviours(HistSeq(sc.from), sc.limit, Len(got), IF dev0world THEN WireKinds ELSE WireKinds \ {"foreign"}) :
         /\ dev + b.cost <= Budget
         /\ dev' = dev + b.cost
         /\ log' = [log EXCEPT ![K].kind = b.kind, ![K].fk = b.fk, ![K].fj = b.fj, ![K].pdus = b.pdus,
                               ![K].failed = (b.kind = "error")]
         /\ IF b.kind = "error" THEN lastErr' = "transport" /\ ph' = "idle"
                                ELSE UNCHANGED lastErr /\ ph' = "answered"
    /\ UNCHANGED <<vars, sc, cls, got, cancelled, sae, out>>

\* ENVIRONMENT: the context is cancelled while the request is in flight; the request fails
CancelInFlight ==
    /\ ph = "asked" /\ ~cancelled /\ dev + 1 <= Budget
    /\ dev0world \/ \E j \in 1..(K - 1) : log[j].kind \notin {"error", "cancel"}     \* (as above)
    /\ cancelled' = TRUE /\ dev' = dev + 1
    /\ log' = [log EXCEPT ![K].kind = "cancel", ![K].failed = TRUE]
    /\ lastErr' = "transport"
    /\ ph' = "idle"
    /\ UNCHANGED <<vars, sc, cls, got, sae, out>>

Verify ==
    /\ ph = "answered"
    /\ LET pdus == log[K].pdus
           need == SelectIdx(VOrder(pdus), pdus, NeedsState)
       IN log' = [log EXCEPT ![K].classes = [j \in DOMAIN pdus |-> WireClass(pdus[j])],
                             ![K].under = [j \in DOMAIN pdus |-> Underlying(pdus[j])],
                             ![K].spcalls = [i \in DOMAIN need |-> KeyOfEn(pdus[need[i]])]]
    /\ ph' = "verified"
    /\ UNCHANGED <<vars, sc, cls, got, lastErr, cancelled, dev, sae, out>>

Merge ==
    /\ ph = "verified"
    /\ LET pdus == log[K].pdus
           acc == SelectIdx(VOrder(pdus), pdus, Acceptable)
       IN got' = MergeIn(got, [i \in DOMAIN acc |-> KeyOfEn(pdus[acc[i]])])
    /\ ph' = "idle"
    /\ UNCHANGED <<vars, sc, cls, log, lastErr, cancelled, dev, sae, out>>

SomeFailed == \E j \in DOMAIN log : log[j].failed
SomeAnswered == \E j \in DOMAIN log : ~log[j].failed

Finish ==
    /\ ph = "idle" /\ ~AskDue
    /\ out' = [events |-> IF Fault = "no_final_sort" THEN got
                          ELSE SortSeq(got, LAMBDA a, b : IdOfKey(a) < IdOfKey(b) \/ (IdOfKey(a) = IdOfKey(b) /\ a < b)),
               err |-> IF Fault = "swallow_error" THEN "none" ELSE lastErr,
               \* where the documentation leaves the error report open (see ErrorReport)
               errloose |-> (SomeFailed /\ SomeAnswered) \/ sc.servers = <<>>]
    /\ ph' = "done"
    /\ UNCHANGED <<vars, sc, cls, log, got, lastErr, cancelled, dev, sae>>

BNext == Grow \/ World \/ Call \/ CancelEarly \/ NothingToDo \/ Lookup \/ Ask \/ Abort \/ Answer \/ CancelInFlight
           \/ Verify \/ Merge \/ Finish
BSpec == BInit /\ [][BNext]_allvars

Done == ph = "done"
Started == ph \notin {"room", "world"}

(***************************************************************************)
(* Properties.  Stated over the scenario (sc, cls), the history (log) and  *)
(* the outcome (out) only.                                                 *)
(***************************************************************************)
Processed(j) == log[j].kind \notin {"pending", "error", "cancel"}
Offered(j) == IF Processed(j) THEN {KeyOfEn(log[j].pdus[i]) : i \in {x \in DOMAIN log[j].pdus : Parsable(log[j].pdus[x])}} ELSE {}
\* an event the requester is to pass on: of the room, and passing every check on receipt of a PDU - the signature
\* check apart (the documented tolerance)
Good(k) == OfRoom(k) /\ cls[k] = "ok"
GoodOffered(j) == {k \in Offered(j) : Good(k)}
CollectedBefore(j) == Cardinality(UNION {GoodOffered(i) : i \in 1..(j - 1)})
Returned == Elems(out.events)

\* ---- P1  every returned event was returned by some asked server, belongs to the room, and passes the auth checks
\*          (allowed by its auth events, recursively; allowed by the state before it); it carries no fault of the world
ReturnedSafe ==
    Done => \A k \in Returned :
               /\ \E j \in DOMAIN log : k \in Offered(j)
               /\ OfRoom(k)
               /\ cls[k] = "ok"
               /\ ~BadEvent(sc.F, k)

\* ---- P1' nothing good is lost: "We don't drop events greater than the limit because we've already done all the work
\*          to verify them"; an event whose only failure is the signature check IS returned (documented tolerance)
NothingLost ==
    Done /\ out.err # "cancelled" => \A j \in DOMAIN log : GoodOffered(j) \subseteq Returned

\* ---- P2  no event is returned twice
NoDuplicates == Done => \A i, j \in DOMAIN out.events : i # j => out.events[i] # out.events[j]

\* ---- P3  servers are asked in the given order, each with the caller's limit and from IDs; the next one only if
\*          fewer than `limit` events have been collected so far; a failing server does not end the round
AskDiscipline ==
    /\ Len(log) <= Len(sc.servers)
    /\ \A j \in DOMAIN log : /\ log[j].server = sc.servers[j]
                             /\ log[j].limit = sc.limit /\ log[j].from = sc.from
                             /\ CollectedBefore(j) < sc.limit
    /\ Done /\ out.err # "cancelled" /\ sc.from # <<>> =>
          Len(log) = Len(sc.servers) \/ CollectedBefore(Len(log) + 1) >= sc.limit

\* ---- P4  the result is in topological order by prev_events: every event after all of its ancestors in the result
TopoOrdered ==
    Done => \A i, j \in DOMAIN out.events :
               i < j /\ InRoom(out.events[i]) /\ InRoom(out.events[j]) => out.events[j] \notin Ancestors(E, out.events[i])

\* ---- P5  nothing to do, nobody to ask, cancelled
Quiescence ==
    /\ Started /\ sc.from = <<>> => log = <<>> /\ sae = 0 /\ (Done => out.events = <<>> /\ out.err = "none")
    /\ Started /\ sc.servers = <<>> => log = <<>> /\ (Done => out.events = <<>>)
    /\ Started /\ sc.limit = 0 => log = <<>>
    /\ \A j \in DOMAIN log : ~log[j].aftercancel                                  \* nobody is contacted after cancellation
    /\ Done /\ out.err = "cancelled" => cancelled /\ out.events = <<>>
    /\ (Done /\ cancelled /\ sc.from # <<>> /\ Len(log) < Len(sc.servers) /\ CollectedBefore(Len(log) + 1) < sc.limit)
          => out.err = "cancelled"

\* ---- P6  the error report.  The documentation leaves it open ("TODO: When does it make sense to return errors?").
\*          Demanded: no error is invented (nobody failed: none); a round in which every server asked failed does not
\*          look like a success.  Left open (errloose): some servers failed and some answered - the model reports the
\*          last failure alongside the partial result; an empty server list ("An empty list will fail the request").
ErrorReport ==
    Done /\ out.err # "cancelled" =>
       /\ (~SomeFailed /\ sc.servers # <<>>) => out.err = "none" /\ ~out.errloose
       /\ (SomeFailed /\ ~SomeAnswered) => out.err # "none" /\ ~out.errloose
       /\ (SomeFailed /\ SomeAnswered) => out.errloose

\* ---- P7  "The BackfillRequester will always call functions on the StateProvider in topological order, starting with
\*          the earliest event and rolling forwards" - per transaction verified
StateCallsInOrder ==
    \A j \in DOMAIN log : \A a, b \in DOMAIN log[j].spcalls :
        (a < b /\ InRoom(log[j].spcalls[a]) = InRoom(log[j].spcalls[b]))
           => IdOfKey(log[j].spcalls[b]) \notin Ancestors(E, IdOfKey(log[j].spcalls[a]))

(***************************************************************************)
(* Oracle sanity                                                           *)
(***************************************************************************)
TypeOK ==
    /\ ph \in {"room", "world", "called", "idle", "asked", "answered", "verified", "done"}
    /\ dev \in 0..Budget /\ sae \in 0..1
    /\ lastErr \in {"none", "transport"}
    /\ Started => /\ sc.limit \in LimitSet /\ Len(sc.servers) <= NServers
                  /\ \A e \in Ids : cls[e] \in {"ok", "chain", "rules"}
    /\ Done => out.err \in {"none", "transport", "cancelled"}

\* a world without deviations: every event of an honestly built room passes every check
HonestWorld == (ph # "room" /\ WorldDevs = {}) => \A e \in Ids : cls[e] = "ok"

\* the base scenario: the first server's correct slice is the result, nobody else is asked unless history is short
HonestRun ==
    (Done /\ dev = 0 /\ sc.from # <<>> /\ sc.servers # <<>> /\ sc.limit > 0) =>
        LET H == HistSeq(sc.from) IN
        /\ Returned = Elems(Win(H, 1, sc.limit))
        /\ out.err = "none"
        /\ Len(log) = (IF Len(H) >= sc.limit THEN 1 ELSE Len(sc.servers))

\* an event that carries a fault of the world is never worth "ok"; neither is an event whose state provider fails
FaultsShow ==
    Started => \A e \in Ids : /\ BadEvent(sc.F, e) => cls[e] # "ok"
                              /\ sc.SP[e] = "ids_error" => cls[e] # "ok"

\* the collection is what the history says: the good events offered so far, each once (for the unplanted requester)
CollectionMatches ==
    (Fault = "none" /\ SigTolerance = "only" /\ ph \in {"idle", "done"}) =>
        /\ Elems(got) = UNION {GoodOffered(j) : j \in DOMAIN log}
        /\ Len(got) = Cardinality(Elems(got))
=============================================================================
