----------------------------- MODULE Redaction -----------------------------
(***************************************************************************)
(* The redaction algorithms of the Matrix specification, per room version  *)
(* (spec.matrix.org: "Room version 1 / 6 / 8 / 9 / 11", section            *)
(* "Redactions"; client-server API "Redactions" for the top-level list).   *)
(* Written from the specification text, NOT from redactevent.go.           *)
(*                                                                         *)
(* This is a constant module (no variables): other specifications          *)
(* (event identity, event signatures) EXTEND or INSTANCE it and use        *)
(* TopKeep / ContentKeep / Redact / IdentityProj / SignedProj.  The state  *)
(* machine that exercises it lives in Redaction_gen.tla.                   *)
(*                                                                         *)
(* Five algorithms (numbering of MatrixBase!RedactionAlgo):                *)
(*   1  room versions 1-5   the original lists                             *)
(*   2  room versions 6-7   m.room.aliases no longer keeps `aliases`       *)
(*   3  room version  8     m.room.join_rules additionally keeps `allow`   *)
(*   4  room versions 9-10  m.room.member additionally keeps               *)
(*                          `join_authorised_via_users_server`             *)
(*   5  room versions 11+   top level no longer keeps origin, membership,  *)
(*                          prev_state; m.room.create keeps all content;   *)
(*                          m.room.power_levels additionally keeps         *)
(*                          `invite`; m.room.redaction keeps `redacts`;    *)
(*                          m.room.member additionally keeps the `signed`  *)
(*                          key of `third_party_invite` (nested)           *)
(*                                                                         *)
(* Abstract event: which top-level keys are present, which content keys    *)
(* are present, each with a value class (an opaque token standing for the  *)
(* value: redaction never looks inside a value, it only keeps or drops     *)
(* it), and the one nested structure an algorithm looks into:              *)
(*   [type |-> STRING,                                                     *)
(*    top  |-> [present top-level keys -> value class],                    *)
(*    con  |-> [present content keys   -> value class],                    *)
(*    tpi  |-> [obj  |-> content.third_party_invite is a JSON object,      *)
(*              keys |-> [its keys -> value class]]]                       *)
(* `tpi` is NoTpi unless "third_party_invite" is a present content key.    *)
(***************************************************************************)
EXTENDS MatrixBase

Algos == 1..5

\* --- top-level keys --------------------------------------------------------
\* "strip off any keys not in the following list" (room versions 1-10)
TopKeepOld == {"event_id", "type", "room_id", "sender", "state_key", "content", "hashes",
               "signatures", "depth", "prev_events", "prev_state", "auth_events", "origin",
               "origin_server_ts", "membership"}
\* room version 11: "the top-level origin, membership, and prev_state properties are no longer protected"
TopKeepNew == TopKeepOld \ {"origin", "membership", "prev_state"}

TopKeep(a) == IF a <= 4 THEN TopKeepOld ELSE TopKeepNew

\* Note on `unsigned`, `age_ts`, `redacts` (top level): none is on either list, so the algorithm strips them
\* (servers may add their own `unsigned` afterwards, which is outside the algorithm).

\* --- content keys ------------------------------------------------------------
PowerLevelKeysOld == {"ban", "events", "events_default", "kick", "redact", "state_default",
                      "users", "users_default"}

ProtectedTypes == {"m.room.member", "m.room.create", "m.room.join_rules", "m.room.power_levels",
                   "m.room.history_visibility", "m.room.aliases", "m.room.redaction"}

\* event types whose whole content is kept
KeepAllContent(a, t) == a = 5 /\ t = "m.room.create"

\* content keys kept as a whole (when KeepAllContent does not apply); any other type keeps nothing
ContentKeep(a, t) ==
    CASE t = "m.room.member" ->
             {"membership"} \cup (IF a >= 4 THEN {"join_authorised_via_users_server"} ELSE {})
      [] t = "m.room.create" -> {"creator"}            \* a = 5 keeps everything: KeepAllContent
      [] t = "m.room.join_rules" ->
             {"join_rule"} \cup (IF a >= 3 THEN {"allow"} ELSE {})
      [] t = "m.room.power_levels" ->
             PowerLevelKeysOld \cup (IF a = 5 THEN {"invite"} ELSE {})
      [] t = "m.room.history_visibility" -> {"history_visibility"}
      [] t = "m.room.aliases" -> IF a = 1 THEN {"aliases"} ELSE {}
      [] t = "m.room.redaction" -> IF a = 5 THEN {"redacts"} ELSE {}
      [] OTHER -> {}

\* content keys that are objects of which only some keys are kept: <<content key, kept nested keys>>
NestedKey == "third_party_invite"
NestedKeep(a, t) == IF a = 5 /\ t = "m.room.member" THEN {"signed"} ELSE {}

\* --- abstract events -----------------------------------------------------------
Proj(f, S) == [k \in S |-> f[k]]
EmptyFn == [k \in {} |-> "x"]
NoTpi == [obj |-> FALSE, keys |-> EmptyFn]

WellFormed(e) ==
    /\ DOMAIN e = {"type", "top", "con", "tpi"}
    /\ (NestedKey \notin DOMAIN e.con => e.tpi = NoTpi)
    /\ (~e.tpi.obj => e.tpi.keys = EmptyFn)

\* The nested rule (room version 11: "m.room.member ... additionally, it allows the `signed` key of the
\* `third_party_invite` key").  What is listed is the key `signed` INSIDE third_party_invite; the key
\* third_party_invite itself is listed by no algorithm.  Hence, for every shape of the value:
\*   - an object that has `signed`      -> third_party_invite stays, holding exactly `signed` (value untouched,
\*                                         whatever it is: {}, null, ...); every other nested key goes
\*   - an object without `signed` ({} or only other keys) -> nothing listed is inside: the key goes altogether
\*                                         ("removes everything else": no `third_party_invite: {}` is left behind)
\*   - not an object (string, array, null, number)        -> the key goes
\*   - algorithms 1-4, or any other event type            -> the key goes (m.room.create in algorithm 5 keeps
\*                                                           its whole content, so there it stays as it is)
NestedKept(a, e) ==
    /\ NestedKeep(a, e.type) # {}
    /\ NestedKey \in DOMAIN e.con
    /\ e.tpi.obj
    /\ DOMAIN e.tpi.keys \cap NestedKeep(a, e.type) # {}

KeptContentKeys(a, e) ==
    IF KeepAllContent(a, e.type) THEN DOMAIN e.con
    ELSE (DOMAIN e.con \cap ContentKeep(a, e.type)) \cup (IF NestedKept(a, e) THEN {NestedKey} ELSE {})

Redact(a, e) ==
    LET kc == KeptContentKeys(a, e) IN
    [type |-> e.type,
     top  |-> Proj(e.top, DOMAIN e.top \cap TopKeep(a)),
     con  |-> Proj(e.con, kc),
     tpi  |-> IF NestedKey \notin kc THEN NoTpi
              ELSE IF KeepAllContent(a, e.type) \/ NestedKey \in ContentKeep(a, e.type) THEN e.tpi
              ELSE [obj |-> TRUE, keys |-> Proj(e.tpi.keys, DOMAIN e.tpi.keys \cap NestedKeep(a, e.type))]]

RedactV(v, e) == Redact(RedactionAlgo(v), e)

\* --- projections other specifications build on ---------------------------------------
DropTop(e, K) == [e EXCEPT !.top = Proj(e.top, DOMAIN e.top \ K)]

\* what a signature covers: the redacted event without `signatures` and `unsigned`
SignedProj(a, e) == DropTop(Redact(a, e), {"signatures", "unsigned"})
\* what the reference hash (event ID from room version 3 on) covers: the same, `age_ts` removed as well
IdentityProj(a, e) == DropTop(Redact(a, e), {"signatures", "unsigned", "age_ts"})

\* --- the property, as predicates over one (algorithm, event) pair -------------------------
CoreKeys == {"type", "sender", "room_id", "state_key"}

\* exactly the listed keys survive, nothing is invented, values are untouched
ExactlyListed(a, e) ==
    LET r == Redact(a, e) IN
    /\ DOMAIN r.top = DOMAIN e.top \cap TopKeep(a)
    /\ \A k \in DOMAIN r.top : r.top[k] = e.top[k]
    /\ DOMAIN r.con \subseteq DOMAIN e.con
    /\ \A k \in DOMAIN r.con : r.con[k] = e.con[k]
    /\ (~KeepAllContent(a, e.type) =>
           DOMAIN r.con \ {NestedKey} = (DOMAIN e.con \cap ContentKeep(a, e.type)) \ {NestedKey})
    /\ DOMAIN r.tpi.keys \subseteq DOMAIN e.tpi.keys
    /\ \A k \in DOMAIN r.tpi.keys : r.tpi.keys[k] = e.tpi.keys[k]

Idempotent(a, e) == Redact(a, Redact(a, e)) = Redact(a, e)

CorePreserved(a, e) ==
    LET r == Redact(a, e) IN
    /\ r.type = e.type
    /\ \A k \in CoreKeys : /\ (k \in DOMAIN r.top) = (k \in DOMAIN e.top)
                           /\ (k \in DOMAIN e.top => r.top[k] = e.top[k])

\* redaction changes neither what is signed nor what is hashed into the event ID
IdentityPreserved(a, e) ==
    /\ IdentityProj(a, Redact(a, e)) = IdentityProj(a, e)
    /\ SignedProj(a, Redact(a, e)) = SignedProj(a, e)

\* --- the event OBJECT route -----------------------------------------------------------------------
\* An event object (a PDU of the library) is a JSON value held by a process, together with what the process did to
\* it.  Abstractly:  [ev   |-> the abstract event its JSON() is,
\*                    sigs |-> the signing keys whose signature the `signatures` member carries (opaque names),
\*                    red  |-> the object has been redacted (Redact() was called, or it was made from JSON known
\*                             to be redacted)]
\* The operations below are the only ways the JSON of an object changes.  None of them reads how the object was
\* made, whether its event ID has been asked for, or how the JSON text handed in was spelt: an object is its JSON.
ObjOf(ev, sigs, red) == [ev |-> ev, sigs |-> sigs, red |-> red]

\* what receipt over federation strips before anything else looks at the event (the sender has no say in these;
\* from room version 3 on the event ID is not a member of the event)
ReceiptStripped(fmt) == {"unsigned", "age_ts", "outlier", "destinations"} \cup (IF fmt = 1 THEN {} ELSE {"event_id"})

WithTop(ev, k, cls) == [ev EXCEPT !.top = [x \in DOMAIN ev.top \cup {k} |-> IF x = k THEN cls ELSE ev.top[x]]]

ObjParseTrusted(ev, sigs) == ObjOf(ev, sigs, FALSE)                       \* trusted / headered / with-event-ID parse
ObjParseUntrusted(fmt, ev, sigs) == ObjOf(DropTop(ev, ReceiptStripped(fmt)), sigs, FALSE)   \* content hash intact
ObjSign(o, s) == [o EXCEPT !.sigs = @ \cup {s},
                           !.ev = IF "signatures" \in DOMAIN @.top THEN @ ELSE WithTop(@, "signatures", "std")]
ObjSetUnsigned(o) == [o EXCEPT !.ev = WithTop(@, "unsigned", "std")]
ObjReadEventID(o) == o
\* Redact(): the redaction of the CURRENT JSON, whatever happened to the object before; on an object that is
\* redacted already it changes nothing (idempotence; `unsigned` given to a redacted event afterwards is the
\* server's own and outside the algorithm)
ObjRedact(a, o) == IF o.red THEN o ELSE [o EXCEPT !.ev = Redact(a, @), !.red = TRUE]

\* The identity of an object: what the reference hash - from room version 3 on the event ID - is computed from
\* (in event format 1, and when the JSON carries an `event_id` member, that member is part of it: it is kept).
ObjIdentity(a, o) == IdentityProj(a, o.ev)
ObjSigned(a, o) == SignedProj(a, o.ev)

\* One step `before -> after` of an object by the operation `act` keeps the property: identity, what signatures
\* cover, type / sender / room / state key and the event_id member unchanged, no signature lost; Redact() gives
\* exactly the redaction of the JSON the object had.
ObjStepOK(a, act, before, after) ==
    /\ ObjIdentity(a, after) = ObjIdentity(a, before)
    /\ ObjSigned(a, after) = ObjSigned(a, before)
    /\ before.sigs \subseteq after.sigs
    /\ after.ev.type = before.ev.type
    /\ \A k \in CoreKeys \cup {"event_id"} :
          /\ (k \in DOMAIN after.ev.top) = (k \in DOMAIN before.ev.top)
          /\ (k \in DOMAIN before.ev.top => after.ev.top[k] = before.ev.top[k])
    /\ (before.red => after.red)
    /\ (act = "redact" =>
          /\ after.red /\ after.sigs = before.sigs
          /\ (~before.red => after.ev = Redact(a, before.ev))
          /\ (before.red => after = before)
          /\ ("signatures" \in DOMAIN before.ev.top => "signatures" \in DOMAIN after.ev.top))
    /\ (act = "readid" => after = before)
    /\ (act = "sign" => after.sigs # {} /\ "signatures" \in DOMAIN after.ev.top)

\* --- sanity of the tables themselves (consequences that must hold) ----------------------------
TablesSane ==
    /\ TopKeepNew \subseteq TopKeepOld /\ Cardinality(TopKeepOld) = 15 /\ Cardinality(TopKeepNew) = 12
    /\ CoreKeys \cup {"content", "hashes", "signatures", "event_id"} \subseteq TopKeepNew
    /\ \A a \in Algos : {"unsigned", "age_ts", "redacts"} \cap TopKeep(a) = {}
    /\ \A t \in ProtectedTypes \ {"m.room.aliases"} : \A a \in 1..4 : ContentKeep(a, t) \subseteq ContentKeep(a + 1, t)
    /\ \A a \in Algos : ContentKeep(a, "m.room.message") = {} /\ ~KeepAllContent(a, "m.room.message")
    /\ \A a \in Algos : PowerLevelKeysOld \subseteq ContentKeep(a, "m.room.power_levels")
    /\ \A a \in Algos : "membership" \in ContentKeep(a, "m.room.member")
    /\ \A v \in AllVersions : RedactionAlgo(v) \in Algos
=============================================================================
