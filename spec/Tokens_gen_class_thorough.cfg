SPECIFICATION SpecClass
CONSTANTS
  Secrets = {"k1", "k2"}
  Users <- ClassUsers
  Durations <- DurationsClass
  Offsets <- OffsetsClass
  MaxAlter = 0
  WideNeighbours = TRUE
INVARIANTS TypeOK Sound Complete RevealsUser ReadThenValidate Emit
CHECK_DEADLOCK FALSE
