---------------------------- MODULE Handshake_gen ----------------------------
(***************************************************************************)
(* Generation wrapper for Handshake.tla (C15).                             *)
(*  (a) guard products: Family names one handler and one slice of its      *)
(*      parameter space; GInit puts an arbitrary request of that slice in  *)
(*      flight (flow = "product"), the handler action decides, Emit prints *)
(*      request, facts and the decision as one JSON record.                *)
(*  (b) Family = "e2e": the behaviours of Handshake!Spec with Forge        *)
(*      actions; one record per finished behaviour (the whole history).    *)
(* Dimensions a check cannot read are fixed (relevance pruning).           *)
(***************************************************************************)
EXTENDS Handshake, Json

CONSTANTS Family,     \* "mj_basic" "mj_restricted" "mj_qerr" "ml" "sj_shape" "sj_trust" "inv" "inv_same" "inv3" "sj_keys" "inv_keys" "mjv" "mlv" "sjv" "invv" "sj_pseudo" "sj_env" "inv_env" "e2e", or
                      \* "all": every product family and the end-to-end behaviours in one run (quick tier)
          Width       \* "quick" | "thorough": room versions per family, allow-list alphabet of mj_restricted

VersionsQuick      == {"1", "10"}
VersionsQuick1     == {"10"}
KVersionsQuick     == {"1", "2", "3", "4", "5", "10"}   \* key-validity families: the lenient versions 1-4 included
VersionsThorough   == {"1", "2", "3", "6", "7", "8", "9", "10", "11", "12"}
RVersionsQuick     == {"10", "12"}
RVersionsThorough  == {"8", "9", "10", "11", "12"}

\* room versions enumerated by a product family
Vers(f) ==
    IF Width = "thorough"
    THEN (IF f \in {"mj_restricted", "mj_qerr"} THEN RVersionsThorough
          ELSE IF f \in {"mjv", "mlv"} THEN AllVersions
          ELSE IF f \in {"sjv", "invv"} THEN AllVersions \ {"org.matrix.msc4014"} ELSE VersionsThorough)
    ELSE CASE f \in {"mj_restricted", "mj_qerr"} -> RVersionsQuick
           [] f \in {"sj_trust", "inv"} -> VersionsQuick1
           [] f \in {"sj_keys", "inv_keys"} -> KVersionsQuick
           [] f \in {"mjv", "mlv"} -> AllVersions
           [] f \in {"sjv", "invv"} -> AllVersions \ {"org.matrix.msc4014"}    \* there: sj_pseudo, inv3
           [] OTHER -> VersionsQuick

Fam(s, f) == [s EXCEPT !.fam = f]

Mem5 == {"none", "leave", "invite", "join", "ban"}
TB   == {"ok", "err", "nilev", "nilstate", "wrongtype", "nocreate"}
\* "expired": the signing key's valid_until_ts lies before the event's origin_server_ts (key not marked expired);
\* "revoked": its expired_ts lies before it.  Neither is a valid signature, in any room version: the handlers
\* countersign, so they apply the strict validity rule everywhere (not the room version's lenient one of v1-v4).
Sig6 == {"valid", "none", "wrongkey", "other", "tampered", "expired", "revoked"}
KeyClasses == {"valid", "expired", "revoked", "vu_eq", "vu_p1", "ex_eq", "ex_m1"}
MultiSigs == {"two_keys", "plus_other", "presigned", "presigned_bad"}
Via4 == {"none", "local", "remote", "invalid"}
\* rows of R's tables under the identities that are not the member's sender ID (Handshake!View)
Oth4   == {"none", "ban", "invite", "join"}
MemOth == {<<"none", "none">>, <<"none", "ban">>, <<"ban", "none">>, <<"ban", "join">>, <<"join", "ban">>}

RoomClasses == {"nonres", "info_err", "info_nil", "nouser", "empty", "listedB", "listed", "listed2", "othertype", "badid"}
AllowLists ==
    IF Width = "thorough"
    THEN {<<>>} \cup {<<a>> : a \in RoomClasses} \cup {<<a, b>> : a \in RoomClasses, b \in RoomClasses}
    ELSE {<<>>} \cup {<<a>> : a \in RoomClasses}
         \cup {<<a, b>> : a \in {"nonres", "nouser", "listedB", "othertype"}, b \in {"listed", "nouser", "nonres"}}

MJReq(o, u, vs)  == [k |-> "mjreq", origin |-> o, usrv |-> u, vers |-> vs, room |-> "main"]
MLReq(o, u)      == [k |-> "mlreq", origin |-> o, usrv |-> u, room |-> "main"]
Ev(t, m, ss, sk, rm, via, sig) ==
    [type |-> t, mship |-> m, ssrv |-> ss, skey |-> sk, room |-> rm, via |-> via, sig |-> sig, auth |-> AuthOf(via)]

\* ---- make_join: every request parameter x membership x join rule x template builder --------
InitMJBasic ==
    \E v \in Vers("mj_basic"), o \in {"J", "X"}, u \in {"J", "X", "R"}, vs \in {"has", "lacks", "none", "empty"},
       ir \in BOOLEAN, jr \in {"none", "public", "invite", "knock"}, mem \in Mem5 :
    \* quick: the template builder's behaviours are crossed with requests that pass the version gate only
    \E tb \in (IF Width = "thorough" \/ vs = "has" THEN TB ELSE {"ok"}) :
        /\ sc = [Fam(Base(v), "mj_basic") EXCEPT !.inRoom = ir, !.jr = jr, !.mem = mem, !.tb = tb]
        /\ net = MJReq(o, u, vs) /\ phase = "mjreq"

\* ---- make_join in restricted rooms: allow lists x pending invite x authoriser standing --------
InitMJRestricted ==
    \E v \in Vers("mj_restricted"), ir \in BOOLEAN, jr \in RestrictedRules, mem \in Mem5, pend \in BOOLEAN,
       al \in AllowLists, ah \in BOOLEAN :
    \E apl \in (IF PrivCreators(v) THEN {"ok", "low", "creator"} ELSE {"ok", "low"}) :
        /\ RestrictedSupported(v)
        /\ sc = [Fam(Base(v), "mj_restricted") EXCEPT !.inRoom = ir, !.jr = jr, !.mem = mem, !.pending = pend, !.allow = al,
                                !.apl = apl, !.aHere = ah]
        /\ net = MJReq("J", "J", "has") /\ phase = "mjreq"

\* ---- make_join: failing queriers --------
InitMJQerr ==
    \E v \in Vers("mj_qerr"), q \in {"jr_err", "pending_err", "pl_missing", "pl_err", "create_err", "create_nil"}, jr \in {"public", "restricted"},
       pend \in BOOLEAN, mem \in {"none", "invite"}, al \in {<<"listed">>, <<"nonres">>} :
        /\ RestrictedSupported(v)
        /\ sc = [Fam(Base(v), "mj_qerr") EXCEPT !.jr = jr, !.mem = mem, !.pending = pend, !.allow = al, !.qerr = q]
        /\ net = MJReq("J", "J", "has") /\ phase = "mjreq"

\* ---- make_leave --------
InitML ==
    \E v \in Vers("ml"), o \in {"J", "X"}, u \in {"J", "X", "R"}, ir \in BOOLEAN, mem \in Mem5, tb \in TB :
        /\ sc = [Fam(Base(v), "ml") EXCEPT !.inRoom = ir, !.mem = mem, !.tb = tb]
        /\ net = MLReq(o, u) /\ phase = "mlreq"

\* ---- send_join: shape of the event against the request --------
InitSJShape ==
    \E v \in Vers("sj_shape"), t \in {"member", "other"}, m \in {"join", "leave", "invite", "missing"},
       sk \in {"sender", "other", "empty", "absent"}, rm \in {"main", "other"}, eid \in {"match", "other"},
       via \in Via4, mem \in {"none", "ban"}, sig \in {"valid", "none"} :
        /\ sc = [Fam(Base(v), "sj_shape") EXCEPT !.mem = mem]
        /\ net = [k |-> "sjreq", origin |-> "J", room |-> "main", eid |-> eid, ev |-> Ev(t, m, "J", sk, rm, via, sig)]
        /\ phase = "sjreq"

\* ---- send_join: who sent it, who signed it, what R knows about the sender --------
InitSJTrust ==
    \E v \in Vers("sj_trust"), o \in {"J", "X"}, ss \in {"J", "X", "R"}, sig \in Sig6, mem \in Mem5, via \in Via4,
       uq \in {"ok", "err", "nil"}, rv \in {"known", "unknown"}, m \in {"join", "leave"} :
        /\ sc = [Fam(Base(v), "sj_trust") EXCEPT !.mem = mem, !.uq = uq, !.rv = rv]
        /\ net = [k |-> "sjreq", origin |-> o, room |-> "main", eid |-> "match", ev |-> Ev("member", m, ss, "sender", "main", via, sig)]
        /\ phase = "sjreq"

\* ---- send_join: validity of the signing key at the event's time, in every room version (incl. the lenient ones) ----
InitSJKeys ==
    \E v \in Vers("sj_keys"), sig \in KeyClasses, o \in {"J", "X"}, mem \in {"none", "join"}, via \in {"none", "local"} :
        /\ sc = [Fam(Base(v), "sj_keys") EXCEPT !.mem = mem]
        /\ net = [k |-> "sjreq", origin |-> o, room |-> "main", eid |-> "match",
                  ev |-> Ev("member", "join", o, "sender", "main", IF RestrictedSupported(v) THEN via ELSE "none", sig)]
        /\ phase = "sjreq"

\* ---- invite: the same for the inviter's server ----
InitInvKeys ==
    \E v \in Vers("inv_keys"), sig \in KeyClasses, ss \in {"J", "R"}, kn \in BOOLEAN, st \in {"none", "given"} :
    \E mem \in (IF kn THEN {"none", "leave"} ELSE {"none"}) :
        /\ sc = [Fam(Base(v), "inv_keys") EXCEPT !.known = kn, !.mem = mem, !.stripped = st]
        /\ net = [k |-> "invreq", room |-> "main", ev |-> Ev("member", "invite", ss, "invitee", "main", "none", sig)]
        /\ phase = "invreq"

\* ---- invite --------
\*  ss: the inviter's server - "J" a remote server, "R" the invited user's own server (the event must still carry
\*  a valid signature of that server: the local name proves nothing about a request that came over federation)
InitInvFrom(fam, ss) ==
    \* for an inviter on the invited user's server the event shapes are a sample (the full product is in "inv")
    LET few == ss = "R" IN
    \E v \in Vers("inv"), rv \in (IF few THEN {"known"} ELSE {"known", "unknown"}), t \in (IF few THEN {"member"} ELSE {"member", "other"}),
       m \in (IF few THEN {"invite", "join"} ELSE {"invite", "join", "leave", "missing"}),
       sk \in (IF few THEN {"invitee", "otherlocal"} ELSE {"invitee", "otherlocal", "sender", "absent"}), rm \in {"main", "other"}, sig \in Sig6,
       kn \in BOOLEAN, uq \in {"ok", "err", "nil"} :
    \E mem \in (IF kn THEN Mem5 ELSE {"none"}) :
    \* quick: the way the stripped state arrives is varied for every event shape, with a sender the server can check
    \E st \in (IF Width = "thorough" \/ (sig = "valid" /\ uq = "ok") THEN {"none", "given"} ELSE {"none"}) :
        /\ sc = [Fam(Base(v), fam) EXCEPT !.rv = rv, !.known = kn, !.mem = mem, !.uq = uq, !.stripped = st]
        /\ net = [k |-> "invreq", room |-> "main", ev |-> Ev(t, m, ss, sk, rm, "none", sig)]
        /\ phase = "invreq"

InitInv     == InitInvFrom("inv", "J")
InitInvSame == InitInvFrom("inv_same", "R")

\* ---- invite, v3 endpoint (pseudo-ID rooms; any room version can be named): shares the common checks of the invite handler ----
InitInv3 ==
    \E v \in {"org.matrix.msc4014", "12", "10"}, rv \in {"known", "unknown"}, rm \in {"main", "other"}, kn \in BOOLEAN,
       st \in {"none", "empty", "given"}, env \in {"ok", "rq_err", "memq_err"} :
    \E mem \in (IF kn THEN Mem5 ELSE {"none"}) :
    \* identities (in the pseudo-ID room: the invited user's room key against its user ID and the other members)
    \E ot \in (IF kn /\ rv = "known" /\ env = "ok" THEN {"none", "join", "ban"} ELSE {"none"}) :
        /\ sc = [Fam(Base(v), "inv3") EXCEPT !.rv = rv, !.known = kn, !.mem = mem, !.stripped = st, !.env = env, !.oth = ot]
        /\ net = [k |-> "inv3req", room |-> "main", proom |-> rm]
        /\ phase = "inv3req"

(***************************************************************************)
(* One small family per handler over EVERY registered room version (the    *)
(* per-version traits: event format, restricted joins, knocking, what the  *)
(* signatures cover, domainless rooms, privileged creators), with the      *)
(* coincidences (requesting server = resident server; names that extend    *)
(* J's name: N = "j.test.evil", M = "evil-j.test"), multiple signatures,   *)
(* content that must have no effect, empty vs absent lists.                *)
(***************************************************************************)
\* ownership "casevar" (Handshake!Ownership): the requesting server's name and the user's server differ in letter case
\* only, either way round (K: J's name in another letter case); exact names compare, so every handler refuses
CasePairs == {<<"K", "J">>, <<"J", "K">>, <<"K", "K">>}
\* make_join: version gate x join rule (also the ones the version does not know) x membership x who asks
\* (identities: where the restricted-join questions are reached - a well-formed request, a restricted rule - the
\*  member is in / not in the allowed room and the tables hold the opposite under every other identity: Oth4)
InitMJV ==
    \E v \in Vers("mjv"), vs \in {"has", "lacks", "none", "empty"},
       jr \in {"public", "invite", "knock", "restricted", "knock_restricted"}, mem \in {"none", "invite", "ban"},
       ou \in {<<"J", "J">>, <<"R", "R">>, <<"N", "J">>, <<"M", "J">>} \cup CasePairs :
    \E ao \in (IF vs = "has" /\ ou = <<"J", "J">> /\ jr \in RestrictedRules
                THEN {<<"listed">>, <<"nouser">>} \X Oth4 ELSE {<<<<"listed">>, "none">>}) :
        /\ sc = [Fam(Base(v), "mjv") EXCEPT !.jr = jr, !.mem = mem, !.pending = (mem = "invite"), !.allow = ao[1], !.oth = ao[2]]
        /\ net = MJReq(ou[1], ou[2], vs) /\ phase = "mjreq"

InitMLV ==
    \E v \in Vers("mlv"), mem \in {"join", "invite", "ban", "none"},
       ou \in {<<"J", "J">>, <<"R", "R">>, <<"N", "J">>, <<"M", "J">>, <<"J", "X">>} \cup CasePairs :
        /\ sc = [Fam(Base(v), "mlv") EXCEPT !.mem = mem]
        /\ net = MLReq(ou[1], ou[2]) /\ phase = "mlreq"

InitSJV ==
    \E v \in Vers("sjv"), sig \in {"valid", "none", "tampered", "casevar"} \cup MultiSigs, via \in {"none", "local", "remote"},
       os \in {<<"J", "J">>, <<"R", "R">>, <<"N", "J">>, <<"M", "J">>} \cup CasePairs, t \in {"member", "other"} :
    \E x \in (IF sig = "valid" THEN {"none", "tpi", "unknown", "unsigned"} ELSE {"none"}) :
    \* identities: the member's own row against the rows of the other members
    \E mo \in (IF sig = "valid" /\ x = "none" /\ t = "member" THEN MemOth ELSE {<<"none", "none">>}) :
        /\ ~(os[2] = "R" /\ sig \in {"presigned", "presigned_bad"})
        /\ (sig = "casevar" => CasePartner(os[2]) # "none")
        /\ sc = [Fam(Base(v), "sjv") EXCEPT !.extra = x, !.mem = mo[1], !.oth = mo[2]]
        /\ net = [k |-> "sjreq", origin |-> os[1], room |-> "main", eid |-> "match",
                  ev |-> Ev(t, "join", os[2], "sender", "main", via, sig)]
        /\ phase = "sjreq"

InitInvV ==
    \E v \in Vers("invv"), sig \in {"valid", "none", "tampered", "casevar"} \cup MultiSigs, ss \in {"J", "R", "K"}, m \in {"invite", "join"},
       km \in {<<FALSE, "none">>, <<TRUE, "join">>, <<TRUE, "leave">>}, st \in {"none", "empty", "given"} :
    \E x \in (IF sig = "valid" THEN {"none", "unknown", "unsigned"} ELSE {"none"}) :
    \E ot \in (IF sig = "valid" /\ x = "none" /\ km[1] THEN {"none", "join", "ban"} ELSE {"none"}) :
        /\ ~(ss = "R" /\ sig \in {"presigned", "presigned_bad"})
        /\ (sig = "casevar" => CasePartner(ss) # "none")
        /\ sc = [Fam(Base(v), "invv") EXCEPT !.known = km[1], !.mem = km[2], !.stripped = st, !.extra = x, !.oth = ot]
        /\ net = [k |-> "invreq", room |-> "main", ev |-> Ev("member", m, ss, "invitee", "main", "none", sig)]
        /\ phase = "invreq"

\* ---- send_join in a pseudo-ID room: the mapping, the room key's signature, who asks ----
InitSJPseudo ==
    \E map \in {"ok", "missing", "unsigned", "wrongkey", "other"}, sig \in {"valid", "none", "tampered"}, o \in {"J", "X"}, ss \in {"J", "X"},
       mem \in {"none", "join", "ban"}, eid \in {"match", "other"}, m \in {"join", "leave"}, uq \in {"ok", "err", "nil"} :
    \* identities: the row under the join's sender ID (the room key) against the rows under the joiner's user ID and
    \* under the other members, wherever the sender resolves to a user
    \E ot \in (IF map = "ok" /\ uq = "ok" THEN {"none", "join", "ban"} ELSE {"none"}) :
        /\ sc = [Fam(Base("org.matrix.msc4014"), "sj_pseudo") EXCEPT !.mem = mem, !.map = map, !.uq = uq, !.oth = ot]
        /\ net = [k |-> "sjreq", origin |-> o, room |-> "main", eid |-> eid, ev |-> Ev("member", m, ss, "sender", "main", "none", sig)]
        /\ phase = "sjreq"

\* ---- a failing verifier / membership querier / room querier ----
InitSJEnv ==
    \E v \in Vers("sj_shape"), env \in {"kr_err", "memq_err"}, sig \in {"valid", "none"}, mem \in {"none", "join", "ban"} :
        /\ sc = [Fam(Base(v), "sj_env") EXCEPT !.mem = mem, !.env = env]
        /\ net = [k |-> "sjreq", origin |-> "J", room |-> "main", eid |-> "match",
                  ev |-> Ev("member", "join", "J", "sender", "main", "none", sig)]
        /\ phase = "sjreq"

InitInvEnv ==
    \E v \in Vers("sj_shape"), env \in {"kr_err", "memq_err", "rq_err"}, sig \in {"valid", "none"}, kn \in BOOLEAN,
       st \in {"none", "empty", "given"} :
    \E mem \in (IF kn THEN {"none", "join"} ELSE {"none"}) :
        /\ sc = [Fam(Base(v), "inv_env") EXCEPT !.known = kn, !.mem = mem, !.env = env, !.stripped = st]
        /\ net = [k |-> "invreq", room |-> "main", ev |-> Ev("member", "invite", "J", "invitee", "main", "none", sig)]
        /\ phase = "invreq"

Is(f) == Family = f \/ Family = "all"

GInit ==
    \/ Is("e2e") /\ Init
    \/ /\ flow = "product" /\ jev = NoEv /\ hist = <<>> /\ nforge = 0 /\ pj = ""
       /\ \/ Is("mj_basic") /\ InitMJBasic
          \/ Is("mj_restricted") /\ InitMJRestricted
          \/ Is("mj_qerr") /\ InitMJQerr
          \/ Is("ml") /\ InitML
          \/ Is("sj_shape") /\ InitSJShape
          \/ Is("sj_trust") /\ InitSJTrust
          \/ Is("inv") /\ InitInv
          \/ Is("inv_same") /\ InitInvSame
          \/ Is("inv3") /\ InitInv3
          \/ Is("sj_keys") /\ InitSJKeys
          \/ Is("inv_keys") /\ InitInvKeys
          \/ Is("mjv") /\ InitMJV
          \/ Is("mlv") /\ InitMLV
          \/ Is("sjv") /\ InitSJV
          \/ Is("invv") /\ InitInvV
          \/ Is("sj_pseudo") /\ InitSJPseudo
          \/ Is("sj_env") /\ InitSJEnv
          \/ Is("inv_env") /\ InitInvEnv

GSpec == GInit /\ [][Next]_vars

\* one record per finished behaviour
Emit ==
    Final =>
        PrintT(ToJson([fam |-> sc.fam, flow |-> flow, sc |-> sc, hist |-> hist, pj |-> pj]))
=============================================================================
