SPECIFICATION Spec
CONSTANTS
  Family = "event1"
  Versions <- VersionsQuick
  TypesC <- TypesC4
  Depth = "extra"
  FieldSet = "all"
  Entries <- EntriesUntrusted
  MaxOps = 2
  Heavy <- HeavyMid
  HeavyAfter <- HeavyLiteSet
  Muts <- MutsAll
INVARIANTS TypeOK NoPanic WellOrdered Emit
CHECK_DEADLOCK FALSE
