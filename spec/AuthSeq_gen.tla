---------------------------- MODULE AuthSeq_gen -----------------------------
(***************************************************************************)
(* C08 over HISTORIES: sessions of power-levels events judged one after    *)
(* the other against the evolving current power levels of one room - the   *)
(* way state resolution auths a run of events with ONE checker that it     *)
(* keeps (allowerContext: update() then allowed(), the provider cleared    *)
(* and refilled in between), and the way a server auths them one by one    *)
(* with a fresh Allowed().                                                 *)
(*                                                                         *)
(* A session starts from the content Init0(a0, b0) (alice at a0, bob at    *)
(* b0).  Each step proposes a power-levels event by alice or bob: a        *)
(* one-key edit of the CURRENT content (read-modify-write) or of the       *)
(* INITIAL content (the other side of a fork that has not seen what was    *)
(* accepted since).  The event is judged by Auth!Allowed against the       *)
(* current content; if accepted its content becomes the current one.       *)
(* Every verdict is a function of the current content and the event alone: *)
(* nothing learnt while judging an earlier event of the session (a level,  *)
(* a threshold, a parsed content) survives a change of the state.          *)
(*                                                                         *)
(* The property (from the statement, over the history `log`): whenever an  *)
(* event of the session is accepted, NoEsc holds against the levels        *)
(* current AT THAT TIME; consequently no user ever rises above the level   *)
(* the accepting sender had at that time, and nobody at or above the       *)
(* sender is moved by somebody else.                                       *)
(***************************************************************************)
EXTENDS Auth, Json

CONSTANTS Versions,
          Steps,       \* events per session
          Inits        \* set of <<a0, b0>>: initial levels of alice and bob

InitsQuick == {<<3, 3>>, <<4, 4>>, <<4, 3>>}
InitsOne == {<<4, 4>>}

VARIABLES ver, init, cur, log

vars == <<ver, init, cur, log>>

SeqKeys == {"users.alice", "users.bob", "users_default", "events.pl", "state_default", "ban"}
SeqVals == {Absent, 1, 2, 3, 4}
SeqSenders == {"alice", "bob"}

SetK(c, k, x) ==
    CASE k = "users.alice" -> [c EXCEPT !.users["alice"] = x]
      [] k = "users.bob" -> [c EXCEPT !.users["bob"] = x]
      [] k = "events.pl" -> [c EXCEPT !.events["pl"] = x]
      [] OTHER -> [c EXCEPT ![k] = x]

Init0(a0, b0) == [EmptyPL EXCEPT !.users = [u \in Users |-> CASE u = "alice" -> a0 [] u = "bob" -> b0 [] OTHER -> Absent]]

Joined == WithMem(WithMem(WithMem(BaseSt, "creator", "join"), "alice", "join"), "bob", "join")
StAt(c) == WithPL(Joined, c)
PLEvBy(sender, c) == [BaseEv EXCEPT !.type = "pl", !.sender = sender, !.skey = "empty", !.newpl = c]

LevelIn(c, u) == Eff(c.users[u], Thr(c, "users_default"))

Init == /\ ver \in Versions
        /\ init \in Inits
        /\ cur = Init0(init[1], init[2])
        /\ log = <<>>

\* one event of the session is proposed and judged against the current content
Judge(sender, base, k, x) ==
    LET from == IF base = "cur" THEN cur ELSE Init0(init[1], init[2])
        new == SetK(from, k, x)
        e == PLEvBy(sender, new)
        w == Allowed(ver, StAt(cur), e)
    IN /\ Len(log) < Steps
       /\ new # cur                                   \* a proposal that changes something
       /\ (base = "init" => log # <<>> /\ from # cur) \* a fork only differs from an edit of the current content once something was accepted
       /\ log' = Append(log, [sender |-> sender, base |-> base, k |-> k, x |-> x, want |-> w,
                              noesc |-> NoEsc(ver, StAt(cur), e),
                              \* history: the levels of the two users before and after, the sender's level before
                              s |-> UserLevel(ver, StAt(cur), sender),
                              named |-> [u \in SeqSenders |-> cur.users[u] # Absent \/ new.users[u] # Absent],
                              before |-> [u \in SeqSenders |-> LevelIn(cur, u)],
                              after |-> [u \in SeqSenders |-> LevelIn(IF w THEN new ELSE cur, u)]])
       /\ cur' = IF w THEN new ELSE cur
       /\ UNCHANGED <<ver, init>>

Next == \E sender \in SeqSenders, base \in {"cur", "init"}, k \in SeqKeys, x \in SeqVals : Judge(sender, base, k, x)

Spec == Init /\ [][Next]_vars

(***************************************************************************)
(* The property over the history                                           *)
(***************************************************************************)
\* the rules' own lemma along a session
SeqAcceptedNoEsc == \A j \in 1..Len(log) : log[j].want => log[j].noesc

\* nobody is ever lifted above the level the accepting sender holds at that time; nobody at or above that level whom
\* the old or the new users map NAMES is moved by somebody else (a user whose level is the default moves with
\* users_default, which is a threshold: changed only from and to values not above the sender's level); a rejected event
\* moves nobody
SeqNobodyRises ==
    \A j \in 1..Len(log) : \A u \in SeqSenders :
       LET r == log[j] IN
       r.before[u] # r.after[u] =>
          /\ r.want
          /\ r.after[u] <= r.s
          /\ r.before[u] <= r.s
          /\ (u # r.sender /\ r.named[u] => r.before[u] < r.s)

\* a sender that demoted itself stays demoted until somebody else (of sufficient level) lifts it
SeqNoSelfPromotion ==
    \A j \in 1..Len(log) : log[j].after[log[j].sender] <= log[j].before[log[j].sender]

\* the history is consistent: levels after step j are the levels before step j+1
SeqChained == \A j \in 1..(Len(log) - 1) : log[j].after = log[j + 1].before

Emit == Len(log) = Steps =>
          PrintT(ToJson([ver |-> ver, a0 |-> init[1], b0 |-> init[2], fam |-> "plseq",
                         steps |-> [j \in 1..Len(log) |-> [sender |-> log[j].sender, base |-> log[j].base, k |-> log[j].k,
                                                            x |-> log[j].x, want |-> log[j].want, noesc |-> log[j].noesc]]]))
=============================================================================
