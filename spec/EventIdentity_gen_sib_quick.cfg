SPECIFICATION Spec
CONSTANTS
  Versions <- VersionsAll
  Family = "sib"
  ShapeIds <- ShapesC03
  VariantIds <- VariantsSibQuick
  MaxOps = 0
  Alphabet <- NoOps
  PreOps <- PreSibQuick
  SibFields <- SibAll
  SidPairs <- NoSid
  TamperMax = 0
  EdgeShapes <- ShapesEdgeQuick
INVARIANTS TypeOK PIdStable PRoundTrip PRedactKeeps PV12 PBuildOrRefuse PSibling PSiblingHash Emit
CHECK_DEADLOCK FALSE
