SPECIFICATION Spec
CONSTANTS
  Family = "event1"
  Versions <- VersionsPair
  TypesC <- TypesTwo
  Depth = "core"
  FieldSet = "core"
  Entries <- EntriesUntrusted
  MaxOps = 3
  Heavy <- NoOps
  HeavyAfter <- Heavy3
  Muts <- MutsTwo
INVARIANTS TypeOK NoPanic WellOrdered Emit
CHECK_DEADLOCK FALSE
