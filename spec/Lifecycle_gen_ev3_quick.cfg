SPECIFICATION Spec
CONSTANTS
  Family = "event1"
  Versions <- VersionsTwo
  TypesC <- TypesThree
  Depth = "core"
  FieldSet = "core"
  MaxOps = 3
  Heavy <- NoOps
  HeavyAfter <- HeavyLiteSet
  Muts <- MutsQuick
INVARIANTS TypeOK NoPanic WellOrdered Emit
CHECK_DEADLOCK FALSE
