SPECIFICATION Spec
CONSTANTS
  Family = "resolve"
  Depth = "thorough"
INVARIANTS ResolveInvs Terminates Emit
CHECK_DEADLOCK FALSE
