\* KeyLife_gen_paths_thorough.cfg: every behaviour with 2 calls: 2 key IDs, ticks 0..1, request timestamps 0..2
SPECIFICATION GSpec
CONSTANTS
  Mode = "paths"
  NK = 2
  MaxT = 1
  MaxRot = 1
  MaxReq = 2
  V = 1
  Orders <- NotaryFirst
  NModes <- NAny
  Sigs <- SGood
  ReqTS <- TS02
  Rules <- RBoth
  StoreRule = "monotone"
INVARIANTS TypeOK KnownExpiry ExpiredIsFinal NothingInvented Continuity LastDB Sanity Emit
PROPERTIES EnvLeavesDB EveryCallOK
CHECK_DEADLOCK FALSE
