SPECIFICATION GSpec
CONSTANTS
  Servers = {"s1", "s2", "s3"}
  NWorkers = 3
  Q = 3
  StartFirst = FALSE
  KeyIds = {"k1", "k2"}
  DirectOutcomes = {"ok", "err"}
  NotaryOutcomes = {"ok", "err"}
  HasLocal = FALSE
  CtxModes = {"before", "deadline", "mid"}
  StopOnDone = FALSE
INVARIANTS TypeOK ExactUnion EachServerOnce NothingEarly QueueBound GoneBeforeTheCall Emit
CHECK_DEADLOCK FALSE
