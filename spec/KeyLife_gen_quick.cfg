SPECIFICATION GSpec
CONSTANTS
  Mode = "cover"
  NK = 3
  MaxT = 3
  MaxRot = 2
  MaxReq = 3
  V = 2
  Orders <- BothOrders
  NModes <- NAny
  Sigs <- SGood
  ReqTS <- TS03
  StoreRule = "held"
VIEW View
INVARIANTS TypeOK Sound Complete NoNeedlessContact InOrder ExpiredDecides KnownExpiry OldKeyStillVerifies DBMonotone ExpiredIsFinal FreshIsKept NothingInvented StoredFetched Continuity LastDB OutageHarmless OutageInHistory Again Sanity Emit
PROPERTIES EnvLeavesDB
CHECK_DEADLOCK FALSE
