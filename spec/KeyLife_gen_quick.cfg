\* KeyLife_gen_quick.cfg: every transition: 2 key IDs (1 rotation), ticks 0..3, both fetcher orders (MaxReq unused in cover mode)
SPECIFICATION GSpec
CONSTANTS
  Mode = "cover"
  NK = 2
  MaxT = 3
  MaxRot = 1
  MaxReq = 3
  V = 2
  Orders <- BothOrders
  NModes <- NAny
  Sigs <- SGood
  ReqTS <- TS03
  Rules <- RBoth
  StoreRule = "monotone"
VIEW View
INVARIANTS TypeOK Sound Complete NoNeedlessContact InOrder ExpiredDecides KnownExpiry OldKeyStillVerifies DBMonotone ExpiredIsFinal NothingInvented StoredFetched Continuity LastDB OutageHarmless OutageInHistory Again RetiredForGood Sanity Emit
PROPERTIES EnvLeavesDB EveryCallOK
CHECK_DEADLOCK FALSE
