SPECIFICATION Spec
CONSTANTS
  Family = "event1"
  Versions <- VersionsFour
  TypesC <- TypesAll
  Depth = "edge"
  FieldSet = "core"
  Entries <- EntriesUntrusted
  MaxOps = 2
  Heavy <- HeavyEnv
  HeavyAfter <- NoOps
  Muts <- NoOps
INVARIANTS TypeOK NoPanic WellOrdered Emit
CHECK_DEADLOCK FALSE
