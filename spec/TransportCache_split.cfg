SPECIFICATION Spec
CONSTANTS
  Procs = {"c1", "c2"}
  Names = {"a", "b"}
  MaxCalls = 1
  MaxAge = 2
  MaxReap = 2
  Faults = TRUE
  SplitGet = TRUE
  TouchOutside = FALSE
VIEW View
INVARIANTS TypeOK OneTransportPerName CallersShareTheCachedTransport SameNameSameTransport IdentitiesNeverReused NeverHalfInitialised BoundedRetries OnlyAgedAreReaped
