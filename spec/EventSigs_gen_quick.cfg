SPECIFICATION Spec
CONSTANTS
  Versions <- VersionsAll
  MaxFaults = 1
  SourceVersions <- SourceVersionsQuick
  BatchVersions <- BatchVersionsQuick
  BatchLens <- BatchLensQuick
  FullRange = TRUE
INVARIANTS TypeOK PCovers PExact PFail PSources POneBad POthers PRequired PStrict PInstants PBatchAlone PBatchAsk PBatchSane Emit
CHECK_DEADLOCK FALSE
