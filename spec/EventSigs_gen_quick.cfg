SPECIFICATION Spec
CONSTANTS
  Versions <- VersionsAll
  MaxFaults = 1
  SourceVersions <- SourceVersionsQuick
INVARIANTS TypeOK PCovers PExact PFail PSources POneBad POthers PRequired PStrict Emit
CHECK_DEADLOCK FALSE
