--------------------------- MODULE DNSCache_trace ---------------------------
(* C19, code -> spec: a RECORDED free-running concurrent execution of the real   *)
(* fclient.DNSCache must be a behaviour of the design DNSCache.tla.              *)
(*                                                                              *)
(* Route: this module EXTENDS DNSCache and uses its actions unchanged (Call,     *)
(* L1Retry, ResolveOk, ResolveFail, L2Lock, L2Evict, L2Insert, DialOk, DialFail, *)
(* DelRetry, Expire); the invariants checked are the design's own.               *)
(*                                                                              *)
(* What the recorder (harness/cmd/c19/dnstrace.go) can see, in the order of one  *)
(* global atomic stamp (op A precedes op B in real time if A.end < B.start):     *)
(*   reset   a new run on a fresh cache (size, zero-lifetime flag)               *)
(*   start   caller p is about to call lookup / DialContext for host h           *)
(*   end     the call has returned: status, address served                       *)
(*   rcall   the resolver stub was entered by p for name h  (after p's L1)       *)
(*   rok / rfail   the stub returns answer number v / fails  (before p's L2)     *)
(*   dial    the dial hook: address dialled [h, v], scripted outcome             *)
(*   expire  environment step Expire(h), done and stamped UNDER the mutex        *)
(*   snap    the entry map (eviction order), read and stamped UNDER the mutex    *)
(* What it cannot see are the critical sections (no hook inside dnscache.go).    *)
(* They are INTERNAL steps here: the first L1 of a call (Call), L1Retry, the L2  *)
(* block L2Lock-L2Evict*-L2Insert and DelRetry may be taken by TLC anywhere      *)
(* between the caller's own lines that bracket them.  TLC searches (depth first) *)
(* for ONE interleaving of the recorded lines, in their order, with internal     *)
(* steps that consumes every line: a linearization.  The real execution is such  *)
(* an interleaving (each critical section happened between two stamps), so a     *)
(* trace of a correct cache is always accepted.  Lines are only consumed while   *)
(* the mutex is free: they are local to their caller (or are taken under the     *)
(* mutex: expire, snap), so they commute with the L2 block of another caller.    *)
(*                                                                              *)
(* Acceptance is a high-water mark (TLCSet/TLCGet register 1) of consumed lines, *)
(* not the diameter; once a linearization is found the search stops.             *)
(*                                                                              *)
(* Diagnosis.  When NO linearization exists the check re-runs the search with    *)
(* Relax # "none": the design is weakened by exactly one faulty critical section *)
(* (serving an expired entry, inserting although the map is full, keeping the    *)
(* stale entry at L1, storing under another key).  `viol` collects the design    *)
(* invariants broken along the path; a trace that only a weakened design         *)
(* explains is reported under the invariant that design breaks.  The same        *)
(* switch shows the invariants have teeth (each relaxation breaks its own).      *)
EXTENDS DNSCache, Sequences, Json, IOUtils

CONSTANT Relax      \* "none" | "stale" | "oversize" | "keepstale" | "wrongkey"

Trace == ndJsonDeserialize(IOEnv.TRACE_FILE)
N == Cardinality(DOMAIN Trace)

VARIABLES l,      \* next trace line
          ph,     \* per caller: where its current call is with respect to its own lines
          viol    \* names of the design invariants broken so far on this path
tvars == <<l, ph, viol>>

NoPh == [t |-> "none", k |-> "", h |-> ""]
Ph(t) == [NoPh EXCEPT !.t = t]

(* hosts of the map in eviction order (ascending expiry rank), as the snapshot lists them *)
RECURSIVE SnapSeq(_)
SnapSeq(f) == IF DOMAIN f = {} THEN << >>
              ELSE LET o == Oldest(f)
                   IN  <<[h |-> o, vh |-> f[o].val.h, v |-> f[o].val.v, fresh |-> Fresh(f[o])]>> \o SnapSeq(Without(f, o))

(* ------------------------- the design's invariants ------------------------- *)
InvNames == {"TypeOK", "SizeBound", "ServedFreshAndSequential", "NoCrossHost", "RefinesSequential",
             "MissReturnsOwnAnswer", "MutexDiscipline"}
Holds(n) == CASE n = "TypeOK" -> TypeOK
              [] n = "SizeBound" -> SizeBound
              [] n = "ServedFreshAndSequential" -> ServedFreshAndSequential
              [] n = "NoCrossHost" -> NoCrossHost
              [] n = "RefinesSequential" -> RefinesSequential
              [] n = "MissReturnsOwnAnswer" -> MissReturnsOwnAnswer
              [] n = "MutexDiscipline" -> MutexDiscipline

(* --------------------------- weakened designs ------------------------------ *)
(* "stale": the first critical section serves the entry without looking at its expiry. *)
L1Stale(p, lc) ==
  /\ Relax = "stale"
  /\ mu = "free"
  /\ lc.host \in DOMAIN entries /\ ~Fresh(entries[lc.host])
  /\ loc' = [loc EXCEPT ![p] = [lc EXCEPT !.got = entries[lc.host].val, !.cached = TRUE,
                                          !.pc = IF lc.kind = "lookup" THEN "idle" ELSE "dial",
                                          !.status = IF lc.kind = "lookup" THEN "hit" ELSE "run"]]
  /\ served' = [served EXCEPT ![p] = [h |-> lc.host, val |-> entries[lc.host].val, sval |-> SeqRead(seq, lc.host)]]
  /\ UNCHANGED <<entries, seq, mu, tick, nres, nexp, stored>>

(* "keepstale": the first critical section leaves the expired entry in the map. *)
L1Keep(p, lc) ==
  /\ Relax = "keepstale"
  /\ mu = "free"
  /\ lc.host \in DOMAIN entries /\ ~Fresh(entries[lc.host])
  /\ seq' = SeqGC(seq, lc.host)
  /\ loc' = [loc EXCEPT ![p] = [lc EXCEPT !.pc = "resolve", !.status = "run", !.cached = FALSE, !.got = NoAns]]
  /\ UNCHANGED <<entries, served, mu, tick, nres, nexp, stored>>

L1Weak(p, lc) == L1Stale(p, lc) \/ L1Keep(p, lc)

(* the store of the second critical section, under key g, with the size test `guard` *)
L2Store(p, g, guard) ==
  /\ loc[p].pc = "L2loop"
  /\ mu = p
  /\ guard
  /\ tick' = tick + 1
  /\ entries' = With(entries, g, [val |-> loc[p].ans, exp |-> InsertRank(tick + 1)])
  /\ seq' = SeqStore(seq, loc[p].host, loc[p].ans, tick + 1)
  /\ stored' = [stored EXCEPT ![p] = [h |-> g, val |-> loc[p].ans]]
  /\ mu' = "free"
  /\ loc' = [loc EXCEPT ![p] = [@ EXCEPT !.got = loc[p].ans, !.cached = FALSE,
                                         !.pc = IF loc[p].kind = "lookup" THEN "idle" ELSE "dial",
                                         !.status = IF loc[p].kind = "lookup" THEN "miss" ELSE "run"]]
  /\ UNCHANGED <<nres, nexp, ncalls, served>>

(* "oversize": the eviction loop stops one entry early (`>` for `>=`). *)
L2Over(p) == Relax = "oversize" /\ L2Store(p, loc[p].host, Len(entries) = Size)
(* "wrongkey": the answer is stored under another host's key. *)
L2Wrong(p) == Relax = "wrongkey" /\ \E g \in Hosts \ {loc[p].host} : L2Store(p, g, Len(entries) < Size)

(* ------------------------------ the search -------------------------------- *)
TInit ==
  /\ Init
  /\ l = 1
  /\ ph = [p \in Procs |-> NoPh]
  /\ viol = {}
  /\ TLCSet(1, 1)
  /\ TLCSet(2, {})

ResetAll ==
  /\ entries' = Empty /\ mu' = "free" /\ tick' = 0 /\ nres' = 0 /\ nexp' = 0
  /\ loc' = [p \in Procs |-> IdleLoc] /\ ncalls' = [p \in Procs |-> 0]
  /\ seq' = Empty /\ served' = [p \in Procs |-> NoServed] /\ stored' = [p \in Procs |-> NoStored]

(* One recorded line.  Every line names what must be true of the design's state when it was logged. *)
Consume(x) ==
  \/ /\ x.e = "reset"
     /\ x.size = Size /\ x.dur0 = ZeroDuration
     /\ \A p \in Procs : ph[p].t = "none"
     /\ ResetAll /\ UNCHANGED ph
  \/ /\ x.e = "start"
     /\ ph[x.p].t = "none" /\ loc[x.p].pc = "idle"
     /\ ph' = [ph EXCEPT ![x.p] = [t |-> "start", k |-> x.k, h |-> x.h]]
     /\ UNCHANGED vars
  \/ /\ x.e = "rcall"                       \* p is past its L1, which was a miss, and asks for ITS host
     /\ ph[x.p].t = "run" /\ loc[x.p].pc = "resolve" /\ loc[x.p].host = x.h
     /\ ph' = [ph EXCEPT ![x.p] = Ph("res")]
     /\ UNCHANGED vars
  \/ /\ x.e = "rok"
     /\ ph[x.p].t = "res"
     /\ ResolveOk(x.p) /\ nres' = x.v
     /\ ph' = [ph EXCEPT ![x.p] = Ph("run")]
  \/ /\ x.e = "rfail"
     /\ ph[x.p].t = "res"
     /\ ResolveFail(x.p)
     /\ ph' = [ph EXCEPT ![x.p] = Ph("run")]
  \/ /\ x.e = "dial"                        \* p dials the address it was served / has just stored
     /\ ph[x.p].t = "run" /\ loc[x.p].pc = "dial" /\ loc[x.p].got = [h |-> x.h, v |-> x.v]
     /\ IF x.ok THEN DialOk(x.p) ELSE DialFail(x.p)
     /\ UNCHANGED ph
  \/ /\ x.e = "end"
     /\ ph[x.p].t = "run" /\ loc[x.p].pc = "idle" /\ loc[x.p].status = x.st
     /\ x.st \in {"hit", "miss"} => loc[x.p].got = [h |-> x.h, v |-> x.v]
     /\ ph' = [ph EXCEPT ![x.p] = NoPh]
     /\ UNCHANGED vars
  \/ /\ x.e = "expire"
     /\ Expire(x.h)
     /\ UNCHANGED ph
  \/ /\ x.e = "snap"
     /\ SnapSeq(entries) = x.ents
     /\ UNCHANGED <<vars, ph>>

(* A critical section of p, placed by the search. *)
Internal(p) ==
  \/ /\ ph[p].t = "start"
     /\ \/ Call(p, ph[p].k, ph[p].h)
        \/ /\ loc[p].pc = "idle" /\ ncalls' = [ncalls EXCEPT ![p] = @ + 1]
           /\ L1Weak(p, [IdleLoc EXCEPT !.host = ph[p].h, !.kind = ph[p].k])
     /\ ph' = [ph EXCEPT ![p] = Ph("run")]
  \/ /\ ph[p].t = "run"
     /\ \/ L1Retry(p) \/ L2Lock(p) \/ L2Evict(p) \/ L2Insert(p) \/ DelRetry(p)
        \/ loc[p].pc = "L1" /\ L1Weak(p, loc[p]) /\ UNCHANGED ncalls
        \/ L2Over(p) \/ L2Wrong(p)
     /\ UNCHANGED ph

Broken == {n \in InvNames : ~Holds(n)}

TNext ==
  /\ TLCGet(1) <= N                         \* a linearization has been found: stop
  /\ \/ l <= N /\ mu = "free" /\ Consume(Trace[l]) /\ l' = l + 1
     \/ \E p \in Procs : Internal(p) /\ l' = l
  /\ viol' = viol \cup Broken'

TSpec == TInit /\ [][TNext]_<<vars, tvars>>

(* high-water mark of consumed lines; the invariants broken on the first path that consumed everything *)
Mark == /\ l > TLCGet(1) => TLCSet(1, l)
        /\ (l = N + 1 /\ TLCGet(1) = l) => TLCSet(2, viol)

(* the design's invariants at every step of the search (strict cfg); Broken is recomputed from them *)
ViolConsistent == viol = {} \/ Relax # "none"

Report ==
  /\ IF TLCGet(1) <= N
     THEN PrintT("TRACE_REJECTED " \o ToJson(<<TLCGet(1)>>))
     ELSE PrintT("TRACE_VIOL " \o ToJson(TLCGet(2)))
  /\ TRUE
=============================================================================
