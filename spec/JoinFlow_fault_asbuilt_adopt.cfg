SPECIFICATION Spec
CONSTANTS
  VerSet <- VersFault
  Budget = 2
  Fault = "asbuilt_adopt"
  Strict = FALSE
INVARIANTS TypeOK ReturnedIsTheJoin
CHECK_DEADLOCK FALSE
