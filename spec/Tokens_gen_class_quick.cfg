SPECIFICATION SpecClass
CONSTANTS
  Secrets = {"k1", "k2"}
  Users <- ClassUsers
  Durations = {0}
  Offsets <- OffsetsClass
  MaxAlter = 0
  WideNeighbours = FALSE
INVARIANTS TypeOK Sound Complete RevealsUser ReadThenValidate Emit
CHECK_DEADLOCK FALSE
