--------------------------- MODULE Lifecycle_trace ---------------------------
(***************************************************************************)
(* Trace validation (code -> spec) for Lifecycle.tla.  Each line of the    *)
(* trace is one remote datum (a byte string produced by the seeded         *)
(* mutational driver) with the library calls made on it, in order, and the *)
(* outcome of each.  A line is accepted iff the life-cycle machine         *)
(* explains it: every call is one the machine knows, applied in a state    *)
(* that offers it (accessors and checks only after a parse that            *)
(* succeeded), and every outcome is one the call's signature offers -      *)
(* `ok`, or `error` where there is an error channel.  `panic` is not an    *)
(* outcome of anything.                                                    *)
(***************************************************************************)
EXTENDS Lifecycle, Json, IOUtils

Trace == ndJsonDeserialize(IOEnv.TRACE_FILE)

VARIABLES l,     \* next trace line
          bad    \* lines the specification does not explain
tvars == <<st, subject, hist, l, bad>>

\* run the recorded calls of one datum through the machine
Final(calls) ==
    LET f[i \in 0..Len(calls)] == IF i = 0 THEN "raw" ELSE AfterCall(f[i - 1], calls[i].call, calls[i].outcome)
    IN f[Len(calls)]

TInit == l = 1 /\ bad = <<>> /\ st = "raw" /\ subject = 0 /\ hist = <<>>

\* One step per logged datum.  A line the specification does not explain is recorded (so the rest of the
\* trace is still checked in the same run) and makes the trace rejected.
TStep ==
    /\ l <= Len(Trace)
    /\ LET fin == Final(Trace[l].calls) IN
         /\ bad' = IF fin = "bad" THEN Append(bad, l) ELSE bad
         /\ st' = IF fin = "bad" THEN "raw" ELSE fin
    /\ subject' = Trace[l].id
    /\ hist' = <<>>
    /\ l' = l + 1

TSpec == TInit /\ [][TStep]_tvars

Report == (l = Len(Trace) + 1 /\ bad # <<>>) => PrintT("TRACE_REJECTED " \o ToJson(bad))
TraceAccepted == TLCGet("stats").diameter - 1 = Len(Trace)
=============================================================================
