------------------------------ MODULE Lifecycle ------------------------------
(***************************************************************************)
(* C18 - the life of remote data inside gomatrixserverlib.                 *)
(*                                                                         *)
(*   Raw --Parse(entry point)--> Parsed | Error                            *)
(*   Raw --Canonicalise / VerifyJSON / CheckKeys / ParseAuthorization /    *)
(*         ParseIdentifier / Decode(response body) / ...--> Raw            *)
(*   Parsed --Accessor(a) / Helper(h) / VerifySignatures / AuthCheck /     *)
(*            AddToProvider / Resolve(entry, role)--> Parsed               *)
(*   Parsed --Redact / Sign / SetUnsigned / Reload / Headered--> Parsed    *)
(*                                                                         *)
(* Every operation ends in one of the outcomes its signature offers:       *)
(* `ok`, or `error` when the operation has an error channel.  Nothing      *)
(* else exists - in particular no `panic` (invariant NoPanic).             *)
(*                                                                         *)
(* The datum is described abstractly: a subject of a given type in a room  *)
(* of a given version, well formed except for at most two *faults*; a      *)
(* fault replaces the value at a path by a member of an input class.       *)
(* Input classes are named by what distinguishes them for the checks the   *)
(* design makes (empty, no sigil, empty local part, no domain, domain with *)
(* a space, longer than 255 bytes but not code points, JSON null, integer  *)
(* boundaries, ...); the harness owns the concrete member of each class.   *)
(* The identifier classes refine those of Ident.tla (atoms -> named        *)
(* classes): C17 decides which are valid, here only survival matters.      *)
(***************************************************************************)
EXTENDS Integers, Sequences, FiniteSets, TLC, MatrixBase

\* ------------------------------------------------------------------------
\* Input classes
\* ------------------------------------------------------------------------
\* strings offered where an identifier is expected; the sigil is that of the field
IdStringsCore == {"empty", "nosigil", "sigil_only", "sigil_colon", "nodomain", "baddomain_space", "long300", "long_mb",
                  "upper_valid", "escaped_valid"}   \* the last two: the well-formed value in another letter case / spelled with \u escapes
IdStringsMore == {"wrongsigil", "colon_only", "opaque43", "opaque43_domain", "empty_domain", "baddomain_slash", "badport",
                  "ipv6_unclosed", "ipv6_bad", "nul", "nonascii", "upper", "other", "base64key", "short_b64"}
IdStrings == IdStringsCore \cup IdStringsMore
\* a JSON value of another type where a string / object / number is expected
WrongTypes == {"missing", "null", "true", "number", "string", "array", "empty_obj", "object"}
Numbers == {"zero", "negative", "float", "int_max", "int_min", "int_2p53", "int_2p53p1", "int_n2p53", "int64_max", "int64_over",
            "int64_min", "int64_under", "uint64_max", "bigint", "bigfloat", "negzero", "exp", "exp_upper", "exp_neg",
            "plus", "leading_zero", "string_num", "string_sp", "string_big"}
NumbersCore == {"zero", "int_max", "int_min", "int_2p53", "int64_max", "int64_over", "int64_min", "float", "string_num"}
\* spellings that are not JSON at all
NotJSON == {"plus", "leading_zero"}
\* numbers that canonical JSON (room version 6 and later) forbids anywhere in an event
NonCanonical == {"float", "int_2p53", "int_2p53p1", "int_n2p53", "int64_max", "int64_over", "int64_min", "int64_under", "uint64_max",
                 "bigint", "bigfloat", "negzero", "exp", "exp_upper", "exp_neg"}
Blobs == {"empty_str", "empty_arr", "arr_number", "arr_null", "arr_obj", "garbage", "esckey", "deep", "deep_obj",
          "badutf8", "nulstr", "lone_surrogate", "long_str"}
Values == WrongTypes \cup Numbers \cup Blobs
ValuesCore == {"missing", "null", "string", "array", "number", "int_max", "int_min", "int_2p53", "empty_obj", "garbage"}
RefShapes == {"empty", "other_format", "unknown", "dup", "self", "cycle", "many", "many_1000", "tuple_empty", "tuple_short", "tuple_long", "tuple_badhash",
              "tuple_nonstr", "elem_empty", "elem_sigil", "missing", "null", "string", "number", "object",
              "arr_number", "arr_null", "arr_obj"}
KeyShapes == {"pk_short", "pk_len33", "pk_empty", "pk_badb64", "pk_number", "pk_missing"}
\* signatures objects with several entries (two key IDs, two servers, a usable next to an unusable one, other base64 spellings)
SigShapes == {"sig_two_keys", "sig_two_servers", "sig_good_and_short", "sig_padded", "sig_urlsafe"}
\* a sender "key" of another length, with a 64 byte signature made under that name (room versions with pseudo IDs)
PseudoKeys == {"key0", "key2", "key31", "key33", "key64", "keyvalid"}
Spellings == {"pretty", "reversed", "escaped_keys", "escaped_strings"}

Lit(S) == {"v:" \o s : s \in S}

\* ------------------------------------------------------------------------
\* Room-ID shapes across the families of room versions
\* ------------------------------------------------------------------------
\* A room ID has one of two shapes: with a domain ("!opaque:domain": every version below 12 and the unstable versions
\* built on them) or domainless ("!" followed by the 43 URL-safe base64 characters of the create event's reference
\* hash: version 12 and what is built on it).  One type (spec.RoomID) serves both, and part of its interface is
\* partial (Domain() of a domainless ID).  A remote server can send, into a room of one family, an event - the create
\* event in particular - whose room ID has the shape of the OTHER family.  Whatever the parser decides about it,
\* every later stage (auth check of the event itself, auth chain, state response, state resolution, handlers) has to
\* answer `ok | error` (NoPanic): the dimension is enumerated by CrossShapeClasses.
RoomIDShape(v) == IF DomainlessRoomIDs(v) THEN "domainless" ELSE "domain"
OtherShape(s) == IF s = "domainless" THEN "domain" ELSE "domainless"
\* The members of a shape and its nearest neighbours:
\*   domainless - 43 URL-safe characters unrelated to the room (opaque43); the very ID the domainless family derives
\*                for this room, "!" + the create event's ID without its sigil (opaque_create); the same length in the
\*                standard base64 alphabet ('+', '/'), one character short, one character long;
\*   domain     - a well-formed ID of another room (other), 43 URL-safe characters followed by a domain, the derived ID
\*                followed by a domain.
ShapeClasses(s) ==
    IF s = "domainless" THEN {"opaque43", "opaque_create", "opaque43_std", "opaque42", "opaque44"}
    ELSE {"other", "opaque43_domain", "opaque_create_domain"}
ShapeStrings == ShapeClasses("domain") \cup ShapeClasses("domainless")
\* the classes offered as the room ID of a subject of type t in a room of version v: the shape of the other family
\* (where event IDs carry a domain themselves there is no derived domainless ID); and where the room ID is derived
\* from the create event, a create event that carries a room_id at all has the layout of the other family, so the
\* family's own shape is foreign there too
CrossShapeClasses(v, t) ==
    LET foreign == ShapeClasses(OtherShape(RoomIDShape(v)))
    IN (IF EventFormat(v) = 1 THEN foreign \ {"opaque_create"} ELSE foreign)
         \cup (IF DomainlessRoomIDs(v) /\ t = "create" THEN {"opaque43", "opaque_create"} ELSE {})

\* ------------------------------------------------------------------------
\* Subjects: event types, their fields (path, kind, group) and the classes a field ranges over
\* ------------------------------------------------------------------------
Types == {"create", "member", "member_tpi", "power_levels", "join_rules", "third_party_invite",
          "redaction", "aliases", "history_visibility", "message"}

F(p, k, g) == [path |-> p, kind |-> k, grp |-> g]

TopFields(v) ==
    {F("top/room_id", "room", "room_id"), F("top/sender", "user", "sender"), F("top/state_key", "user", "state_key"),
     F("top/redacts", "event", "redacts"), F("top/type", "str", "type"), F("content", "json", "content"),
     F("top/prev_events", "refs", "prev"), F("top/auth_events", "refs", "auth"),
     F("top/depth", "int", "depth"), F("top/origin_server_ts", "int", "ts"),
     F("top/hashes", "json", "hashes"), F("top/hashes/sha256", "hash", "hashes"),
     F("top/signatures", "sigs", "signatures"), F("top/signatures/*key", "server", "signatures"),
     \* one entry of the signatures object, next to the others: under the name of the server that will countersign the
     \* event (the local server of the handlers), of the sender's server (the Sign operation), of the inviter's
     \* signing name in PerformInvite, and of a third server
     F("top/signatures/@local", "sigentry", "signatures"), F("top/signatures/@sender", "sigentry", "signatures"),
     F("top/signatures/@inviter", "sigentry", "signatures"), F("top/signatures/@third", "sigentry", "signatures"),
     F("top/sender", "pseudokey", "sender"), F("top/x_unknown", "json", "unknown"), F("content/x_unknown", "json", "content"),
     F("spelling", "spelling", "spelling"),
     F("top/unsigned", "json", "unsigned"),
     F("top/sticky", "json", "sticky"), F("top/sticky/duration_ms", "int", "sticky"),
     F("top/msc4354_sticky/duration_ms", "int", "sticky"),
     F("top/event_id", "eventid", "event_id")}

\* a top level key written twice, the extra occurrence first / last (decoders differ in which one they take)
DupFields ==
    UNION {{F(pos \o "/room_id", "room", "room_id"), F(pos \o "/sender", "user", "sender"), F(pos \o "/state_key", "user", "state_key"),
            F(pos \o "/type", "str", "type"), F(pos \o "/content", "json", "content"), F(pos \o "/depth", "int", "depth"),
            F(pos \o "/event_id", "eventid", "event_id")} : pos \in {"dupfirst", "duplast"}}

ContentFields(t) ==
    CASE t = "create" ->
           {F("content/creator", "user", "content"), F("content/room_version", "rv", "content"),
            F("content/additional_creators", "json", "content"), F("content/additional_creators/*elem", "user", "content"),
            F("content/m.federate", "json", "content"), F("content/predecessor", "json", "content")}
      [] t = "member" ->
           {F("content/membership", "membership", "content"), F("content/join_authorised_via_users_server", "user", "content"),
            F("content/third_party_invite", "json", "content"), F("content/mxid_mapping", "json", "content"),
            F("content/mxid_mapping/user_id", "user", "content"), F("content/mxid_mapping/user_room_key", "user", "content"),
            F("content/mxid_mapping/signatures", "json", "content"), F("content/displayname", "json", "content")}
      [] t = "member_tpi" ->
           {F("content/membership", "membership", "content"), F("content/third_party_invite", "json", "content"),
            F("content/third_party_invite/signed", "json", "content"),
            F("content/third_party_invite/signed/mxid", "user", "content"),
            F("content/third_party_invite/signed/token", "token", "content"),
            F("content/third_party_invite/signed/signatures", "sigs", "content"),
            F("content/third_party_invite/signed/signatures/*key", "server", "content")}
      [] t = "power_levels" ->
           {F("content/ban", "int", "content"), F("content/invite", "int", "content"),
            F("content/users_default", "int", "content"), F("content/state_default", "int", "content"),
            F("content/users", "json", "content"), F("content/users/*key", "userkey", "content"),
            F("content/users/$alice", "int", "content"), F("content/events", "json", "content"),
            F("content/events/m.room.name", "int", "content"), F("content/events/m.room.third_party_invite", "int", "content"),
            F("content/notifications", "json", "content"),
            F("content/notifications/room", "int", "content")}
      [] t = "join_rules" ->
           {F("content/join_rule", "join_rule", "content"), F("content/allow", "json", "content"),
            F("content/allow/*elem", "json", "content")}
      [] t = "third_party_invite" ->
           {F("content/public_keys", "json", "content"), F("content/public_keys/*elem", "pubkey", "content"),
            F("content/public_key", "json", "content"), F("content/display_name", "json", "content")}
      [] t = "redaction" -> {F("content/redacts", "event", "content"), F("content/reason", "json", "content")}
      [] t = "aliases" -> {F("content/aliases", "json", "content"), F("content/aliases/*elem", "json", "content")}
      [] t = "history_visibility" -> {F("content/history_visibility", "hv", "content")}
      [] OTHER -> {F("content/body", "json", "content"), F("content/m.relates_to", "json", "content")}

Fields(v, t) == TopFields(v) \cup ContentFields(t) \cup DupFields

\* classes of a field by its kind; depth "core" keeps the classes named in the property's discussion,
\* "full" is everything, "extra" = full minus core
\* depth "edge": the few members of each kind at which behaviour changes (used for the all-versions family)
ClassesEdge(kind) ==
    CASE kind \in {"room", "user", "event"} -> {"empty", "sigil_colon", "missing"}
      [] kind = "eventid" -> {"empty", "collide"}
      [] kind \in {"server", "userkey"} -> {"empty", "short_b64"}
      [] kind = "json" -> {"null", "array"}
      [] kind = "sigs" -> {"sig_good_and_short", "sig_two_keys"}
      [] kind = "sigentry" -> {"null", "empty_obj", "string", "number"}
      [] kind = "int" -> {"zero", "int_2p53", "int64_over", "int64_min"}
      [] kind = "refs" -> {"empty", "dup", "self"}
      [] kind \in {"str", "hash", "rv", "hv", "token"} -> {"missing", "empty_str"}
      \* every membership / join rule that a version-specific rule exists for
      [] kind = "membership" -> {"missing", "empty_str"} \cup Lit({"knock", "invite", "leave", "ban"})
      [] kind = "join_rule" -> {"missing", "empty_str"} \cup Lit({"knock", "restricted", "knock_restricted", "public"})
      [] kind = "pubkey" -> {"pk_short", "pk_empty"}
      [] kind = "pseudokey" -> {"key0", "key31", "key64", "keyvalid"}
      [] kind = "spelling" -> {"pretty", "escaped_strings"}

ClassesFor(kind, depth) ==
    LET ids == IF depth = "core" THEN IdStringsCore ELSE IdStrings
        vals == IF depth = "core" THEN ValuesCore ELSE Values
        nums == IF depth = "core" THEN NumbersCore ELSE Numbers
    IN CASE kind \in {"room", "user", "event"} -> ids \cup (WrongTypes \ {"string"})
         [] kind = "eventid" -> ids \cup (WrongTypes \ {"string"}) \cup {"collide"}
         [] kind \in {"server", "userkey"} -> ids
         [] kind = "json" -> vals
         [] kind = "sigs" -> vals \cup SigShapes
         [] kind = "sigentry" -> {"null", "empty_obj", "string", "number", "array", "true", "object"}
         [] kind = "pseudokey" -> PseudoKeys
         [] kind = "spelling" -> Spellings
         [] kind = "int" -> nums \cup WrongTypes
         [] kind = "refs" -> IF depth = "core" THEN {"empty", "other_format", "missing", "null", "string", "self", "cycle", "unknown", "dup", "many"} ELSE RefShapes
         [] kind = "str" -> {"missing", "null", "number", "array", "empty_str", "long_str", "nulstr"}
         [] kind = "hash" -> {"missing", "null", "number", "empty_str", "string", "badutf8"}
         [] kind = "rv" -> {"missing", "null", "number", "array"} \cup Lit({"1", "12", "bogus", ""})
         [] kind = "membership" -> {"missing", "null", "number", "array", "object", "empty_str"}
                                     \cup Lit({"join", "invite", "leave", "ban", "knock", "bogus"})
         [] kind = "join_rule" -> {"missing", "null", "number", "array", "empty_str"}
                                     \cup Lit({"public", "invite", "knock", "restricted", "knock_restricted", "private", "bogus"})
         [] kind = "hv" -> {"missing", "null", "number", "array", "empty_str"} \cup Lit({"shared", "world_readable", "bogus"})
         [] kind = "token" -> {"missing", "null", "number", "empty_str"} \cup Lit({"other"})
         [] kind = "pubkey" -> KeyShapes \cup {"null", "number", "string", "empty_obj"}

ClassesOf(kind, depth) == IF depth = "extra" THEN ClassesFor(kind, "full") \ ClassesFor(kind, "core")
                          ELSE IF depth = "edge" THEN ClassesEdge(kind)
                          ELSE ClassesFor(kind, depth)

NoFault == [path |-> "none", kind |-> "none", grp |-> "none", cls |-> "none"]
Fault(f, c) == [path |-> f.path, kind |-> f.kind, grp |-> f.grp, cls |-> c]

\* What the design fixes about parsing (everything else is left open: "may"):
\*   must    - a well-formed event is accepted;
\*   mustnot - a typed top-level field holding a JSON value of another type, or a number canonical JSON
\*             forbids in a room version that enforces it, is rejected.
StringTyped == {"top/room_id", "top/sender", "top/type", "top/redacts"}
ParseVerdict(v, f1, f2) ==
    LET bad(f) ==
            \/ f.path \in StringTyped /\ f.cls \in {"true", "number", "array", "empty_obj", "object"}
            \/ f.path = "top/state_key" /\ f.cls \in {"true", "number", "array", "empty_obj", "object"}
            \/ f.path \in {"top/depth", "top/origin_server_ts"}
                 /\ f.cls \in {"true", "string", "array", "empty_obj", "object", "float", "bigint", "bigfloat",
                               "string_num", "string_sp", "string_big"}
            \/ f.path = "top/depth" /\ f.cls = "int64_over"      \* depth is a signed 64 bit integer, the timestamp unsigned
            \/ f.kind = "refs" /\ f.cls \in {"string", "number", "object"}
            \* "auth events and prev events must not be nil": ID lists only; where room IDs have no domain
            \* the create event is an implied auth event, so the list is never nil
            \/ f.kind = "refs" /\ f.cls \in {"missing", "null"} /\ EventFormat(v) = 2
                 /\ (f.path = "top/prev_events" \/ ~DomainlessRoomIDs(v))
            \/ EnforcedCanonJSON(v) /\ f.cls \in NonCanonical /\ f.grp # "unsigned"
            \/ f.cls \in NotJSON /\ f.grp # "unsigned"
    IN IF f1 = NoFault /\ f2 = NoFault THEN "must"
       ELSE IF bad(f1) \/ (f2 # NoFault /\ bad(f2)) THEN "mustnot" ELSE "may"

\* ------------------------------------------------------------------------
\* Operations
\* ------------------------------------------------------------------------
Accessors == {"EventID", "RoomID", "SenderID", "Type", "StateKey", "StateKeyEquals", "Content", "Membership", "JoinRule",
              "PowerLevels", "HistoryVisibility", "Redacts", "Redacted", "PrevEventIDs", "AuthEventIDs", "Depth",
              "OriginServerTS", "Unsigned", "JSON", "Version", "IsSticky", "StickyEndTime", "ToHeaderedJSON", "MarshalJSON"}
AccessorsWithError == {"Membership", "JoinRule", "PowerLevels", "HistoryVisibility", "ToHeaderedJSON", "MarshalJSON"}
Helpers == {"MemberContent", "PowerLevelContent", "Creators", "StateNeeded", "StrippedState", "CheckFields",
            "SenderIDMethods", "EventJSONs"}
HelpersWithError == {"MemberContent", "PowerLevelContent", "StrippedState", "CheckFields"}
Mutators == {"Redact", "Sign", "SetUnsigned", "SetUnsignedField", "Reload", "Headered"}
MutatorsWithError == {"SetUnsigned", "SetUnsignedField", "Reload", "Headered"}

AllGroups == {"room_id", "sender", "state_key", "event_id", "redacts", "type", "content", "prev", "auth", "depth", "ts",
              "hashes", "signatures", "unsigned", "sticky", "unknown", "spelling"}
\* the groups of fields an accessor / helper reads (relevance: a fault elsewhere cannot matter to it)
Reads(a) ==
    CASE a \in {"EventID", "JSON", "ToHeaderedJSON", "MarshalJSON", "Redacted", "CheckFields", "EventJSONs", "StrippedState"} -> AllGroups
      [] a = "RoomID" -> {"room_id", "type", "state_key"}
      [] a \in {"SenderID"} -> {"sender"}
      [] a = "SenderIDMethods" -> {"sender", "state_key"}
      [] a = "Type" -> {"type"}
      [] a \in {"StateKey", "StateKeyEquals"} -> {"state_key"}
      [] a = "Content" -> {"content"}
      [] a \in {"Membership", "JoinRule", "PowerLevels", "HistoryVisibility", "MemberContent", "PowerLevelContent"} -> {"content", "state_key", "type"}
      [] a = "Creators" -> {"content", "sender", "type"}
      [] a = "StateNeeded" -> {"content", "sender", "state_key", "type"}
      [] a = "Redacts" -> {"redacts", "content"}
      [] a = "PrevEventIDs" -> {"prev"}
      [] a = "AuthEventIDs" -> {"auth", "room_id", "type", "state_key"}
      [] a = "Depth" -> {"depth"}
      [] a = "OriginServerTS" -> {"ts"}
      [] a = "Unsigned" -> {"unsigned"}
      [] a \in {"IsSticky", "StickyEndTime"} -> {"sticky", "ts"}
      [] OTHER -> {}

\* role "dup": every event (the subject too) is listed twice in the state sets, the auth events and the bodies;
\* role "bare": the state sets hold nothing the checks need - create, power levels and members are reachable only
\* through the auth events each event cites, some events omit one of them, and ONE checker judges them in turn
ResolveDup == {"Resolve:backfill:dup", "Resolve:new:dup", "Resolve:old:dup", "Resolve:direct:dup", "Resolve:topo_auth:dup", "Resolve:linearise:dup",
               "Resolve:checkstate:dup", "Resolve:sendjoin:dup", "Resolve:load:dup"}
ResolveBare == {"Resolve:new:bare", "Resolve:old:bare", "Resolve:direct:bare"}
ResolveOps ==
    {"Resolve:new:state", "Resolve:new:auth", "Resolve:new:both",
     "Resolve:old:state", "Resolve:old:auth", "Resolve:old:both",
     "Resolve:direct:state", "Resolve:direct:auth", "Resolve:direct:both",
     "Resolve:topo_auth:all", "Resolve:topo_prev:all", "Resolve:topo_headered:all",
     "Resolve:linearise:state", "Resolve:linearise:auth", "Resolve:checkstate:state", "Resolve:checkstate:auth",
     "Resolve:sendjoin:state", "Resolve:sendjoin:auth", "Resolve:load:all", "Resolve:authchain:all", "Resolve:backfill:all"}
      \cup ResolveDup \cup ResolveBare
ResolveWithError == {"Resolve:new:state", "Resolve:new:auth", "Resolve:new:both", "Resolve:old:state", "Resolve:old:auth",
                     "Resolve:old:both", "Resolve:checkstate:state", "Resolve:checkstate:auth", "Resolve:sendjoin:state",
                     "Resolve:sendjoin:auth", "Resolve:load:all", "Resolve:authchain:all",
                     "Resolve:backfill:all", "Resolve:backfill:dup", "Resolve:new:dup", "Resolve:old:dup", "Resolve:checkstate:dup", "Resolve:sendjoin:dup", "Resolve:load:dup",
                     "Resolve:new:bare", "Resolve:old:bare"}
\* the federation handlers and PerformInvite, driven with the remote event of the pipeline
HandlerOps == {"Handle:Invite", "Handle:InviteV3", "Handle:SendJoin", "Handle:MakeJoin", "Handle:MakeLeave", "Perform:Invite"}
HeavyBase == {"VerifySignatures", "AuthCheck:event", "AuthCheck:provider", "AddToProvider"} \cup ResolveOps \cup HandlerOps
\* What the application's callbacks answer while an operation runs (all within their contracts): the
\* UserIDForSender querier knows nobody (nil, nil) / fails, the verifier fails, event and state providers fail /
\* return nothing, every event is reported rejected.
Envs == {"qnil", "qerr", "verr", "perr", "pnil", "rejall"}
InEnv(op, e) == op \o "@" \o e
EnvBase == {"Resolve:backfill:all", "VerifySignatures", "AuthCheck:event", "AuthCheck:provider", "AddToProvider", "Resolve:new:both", "Resolve:direct:both",
            "Resolve:checkstate:state", "Resolve:sendjoin:auth", "Resolve:load:all", "Resolve:authchain:all", "Resolve:new:bare"}
              \cup HandlerOps
EnvOps == {InEnv(op, e) : op \in EnvBase, e \in Envs}
HeavyOps == HeavyBase \cup EnvOps
HeavyLite == {"VerifySignatures", "AuthCheck:event", "AuthCheck:provider", "Resolve:new:both", "Resolve:topo_auth:all",
              "Resolve:checkstate:state"}

Acc(a) == "Accessor:" \o a
Hlp(h) == "Helper:" \o h
ParsedOps == {Acc(a) : a \in Accessors} \cup {Hlp(h) : h \in Helpers} \cup Mutators \cup HeavyOps
HeavyWithError == {"VerifySignatures", "AuthCheck:event", "AuthCheck:provider", "AddToProvider"} \cup ResolveWithError \cup HandlerOps
ParsedOpsWithError == {Acc(a) : a \in AccessorsWithError} \cup {Hlp(h) : h \in HelpersWithError} \cup MutatorsWithError
                         \cup HeavyWithError \cup {InEnv(op, e) : op \in EnvBase \cap HeavyWithError, e \in Envs}

DecodeTargets == {"RespState", "RespStateIDs", "RespSendJoin", "RespMakeJoin", "RespMakeLeave", "RespMakeKnock", "RespSendKnock",
                  "RespPeek", "RespMissingEvents", "RespEventAuth", "RespInvite", "RespInviteV2", "InviteV2Request",
                  "InviteV3Request", "RespUserDevices", "RespQueryKeys", "RespClaimKeys", "RespSend", "RespPublicRooms",
                  "RespDirectory", "RoomHierarchy", "MSC2836Response", "CrossSigningKey", "CrossSigningForKey", "Transaction",
                  "ServerKeys", "ServerKeysList", "ProtoEvent", "StrippedState", "DeviceListUpdate", "SendToDevice", "EDU",
                  "PowerLevelContent", "MemberContent", "Base64Bytes", "HexString", "MatrixError"}
Dec(t) == "Decode:" \o t
IdentOps == {"ParseIdentifier:NewRoomID", "ParseIdentifier:NewUserID", "ParseIdentifier:NewUserIDStrict",
             "ParseIdentifier:ServerName", "ParseIdentifier:SenderID", "ParseIdentifier:SplitID"}
JsonOps == {"Canonicalise:CanonicalJSON", "Canonicalise:Enforced", "RedactJSON", "VerifyJSON", "SignJSON", "ListKeyIDs"}
KeyOps == {"CheckKeys", "KeyRing"}
\* A key response is a JSON object whose verify_keys / old_verify_keys are keyed by KEY IDs: any JSON object key is
\* accepted there by the parser, so the shape of the key ID is remote data of its own.  "<algorithm>:<version>" is only
\* the usual shape: the algorithm alone (no colon), an empty version, an empty algorithm, nothing at all, several
\* colons, an algorithm that merely starts with / contains "ed25519", other letter case, a very long one, NUL and
\* non-ASCII bytes.  Crossed with what the key under that ID decodes to (32 bytes - the only length the ed25519
\* branch goes on with - and its neighbours) and with where the member stands (next to a usual key, alone and signed
\* under its own ID, among the old keys).  Every pipeline that takes a key response (KeyOps, the decoder) answers
\* ok or error on each of them (NoPanic over hist, as for every other raw input).
KeyIdShapes == {"alg_only", "alg_colon", "colon_ver", "colon_only", "empty", "two_colons", "alg_prefix", "alg_suffix",
                "other_alg_only", "other_alg", "upper", "space", "long", "nul", "nonascii"}
KeyIdLens == {"len32", "len32_other", "len31", "len33", "len64", "len0", "bad_b64", "key_null", "key_missing"}
KeyIdPlaces == {"verify", "verify_alone", "old", "both"}
HeaderOps == {"ParseAuthorization", "VerifyHTTPRequest"}
BodyOps == {"Body:CheckStateResponse", "Body:SendJoin", "Body:Transaction", "Body:PerformJoin", "Body:LoadAndVerify", "Body:Backfill",
            "Handle:InviteV3"}    \* the v3 invite handler takes the (looser) proto event of the request body
\* the constructors of a typed event: the untrusted parser, and its siblings for bytes the untrusted parser accepted
ParseOps == {"Parse:untrusted", "Parse:trusted", "Parse:headered"}
RawOps == ParseOps \cup {"HTTPRequest"} \cup IdentOps \cup JsonOps \cup KeyOps \cup HeaderOps \cup BodyOps
             \cup {Dec(t) : t \in DecodeTargets}
RawOpsNoError == {"ParseAuthorization", "ParseIdentifier:SenderID"}

Ops == RawOps \cup ParsedOps

\* the outcomes an operation's signature offers
Outcomes(op) == IF op \in RawOps
                THEN (IF op \in RawOpsNoError THEN {"ok"} ELSE {"ok", "error"})
                ELSE (IF op \in ParsedOpsWithError THEN {"ok", "error"} ELSE {"ok"})
\* where in its life the datum must be for the operation to apply
Needs(op) == IF op \in RawOps THEN "raw" ELSE "parsed"

\* ------------------------------------------------------------------------
\* Library calls: the finer vocabulary of recorded executions.  An operation of a pipeline is one or
\* several library calls (AddToProvider = NewAuthEvents + AddEvent + the content loaders, ...).
\* ------------------------------------------------------------------------
ParsedCallsWithError ==
    {Acc(a) : a \in AccessorsWithError} \cup {Hlp(h) : h \in HelpersWithError} \cup MutatorsWithError
      \cup HandlerOps
      \cup {"VerifySignatures", "AddToProvider:NewAuthEvents", "AddToProvider:CreateContent", "AddToProvider:PowerLevelContent",
            "AddToProvider:JoinRuleContent", "AddToProvider:MemberContent", "AddToProvider:ThirdPartyInviteContent",
            "AddToProvider:AuthEventReferences", "AuthCheck:Allowed",
            "Resolve:new", "Resolve:old", "Resolve:checkstate", "Resolve:sendjoin", "Resolve:load", "Resolve:authchain",
            "Resolve:backfill"}
ParsedCallsNoError ==
    {Acc(a) : a \in Accessors \ AccessorsWithError} \cup {Hlp(h) : h \in Helpers \ HelpersWithError}
      \cup (Mutators \ MutatorsWithError)
      \cup {"VerifySignatures:all", "AuthCheck:Valid", "Resolve:direct:v1", "Resolve:direct:v2", "Resolve:direct:v2new",
            "Resolve:topo_auth", "Resolve:topo_prev", "Resolve:topo_headered", "Resolve:linearise"}
ParsedCalls == ParsedCallsWithError \cup ParsedCallsNoError
Calls == RawOps \cup ParsedCalls
CallOutcomes(c) == IF c \in RawOps THEN Outcomes(c)
                   ELSE IF c \in ParsedCallsWithError THEN {"ok", "error"} ELSE {"ok"}
CallNeeds(c) == IF c \in RawOps THEN "raw" ELSE "parsed"

\* the life-cycle state after one recorded call, "bad" when the specification does not explain the line
AfterCall(s, c, outcome) ==
    IF s = "bad" \/ c \notin Calls THEN "bad"
    ELSE IF outcome \notin CallOutcomes(c) THEN "bad"           \* in particular: a panic
    ELSE IF CallNeeds(c) # s THEN "bad"                         \* nothing runs on a datum that is not there
    ELSE IF c \in ParseOps THEN (IF outcome = "ok" THEN "parsed" ELSE "error")
    ELSE s

\* ------------------------------------------------------------------------
\* The state machine
\* ------------------------------------------------------------------------
VARIABLES st,      \* "raw" | "parsed" | "error": where the datum is in its life
          subject, \* the abstract datum (constant along a behaviour)
          hist     \* history: the operations applied, each with the outcomes it may have had
vars == <<st, subject, hist>>

Step(op) == [op |-> op, outs |-> Outcomes(op)]

\* a Raw entry point that yields a typed value: NewEventFromUntrustedJSON and its siblings
Parse(entry, outcome) ==
    /\ st = "raw" /\ entry \in ParseOps
    /\ outcome \in Outcomes(entry)
    /\ st' = IF outcome = "ok" THEN "parsed" ELSE "error"
    /\ hist' = Append(hist, [op |-> entry, outs |-> {outcome}])
    /\ UNCHANGED subject

\* every other Raw entry point answers and leaves nothing behind
RawCall(op) ==
    /\ st = "raw" /\ op \in RawOps \ ParseOps
    /\ hist' = Append(hist, Step(op))
    /\ UNCHANGED <<st, subject>>

\* operations on a parsed event; mutators change the event, not its place in the life cycle
ParsedCall(op) ==
    /\ st = "parsed" /\ op \in ParsedOps
    /\ hist' = Append(hist, Step(op))
    /\ UNCHANGED <<st, subject>>

OpsOf(h) == [i \in 1..Len(h) |-> h[i].op]

(***************************************************************************)
(* The property, over the history alone.                                   *)
(***************************************************************************)
NoPanic == \A i \in 1..Len(hist) : hist[i].outs \subseteq {"ok", "error"} /\ hist[i].outs # {}
\* an operation only ever ran on a datum in the state it needs; nothing follows a failed parse
WellOrdered ==
    /\ \A i \in 1..Len(hist) : Needs(hist[i].op) = "parsed" =>
           \E j \in 1..(i - 1) : hist[j].op \in ParseOps /\ hist[j].outs = {"ok"}
    /\ st = "error" => hist[Len(hist)].op \in ParseOps /\ hist[Len(hist)].outs = {"error"}
TypeOK == st \in {"raw", "parsed", "error"} /\ \A i \in 1..Len(hist) : hist[i].op \in Ops
=============================================================================
