SPECIFICATION Spec
CONSTANTS
  MaxOps = 2
  Lookup = "type"
  Rooms = "held"
INVARIANTS ReadsLastAdd
CHECK_DEADLOCK FALSE
