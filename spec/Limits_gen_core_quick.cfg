SPECIFICATION Spec
CONSTANTS
  Versions <- VersionsAll
  Family = "core"
INVARIANTS RefusedWhenOver PersistableOnlyBytes OkWithin HashIndependent ShapesWellFormed Emit
CHECK_DEADLOCK FALSE
