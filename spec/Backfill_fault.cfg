\* X04: a planted defect of the model requester (checks/x04.py replaces Fault and INVARIANTS): TLC must refute the
\* invariant the defect concerns.
SPECIFICATION BSpec
CONSTANTS
  Start = 3
  Ver = "10"
  MaxFree = 0
  ForkFrom = 5
  TSChoices = {1}
  IdDesc = FALSE
  Dishonest = FALSE
  MaxBad = 0
  Addl = {}
  NServers = 2
  LimitSet <- Limits2
  FromModes <- FromTip
  SliceKinds <- SlicesQuick
  WireKinds <- WiresAll
  Budget = 2
  MaxWorld = 1
  SigTolerance = "only"
  Fault = "none"
INVARIANTS TypeOK
CHECK_DEADLOCK FALSE
