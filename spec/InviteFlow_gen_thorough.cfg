SPECIFICATION Spec
CONSTANTS
  VerSet <- VersAll
  Budget = 3
  Fault = "none"
  Repair = FALSE
INVARIANTS TypeOK Sanity AllowedOnly ReturnedIsTheInvite SentIsTheInvite NoLeak CheckBeforeSend References EnvErrors Complete WhySound Emit
CHECK_DEADLOCK FALSE
