SPECIFICATION FairSpec
CONSTANTS
  Servers = {"s1", "s2", "s3"}
  NWorkers = 2
  Q = 1
  StartFirst = TRUE
  KeyIds = {"k1", "k2"}
  DirectOutcomes = {"ok", "err", "bad"}
  NotaryOutcomes = {"ok", "err", "missing", "bad"}
  HasLocal = TRUE
  CtxModes = {"before", "mid"}
  StopOnDone = TRUE
INVARIANTS TypeOK ExactUnion EachServerOnce NothingEarly QueueBound
PROPERTIES Returns
