----------------------------- MODULE ResolveFn -----------------------------
(***************************************************************************)
(* C16 - the resolution algorithm of Resolve.tla once more, as a FUNCTION  *)
(* of (server name, world): what a server name resolves to, whoever asks   *)
(* and whatever was asked before.  Constant-level (no variables), so that  *)
(* a specification with state of its own (ResolveSeq.tla: one client, many *)
(* requests) can say "the resolution of THIS name" about any name of its   *)
(* world at any time.                                                      *)
(*                                                                         *)
(* Written from the property statement (the order: IP literal, explicit    *)
(* port, the name delegated by /.well-known - itself resolved without a    *)
(* further well-known lookup -, SRV _matrix-fed before _matrix, port 8448; *)
(* Host header and TLS name of the step).  Resolve_gen.tla instances this  *)
(* module and checks (invariant FnAgrees) that function and step machine   *)
(* give the same answer in every scenario and under every latitude.        *)
(*                                                                         *)
(* World W:                                                                *)
(*   W.wk[h]  - what https://h/.well-known/matrix/server amounts to:       *)
(*              [hon |-> honoured (200, <= 50 KiB, names an m.server),     *)
(*               target |-> the name m.server spells]                      *)
(*   W.srv[h] - [fed |-> SRV answer, legacy |-> SRV answer] of host h      *)
(* (both keyed by host token; spellings of one DNS name carry equal        *)
(* entries).  la: the latitude record of Resolve.tla.                      *)
(***************************************************************************)
EXTENDS Integers, Sequences, TLC

DefaultPort == 8448
NoPort == -1

HostPort(h, p) == [h |-> h, p |-> p]
Target(dh, dp, name) ==
    [dest |-> HostPort(dh, dp),
     host |-> HostPort(name.host, name.port),
     sni  |-> name.host]

Plain(n) == n.valid /\ n.lit = "no" /\ n.port = NoPort
NoRecord(a) == a.rc \in {"nx", "nodata"} \/ (a.rc = "ok" /\ a.recs = <<>>)
HasRecs(a) == a.rc = "ok" /\ a.recs # <<>>

ByPriority(recs, tie) == SortSeq(recs, LAMBDA a, b :
    a.prio * 4 + (IF tie = "ab" THEN a.tb ELSE 3 - a.tb) < b.prio * 4 + (IF tie = "ab" THEN b.tb ELSE 3 - b.tb))

Refusal == [refused |-> TRUE, result |-> <<>>]
Targets(ts) == [refused |-> FALSE, result |-> ts]

SrvTargets(n, recs, la) ==
    LET s == ByPriority(recs, la.tie) IN Targets([i \in DOMAIN s |-> Target(s[i].t, s[i].port, n)])

\* steps 4 - 6 (3.3 - 3.5) for the port-less DNS name n
SrvSteps(n, W, la) ==
    LET f == W.srv[n.host].fed
        l == W.srv[n.host].legacy
        default == Targets(<<Target(n.host, DefaultPort, n)>>)
        legacy == IF HasRecs(l) THEN SrvTargets(n, l.recs, la)
                  ELSE IF NoRecord(l) \/ la.srverr \in {"next", "default"} THEN default
                  ELSE Refusal
    IN  IF HasRecs(f) THEN SrvTargets(n, f.recs, la)
        ELSE IF NoRecord(f) \/ la.srverr = "next" THEN legacy
        ELSE IF la.srverr = "default" THEN default
        ELSE Refusal

\* steps 1, 2, 4 - 6: a name that gets no well-known lookup (the delegated name; step 3.1 - 3.5)
NoWellKnown(n, W, la) ==
    IF ~n.valid THEN Refusal
    ELSE IF n.lit # "no" THEN Targets(<<Target(n.host, IF n.port = NoPort THEN DefaultPort ELSE n.port, n)>>)
    ELSE IF n.port # NoPort THEN Targets(<<Target(n.host, n.port, n)>>)
    ELSE SrvSteps(n, W, la)

\* does resolving n ask for n's well-known document?  (only a valid port-less DNS name does)
AsksWellKnown(n) == Plain(n)

\* the resolution of server name n
ResolveName(n, W, la) ==
    IF AsksWellKnown(n) /\ W.wk[n.host].hon
    THEN LET d == W.wk[n.host].target IN
         IF d.valid THEN NoWellKnown(d, W, la)                     \* no second well-known lookup
         ELSE IF la.baddeleg = "step4" THEN SrvSteps(n, W, la)
         ELSE Refusal
    ELSE NoWellKnown(n, W, la)

StrictLat == [srverr |-> "next", baddeleg |-> "refuse", redirect |-> "follow", tie |-> "ab"]
=============================================================================
