SPECIFICATION TSpec
CONSTANT Scenarios = {}
INVARIANT Report
POSTCONDITION TraceAccepted
CHECK_DEADLOCK FALSE
