SPECIFICATION GenSpec
CONSTANTS
  Entities <- GenEntities
  KeyIDs <- GenKeyIDs
  Keys <- GenKeys
  PlainMembers <- GenPlain
  NestedMembers <- GenNested
  Vals <- GenVals
  NVals <- GenNVals
  UVals <- GenUVals
  Presentations <- GenPres
  ForeignForms <- NoForms
  EntityForms <- NoForms
  Starts <- StartsQuick
  MaxLen = 4
  MaxSigns = 2
INVARIANTS TypeOK Complete CompleteNet Sound SoundTamper OneKey SignPreserves UncoveredFree EditsKeepSignatures ForeignEntryLocal ForeignEntityLocal FormsIrrelevant Emit
CHECK_DEADLOCK FALSE
