----------------------------- MODULE Limits_gen -----------------------------
(* Generation wrapper for Limits.tla: one JSON record per judged scenario. *)
EXTENDS Limits, Json

VersionsQuick == {"1", "3", "6", "10", "11", "12", "org.matrix.msc4014"}
VersionsAll == AllVersions
VersionsCtor == {"1", "10", "12"}                              \* one version per untrusted constructor (V1, V2, V3)
VersionsPairQuick == {"1", "10", "12", "org.matrix.msc4014"}
VersionsPlaceQuick == {"1", "4", "10", "12"}                   \* both event formats, every constructor

VClass(v) == IF DomainlessRoomIDs(v) THEN "domainless" ELSE IF PseudoIDs(v) THEN "pseudoid" ELSE "plain"
Cls(x) == IF x > 255 THEN ">255" ELSE "<=255"
FieldDesc(f) == LET sh == sc.fields[f] IN
                IF sh = Natural THEN "" ELSE f \o ":cps" \o Cls(CpsOf(sh)) \o ",bytes" \o Cls(BytesOf(sh)) \o ";"
\* --- naming of the two-excess scenarios -------------------------------------------------------------
\* Bookkeeping, not specification (the judgement is the same for all of them).  known_findings.json lists one
\* open finding: a soft excess of a field the library examines EARLIER returns "persistable" before the hard
\* check of a field it examines LATER (order: room ID in the constructors; event size; type and state key;
\* sender).  Exactly these (soft field, hard item) pairs are covered by it and keep the description its key
\* pattern was written for.  Every other pair is right today and is pinned under a description of its own,
\* which that pattern cannot match.
SoftFields == {f \in Fields : CpsOf(sc.fields[f]) <= 255 /\ BytesOf(sc.fields[f]) > 255}
HardItems == {f \in Fields : CpsOf(sc.fields[f]) > 255} \cup (IF sc.size > 65536 THEN {"size"} ELSE {})
ListedMasked(soft, hard) == \/ soft = "room_id" /\ hard \in {"type", "state_key", "sender", "size"}
                            \/ soft \in {"type", "state_key"} /\ hard = "sender"
Listed == Family = "pair" /\ \E s \in SoftFields, h \in HardItems : ListedMasked(s, h)
PinnedDesc(f) == LET sh == sc.fields[f] IN
                 IF sh = Natural THEN "" ELSE f \o (IF CpsOf(sh) > 255 THEN ":over-cps;" ELSE ":bytes-only;")
Desc == (IF sc.create THEN "create-event;" ELSE "") \o
        (IF Family = "pair" /\ ~Listed
         THEN "two:" \o PinnedDesc("type") \o PinnedDesc("state_key") \o PinnedDesc("sender") \o PinnedDesc("room_id")
         ELSE FieldDesc("type") \o FieldDesc("state_key") \o FieldDesc("sender") \o FieldDesc("room_id"))
        \o (IF sc.size = 0 THEN "" ELSE IF sc.size > 65536 THEN "json>65536;" ELSE "json<=65536;")
        \o (IF sc.hash = "match" THEN "" ELSE "hash=" \o sc.hash \o ";")
\* family "place": where the bulk of the bytes is, what is left of it on receipt, how the event reached CheckFields
PlaceDesc == IF Family # "place" THEN ""
             ELSE "bulk=" \o sc.place \o ";"
                  \o (IF sc.path = "receipt" /\ sc.proper # sc.size
                      THEN (IF sc.proper > 65536 THEN "kept>65536;" ELSE "kept<=65536;") ELSE "")
                  \o (IF sc.via \in {"headered", "setunsigned", "sign"} THEN "via=" \o sc.via \o ";" ELSE "")

Emit == Done =>
          PrintT(ToJson([fam |-> Family, ver |-> sc.ver, path |-> sc.path, hash |-> sc.hash, size |-> sc.size, sizeof |-> sc.sizeof, create |-> sc.create,
                         place |-> sc.place, proper |-> sc.proper, via |-> sc.via, base |-> sc.base, alt |-> Alt(sc), pre |-> pre,
                         fields |-> [f \in Fields |-> [cps |-> sc.fields[f].cps, nwide |-> sc.fields[f].nwide,
                                                       width |-> sc.fields[f].width, bytes |-> BytesOf(sc.fields[f])]],
                         want |-> out, vclass |-> VClass(sc.ver), desc |-> Desc \o PlaceDesc, listed |-> Listed,
                         ret |-> ret, retalt |-> Handed(sc, Alt(sc))]))
\* a list of received events: the items and the indices (1-based) of those that come back, in order
ItemDesc(it) == IF it.kind \in {"soft", "hard"} THEN it.kind \o ":" \o it.field ELSE it.kind
RECURSIVE BatchDesc(_)
BatchDesc(b) == IF b = <<>> THEN "" ELSE ItemDesc(Head(b)) \o ";" \o BatchDesc(Tail(b))
BatchEmit == BatchDone =>
          PrintT(ToJson([fam |-> Family, ver |-> sc.ver, path |-> "list", vclass |-> VClass(sc.ver),
                         items |-> [i \in 1..Len(sc.batch) |->
                                      [kind |-> sc.batch[i].kind, field |-> sc.batch[i].field, want |-> ItemJudgement(sc.batch[i]),
                                       fields |-> [f \in Fields |-> [cps |-> sc.batch[i].fields[f].cps, nwide |-> sc.batch[i].fields[f].nwide,
                                                                     width |-> sc.batch[i].fields[f].width, bytes |-> BytesOf(sc.batch[i].fields[f])]]]],
                         kept |-> keptidx, desc |-> "list:" \o BatchDesc(sc.batch)]))
=============================================================================
