----------------------------- MODULE Limits_gen -----------------------------
(* Generation wrapper for Limits.tla: one JSON record per judged scenario. *)
EXTENDS Limits, Json

VersionsQuick == {"1", "3", "6", "10", "11", "12", "org.matrix.msc4014"}
VersionsAll == AllVersions

VClass(v) == IF DomainlessRoomIDs(v) THEN "domainless" ELSE IF PseudoIDs(v) THEN "pseudoid" ELSE "plain"
Cls(x) == IF x > 255 THEN ">255" ELSE "<=255"
FieldDesc(f) == LET sh == sc.fields[f] IN
                IF sh = Natural THEN "" ELSE f \o ":cps" \o Cls(CpsOf(sh)) \o ",bytes" \o Cls(BytesOf(sh)) \o ";"
Desc == FieldDesc("type") \o FieldDesc("state_key") \o FieldDesc("sender") \o FieldDesc("room_id")
        \o (IF sc.size = 0 THEN "" ELSE IF sc.size > 65536 THEN "json>65536;" ELSE "json<=65536;")
        \o (IF sc.hash = "match" THEN "" ELSE "hash=" \o sc.hash \o ";")

Emit == Done =>
          PrintT(ToJson([fam |-> Family, ver |-> sc.ver, path |-> sc.path, hash |-> sc.hash, size |-> sc.size, sizeof |-> sc.sizeof,
                         fields |-> [f \in Fields |-> [cps |-> sc.fields[f].cps, nwide |-> sc.fields[f].nwide,
                                                       width |-> sc.fields[f].width, bytes |-> BytesOf(sc.fields[f])]],
                         want |-> out, vclass |-> VClass(sc.ver), desc |-> Desc]))
=============================================================================
