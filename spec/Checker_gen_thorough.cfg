SPECIFICATION Spec
CONSTANTS
  Versions <- VersionsAll
  MaxLen = 3
  CacheKey = "object"
INVARIANTS Coherent OnlyNeeded EmitPool Emit
CHECK_DEADLOCK FALSE
