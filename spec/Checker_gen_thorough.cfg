SPECIFICATION Spec
CONSTANTS
  Versions <- VersionsAll
  MaxLen = 3
INVARIANTS Coherent OnlyNeeded Emit
CHECK_DEADLOCK FALSE
