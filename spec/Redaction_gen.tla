--------------------------- MODULE Redaction_gen ---------------------------
(***************************************************************************)
(* Scenario generator and state machine for Redaction.tla.                 *)
(*                                                                         *)
(* Init chooses an event: room version x event type x presence shape x     *)
(* value-class offset.  The one action Check applies the redaction         *)
(* operation once and twice (history variables r1, r2); the property is    *)
(* stated over (e, r1, r2); Emit prints the scenario and the key sets the  *)
(* specification keeps, for replay against IRoomVersion.RedactEventJSON    *)
(* and PDU.Redact().                                                       *)
(*                                                                         *)
(* Families                                                                *)
(*   raw  the event is only a JSON object handed to RedactEventJSON:       *)
(*        every top-level key except type/content is optional and every    *)
(*        value is drawn from the free value classes                       *)
(*   pdu  the event is a well-formed PDU (built with EventBuilder.Build,   *)
(*        signed by two servers): the keys a PDU needs are present with    *)
(*        well-typed values ("std"), the other candidates are optional     *)
(*                                                                         *)
(* Presence shapes are pairwise-exhaustive over the pool of optional       *)
(* top-level keys and candidate content keys of the type: none, every key  *)
(* alone, every pair, all but one, all ("lite" offsets: none, singles,     *)
(* all; "all-only" offsets: all), plus the keys only other event types     *)
(* keep: all of them on top of everything, and (full offsets) each alone.  *)
(*                                                                         *)
(* Value classes (realised by the harness):                                *)
(*   std  the well-typed value the key normally has                        *)
(*   imax 9007199254740991   imin -9007199254740991                        *)
(*   esc  a string with < > & and U+2028 (escaped by Go's encoder)         *)
(*   obj  a nested object    arr  an array    null                         *)
(*   zero 0   estr ""   eobj {}   earr []   false   (values an "omit when  *)
(*        empty" treatment would lose)   iexp 1E2 (an integer, spelt with  *)
(*        an exponent; raw family only)                                    *)
(* Each key gets class FreeClasses[(index of key + offset) mod 12], so that*)
(* over the offsets every key takes every class and the keys of a shape    *)
(* take different classes.                                                 *)
(*                                                                         *)
(* Scenario kinds (constant Kinds)                                         *)
(*   lattice  the presence lattice described above                         *)
(*   vocab    "everything else is removed", with the unlisted keys drawn   *)
(*            from a VOCABULARY instead of a handful of invented names:    *)
(*            every JSON member name that occurs in the sources of the     *)
(*            library under test (gathered by checks/c05.py at check time, *)
(*            read here from the file IOEnv.C05_VOCAB), minus the names    *)
(*            the algorithm lists for the position.  The vocabulary is     *)
(*            rotated over the records in chunks of ChunkSize names, at    *)
(*            the top level and inside the content of every event type.    *)
(*   hist     redaction is a FUNCTION of the event: the process that       *)
(*            redacts `e` has handled other calls before (history variable *)
(*            `hist`, actions EarlierAccepted / EarlierRefused: events     *)
(*            whose every listed key carries the value class "poison",     *)
(*            some of them refused because `content` is not an object or   *)
(*            `type` not a string).  r0 is the result in a process without *)
(*            history; PHistory: the result after any history is r0 and    *)
(*            holds no value of an earlier call.                           *)
(*   route    the event OBJECT route: an object is made from the JSON of a *)
(*            well-formed signed PDU through one of the entry points       *)
(*            (trusted / with-event-ID / headered / untrusted parse), then *)
(*            RouteSteps operations are applied in any order - actions     *)
(*            RSign / RSetUnsigned / RReadEventID / RRedact - and the      *)
(*            object is observed after each.  History variable `route`     *)
(*            (steps, trail of before/after objects); PRoute: every step   *)
(*            keeps identity, signatures and core keys, Redact() is the    *)
(*            redaction of the JSON the object has at that moment.         *)
(*            Scenario dimensions: entry x spelling of the JSON text       *)
(*            (canonical / members reversed + whitespace / escapes inside  *)
(*            strings: the specification does not read it) x an event_id   *)
(*            member in the JSON (room version 3+) x event type x shape.   *)
(***************************************************************************)
EXTENDS Redaction, Json, IOUtils

CONSTANTS Versions,     \* room versions to enumerate
          FullVersions, \* room versions that get the full lattice at the full offsets (the others: lite)
          Families,     \* subset of {"raw", "pdu"}
          Kinds,        \* subset of {"lattice", "vocab", "hist"}
          ChunkSize,    \* vocab: vocabulary names per record
          MaxHist,      \* hist: longest history enumerated
          FullOffsets,  \* offsets enumerated with the full pairwise lattice
          LiteOffsets,  \* offsets enumerated with none / singles / all only
          AllOnlyOffsets, \* offsets enumerated with the shape "all" only (every key still takes the class)
          RouteSteps,   \* route: operations applied to the object after it was made
          RouteFull     \* route: TRUE = every type x shape x (entry, spelling, event_id member) combination;
                        \*        FALSE = the pruned set (see InitRoute)

VersionsAll == AllVersions
\* one version per (event format, redaction algorithm) combination
VersionsPairs == {"1", "3", "6", "8", "10", "12"}
Off0 == {0}
Off48 == {4, 8}
OffOthers == (1..11) \ {4, 8}
OffAll == 0..11
OffLow == 0..5
OffHigh == 6..11
OffNone == {}
FamRaw == {"raw"}
FamPdu == {"pdu"}
FamBoth == {"raw", "pdu"}
KindsLattice == {"lattice"}
KindsExtra == {"vocab", "hist"}
KindsRoute == {"route"}
\* one version per event format of the objects (v1: event_id member and references with hashes, v10: ID lists,
\* v12: domainless room IDs), with algorithms 1, 4, 5
VersionsRoute == {"1", "10", "12"}

VARIABLES ver, e, r1, r2, phase,
          fam,    \* family of the scenario
          kind,   \* kind of the scenario
          r0,     \* hist: the result of redacting e in a process that has done nothing else
          hist,   \* the calls the same process handled before the one under observation, oldest first
          route   \* route: entry point, spelling and the trail of (operation, object after it), the entry point first
vars == <<ver, e, r1, r2, phase, fam, kind, r0, hist, route>>

Types == ProtectedTypes \cup {"other"}
\* "other" is realised as m.room.message (std) or as a custom type with escapable characters (esc)

\* --- candidate keys ------------------------------------------------------------------
\* "depthx": a key of which a listed key is a proper prefix (near-coincidence)
TopExtras == {"unsigned", "age_ts", "redacts", "foo", "depthx"}
\* keys that differ from a listed key only in case are not listed: they must go, and must not come back
\* under the listed spelling
CaseVariants == {"Origin", "Depth"}
TopOptRaw == (TopKeepOld \ {"type", "content"}) \cup TopExtras \cup CaseVariants
\* (`event_id`: mandatory in event format 1; from room version 3 on an optional member that trusted JSON - e.g. read
\* back from a database - may carry: it is listed, so it is kept, and it is then the event ID of the object)
TopOptPdu == {"state_key", "prev_state", "origin", "membership", "event_id"} \cup TopExtras

\* keys a parsed PDU must have
PduMandatory(v, roomless) ==
    {"type", "content", "sender", "depth", "prev_events", "auth_events", "origin_server_ts",
     "hashes", "signatures"}
    \cup (IF roomless THEN {} ELSE {"room_id"})
    \cup (IF EventFormat(v) = 1 THEN {"event_id"} ELSE {})

KeepUnion(t) == UNION {ContentKeep(a, t) : a \in Algos}
\* per type: unlisted keys, one key that only another type keeps, one key that extends a listed key by a letter,
\* and keys named like top-level keys
ConExtras(t) ==
    CASE t = "m.room.member" -> {NestedKey, "displayname", "redacts", "membershipx"}
      [] t = "m.room.create" -> {"room_version", "m.federate", "predecessor", "additional_creators", "membership", "creatorx"}
      [] t = "m.room.join_rules" -> {"foo", "membership", "join_rulex"}
      [] t = "m.room.power_levels" -> {"notifications", "membership", "banx"}
      [] t = "m.room.history_visibility" -> {"foo", "ban", "history_visibilityx"}
      [] t = "m.room.aliases" -> {"foo", "membership", "aliasesx"}
      [] t = "m.room.redaction" -> {"reason", "membership", "redactsx"}
      [] OTHER -> {"body", "membership", "creator", "join_rule", "allow", "ban", "aliases",
                   "history_visibility", "redacts", "join_authorised_via_users_server", "type", "content"}
ConCand(t) == KeepUnion(t) \cup ConExtras(t)
\* keys that only other event types keep (they must have no effect here): enumerated alone and all together
AllKeepKeys == UNION {KeepUnion(t) : t \in ProtectedTypes} \cup {NestedKey}
Foreign(t) == AllKeepKeys \ ConCand(t)

\* --- value classes -----------------------------------------------------------------------
FreeClasses == <<"imax", "esc", "obj", "null", "imin", "arr", "zero", "estr", "eobj", "earr", "false", "iexp">>
NC == Len(FreeClasses)
NonObjectClasses == <<"imax", "esc", "null", "imin", "arr", "zero", "estr", "earr", "false">>
KeyOrder == <<"event_id", "room_id", "sender", "state_key", "hashes", "signatures", "depth",
              "prev_events", "prev_state", "auth_events", "origin", "origin_server_ts", "membership",
              "unsigned", "age_ts", "redacts", "foo", "Origin", "Depth", "depthx",
              "membershipx", "creatorx", "join_rulex", "banx", "history_visibilityx", "aliasesx", "redactsx",
              "join_authorised_via_users_server", NestedKey, "displayname", "creator", "room_version",
              "m.federate", "predecessor", "additional_creators", "join_rule", "allow", "ban", "events",
              "events_default", "kick", "redact", "state_default", "users", "users_default", "invite",
              "notifications", "history_visibility", "aliases", "reason", "body", "type", "content">>
KeyIdx == [k \in {KeyOrder[i] : i \in 1..Len(KeyOrder)} |-> CHOOSE i \in 1..Len(KeyOrder) : KeyOrder[i] = k]
\* (PDUs are built through EventBuilder.Build, which canonicalises: no exponent spelling there)
Free(f, i) == LET c == FreeClasses[(i % NC) + 1] IN IF f = "pdu" /\ c = "iexp" THEN "zero" ELSE c

TopClass(f, k, t, off, mand) ==
    CASE k = "type" -> IF t = "other" /\ off % 2 = 1 THEN "esc" ELSE "std"
      [] k = "content" -> "std"
      [] f = "pdu" /\ k = "depth" -> IF off % 3 = 1 THEN "zero" ELSE "std"               \* depth 0
      [] f = "pdu" /\ k = "origin_server_ts" -> IF off % 3 = 2 THEN "zero" ELSE "std"    \* timestamp 0
      [] k \in mand -> "std"
      [] f = "pdu" /\ k = "event_id" -> "std"                  \* typed as a string by the PDU parser
      [] f = "pdu" /\ k \in {"state_key", "redacts"} ->        \* typed as strings by the PDU parser
             IF (KeyIdx[k] + off) % 2 = 0 THEN "std" ELSE "esc"
      [] OTHER -> Free(f, KeyIdx[k] + off)

ConClass(f, k, off, tsh) ==
    IF k = NestedKey
    THEN (CASE tsh = "nonobj_str" -> "esc" [] tsh = "nonobj_arr" -> "arr" [] tsh = "nonobj_null" -> "null"
            [] tsh = "nonobj" -> NonObjectClasses[(off % Len(NonObjectClasses)) + 1]      \* by offset: 0, "", false, ...
            [] tsh = "empty" -> "eobj"
            [] OTHER -> "obj")
    ELSE Free(f, KeyIdx[k] + 3 + off)

\* shapes of content.third_party_invite when present
\*   empty {}; other1 / other2: an object without `signed` (one / two other keys, one of them `signedx`);
\*   signed: `signed` only; signed+other; signed_eobj / signed_null: `signed` present with the value {} / null;
\*   nonobj_str / nonobj_arr / nonobj_null / nonobj (another non-object class by offset): not an object
TpiShapesMember == {"empty", "other1", "other2", "signed", "signed+other", "signed_eobj", "signed_null",
                    "nonobj_str", "nonobj_arr", "nonobj_null", "nonobj"}
\* for the event types to which third_party_invite means nothing, a few shapes are enough
TpiShapesOther == {"empty", "other1", "signed+other", "nonobj_str"}
TpiShapes(t) == IF t = "m.room.member" THEN TpiShapesMember ELSE TpiShapesOther
IsNonObj(sh) == sh \in {"nonobj_str", "nonobj_arr", "nonobj_null", "nonobj"}
TpiOf(f, sh, off) ==
    LET ks == CASE sh = "signed+other" -> {"signed", "display_name"}
                [] sh \in {"signed", "signed_eobj", "signed_null"} -> {"signed"}
                [] sh = "other1" -> {"display_name"}
                [] sh = "other2" -> {"display_name", "signedx"}
                [] OTHER -> {}
        sc == CASE sh = "signed_eobj" -> "eobj" [] sh = "signed_null" -> "null"
                [] OTHER -> IF off % 2 = 0 THEN "std" ELSE Free(f, off)
    IN [obj |-> ~IsNonObj(sh),
        keys |-> [k \in ks |-> IF k = "signed" THEN sc ELSE "esc"]]

\* --- presence shapes ---------------------------------------------------------------------------
Pool(f, t) == ({"t"} \X (IF f = "raw" THEN TopOptRaw ELSE TopOptPdu)) \cup ({"c"} \X ConCand(t))
\* mode: "full" | "lite" | "all"
Shapes(P, mode) == {P}
                   \cup (IF mode = "all" THEN {} ELSE {{}} \cup {{x} : x \in P})
                   \cup (IF mode = "full" THEN {{x, y} : x, y \in P} \cup {P \ {x} : x \in P} ELSE {})
\* foreign keys: all of them on top of everything (every offset), each alone (full offsets)
ForeignShapes(t, P, mode) == {P \cup ({"c"} \X Foreign(t))}
                             \cup (IF mode = "full" THEN {{<<"c", k>>} : k \in Foreign(t)} ELSE {})
ModeOf(off, v) == IF off \in FullOffsets /\ v \in FullVersions THEN "full"
                  ELSE IF off \in FullOffsets \cup LiteOffsets THEN "lite" ELSE "all"

EventOf(f, v, t, sh, off, tsh) ==
    LET topopt == {x[2] : x \in {y \in sh : y[1] = "t"}}
        conk == {x[2] : x \in {y \in sh : y[1] = "c"}}
        \* room versions with domainless room IDs: the create event (state key "") has no room_id
        v12create == f = "pdu" /\ DomainlessRoomIDs(v) /\ t = "m.room.create"
        roomless == v12create /\ "state_key" \in topopt
        mand == IF f = "pdu" THEN PduMandatory(v, roomless) ELSE {"type", "content"}
        topk == mand \cup topopt
        tp == IF NestedKey \in conk THEN TpiOf(f, tsh, off) ELSE NoTpi
    IN [type |-> t,
        top |-> [k \in topk |-> IF k = "state_key" /\ v12create THEN "std" ELSE TopClass(f, k, t, off, mand)],
        con |-> [k \in conk |-> ConClass(f, k, off, tsh)],
        tpi |-> tp]

\* --- kind "vocab": unlisted keys drawn from the member names the library's own sources use -----------------
\* The file is written by checks/c05.py from the tree under test: {"names": [...], "casevariants": [...]}, both
\* lists duplicate-free and disjoint.  `casevariants` are the names that differ from a listed top-level key only
\* in letter case: as top-level keys they are enumerated one per record (what the specification says about them
\* is no different: not listed, so removed).
VocabFile == IF "C05_VOCAB" \in DOMAIN IOEnv THEN IOEnv.C05_VOCAB ELSE ""
VocabDoc == IF VocabFile = "" THEN [names |-> <<>>, casevariants |-> <<>>] ELSE JsonDeserialize(VocabFile)
VocabTop == VocabDoc.names
VocabCase == VocabDoc.casevariants
VocabCon == VocabTop \o VocabCase
VocabSeq(pos) == CASE pos = "top" -> VocabTop [] pos \in {"topcase", "topcaseall"} -> VocabCase
                   [] OTHER -> VocabCon    \* "con", "tpi"
CS(pos) == IF pos \in {"topcase", "topcaseall"} THEN 1 ELSE ChunkSize
NChunks(pos) == (Len(VocabSeq(pos)) + CS(pos) - 1) \div CS(pos)
ChunkIdx(pos, c) == {i \in 1..Len(VocabSeq(pos)) : (i - 1) \div CS(pos) = c - 1}

TypeOrder == <<"m.room.member", "m.room.create", "m.room.join_rules", "m.room.power_levels",
               "m.room.history_visibility", "m.room.aliases", "m.room.redaction", "other">>
TypeIdx(t) == CHOOSE i \in 1..Len(TypeOrder) : TypeOrder[i] = t
\* top-level members of the event format that a PDU parser types (string / object): well-typed in the pdu family
PduTyped == {"redacts", "sticky", "msc4354_sticky"}

\* positions: "top" a chunk of the vocabulary as additional top-level keys (raw: on top of every listed key),
\*            "con" a chunk as additional content keys, on top of the content keys the algorithm lists for the type,
\*            "tpi" (m.room.member) a chunk as additional keys of content.third_party_invite, next to what is listed there,
\*            "topcase" one case variant as an additional top-level key (raw: the genuine keys absent; pdu: next to
\*            the keys a PDU must have), "topcaseall" (raw) one case variant on top of every listed key.
\*            Case variants are ASCII case variants found in the sources and the Unicode FOLD variants of every listed
\*            key that has an s or a k (U+017F long s, U+212A Kelvin sign: letters that are lower / upper case
\*            already and that simple case folding - hence encoding/json - equates with s / k); they are written
\*            <U+017F> / <U+212A> in this vocabulary and realised by the harness.
\* In every position the names the algorithm lists there are taken out of the chunk: what is left is unlisted.
VocabEvent(f, v, t, pos, c) ==
    LET a == RedactionAlgo(v)
        seq == VocabSeq(pos)
        off == c + TypeIdx(t)
        listed == CASE pos = "con" -> ContentKeep(a, t) \cup {NestedKey}
                    [] pos = "tpi" -> NestedKeep(a, t)
                    [] OTHER -> TopKeep(a)
        extra == {i \in ChunkIdx(pos, c) : seq[i] \notin listed}
        names == {seq[i] : i \in extra}
        cls(k) == IF f = "pdu" /\ pos \in {"top", "topcase", "topcaseall"} /\ k \in PduTyped THEN "std"
                  ELSE Free(f, (CHOOSE i \in extra : seq[i] = k) + off)
        mand == IF f = "pdu" THEN PduMandatory(v, FALSE) ELSE {"type", "content"}
        basek == IF f = "raw" /\ pos \in {"top", "topcaseall"} THEN TopKeep(a) ELSE mand
        conbase == CASE pos = "con" -> ContentKeep(a, t)
                     [] pos = "tpi" -> ContentKeep(a, t) \cup {NestedKey}
                     [] OTHER -> {}
    IN [type |-> t,
        top |-> [k \in basek \cup (IF pos \in {"top", "topcase", "topcaseall"} THEN names ELSE {}) |->
                    IF k \in basek THEN TopClass(f, k, t, off, mand) ELSE cls(k)],
        con |-> [k \in conbase \cup (IF pos = "con" THEN names ELSE {}) |->
                    IF k \in conbase THEN ConClass(f, k, off, "other1") ELSE cls(k)],
        tpi |-> IF pos = "tpi"
                THEN [obj |-> TRUE, keys |-> [k \in NestedKeep(a, t) \cup names |->
                                                 IF k \in NestedKeep(a, t) THEN "std" ELSE cls(k)]]
                ELSE NoTpi]

\* --- kind "hist": calls handled by the same process before the call under observation ------------------------
\* An earlier call is described by the entry point it came through, the redaction algorithm it used, its outcome
\* and the type of its event.  Its event has EVERY key that any algorithm lists (top level, content of every
\* type, third_party_invite.signed), each with the value class "poison", which no event under observation uses.
\* Refused calls: the text is valid JSON, but `content` is an array / a string, or `type` a number / an object.
HistTypes == {"other", "m.room.create", "m.room.member"}
HistEntries == {"json",        \* IRoomVersion.RedactEventJSON
                "pdu",         \* trusted parse, PDU.Redact()
                "untrusted"}   \* NewEventFromUntrustedJSON of an event whose content hash does not match
Refusals == {"content-array", "content-string", "type-number", "type-object"}
PoisonTypes(en) == IF en = "json" THEN {"m.room.create", "m.room.member"} ELSE {"m.room.member"}
AllCalls == {c \in [entry : HistEntries, algo : Algos, outcome : {"accepted"} \cup Refusals,
                    ptype : {"m.room.create", "m.room.member"}] : c.ptype \in PoisonTypes(c.entry)}
PoisonEvent(pt) == [type |-> pt,
                    top |-> [k \in TopKeepOld |-> "poison"],
                    con |-> [k \in AllKeepKeys |-> "poison"],
                    tpi |-> [obj |-> TRUE, keys |-> [k \in {"signed"} |-> "poison"]]]
\* longer histories are bounded: two calls through RedactEventJSON with the same algorithm and event type that
\* differ in the outcome, before an event without content keys
Follows(c) == IF hist = <<>> THEN TRUE
              ELSE /\ DOMAIN e.con = {}
                   /\ c.entry = "json" /\ hist[1].entry = "json"
                   /\ c.algo = hist[1].algo /\ c.ptype = hist[1].ptype /\ c.outcome # hist[1].outcome

\* --- kind "route": the event object route ------------------------------------------------------------------------
RouteEntries == {"trusted",      \* NewEventFromTrustedJSON
                 "withid",       \* NewEventFromTrustedJSONWithEventID (told the event ID the event has)
                 "headered",     \* ToHeaderedJSON, NewEventFromHeaderedJSON
                 "untrusted"}    \* NewEventFromUntrustedJSON (content hash intact)
\* spellings of the JSON text handed to the entry point (the abstract event - hence everything the specification
\* derives - is the same): canonical; members in reverse order at every level with whitespace; strings (names and
\* values) written with \uXXXX and \/ escapes
RouteSpellings == {"canon", "rev", "esc"}
NoRoute == [on |-> FALSE]
RouteRich(t) == Pool("pdu", t) \ {<<"t", "age_ts">>, <<"t", "event_id">>}
RouteMin(t) == IF t = "other" THEN {} ELSE {<<"t", "state_key">>}
RouteTypes == IF RouteFull THEN {"m.room.member", "m.room.create", "m.room.power_levels", "other"}
              ELSE {"m.room.member", "m.room.create", "other"}
RouteShapes(t) == IF RouteFull THEN {RouteMin(t), RouteRich(t)}
                  ELSE IF t = "m.room.member" THEN {RouteRich(t)} ELSE {RouteMin(t)}
\* relevance: receipt refuses non-canonical text from room version 6 on and strips an event_id member (what that
\* does to the content hash is another property's subject); in event format 1 the member is always there; the
\* spelling matters to an event ID that is computed, not to one that is a member
RouteCombos(v) ==
    {c \in [entry : RouteEntries, sp : RouteSpellings, idm : BOOLEAN] :
        /\ (c.entry = "untrusted" => c.sp = "canon" /\ ~c.idm)
        /\ (EventFormat(v) = 1 => ~c.idm)
        /\ (~RouteFull /\ c.idm => c.sp = "canon")}

\* the object now, the operations applied so far, the JSON as it was handed to the entry point, the object before step n
RObj == route.trail[Len(route.trail)].o
RSteps == [i \in 1..(Len(route.trail) - 1) |-> route.trail[i + 1].act]
RHanded == ObjOf(e, {"s1"}, FALSE)        \* (as the origin server signed it)
RBefore(n) == IF n = 1 THEN RHanded ELSE route.trail[n - 1].o

InitRoute ==
    \E v \in Versions, t \in RouteTypes :
    \E sh \in RouteShapes(t), c \in RouteCombos(v) :
       LET sh2 == sh \cup (IF c.idm THEN {<<"t", "event_id">>} ELSE {})
           ev == EventOf("pdu", v, t, sh2, 0, IF <<"c", NestedKey>> \in sh THEN "signed+other" ELSE "none")
           o1 == IF c.entry = "untrusted" THEN ObjParseUntrusted(EventFormat(v), ev, {"s1"})
                 ELSE ObjParseTrusted(ev, {"s1"})
       IN /\ kind = "route" /\ fam = "pdu" /\ ver = v /\ e = ev
          /\ route = [on |-> TRUE, entry |-> c.entry, sp |-> c.sp, trail |-> << [act |-> c.entry, o |-> o1] >>]

InitLattice ==
    \E f \in Families, v \in Versions, t \in Types, off \in FullOffsets \cup LiteOffsets \cup AllOnlyOffsets :
    \E sh \in Shapes(Pool(f, t), ModeOf(off, v)) \cup ForeignShapes(t, Pool(f, t), ModeOf(off, v)) :
    \E tsh \in (IF <<"c", NestedKey>> \in sh THEN TpiShapes(t) ELSE {"none"}) :
       /\ kind = "lattice" /\ fam = f /\ ver = v
       /\ e = EventOf(f, v, t, sh, off, tsh)

InitVocab ==
    \E f \in Families, v \in Versions, t \in Types :
    \E pos \in {"top", "con"} \cup (IF t \in {"other", "m.room.create"} THEN {"topcase"} ELSE {})
                              \cup (IF f = "raw" /\ t \in {"other", "m.room.create"} THEN {"topcaseall"} ELSE {})
                              \cup (IF t = "m.room.member" THEN {"tpi"} ELSE {}) :
    \E c \in 1..NChunks(pos) :
       /\ kind = "vocab" /\ fam = f /\ ver = v
       /\ e = VocabEvent(f, v, t, pos, c)

InitHist ==
    \E f \in Families, v \in Versions, t \in HistTypes :
    \E sh \in {{}, Pool(f, t) \ ({"t"} \X CaseVariants)} :     \* (case variants: the lattice has them)
       /\ kind = "hist" /\ fam = f /\ ver = v
       /\ e = EventOf(f, v, t, sh, 0, IF <<"c", NestedKey>> \in sh THEN "signed" ELSE "none")

Init ==
    /\ \/ "lattice" \in Kinds /\ InitLattice /\ route = NoRoute
       \/ "vocab" \in Kinds /\ InitVocab /\ route = NoRoute
       \/ "hist" \in Kinds /\ InitHist /\ route = NoRoute
       \/ "route" \in Kinds /\ InitRoute
    /\ r1 = e /\ r2 = e
    /\ r0 = RedactV(ver, e)      \* what redaction of e gives in a process that has done nothing else
    /\ hist = <<>>
    /\ phase = "init"

\* an earlier call of the same process that the library carried out ...
EarlierAccepted ==
    /\ phase = "init" /\ kind = "hist" /\ Len(hist) < MaxHist
    /\ \E c \in AllCalls : c.outcome = "accepted" /\ Follows(c) /\ hist' = Append(hist, c)
    /\ UNCHANGED <<ver, e, r0, r1, r2, phase, fam, kind, route>>
\* ... and one that it refused
EarlierRefused ==
    /\ phase = "init" /\ kind = "hist" /\ Len(hist) < MaxHist
    /\ \E c \in AllCalls : c.outcome \in Refusals /\ Follows(c) /\ hist' = Append(hist, c)
    /\ UNCHANGED <<ver, e, r0, r1, r2, phase, fam, kind, route>>

\* the redaction operation of room version `ver`, applied once and applied to its own result
\* (redaction reads nothing but its argument: `hist` does not occur)
Check ==
    /\ phase = "init" /\ kind # "route"
    /\ (kind = "hist" => hist # <<>>)
    /\ r1' = RedactV(ver, e)
    /\ r2' = RedactV(ver, RedactV(ver, e))
    /\ phase' = "done"
    /\ UNCHANGED <<ver, e, r0, fam, kind, hist, route>>

\* --- the operations on an event object (kind "route"), in any order ----------------------------------------------
RouteStep(act, o2) ==
    /\ phase = "init" /\ Len(RSteps) < RouteSteps
    /\ route' = [route EXCEPT !.trail = Append(@, [act |-> act, o |-> o2])]
    /\ UNCHANGED <<ver, e, r0, r1, r2, phase, fam, kind, hist>>
\* PDU.Sign by a further key: another server's, then a second key of the sender's server, then the first key again
NextSigner(o) == IF "s2" \notin o.sigs THEN "s2" ELSE IF "s1b" \notin o.sigs THEN "s1b" ELSE "s1"
RSign        == kind = "route" /\ RouteStep("sign", ObjSign(RObj, NextSigner(RObj)))
RSetUnsigned == kind = "route" /\ RouteStep("setunsigned", ObjSetUnsigned(RObj))
RReadEventID == kind = "route" /\ RouteStep("readid", ObjReadEventID(RObj))
RRedact      == kind = "route" /\ RouteStep("redact", ObjRedact(RedactionAlgo(ver), RObj))
\* sequences without a Redact() say nothing about redaction: not emitted
RFinish ==
    /\ phase = "init" /\ kind = "route" /\ Len(RSteps) = RouteSteps
    /\ \E i \in 1..Len(RSteps) : RSteps[i] = "redact"
    /\ r1' = RedactV(ver, e)
    /\ r2' = RedactV(ver, RedactV(ver, e))
    /\ phase' = "done"
    /\ UNCHANGED <<ver, e, r0, fam, kind, hist, route>>

Next == EarlierAccepted \/ EarlierRefused \/ Check \/ RSign \/ RSetUnsigned \/ RReadEventID \/ RRedact \/ RFinish
Spec == Init /\ [][Next]_vars

Done == phase = "done"
A == RedactionAlgo(ver)

\* --- the property (stated over the history variables, independent of how Redact is written) ---------
TypeOK == /\ WellFormed(e) /\ WellFormed(r1) /\ WellFormed(r2)
          /\ (kind = "route") = route.on
          /\ (kind = "route" => WellFormed(RObj.ev) /\ RObj.sigs \subseteq {"s1", "s2", "s1b"})

\* exactly the listed keys, values unchanged
PExact ==
    Done => /\ DOMAIN r1.top = {k \in DOMAIN e.top : k \in TopKeep(A)}
            /\ \A k \in DOMAIN r1.top : r1.top[k] = e.top[k]
            /\ \A k \in DOMAIN e.con \ {NestedKey} :
                   (k \in DOMAIN r1.con) = (KeepAllContent(A, e.type) \/ k \in ContentKeep(A, e.type))
            /\ DOMAIN r1.con \subseteq DOMAIN e.con
            /\ \A k \in DOMAIN r1.con : r1.con[k] = e.con[k]
            /\ (NestedKey \in DOMAIN r1.con /\ ~KeepAllContent(A, e.type)) =>
                   /\ r1.tpi.obj
                   /\ DOMAIN r1.tpi.keys = DOMAIN e.tpi.keys \cap {"signed"}
                   /\ DOMAIN r1.tpi.keys # {}
                   /\ \A k \in DOMAIN r1.tpi.keys : r1.tpi.keys[k] = e.tpi.keys[k]
            /\ (A = 5 /\ e.type = "m.room.member" /\ e.tpi.obj /\ "signed" \in DOMAIN e.tpi.keys) =>
                   NestedKey \in DOMAIN r1.con
            /\ (A < 5 /\ e.type # "m.room.create") => NestedKey \notin DOMAIN r1.con
            \* the nested rule, both directions: third_party_invite survives exactly when the algorithm is 5, the event
            \* an m.room.member and the value an object that has `signed` (no {} is left behind otherwise)
            /\ ~KeepAllContent(A, e.type) =>
                   ((NestedKey \in DOMAIN r1.con) =
                    (A = 5 /\ e.type = "m.room.member" /\ NestedKey \in DOMAIN e.con /\ e.tpi.obj /\ "signed" \in DOMAIN e.tpi.keys))
PIdempotent == Done => r2 = r1
\* redaction is a function of the event: whatever the process handled before (accepted or refused), the result is
\* the one of a process without history, and nothing of an earlier call's event is in it
NoPoison(x) == /\ \A k \in DOMAIN x.top : x.top[k] # "poison"
               /\ \A k \in DOMAIN x.con : x.con[k] # "poison"
               /\ \A k \in DOMAIN x.tpi.keys : x.tpi.keys[k] # "poison"
PHistory ==
    /\ NoPoison(e)
    /\ \A i \in 1..Len(hist) : hist[i] \in AllCalls /\ ~NoPoison(PoisonEvent(hist[i].ptype))
    /\ Done => /\ r1 = r0
               /\ NoPoison(r1) /\ NoPoison(r2)
               /\ DOMAIN r1.top \subseteq DOMAIN e.top /\ DOMAIN r1.con \subseteq DOMAIN e.con
               \* an earlier accepted call had a result of its own, with its own values
               /\ \A i \in 1..Len(hist) : hist[i].outcome = "accepted" =>
                      LET p == Redact(hist[i].algo, PoisonEvent(hist[i].ptype)) IN
                      /\ \A k \in DOMAIN p.top : p.top[k] = "poison"
                      /\ DOMAIN p.top = TopKeep(hist[i].algo)
PCore ==
    Done => /\ r1.type = e.type
            /\ \A k \in CoreKeys : /\ (k \in DOMAIN r1.top) = (k \in DOMAIN e.top)
                                   /\ (k \in DOMAIN e.top => r1.top[k] = e.top[k])
PIdentity ==
    Done => /\ IdentityProj(A, r1) = IdentityProj(A, e)      \* event ID (v3+) is computed from this
            /\ SignedProj(A, r1) = SignedProj(A, e)          \* signatures are computed over this
            /\ ("event_id" \in DOMAIN e.top => "event_id" \in DOMAIN r1.top /\ r1.top["event_id"] = e.top["event_id"])
            /\ ("signatures" \in DOMAIN e.top => "signatures" \in DOMAIN r1.top)
\* the object route: every operation keeps identity, signatures and core keys; Redact() is the redaction of the JSON
\* the object has when it is called - whatever entry point made the object and whatever was done to it before
PRoute ==
    kind = "route" =>
        LET tr == route.trail
            o == RObj IN
        /\ tr[1].act = route.entry
        \* (the latest step: the earlier ones were the latest in the states before)
        /\ ObjStepOK(A, tr[Len(tr)].act, RBefore(Len(tr)), o)
        \* consequences over the whole history: the identity is the one of the JSON handed in, the origin's signature is
        \* still there, and once redacted the object is the redaction of that JSON (plus `unsigned`, if given later)
        /\ ObjIdentity(A, o) = IdentityProj(A, e)
        /\ "s1" \in o.sigs
        /\ (o.red => /\ DOMAIN o.ev.top \ {"unsigned"} = DOMAIN r0.top
                     /\ o.ev.con = r0.con /\ o.ev.tpi = r0.tpi
                     /\ \A k \in DOMAIN r0.top : o.ev.top[k] = r0.top[k])
        /\ (o.red = (\E i \in 1..Len(RSteps) : RSteps[i] = "redact"))
\* the predicates of Redaction.tla agree with the above
PModule ==
    /\ TablesSane
    /\ (Done => ExactlyListed(A, e) /\ Idempotent(A, e) /\ CorePreserved(A, e) /\ IdentityPreserved(A, e))
\* generator sanity: later algorithms differ from earlier ones where the specification says so
PSanity ==
    Done => /\ (e.type = "m.room.aliases" /\ "aliases" \in DOMAIN e.con => (("aliases" \in DOMAIN r1.con) = (A = 1)))
            /\ (e.type = "m.room.join_rules" /\ "allow" \in DOMAIN e.con => (("allow" \in DOMAIN r1.con) = (A >= 3)))
            /\ (e.type = "m.room.power_levels" /\ "invite" \in DOMAIN e.con => (("invite" \in DOMAIN r1.con) = (A = 5)))
            /\ (e.type = "m.room.redaction" /\ "redacts" \in DOMAIN e.con => (("redacts" \in DOMAIN r1.con) = (A = 5)))
            /\ (e.type = "m.room.create" /\ A = 5 => r1.con = e.con)
            /\ (e.type = "other" => r1.con = EmptyFn)
            /\ ("origin" \in DOMAIN e.top => (("origin" \in DOMAIN r1.top) = (A < 5)))
            /\ (TopExtras \cup CaseVariants) \cap DOMAIN r1.top = {}
            /\ (~KeepAllContent(A, e.type) => DOMAIN r1.con \cap Foreign(e.type) = {})


ObsOf(o) == [top |-> DOMAIN o.ev.top, con |-> DOMAIN o.ev.con, tpi |-> DOMAIN o.ev.tpi.keys,
             sigs |-> o.sigs, red |-> o.red]
Emit ==
    Done => IF kind = "route"
            THEN PrintT(ToJson([fam |-> fam, kind |-> kind, ver |-> ver, algo |-> A, type |-> e.type,
                                top |-> e.top, con |-> e.con, tpiobj |-> e.tpi.obj, tpi |-> e.tpi.keys,
                                ktop |-> DOMAIN r1.top, kcon |-> DOMAIN r1.con, ktpi |-> DOMAIN r1.tpi.keys,
                                entry |-> route.entry, sp |-> route.sp, steps |-> RSteps,
                                \* what the object is after the entry point and after every operation
                                exp |-> [i \in 1..Len(route.trail) |-> ObsOf(route.trail[i].o)]]))
            ELSE PrintT(ToJson([fam |-> fam, kind |-> kind, hist |-> hist, ver |-> ver, algo |-> A, type |-> e.type,
                           top |-> e.top, con |-> e.con,
                           tpiobj |-> e.tpi.obj, tpi |-> e.tpi.keys,
                           ktop |-> DOMAIN r1.top, kcon |-> DOMAIN r1.con, ktpi |-> DOMAIN r1.tpi.keys]))
=============================================================================
