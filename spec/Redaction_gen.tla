--------------------------- MODULE Redaction_gen ---------------------------
(***************************************************************************)
(* Scenario generator and state machine for Redaction.tla.                 *)
(*                                                                         *)
(* Init chooses an event: room version x event type x presence shape x     *)
(* value-class offset.  The one action Check applies the redaction         *)
(* operation once and twice (history variables r1, r2); the property is    *)
(* stated over (e, r1, r2); Emit prints the scenario and the key sets the  *)
(* specification keeps, for replay against IRoomVersion.RedactEventJSON    *)
(* and PDU.Redact().                                                       *)
(*                                                                         *)
(* Families                                                                *)
(*   raw  the event is only a JSON object handed to RedactEventJSON:       *)
(*        every top-level key except type/content is optional and every    *)
(*        value is drawn from the free value classes                       *)
(*   pdu  the event is a well-formed PDU (built with EventBuilder.Build,   *)
(*        signed by two servers): the keys a PDU needs are present with    *)
(*        well-typed values ("std"), the other candidates are optional     *)
(*                                                                         *)
(* Presence shapes are pairwise-exhaustive over the pool of optional       *)
(* top-level keys and candidate content keys of the type: none, every key  *)
(* alone, every pair, all but one, all ("lite" offsets: none, singles,     *)
(* all).                                                                   *)
(*                                                                         *)
(* Value classes (realised by the harness):                                *)
(*   std  the well-typed value the key normally has                        *)
(*   imax 9007199254740991   imin -9007199254740991                        *)
(*   esc  a string with < > & and U+2028 (escaped by Go's encoder)         *)
(*   obj  a nested object    arr  an array    null                         *)
(* Each key gets class FreeClasses[(index of key + offset) mod 6], so that *)
(* over the offsets every key takes every class and the keys of a shape    *)
(* take different classes.                                                 *)
(***************************************************************************)
EXTENDS Redaction, Json

CONSTANTS Versions,     \* room versions to enumerate
          Family,       \* "raw" | "pdu"
          FullOffsets,  \* offsets enumerated with the full pairwise lattice
          LiteOffsets   \* offsets enumerated with none / singles / all only

VersionsAll == AllVersions
Off0 == {0}
Off12345 == 1..5
OffAll == 0..5
OffNone == {}

VARIABLES ver, e, r1, r2, phase
vars == <<ver, e, r1, r2, phase>>

Types == ProtectedTypes \cup {"other"}
\* "other" is realised as m.room.message (std) or as a custom type with escapable characters (esc)

\* --- candidate keys ------------------------------------------------------------------
TopExtras == {"unsigned", "age_ts", "redacts", "foo"}
\* keys that differ from a listed key only in case are not listed: they must go, and must not come back
\* under the listed spelling
CaseVariants == {"Origin", "Depth"}
TopOptRaw == (TopKeepOld \ {"type", "content"}) \cup TopExtras \cup CaseVariants
TopOptPdu == {"state_key", "prev_state", "origin", "membership"} \cup TopExtras

\* keys a parsed PDU must have
PduMandatory(v, roomless) ==
    {"type", "content", "sender", "depth", "prev_events", "auth_events", "origin_server_ts",
     "hashes", "signatures"}
    \cup (IF roomless THEN {} ELSE {"room_id"})
    \cup (IF EventFormat(v) = 1 THEN {"event_id"} ELSE {})

KeepUnion(t) == UNION {ContentKeep(a, t) : a \in Algos}
ConExtras(t) ==
    CASE t = "m.room.member" -> {NestedKey, "displayname", "redacts"}
      [] t = "m.room.create" -> {"room_version", "m.federate", "predecessor", "additional_creators", "membership"}
      [] t = "m.room.join_rules" -> {"foo", "membership"}
      [] t = "m.room.power_levels" -> {"notifications", "membership"}
      [] t = "m.room.history_visibility" -> {"foo", "ban"}
      [] t = "m.room.aliases" -> {"foo", "membership"}
      [] t = "m.room.redaction" -> {"reason", "membership"}
      [] OTHER -> {"body", "membership", "creator", "join_rule", "allow", "ban", "aliases",
                   "history_visibility", "redacts", "join_authorised_via_users_server"}
ConCand(t) == KeepUnion(t) \cup ConExtras(t)

\* --- value classes -----------------------------------------------------------------------
FreeClasses == <<"imax", "esc", "obj", "null", "imin", "arr">>
KeyOrder == <<"event_id", "room_id", "sender", "state_key", "hashes", "signatures", "depth",
              "prev_events", "prev_state", "auth_events", "origin", "origin_server_ts", "membership",
              "unsigned", "age_ts", "redacts", "foo", "Origin", "Depth",
              "join_authorised_via_users_server", NestedKey, "displayname", "creator", "room_version",
              "m.federate", "predecessor", "additional_creators", "join_rule", "allow", "ban", "events",
              "events_default", "kick", "redact", "state_default", "users", "users_default", "invite",
              "notifications", "history_visibility", "aliases", "reason", "body", "type", "content">>
KeyIdx == [k \in {KeyOrder[i] : i \in 1..Len(KeyOrder)} |-> CHOOSE i \in 1..Len(KeyOrder) : KeyOrder[i] = k]
Free(i) == FreeClasses[(i % 6) + 1]

TopClass(k, t, off, mand) ==
    CASE k = "type" -> IF t = "other" /\ off % 2 = 1 THEN "esc" ELSE "std"
      [] k = "content" -> "std"
      [] k \in mand -> "std"
      [] Family = "pdu" /\ k \in {"state_key", "redacts"} ->        \* typed as strings by the PDU parser
             IF (KeyIdx[k] + off) % 2 = 0 THEN "std" ELSE "esc"
      [] OTHER -> Free(KeyIdx[k] + off)

ConClass(k, off, tpiobj) ==
    IF k = NestedKey
    THEN (IF tpiobj THEN "obj" ELSE FreeClasses[<<1, 2, 4, 5, 6>>[(off % 5) + 1]])   \* a non-object class
    ELSE Free(KeyIdx[k] + 3 + off)

\* shapes of content.third_party_invite when present
TpiShapes == {"signed+other", "signed", "other", "empty", "nonobj"}
TpiOf(sh, off) ==
    LET ks == CASE sh = "signed+other" -> {"signed", "display_name"}
                [] sh = "signed" -> {"signed"}
                [] sh = "other" -> {"display_name"}
                [] OTHER -> {}
    IN [obj |-> sh # "nonobj",
        keys |-> [k \in ks |-> IF k = "signed" THEN (IF off % 2 = 0 THEN "std" ELSE Free(off)) ELSE "esc"]]

\* --- presence shapes ---------------------------------------------------------------------------
Pool(t) == ({"t"} \X (IF Family = "raw" THEN TopOptRaw ELSE TopOptPdu)) \cup ({"c"} \X ConCand(t))
Shapes(P, lite) == {{}, P} \cup {{x} : x \in P}
                   \cup (IF lite THEN {} ELSE {{x, y} : x, y \in P} \cup {P \ {x} : x \in P})

EventOf(v, t, sh, off, tsh) ==
    LET topopt == {x[2] : x \in {y \in sh : y[1] = "t"}}
        conk == {x[2] : x \in {y \in sh : y[1] = "c"}}
        \* room versions with domainless room IDs: the create event (state key "") has no room_id
        v12create == Family = "pdu" /\ DomainlessRoomIDs(v) /\ t = "m.room.create"
        roomless == v12create /\ "state_key" \in topopt
        mand == IF Family = "pdu" THEN PduMandatory(v, roomless) ELSE {"type", "content"}
        topk == mand \cup topopt
        tp == IF NestedKey \in conk THEN TpiOf(tsh, off) ELSE NoTpi
    IN [type |-> t,
        top |-> [k \in topk |-> IF k = "state_key" /\ v12create THEN "std" ELSE TopClass(k, t, off, mand)],
        con |-> [k \in conk |-> ConClass(k, off, tp.obj)],
        tpi |-> tp]

Init ==
    /\ \E v \in Versions, t \in Types, off \in FullOffsets \cup LiteOffsets :
       \E sh \in Shapes(Pool(t), off \notin FullOffsets) :
       \E tsh \in (IF <<"c", NestedKey>> \in sh THEN TpiShapes ELSE {"none"}) :
          /\ ver = v
          /\ e = EventOf(v, t, sh, off, tsh)
    /\ r1 = e /\ r2 = e
    /\ phase = "init"

\* the redaction operation of room version `ver`, applied once and applied to its own result
Check ==
    /\ phase = "init"
    /\ r1' = RedactV(ver, e)
    /\ r2' = RedactV(ver, RedactV(ver, e))
    /\ phase' = "done"
    /\ UNCHANGED <<ver, e>>

Next == Check
Spec == Init /\ [][Next]_vars

Done == phase = "done"
A == RedactionAlgo(ver)

\* --- the property (stated over the history variables, independent of how Redact is written) ---------
TypeOK == WellFormed(e) /\ WellFormed(r1) /\ WellFormed(r2)

\* exactly the listed keys, values unchanged
PExact ==
    Done => /\ DOMAIN r1.top = {k \in DOMAIN e.top : k \in TopKeep(A)}
            /\ \A k \in DOMAIN r1.top : r1.top[k] = e.top[k]
            /\ \A k \in DOMAIN e.con \ {NestedKey} :
                   (k \in DOMAIN r1.con) = (KeepAllContent(A, e.type) \/ k \in ContentKeep(A, e.type))
            /\ DOMAIN r1.con \subseteq DOMAIN e.con
            /\ \A k \in DOMAIN r1.con : r1.con[k] = e.con[k]
            /\ (NestedKey \in DOMAIN r1.con /\ ~KeepAllContent(A, e.type)) =>
                   /\ r1.tpi.obj
                   /\ DOMAIN r1.tpi.keys = DOMAIN e.tpi.keys \cap {"signed"}
                   /\ DOMAIN r1.tpi.keys # {}
                   /\ \A k \in DOMAIN r1.tpi.keys : r1.tpi.keys[k] = e.tpi.keys[k]
            /\ (A = 5 /\ e.type = "m.room.member" /\ e.tpi.obj /\ "signed" \in DOMAIN e.tpi.keys) =>
                   NestedKey \in DOMAIN r1.con
            /\ (A < 5 /\ e.type # "m.room.create") => NestedKey \notin DOMAIN r1.con
PIdempotent == Done => r2 = r1
PCore ==
    Done => /\ r1.type = e.type
            /\ \A k \in CoreKeys : /\ (k \in DOMAIN r1.top) = (k \in DOMAIN e.top)
                                   /\ (k \in DOMAIN e.top => r1.top[k] = e.top[k])
PIdentity ==
    Done => /\ IdentityProj(A, r1) = IdentityProj(A, e)      \* event ID (v3+) is computed from this
            /\ SignedProj(A, r1) = SignedProj(A, e)          \* signatures are computed over this
            /\ ("event_id" \in DOMAIN e.top => "event_id" \in DOMAIN r1.top /\ r1.top["event_id"] = e.top["event_id"])
            /\ ("signatures" \in DOMAIN e.top => "signatures" \in DOMAIN r1.top)
\* the predicates of Redaction.tla agree with the above
PModule ==
    /\ TablesSane
    /\ (Done => ExactlyListed(A, e) /\ Idempotent(A, e) /\ CorePreserved(A, e) /\ IdentityPreserved(A, e))
\* generator sanity: later algorithms differ from earlier ones where the specification says so
PSanity ==
    Done => /\ (e.type = "m.room.aliases" /\ "aliases" \in DOMAIN e.con => (("aliases" \in DOMAIN r1.con) = (A = 1)))
            /\ (e.type = "m.room.join_rules" /\ "allow" \in DOMAIN e.con => (("allow" \in DOMAIN r1.con) = (A >= 3)))
            /\ (e.type = "m.room.power_levels" /\ "invite" \in DOMAIN e.con => (("invite" \in DOMAIN r1.con) = (A = 5)))
            /\ (e.type = "m.room.redaction" /\ "redacts" \in DOMAIN e.con => (("redacts" \in DOMAIN r1.con) = (A = 5)))
            /\ (e.type = "m.room.create" /\ A = 5 => r1.con = e.con)
            /\ (e.type = "other" => r1.con = EmptyFn)
            /\ ("origin" \in DOMAIN e.top => (("origin" \in DOMAIN r1.top) = (A < 5)))
            /\ ({"unsigned", "age_ts", "redacts", "foo"} \cup CaseVariants) \cap DOMAIN r1.top = {}


Emit ==
    Done => PrintT(ToJson([fam |-> Family, ver |-> ver, algo |-> A, type |-> e.type,
                           top |-> e.top, con |-> e.con,
                           tpiobj |-> e.tpi.obj, tpi |-> e.tpi.keys,
                           ktop |-> DOMAIN r1.top, kcon |-> DOMAIN r1.con, ktpi |-> DOMAIN r1.tpi.keys,
                           free |-> NestedUnspecified(A, e)]))
=============================================================================
