SPECIFICATION Spec
CONSTANTS
  Family = "event1"
  Versions <- VersionsFive
  TypesC <- TypesAll
  Depth = "core"
  FieldSet = "core"
  Entries <- EntriesUntrusted
  MaxOps = 3
  Heavy <- NoOps
  HeavyAfter <- HeavyLiteSet
  Muts <- MutsQuick
INVARIANTS TypeOK NoPanic WellOrdered Emit
CHECK_DEADLOCK FALSE
