---------------------------- MODULE Checker_gen ----------------------------
(* Emits every complete check sequence of Checker.tla for replay through one real allowerContext. *)
EXTENDS Checker, Json

VersionsQuick == {"6", "8", "10", "12", "org.matrix.msc3787"}
VersionsAll == AllVersions

Emit == (phase = "idle" /\ Len(seq) = MaxLen) =>
          PrintT(ToJson([ver |-> ver,
                         steps |-> [k \in 1..Len(seq) |->
                                      LET s == Pool(ver)[seq[k]] IN
                                      [n |-> seq[k], st |-> s.st, ev |-> s.ev, ctag |-> s.ctag, ptag |-> s.ptag,
                                       jtag |-> s.jtag, want |-> verdicts[k]]]]))
=============================================================================
