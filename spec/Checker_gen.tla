---------------------------- MODULE Checker_gen ----------------------------
(* Emits every complete check sequence of Checker.tla for replay through one real allowerContext:            *)
(* one "pool" record per room version (the steps: state, event, event-ID tags, redacted-copy flags) and one   *)
(* compact record per sequence (pool indexes and the verdict of every check); checks/c09.py joins the two.    *)
EXTENDS Checker, Json

\* "1": sender-chosen event IDs, redaction algorithm 1; "11": redaction algorithm 5 (power levels keep `invite`,
\* create keeps everything) without privileged creators; "12": privileged creators, room ID = create event ID;
\* "org.matrix.msc4014": also replayed with sender keys in place of user IDs
VersionsQuick == {"1", "6", "8", "10", "11", "12", "org.matrix.msc3787", "org.matrix.msc4014"}
VersionsAll == AllVersions

EmitPool == (phase = "idle" /\ seq = <<>>) =>
          PrintT(ToJson([ver |-> ver,
                         pool |-> [i \in 1..NPool |->
                                      LET s == PoolOf[ver][i] IN
                                      [n |-> i, st |-> s.st, ev |-> s.ev, ctag |-> s.ctag, ptag |-> s.ptag,
                                       jtag |-> s.jtag, cred |-> s.cred, pred |-> s.pred, jred |-> s.jred,
                                       fresh |-> FreshVerdict(ver, i)]]]))

Emit == (phase = "idle" /\ Len(seq) = MaxLen) =>
          PrintT(ToJson([ver |-> ver, seq |-> seq, want |-> verdicts]))
=============================================================================
