SPECIFICATION Spec
CONSTANTS
  Versions <- VersionsAll
  Strip = "byid"
  Drops = 3
INVARIANTS Exactly Sufficient EmitPool Emit
CHECK_DEADLOCK FALSE
