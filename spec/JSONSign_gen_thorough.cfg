SPECIFICATION GenSpec
CONSTANTS
  Entities <- GenEntities
  KeyIDs <- GenKeyIDs
  Keys <- GenKeys
  PlainMembers <- GenPlain
  NestedMembers <- GenNested
  Vals <- GenVals
  NVals <- GenNVals
  UVals <- GenUVals
  Presentations <- GenPres
  Starts <- StartsThorough
  MaxLen = 5
  MaxSigns = 3
INVARIANTS TypeOK Complete CompleteNet Sound SoundTamper OneKey SignPreserves UncoveredFree EditsKeepSignatures Emit
CHECK_DEADLOCK FALSE
