SPECIFICATION Spec
CONSTANTS
  Versions <- VersionsAll
  Family = "create"
INVARIANTS RefusedWhenOver PersistableOnlyBytes OkWithin HashIndependent ShapesWellFormed Emit
CHECK_DEADLOCK FALSE
