SPECIFICATION Spec
CONSTANTS
  Procs = {"c1", "c2", "c3"}
  Names = {"a", "b"}
  MaxCalls = 2
  MaxAge = 2
  MaxReap = 2
  Faults = TRUE
  SplitGet = FALSE
  TouchOutside = FALSE
VIEW View
INVARIANTS TypeOK OneTransportPerName CallersShareTheCachedTransport SameNameSameTransport IdentitiesNeverReused NeverHalfInitialised ReaperNeverMeetsAnUnstampedTransport BoundedRetries OnlyAgedAreReaped
