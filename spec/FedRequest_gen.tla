--------------------------- MODULE FedRequest_gen ---------------------------
(* Generation wrapper: every Receive outcome of FedRequest.tla within the   *)
(* configured bounds is printed as one scenario record for the Go harness   *)
(* (harness/cmd/c13): abstract request classes, tamper set, receiver        *)
(* parameters, expected accept / refuse and the expected reported fields.   *)
EXTENDS FedRequest, Json

MethodsAll  == {"GET", "PUT", "POST", "DELETE"}
URIsQuick   == {"plain", "query", "escape", "long"}
URIsAll     == {"plain", "query", "escape", "emptyq", "dslash", "unicode", "long"}
ShapesO     == {"dns", "port", "ipv4", "ipv6"} \cup InvalidOrigins
ShapesD     == {"dns", "port", "ipv4", "ipv6", "invalid", "origin"}
SpellingsAll == {"lower", "mixed"}
BodiesAll   == {"none", "obj", "arr", "nonutf8", "emptyobj", "null"}
EntriesAll  == {"direct", "client"}
StylesAll   == {"canon", "reorder", "spaces", "bare", "empties", "extra"}
KeyValsAll  == {"valid", "validfar", "expfuture", "fetched", "refreshed",
                "lapsed", "expired", "expboth", "unknown", "wrongkey", "fetcherr", "dberror"}
NKeysAll    == {1, 2}
KnownsAll   == {"both", "first", "second", "neither"}
CfgsAll     == {"single", "singlefn", "multi", "any", "nobody"}
DestOwnsAll == {"P", "S", "F"}
LatersAll   == AllLaters


Emit_ == Final =>
    PrintT(ToJson([m |-> req.m, u |-> req.u, os |-> req.os, osp |-> req.osp, ds |-> req.ds, dsp |-> req.dsp, down |-> req.down, body |-> req.body, entry |-> req.entry, open |-> (applied \cap OpenKinds # {}),
                   style |-> wire.style, cfg |-> rcv.cfg, kv |-> rcv.kv, nk |-> signed.nk, known |-> rcv.known,
                   tampers |-> applied, later |-> later,
                   accept |-> out.accept,
                   \* open records: the most a receiver may accept (the verdict with the open tamperings taken back)
                   lenient |-> IF applied \cap OpenKinds # {} THEN Verdict(Lenient(wire), rcv.cfg, rcv.kv, rcv.known).accept ELSE out.accept,
                   rep |-> [m |-> out.m, u |-> out.u, o |-> out.o, d |-> out.d, b |-> out.b]]))
=============================================================================
