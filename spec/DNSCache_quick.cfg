SPECIFICATION Spec
CONSTANTS
  Procs = {"c1", "c2"}
  Hosts = {"a", "b"}
  Size = 1
  MaxCalls = 2
  MaxExpire = 1
  Kinds = {"lookup", "dial"}
  ZeroDuration = FALSE
  Faults = TRUE
VIEW View
INVARIANTS TypeOK SizeBound ServedFreshAndSequential NoCrossHost RefinesSequential MissReturnsOwnAnswer MutexDiscipline
