SPECIFICATION Spec
CONSTANTS
  Fault = "none"
  Depth = "quick"
INVARIANTS SeqInvs Terminates Sane Emit
CHECK_DEADLOCK FALSE
