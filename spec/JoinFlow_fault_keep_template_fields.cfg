SPECIFICATION Spec
CONSTANTS
  VerSet <- VersFault
  Budget = 2
  Fault = "keep_template_fields"
  Strict = FALSE
INVARIANTS TypeOK SentIsTheJoin
CHECK_DEADLOCK FALSE
