SPECIFICATION FairSpec
CONSTANTS
  Procs = {"c1", "c2", "c3"}
  Hosts = {"a", "b"}
  Size = 2
  MaxCalls = 1
  MaxExpire = 1
  Kinds = {"dial"}
  ZeroDuration = FALSE
  Faults = TRUE
INVARIANTS TypeOK SizeBound
PROPERTIES EveryCallReturns
