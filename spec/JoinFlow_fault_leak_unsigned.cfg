SPECIFICATION Spec
CONSTANTS
  VerSet <- VersFault
  Budget = 2
  Fault = "leak_unsigned"
  Strict = FALSE
INVARIANTS TypeOK NoLeak
CHECK_DEADLOCK FALSE
