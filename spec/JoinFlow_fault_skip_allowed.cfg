SPECIFICATION Spec
CONSTANTS
  VerSet <- VersFault
  Budget = 2
  Fault = "skip_allowed"
  Strict = FALSE
INVARIANTS TypeOK BannedNeverJoins
CHECK_DEADLOCK FALSE
