\* X06 quick tier, plan v10-byz: two servers, the second byzantine (one bad or stale event), two events beyond the
\* creation prefix and bob's join; every transition is printed with a behaviour leading to it.  checks/x06.py writes
\* the cfgs of all plans at run time (cfg_text).
SPECIFICATION GSpec
CONSTANTS
  Start = 1
  Ver = "10"
  MaxFree = 2
  ForkFrom = 1
  TSChoices <- TS1
  IdDesc = FALSE
  Addl = {}
  MaxBad = 1
  Dishonest = TRUE
  NServers = 2
  Byz <- Byz2
  Fault = "none"
  Gap = FALSE
  LateJoin = FALSE
  SendKinds <- FaultKinds
  Mode = "cover"
VIEW CoverView
INVARIANTS TypeOK TipsAreFrontier AuthKnown HandoverClean Convergence OrderIndependence RejectedNeverInState BanHolds OwnSendsAccepted OwnPrevsAccepted HonestRoomsAgree BadNeverAccepted Emit
CHECK_DEADLOCK FALSE
