SPECIFICATION Spec
CONSTANTS
  Versions <- VersionsAll
  Family = "edge"
  ShapeIds <- ShapesEdgeQuick
  VariantIds <- VariantsEdge
  MaxOps = 2
  Alphabet <- AlphabetEdge
  PreOps <- PreNone
  SibFields <- NoFields
  SidPairs <- NoSid
  TamperMax = 0
  EdgeShapes <- ShapesEdgeQuick
INVARIANTS TypeOK PIdStable PRoundTrip PRedactKeeps PV12 PBuildOrRefuse  Emit
CHECK_DEADLOCK FALSE
