SPECIFICATION Spec
CONSTANTS
  Versions <- VersionsQuick
  Family = "single"
INVARIANTS RefusedWhenOver PersistableOnlyBytes OkWithin ShapesWellFormed Emit
CHECK_DEADLOCK FALSE
