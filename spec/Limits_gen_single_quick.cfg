SPECIFICATION Spec
CONSTANTS
  Versions <- VersionsQuick
  Family = "single"
INVARIANTS RefusedWhenOver PersistableOnlyBytes OkWithin HashIndependent ShapesWellFormed Emit
CHECK_DEADLOCK FALSE
