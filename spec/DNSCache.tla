------------------------------ MODULE DNSCache ------------------------------
(* C19 - fclient/dnscache.go as it is: one action per critical section.         *)
(*                                                                              *)
(* Callers are processes.  A call is either the unexported `lookup` (kind       *)
(* "lookup") or the exported `DialContext` (kind "dial" = lookup + dial of the   *)
(* returned addresses + one retry after deleting the cached entry).             *)
(*                                                                              *)
(*   Call / L1Retry   under the mutex: hit-and-fresh -> serve; stale -> delete   *)
(*   ResolveOk/Fail   no lock: the resolver answers (or fails); an answer is    *)
(*                    [h, v]: the host it was resolved for and a version, so a   *)
(*                    cross-host mix-up or a stale answer is visible            *)
(*   L2Lock, L2Evict, L2Insert  one critical section; the eviction loop is      *)
(*                    unrolled (one iteration per step, mutex held) so that its *)
(*                    termination is a liveness property                        *)
(*   DialOk/DialFail  no lock: the dial of the served address                   *)
(*   DelRetry         under the mutex: delete(entries, host); then L1 again     *)
(*   Expire(h)        environment: time passes beyond the expiry of h's entry   *)
(*                                                                              *)
(* Time.  Expiry instants are ranks: an entry inserted at tick t expires at      *)
(* Horizon + t (in the future of every "now" of the model), Expire(h) moves the  *)
(* expiry of h to the rank t < Horizon (in the past of every "now").  The       *)
(* eviction loop removes the entry of least rank, as the code removes the entry *)
(* with the earliest `expires`.  Assumptions: size >= 1 for termination (with    *)
(* Size = 0 the loop spins: DNSCache_size0.cfg shows it) and strictly            *)
(* increasing clock readings (ranks are distinct).                              *)
(*                                                                              *)
(* The property is stated over the history variables `seq`, `served`, `stored`:  *)
(* `seq` is the state of a SEQUENTIAL cache (operations SeqRead, SeqGC,          *)
(* SeqStore, SeqForget, SeqExpire below) advanced at the linearisation points    *)
(* (a hit at its L1, a stale delete at its L1, a store at its L2, a forget at    *)
(* DelRetry); the mechanics never read it.                                      *)
EXTENDS Integers, FiniteSets, TLC

CONSTANTS Procs, Hosts, Size, MaxCalls, MaxExpire, Kinds, Faults, ZeroDuration

Horizon == 1000
(* Expiry rank of an entry inserted at tick t.  ZeroDuration = TRUE is NewDNSCache(size, 0, ...): an entry *)
(* expires at the instant it is stored, so it is never served (every lookup resolves) and only takes part *)
(* in eviction.                                                                                          *)
InsertRank(t) == IF ZeroDuration THEN t ELSE Horizon + t
NoAns == [h |-> "", v |-> 0]
NoEnt == [val |-> NoAns, exp |-> 0]

VARIABLES entries,   \* the map: function from the present hosts to [val, exp]
          mu,        \* the mutex: "free" or the process holding it
          tick,      \* clock rank
          nres,      \* resolver version counter
          nexp,      \* number of Expire steps so far
          loc,       \* per process: pc, host, kind, ans, got, cached, retried, status
          ncalls,
          seq,       \* history: the sequential cache
          served,    \* history: per process, what its last hit served and what the sequential cache held
          stored     \* history: per process, what its last L2 stored and for which host

mech == <<entries, mu, tick, nres, nexp, loc, ncalls>>
vars == <<entries, mu, tick, nres, nexp, loc, ncalls, seq, served, stored>>

Empty == [x \in {} |-> NoEnt]
Fresh(e) == e.exp > Horizon
Without(f, h) == [x \in (DOMAIN f) \ {h} |-> f[x]]
With(f, h, e) == [x \in (DOMAIN f) \cup {h} |-> IF x = h THEN e ELSE f[x]]
Oldest(f) == CHOOSE h \in DOMAIN f : \A g \in DOMAIN f : f[h].exp <= f[g].exp
Len(f) == Cardinality(DOMAIN f)

(* ---------------------------------------------------------------------- *)
(* The sequential cache (reference).                                        *)
SeqRead(s, h) == IF h \in DOMAIN s /\ Fresh(s[h]) THEN s[h].val ELSE NoAns
SeqGC(s, h) == IF h \in DOMAIN s /\ ~Fresh(s[h]) THEN Without(s, h) ELSE s
RECURSIVE SeqEvict(_)
SeqEvict(s) == IF Len(s) >= Size /\ DOMAIN s # {} THEN SeqEvict(Without(s, Oldest(s))) ELSE s
SeqStore(s, h, a, t) == With(SeqEvict(s), h, [val |-> a, exp |-> InsertRank(t)])
SeqForget(s, h) == Without(s, h)
SeqExpire(s, h, t) == [s EXCEPT ![h] = [@ EXCEPT !.exp = t]]

(* ---------------------------------------------------------------------- *)
NoServed == [h |-> "", val |-> NoAns, sval |-> NoAns]
NoStored == [h |-> "", val |-> NoAns]
IdleLoc == [pc |-> "idle", host |-> "", kind |-> "", ans |-> NoAns, got |-> NoAns,
            cached |-> FALSE, retried |-> FALSE, status |-> ""]

Init ==
  /\ entries = Empty
  /\ mu = "free"
  /\ tick = 0
  /\ nres = 0
  /\ nexp = 0
  /\ loc = [p \in Procs |-> IdleLoc]
  /\ ncalls = [p \in Procs |-> 0]
  /\ seq = Empty
  /\ served = [p \in Procs |-> NoServed]
  /\ stored = [p \in Procs |-> NoStored]

(* First critical section of lookup (dnscache.go lines "c.mutex.Lock() ... c.mutex.Unlock()"). *)
L1Body(p, l) ==
  /\ mu = "free"
  /\ IF l.host \in DOMAIN entries /\ Fresh(entries[l.host])
     THEN /\ loc' = [loc EXCEPT ![p] = [l EXCEPT !.got = entries[l.host].val, !.cached = TRUE,
                                                 !.pc = IF l.kind = "lookup" THEN "idle" ELSE "dial",
                                                 !.status = IF l.kind = "lookup" THEN "hit" ELSE "run"]]
          /\ served' = [served EXCEPT ![p] = [h |-> l.host, val |-> entries[l.host].val, sval |-> SeqRead(seq, l.host)]]
          /\ UNCHANGED <<entries, seq>>
     ELSE /\ entries' = Without(entries, l.host)
          /\ seq' = SeqGC(seq, l.host)
          /\ loc' = [loc EXCEPT ![p] = [l EXCEPT !.pc = "resolve", !.status = "run", !.cached = FALSE, !.got = NoAns]]
          /\ UNCHANGED served
  /\ UNCHANGED <<mu, tick, nres, nexp, stored>>

Call(p, k, h) ==
  /\ loc[p].pc = "idle"
  /\ ncalls[p] < MaxCalls
  /\ ncalls' = [ncalls EXCEPT ![p] = @ + 1]
  /\ L1Body(p, [IdleLoc EXCEPT !.host = h, !.kind = k])

L1Retry(p) ==
  /\ loc[p].pc = "L1"
  /\ L1Body(p, loc[p])
  /\ UNCHANGED ncalls

ResolveOk(p) ==
  /\ loc[p].pc = "resolve"
  /\ nres' = nres + 1
  /\ loc' = [loc EXCEPT ![p] = [@ EXCEPT !.ans = [h |-> loc[p].host, v |-> nres + 1], !.pc = "L2"]]
  /\ UNCHANGED <<entries, mu, tick, nexp, ncalls, seq, served, stored>>

ResolveFail(p) ==
  /\ Faults
  /\ loc[p].pc = "resolve"
  /\ loc' = [loc EXCEPT ![p] = [@ EXCEPT !.pc = "idle", !.status = "nolookup", !.got = NoAns]]
  /\ UNCHANGED <<entries, mu, tick, nres, nexp, ncalls, seq, served, stored>>

L2Lock(p) ==
  /\ loc[p].pc = "L2"
  /\ mu = "free"
  /\ mu' = p
  /\ loc' = [loc EXCEPT ![p] = [@ EXCEPT !.pc = "L2loop"]]
  /\ UNCHANGED <<entries, tick, nres, nexp, ncalls, seq, served, stored>>

(* One iteration of `for len(c.entries) >= c.size { ... delete(c.entries, name) }`.  With an empty map *)
(* (Size = 0) no candidate is found, delete(entries, "") is a no-op and the loop does not progress.    *)
L2Evict(p) ==
  /\ loc[p].pc = "L2loop"
  /\ mu = p
  /\ Len(entries) >= Size
  /\ entries' = IF DOMAIN entries # {} THEN Without(entries, Oldest(entries)) ELSE entries
  /\ UNCHANGED <<mu, tick, nres, nexp, loc, ncalls, seq, served, stored>>

L2Insert(p) ==
  /\ loc[p].pc = "L2loop"
  /\ mu = p
  /\ Len(entries) < Size
  /\ tick' = tick + 1
  /\ entries' = With(entries, loc[p].host, [val |-> loc[p].ans, exp |-> InsertRank(tick + 1)])
  /\ seq' = SeqStore(seq, loc[p].host, loc[p].ans, tick + 1)
  /\ stored' = [stored EXCEPT ![p] = [h |-> loc[p].host, val |-> loc[p].ans]]
  /\ mu' = "free"
  /\ loc' = [loc EXCEPT ![p] = [@ EXCEPT !.got = loc[p].ans, !.cached = FALSE,
                                         !.pc = IF loc[p].kind = "lookup" THEN "idle" ELSE "dial",
                                         !.status = IF loc[p].kind = "lookup" THEN "miss" ELSE "run"]]
  /\ UNCHANGED <<nres, nexp, ncalls, served>>

DialOk(p) ==
  /\ loc[p].pc = "dial"
  /\ loc' = [loc EXCEPT ![p] = [@ EXCEPT !.pc = "idle", !.status = "conn"]]
  /\ UNCHANGED <<entries, mu, tick, nres, nexp, ncalls, seq, served, stored>>

DialFail(p) ==
  /\ Faults
  /\ loc[p].pc = "dial"
  /\ IF loc[p].cached /\ ~loc[p].retried
     THEN loc' = [loc EXCEPT ![p] = [@ EXCEPT !.retried = TRUE, !.pc = "delretry"]]
     ELSE loc' = [loc EXCEPT ![p] = [@ EXCEPT !.pc = "idle", !.status = "noconn"]]
  /\ UNCHANGED <<entries, mu, tick, nres, nexp, ncalls, seq, served, stored>>

DelRetry(p) ==
  /\ loc[p].pc = "delretry"
  /\ mu = "free"
  /\ entries' = Without(entries, loc[p].host)
  /\ seq' = SeqForget(seq, loc[p].host)
  /\ loc' = [loc EXCEPT ![p] = [@ EXCEPT !.pc = "L1"]]
  /\ UNCHANGED <<mu, tick, nres, nexp, ncalls, served, stored>>

Expire(h) ==
  /\ mu = "free"
  /\ nexp < MaxExpire
  /\ h \in DOMAIN entries
  /\ Fresh(entries[h])
  /\ nexp' = nexp + 1
  /\ tick' = tick + 1
  /\ entries' = [entries EXCEPT ![h] = [@ EXCEPT !.exp = tick + 1]]
  /\ seq' = SeqExpire(seq, h, tick + 1)
  /\ UNCHANGED <<mu, nres, loc, ncalls, served, stored>>

Terminated == \A p \in Procs : loc[p].pc = "idle" /\ ncalls[p] = MaxCalls
Done == Terminated /\ UNCHANGED vars

Step(p) == \/ L1Retry(p) \/ ResolveOk(p) \/ ResolveFail(p) \/ L2Lock(p) \/ L2Evict(p) \/ L2Insert(p)
           \/ DialOk(p) \/ DialFail(p) \/ DelRetry(p)

Next == \/ \E p \in Procs : Step(p)
        \/ \E p \in Procs, k \in Kinds, h \in Hosts : Call(p, k, h)
        \/ \E h \in Hosts : Expire(h)
        \/ Done

Spec == Init /\ [][Next]_vars
FairSpec == Init /\ [][Next]_vars /\ \A p \in Procs : WF_vars(Step(p))

View == mech

(* ------------------------------ properties ------------------------------ *)
Pcs == {"idle", "L1", "resolve", "L2", "L2loop", "dial", "delretry"}
TypeOK ==
  /\ DOMAIN entries \subseteq Hosts
  /\ mu \in Procs \cup {"free"}
  /\ \A p \in Procs : loc[p].pc \in Pcs /\ ncalls[p] \in 0..MaxCalls
  /\ \A h \in DOMAIN entries : entries[h].exp > 0

(* The cache never holds more entries than its configured size (in every state, also inside L2). *)
SizeBound == Len(entries) <= Size

(* A served entry is unexpired at its L1 and is what the sequential cache holds for that host. *)
ServedFreshAndSequential == \A p \in Procs : served[p].h # "" =>
                               /\ served[p].sval # NoAns
                               /\ served[p].val = served[p].sval

(* Addresses served / stored / held for h were resolved for h. *)
NoCrossHost ==
  /\ \A h \in DOMAIN entries : entries[h].val.h = h
  /\ \A p \in Procs : loc[p].got # NoAns => loc[p].got.h = loc[p].host
  /\ \A p \in Procs : served[p].h # "" => served[p].val.h = served[p].h
  /\ \A p \in Procs : stored[p].h # "" => stored[p].val.h = stored[p].h

(* Every critical section is one step of the sequential cache: outside critical sections the map IS the *)
(* sequential cache (the linearisation order is the order of the critical sections).                    *)
RefinesSequential == mu = "free" => entries = seq

(* A miss returns exactly the answer its own resolver call gave. *)
MissReturnsOwnAnswer == \A p \in Procs : (loc[p].status = "miss" \/ (loc[p].pc = "dial" /\ ~loc[p].cached)) => loc[p].got = loc[p].ans

(* With a zero lifetime nothing is ever served from the cache. *)
NeverServedWhenZeroDuration == ZeroDuration => \A p \in Procs : served[p] = NoServed /\ ~loc[p].cached

(* The mutex is held only inside L2. *)
MutexDiscipline == \A p \in Procs : (mu = p) <=> (loc[p].pc = "L2loop")

(* liveness (FairSpec): every started call returns - no deadlock on the mutex, the eviction loop terminates *)
EveryCallReturns == \A p \in Procs : (loc[p].pc # "idle") ~> (loc[p].pc = "idle")
=============================================================================
