SPECIFICATION Spec
INVARIANT EmitWhy
CHECK_DEADLOCK FALSE
