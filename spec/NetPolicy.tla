----------------------------- MODULE NetPolicy -----------------------------
(***************************************************************************)
(* C16 - outbound network policy: the allow / deny CIDR lists that guard   *)
(* every connection the federation client makes.                           *)
(*                                                                         *)
(* The property (Permit) is set-theoretic: a connection to an address over *)
(* a network is permitted iff the network is tcp4 / tcp6, the address lies *)
(* in NO parsable denied range and in AT LEAST ONE parsable allowed range  *)
(* ("deny beats allow").  List entries that are not CIDR text denote no    *)
(* range at all and must not affect the other entries.                     *)
(*                                                                         *)
(* The mechanics (action Dial) are those of an implementation: walk the    *)
(* deny list, then the allow list, entry by entry.  The invariants state   *)
(* that the walk decides exactly Permit.                                   *)
(*                                                                         *)
(* Addresses are octet strings, CIDR containment is bit-prefix equality -  *)
(* no address arithmetic beyond one octet (TLC integers are 32 bit).       *)
(* An IPv4-mapped IPv6 address (::ffff:a.b.c.d) denotes the IPv4 address   *)
(* a.b.c.d (that is where the connection goes): fam = 4, mapped = TRUE.    *)
(* Ranges of one family contain no address of the other.                   *)
(***************************************************************************)
EXTENDS Integers, Sequences, FiniteSets

SafeNets == {"tcp4", "tcp6"}

\* address  : [fam |-> 4 | 6, oct |-> 4 or 16 octets, mapped |-> BOOLEAN]
\* entry    : [bad |-> 0, fam, oct, len]  a CIDR  |  [bad |-> k > 0, ...]  text that is no CIDR
Parsable(e) == e.bad = 0

InCIDR(a, c) ==
    /\ Parsable(c)
    /\ a.fam = c.fam
    /\ \A i \in DOMAIN c.oct :
         LET k == c.len - 8 * (i - 1) IN          \* prefix bits that fall into octet i
         IF k >= 8 THEN a.oct[i] = c.oct[i]
         ELSE IF k <= 0 THEN TRUE
         ELSE a.oct[i] \div (2 ^ (8 - k)) = c.oct[i] \div (2 ^ (8 - k))

InSome(a, list) == \E i \in DOMAIN list : InCIDR(a, list[i])

\* ---- the property -----------------------------------------------------------
Permit(n, a, al, dn) == n \in SafeNets /\ ~InSome(a, dn) /\ InSome(a, al)
Configured(al, dn) == al # <<>> \/ dn # <<>>

VARIABLES allow, deny,      \* the configured lists (sequences of entries)
          addr, net,        \* the address about to be connected to, as the dialer sees it, and the network
          extra,            \* further addresses the same name resolves to (several A records): each is judged on its own
          reach,            \* how the address was reached: "control" (direct) | "literal" | "name" | "dnscache"
          phase, verdict,   \* "permit" | "refuse" | "open" (no list configured: no policy)
          xverdict          \* verdicts for the addresses in extra

vars == <<allow, deny, addr, net, extra, reach, phase, verdict, xverdict>>

\* ---- mechanics: first match while walking a list, skipping what does not parse ----
RECURSIVE Walk(_, _, _)
Walk(a, list, i) ==
    IF i > Len(list) THEN FALSE
    ELSE IF ~Parsable(list[i]) THEN Walk(a, list, i + 1)
    ELSE IF InCIDR(a, list[i]) THEN TRUE
    ELSE Walk(a, list, i + 1)

Decide(a) == IF ~Configured(allow, deny) THEN "open"
             ELSE IF net \notin SafeNets THEN "refuse"
             ELSE IF Walk(a, deny, 1) THEN "refuse"
             ELSE IF Walk(a, allow, 1) THEN "permit"
             ELSE "refuse"

Dial ==
    /\ phase = "start"
    /\ phase' = "done"
    /\ verdict' = Decide(addr)
    /\ xverdict' = [i \in DOMAIN extra |-> Decide(extra[i])]
    /\ UNCHANGED <<allow, deny, addr, net, extra, reach>>

Next == Dial

\* ---- invariants ---------------------------------------------------------------
Done == phase = "done"
Strip(list) == SelectSeq(list, Parsable)

Sound == Done /\ Configured(allow, deny) =>
    /\ (verdict = "permit" <=> Permit(net, addr, allow, deny))
    /\ \A i \in DOMAIN extra : xverdict[i] = "permit" <=> Permit(net, extra[i], allow, deny)   \* each address on its own
DenyBeatsAllow == Done /\ verdict = "permit" =>
    \A i \in DOMAIN deny : Parsable(deny[i]) => ~InCIDR(addr, deny[i])
OnlyAllowed == Done /\ verdict = "permit" => \E i \in DOMAIN allow : InCIDR(addr, allow[i])
OnlySafeNets == Done /\ verdict = "permit" => net \in SafeNets
\* unparsable entries are inert: the verdict is that of the lists without them
\* (unless removing them leaves nothing configured at all)
BadEntriesInert == Done /\ Configured(Strip(allow), Strip(deny)) =>
    (verdict = "permit" <=> Permit(net, addr, Strip(allow), Strip(deny)))
\* how the address was reached plays no role
ReachIrrelevant == Done /\ Configured(allow, deny) => verdict \in {"permit", "refuse"}
=============================================================================
