--------------------------- MODULE NetPolicy_gen ---------------------------
(***************************************************************************)
(* Scenario generator for NetPolicy.tla.                                   *)
(*  Family "ctl": the decision as the dialer control function sees it -    *)
(*     allow / deny lists (sequences over a universe of ranges plus an     *)
(*     unparsable entry) x candidate address (inside, outside, first /     *)
(*     last address of every range and their outer neighbours, IPv4-mapped *)
(*     IPv6) x network.  Networks other than tcp4 / tcp6 cannot read the   *)
(*     lists: these are fixed there (relevance pruning).                   *)
(*  Family "e2e": the same decision observed on real connections, which    *)
(*     confines it to ranges and addresses inside 127.0.0.0/8; the address *)
(*     is reached as a literal, by name, or by name through the DNS cache. *)
(***************************************************************************)
EXTENDS NetPolicy, Json, TLC

CONSTANTS Family, MaxAllow, MaxDeny

Zeros(n) == [i \in 1..n |-> 0]
Fill(n, v) == [i \in 1..n |-> v]
C4(a, b, c, d, len) == [bad |-> 0, fam |-> 4, oct |-> <<a, b, c, d>>, len |-> len]
C6(a, b, len) == [bad |-> 0, fam |-> 6, oct |-> <<a, b>> \o Zeros(14), len |-> len]
BadEntry == [bad |-> 1, fam |-> 0, oct |-> <<>>, len |-> 0]
A4(a, b, c, d) == [fam |-> 4, oct |-> <<a, b, c, d>>, mapped |-> FALSE]
M4(a, b, c, d) == [fam |-> 4, oct |-> <<a, b, c, d>>, mapped |-> TRUE]
A6(a, b, mid, last) == [fam |-> 6, oct |-> <<a, b>> \o Fill(13, mid) \o <<last>>, mapped |-> FALSE]

\* ---- family "ctl" ------------------------------------------------------------
Any4 == C4(0, 0, 0, 0, 0)      Ten8 == C4(10, 0, 0, 0, 8)     Ten16 == C4(10, 1, 0, 0, 16)
Any6 == C6(0, 0, 0)            ULA == C6(252, 0, 7)            \* ::/0, fc00::/7
CtlRanges == {Any4, Ten8, Ten16, Any6, ULA, BadEntry}
CtlAddrs == {A4(9, 255, 255, 255), A4(10, 0, 0, 0), A4(10, 0, 255, 255), A4(10, 1, 0, 0), A4(10, 1, 2, 3),
             A4(10, 1, 255, 255), A4(10, 2, 0, 0), A4(10, 255, 255, 255), A4(11, 0, 0, 0),
             A6(251, 255, 255, 255), A6(252, 0, 0, 0), A6(253, 0, 0, 1), A6(253, 255, 255, 255),
             A6(254, 0, 0, 0), A6(32, 1, 0, 1),
             M4(10, 1, 2, 3), M4(11, 0, 0, 0)}
CtlNets == {"tcp4", "tcp6", "tcp", "udp4"}

\* ---- family "e2e" ------------------------------------------------------------
Lo8 == C4(127, 0, 0, 0, 8)     Lo16 == C4(127, 1, 0, 0, 16)
E2eRanges == {Any4, Lo8, Lo16, BadEntry}
E2eAddrs == {A4(127, 0, 255, 255), A4(127, 1, 0, 0), A4(127, 1, 2, 3), A4(127, 1, 255, 255), A4(127, 2, 0, 0)}
\* a real connection needs a local address: 127.0.0.0/8 for IPv4, ::1 for IPv6
One6 == [bad |-> 0, fam |-> 6, oct |-> Zeros(15) \o <<1>>, len |-> 128]        \* ::1/128
E2eRanges6 == {Any6, One6, ULA, BadEntry}                                      \* ::1 lies in the first two only
Loop6 == [fam |-> 6, oct |-> Zeros(15) \o <<1>>, mapped |-> FALSE]
\* how the destination is reached = dial path x kind of name.  The dial path is the plain dialer of the
\* destination tripper or the DNS-cache dialer (WithDNSCache); the name is a DNS name resolving to the address,
\* an IPv4 literal, a bracketed IPv4-mapped IPv6 literal, a bracketed IPv6 literal.  The expectation is the
\* same whatever the name kind and the dial path.
Paths == {"plain", "dnscache"}
Kinds == {"name", "v4", "mapped", "v6"}

\* oracle sanity: the hand-picked addresses really are the edges they are meant to be
ASSUME /\ InCIDR(A4(10, 1, 0, 0), Ten16) /\ InCIDR(A4(10, 1, 255, 255), Ten16)
       /\ ~InCIDR(A4(10, 0, 255, 255), Ten16) /\ ~InCIDR(A4(10, 2, 0, 0), Ten16)
       /\ InCIDR(A4(10, 0, 0, 0), Ten8) /\ InCIDR(A4(10, 255, 255, 255), Ten8)
       /\ ~InCIDR(A4(9, 255, 255, 255), Ten8) /\ ~InCIDR(A4(11, 0, 0, 0), Ten8)
       /\ InCIDR(A6(252, 0, 0, 0), ULA) /\ InCIDR(A6(253, 255, 255, 255), ULA)
       /\ ~InCIDR(A6(251, 255, 255, 255), ULA) /\ ~InCIDR(A6(254, 0, 0, 0), ULA)
       /\ \A a \in CtlAddrs : InCIDR(a, Any4) = (a.fam = 4) /\ InCIDR(a, Any6) = (a.fam = 6)
       /\ InCIDR(M4(10, 1, 2, 3), Ten16) /\ ~InCIDR(M4(10, 1, 2, 3), Any6)
       /\ InCIDR(A4(127, 1, 0, 0), Lo16) /\ InCIDR(A4(127, 1, 255, 255), Lo16)
       /\ ~InCIDR(A4(127, 0, 255, 255), Lo16) /\ ~InCIDR(A4(127, 2, 0, 0), Lo16)
       /\ \A a \in E2eAddrs : InCIDR(a, Lo8)
       /\ InCIDR(Loop6, One6) /\ InCIDR(Loop6, Any6) /\ ~InCIDR(Loop6, ULA) /\ ~InCIDR(Loop6, Any4)
       /\ \A a \in CtlAddrs \cup E2eAddrs : ~InCIDR(a, BadEntry)

SeqsUpTo(U, n) == UNION {[1..k -> U] : k \in 0..n}

\* lists of three with the unparsable entry in the MIDDLE (the entry after it must still count, the one
\* before it too); the other list is fixed
CtlGood == CtlRanges \ {BadEntry}
Mid3 == {<<g1, BadEntry, g2>> : g1 \in CtlGood, g2 \in CtlGood}

InitCtl ==
    \E n \in CtlNets, a \in CtlAddrs :
    \E pair \in (IF n \in SafeNets
                 THEN (SeqsUpTo(CtlRanges, MaxAllow) \X SeqsUpTo(CtlRanges, MaxDeny))
                      \cup ({<<Any4, Any6>>, <<>>} \X Mid3) \cup (Mid3 \X {<<>>, <<Ten16>>})
                 ELSE {<<Any4, Any6>>} \X {<<>>, <<Ten16>>}) :
       /\ Configured(pair[1], pair[2])  \* the control function only exists when something is configured
       /\ allow = pair[1] /\ deny = pair[2] /\ addr = a /\ net = n /\ reach = "control" /\ extra = <<>>

\* ---- nested ranges sharing a base address (still family "ctl": the control function) --------------
\* 10.0.0.0/8, /16, /24, /32 and fc00::/7, /16, /64 all START at the same address: a list holding several of them, in
\* any order (narrower first, wider first, mixed), denotes the UNION of its ranges - the widest decides.  An entry
\* is never "already covered" because an earlier entry contains its base address.
Ten16b == C4(10, 0, 0, 0, 16)   Ten24b == C4(10, 0, 0, 0, 24)   Ten32b == C4(10, 0, 0, 0, 32)
ULA16 == C6(252, 0, 16)         ULA64 == C6(252, 0, 64)
NestRanges4 == {Ten8, Ten16b, Ten24b, Ten32b}
NestRanges6 == {ULA, ULA16, ULA64}
NestAddrs4 == {A4(10, 0, 0, 0), A4(10, 0, 0, 9), A4(10, 0, 9, 0), A4(10, 9, 0, 0), A4(10, 200, 0, 1), A4(11, 0, 0, 0)}
NestAddrs6 == {A6(252, 0, 0, 0), A6(252, 0, 0, 1), A6(252, 0, 9, 0), A6(252, 9, 0, 0), A6(253, 0, 0, 0), A6(254, 0, 0, 0)}
NestLists(U) == UNION {[1..k -> U] : k \in 2..3}
ASSUME /\ InCIDR(A4(10, 200, 0, 1), Ten8) /\ ~InCIDR(A4(10, 200, 0, 1), Ten16b)
       /\ InCIDR(A4(10, 0, 9, 0), Ten16b) /\ ~InCIDR(A4(10, 0, 9, 0), Ten24b)
       /\ InCIDR(A4(10, 0, 0, 9), Ten24b) /\ ~InCIDR(A4(10, 0, 0, 9), Ten32b) /\ InCIDR(A4(10, 0, 0, 0), Ten32b)
       /\ InCIDR(A6(253, 0, 0, 0), ULA) /\ ~InCIDR(A6(253, 0, 0, 0), ULA16)
       /\ InCIDR(A6(252, 0, 9, 0), ULA16) /\ ~InCIDR(A6(252, 0, 9, 0), ULA64) /\ InCIDR(A6(252, 0, 0, 1), ULA64)
       /\ \A a \in NestAddrs4 \cup NestAddrs6 : ~InCIDR(a, BadEntry)
InitNest ==
    \E v6 \in BOOLEAN :
    \E a \in (IF v6 THEN NestAddrs6 ELSE NestAddrs4), l \in NestLists(IF v6 THEN NestRanges6 ELSE NestRanges4) :
    \E pair \in {<<<<Any4, Any6>>, l>>, <<l, <<>> >>, <<l, <<BadEntry>> >>} :
       /\ allow = pair[1] /\ deny = pair[2] /\ addr = a /\ net = (IF v6 THEN "tcp6" ELSE "tcp4")
       /\ reach = "control" /\ extra = <<>>

\* a second A record for the same name: the next address in a fixed cycle (so that in-range and out-of-range mix)
NextAddr(a) == CASE a = A4(127, 0, 255, 255) -> A4(127, 1, 0, 0) [] a = A4(127, 1, 0, 0) -> A4(127, 2, 0, 0)
                 [] a = A4(127, 1, 2, 3) -> A4(127, 0, 255, 255) [] a = A4(127, 1, 255, 255) -> A4(127, 1, 2, 3)
                 [] OTHER -> A4(127, 1, 255, 255)

AsMapped(a) == [a EXCEPT !.mapped = TRUE]
InitE2e ==
    \E path \in Paths, kind \in Kinds :
    \E v6addr \in (IF kind = "name" THEN BOOLEAN ELSE {kind = "v6"}) :        \* a name may have an A or an AAAA record
    \E a \in (IF v6addr THEN {Loop6} ELSE IF kind = "mapped" THEN {AsMapped(x) : x \in E2eAddrs} ELSE E2eAddrs) :
    \E al \in SeqsUpTo(IF v6addr THEN E2eRanges6 ELSE E2eRanges, MaxAllow),
       dn \in SeqsUpTo(IF v6addr THEN E2eRanges6 ELSE E2eRanges, MaxDeny) :
    \E x \in (IF kind = "name" /\ ~v6addr THEN {<<>>, <<NextAddr(a)>>} ELSE {<<>>}) :   \* several A records
       /\ (path = "dnscache" => Configured(al, dn))   \* the property is silent about a DNS cache without lists
       /\ allow = al /\ deny = dn /\ addr = a /\ net = (IF v6addr THEN "tcp6" ELSE "tcp4")
       /\ reach = path \o ":" \o kind /\ extra = x

Init == /\ phase = "start" /\ verdict = "none" /\ xverdict = <<>>
        /\ IF Family = "e2e" THEN InitE2e ELSE (InitCtl \/ InitNest)
Spec == Init /\ [][Next]_vars

Enc(e) == IF e.bad = 0 THEN <<e.fam, e.len>> \o e.oct ELSE <<0, e.bad>>
EncList(l) == [i \in DOMAIN l |-> Enc(l[i])]
EncAddr(a) == <<a.fam, IF a.mapped THEN 1 ELSE 0>> \o a.oct

Emit == Done =>
    PrintT(ToJson([fam |-> Family, allow |-> EncList(allow), deny |-> EncList(deny), addr |-> EncAddr(addr),
                   net |-> net, reach |-> reach, verdict |-> verdict,
                   extra |-> [i \in DOMAIN extra |-> EncAddr(extra[i])], xverdict |-> xverdict]))
=============================================================================
