SPECIFICATION Spec
CONSTANTS
  Mode = "struct"
  FreeLen = 4
  MaxDev = 3
INVARIANTS TypeOK FaultAgrees LaxAdmitsMore StrictWithinHistorical Unambiguous AcceptedShape KindsDisjoint IPv4WithinDns StrayRefused Emit
CHECK_DEADLOCK FALSE
