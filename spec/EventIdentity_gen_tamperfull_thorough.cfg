SPECIFICATION Spec
CONSTANTS
  Versions <- VersionsAll
  Family = "tamper"
  ShapeIds <- ShapesLite
  VariantIds <- Variants1
  MaxOps = 0
  Alphabet <- NoOps
  PreOps <- PreNone
  SibFields <- NoFields
  SidPairs <- NoSid
  TamperMax = 11
  WireVersions <- NoVersions
  BulkVersions <- NoVersions
INVARIANTS TypeOK PRedactedIffMismatch PRedactedNoop PRedactedForm PIntact PIdSigIff PSigsTogether
  PSpellingNeutral PCaseIsAnotherKey PVariantIsAnotherKey PDupOneReading PDupGenuineOnly PDupNoReadingHash PDupForgerOnly PDupSummaries PSizeOfTheEvent PBulkStrippedNeutral PBulkRedactable PBulkIsOverOnTheWire Emit
CHECK_DEADLOCK FALSE
