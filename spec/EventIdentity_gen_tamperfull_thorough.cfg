SPECIFICATION Spec
CONSTANTS
  Versions <- VersionsAll
  Family = "tamper"
  ShapeIds <- ShapesLite
  VariantIds <- Variants1
  MaxOps = 0
  Alphabet <- NoOps
  PreOps <- PreNone
  SibFields <- NoFields
  TamperMax = 11
INVARIANTS TypeOK PRedactedIffMismatch PRedactedNoop PRedactedForm PIntact PIdSigIff PSigsTogether Emit
CHECK_DEADLOCK FALSE
