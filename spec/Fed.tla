-------------------------------- MODULE Fed --------------------------------
(***************************************************************************)
(* X06 - Federation: one room replicated between several homeservers.      *)
(*                                                                         *)
(* Every server runs the receipt pipeline of the Matrix server-server      *)
(* specification ("Checks performed upon receipt of a PDU", steps 4 and 5; *)
(* "Rejection": a rejected event does not update the state and is never a  *)
(* prev event of the server's own events; auth rule 2: an event citing a   *)
(* rejected auth event is rejected) on the events it creates and receives; *)
(* the room state before an event is the resolution (StateRes.tla) of the  *)
(* states after its prev events as THIS server computed them.  The classic *)
(* replication property follows: servers that processed the same events    *)
(* agree on every verdict and every state, whatever the delivery order.    *)
(*                                                                         *)
(* The event store E, the creation of events (Send: built on a set of      *)
(* extremities from the state resolved there, auth events = the needed     *)
(* part of that state) and the creation prefix are Room.tla's; here they   *)
(* are used PER SERVER: a server builds on ITS extremities and ITS state.  *)
(* Room.tla's variable `after` keeps the state after each event as its     *)
(* SENDER claims it.                                                       *)
(*                                                                         *)
(* Server 0 is an observer that no real server corresponds to: it receives *)
(* every event at the moment of its creation.  "The results are a function *)
(* of the DAG" is stated as agreement with the observer.                   *)
(*                                                                         *)
(* Step 6 of the receipt checks (soft failure against the CURRENT state)   *)
(* is left out on purpose: it depends on the order of receipt by design    *)
(* and does not influence the room state (the library does not implement   *)
(* it either: load.go "TODO: performSoftFailCheck").                       *)
(***************************************************************************)
EXTENDS Room

CONSTANTS NServers,   \* real servers 1..NServers; the users' home servers: creator, alice -> 1; bob -> 2; carol -> 3 (or 2)
          Byz,        \* servers that may send events their state does not allow / with stale auth events, and that
                      \* believe their own events (they go on building on them); all other servers are honest
          Fault,      \* planted defect of the receipt pipeline ("none": the specified design)
          Gap,        \* TRUE: an event may also be delivered while (at most GapMax) prev events are missing:
                      \* they are fetched and processed first (get_missing_events)
          LateJoin,   \* TRUE: servers 1 and 2 may send before server 3 has joined
          BobLevel,   \* the level (rank) the room's first power-levels event gives bob, Absent: bob is not listed.  With
                      \* a moderator on the second server two servers send power events concurrently: the order in
                      \* which state resolution replays them matters
          SendKinds   \* the kinds of Room.tla's Send explored

VARIABLES srv,    \* srv[s]: what server s holds
          badEv,    \* history: events that the auth events they cite do not allow (sent by a byzantine server)
          stale,  \* history: events that cite the auth events of an earlier state, which the sender's current state does not allow
          hist    \* history: the steps taken, with the acting servers' results (for the replay)

fvars == <<vars, srv, badEv, stale, hist>>

Obs == 0
Servers == 1..NServers
Honest == Servers \ Byz
Judges == {Obs} \cup Honest           \* the servers the properties speak about

ASSUME /\ NServers \in {2, 3}
       /\ Byz \subseteq Servers /\ 1 \notin Byz
       /\ Dishonest = (Byz # {})
       /\ SendKinds \subseteq Kinds
       /\ BobLevel \in LevelOrAbsent

Home(u) == CASE u \in {"creator", "alice"} -> 1
             [] u = "bob" -> 2
             [] OTHER -> IF NServers >= 3 THEN 3 ELSE 2

\* the creation prefix: Room.tla's, bob listed in the power levels if so configured
FedPrefix(k) == IF k = 3 THEN [Prefix[3] EXCEPT !.plu = [@ EXCEPT !["bob"] = BobLevel]] ELSE Prefix[k]

GapMax == 2
PrefixLen == 5          \* create, creator's join, power levels, join rules, alice's join: sent by server 1

(***************************************************************************)
(* What a server holds                                                     *)
(*   kn   - the events it has processed (or was handed at its join)        *)
(*   vd   - its verdict per known event                                    *)
(*            "accepted"                                                   *)
(*            "rejected"       fails the auth rules against its auth       *)
(*                             events, or cites a rejected auth event      *)
(*            "staterejected"  passes those but not the state before it    *)
(*   sa   - the room state after the events it processed itself (events    *)
(*          handed over at a join are known without their state)           *)
(*   tips - its forward extremities                                        *)
(*   cur  - its current room state: the resolution over its extremities    *)
(***************************************************************************)
Verdicts == {"accepted", "rejected", "staterejected"}
NoFn == [x \in {} |-> {}]
Empty == [kn |-> {}, vd |-> NoFn, sa |-> NoFn, tips |-> {}, cur |-> {}]

InRoom(s) == srv[s].kn # {}
HasState(L) == DOMAIN L.sa
Put(f, k, v) == [x \in (DOMAIN f) \cup {k} |-> IF x = k THEN v ELSE f[x]]

\* the event store as server L sees it: the events it rejected are marked (the caller's oracle of state resolution)
ViewOf(EE, L) == [i \in DOMAIN EE |-> [EE[i] EXCEPT !.rejected = (i \in L.kn /\ L.vd[i] # "accepted")]]

\* resolution over the states after the events P, as L holds them
StateOver(EE, L, P) ==
    LET SS == {L.sa[p] : p \in P} IN
    IF P = {} THEN {}
    ELSE IF Cardinality(SS) = 1 THEN CHOOSE x \in SS : TRUE
    ELSE Resolve(ViewOf(EE, L), Ver, SetToSeq(SS))

(***************************************************************************)
(* The receipt pipeline: server s (holding L) processes event e of store   *)
(* EE.  AF: the states the senders claim (used by a planted fault only).   *)
(***************************************************************************)
Process(EE, AF, L, s, e) ==
    LET own == s \in Byz /\ Home(EE[e].sender) = s        \* a byzantine server believes its own events
        A4 == EE[e].auth
        \* step 4: allowed by its auth events, none of which is unknown or rejected
        ok4 == /\ \A a \in A4 : a \in L.kn /\ L.vd[a] = "accepted"
               /\ AllowedAt(EE, Ver, A4, e) = TRUE
        \* step 5: allowed by the state before it
        S == StateOver(EE, L, EE[e].prev)
        ok5 == Fault = "skip_state_check" \/ AllowedAt(EE, Ver, S, e) = TRUE
        ok6 == Fault # "softfail_rejects" \/ AllowedAt(EE, Ver, L.cur, e) = TRUE
        v == IF own THEN "accepted"
             ELSE IF ~ok4 THEN "rejected"
             ELSE IF ~ok5 \/ ~ok6 THEN "staterejected"
             ELSE "accepted"
        acc == v = "accepted"
        A == IF acc
             THEN (IF Fault = "trust_claim" /\ ~own THEN AF[e] ELSE ApplyTo(EE, S, e))
             ELSE (IF Fault = "apply_rejected" THEN ApplyTo(EE, S, e) ELSE S)
        T == IF acc \/ Fault = "rejected_tip" THEN (L.tips \ Ancestors(EE, e)) \cup {e} ELSE L.tips
        L1 == [L EXCEPT !.kn = @ \cup {e}, !.vd = Put(@, e, v), !.sa = Put(@, e, A), !.tips = T]
        C == IF T = L.tips THEN L.cur ELSE IF T = {e} THEN A ELSE StateOver(EE, L1, T)
    IN [L |-> [L1 EXCEPT !.cur = C],
        out |-> [s |-> s, e |-> e, v |-> v, sa |-> A, tips |-> T, cur |-> C]]

\* several events, oldest first
RECURSIVE ProcessAll(_, _, _, _, _, _)
ProcessAll(EE, AF, L, s, todo, outs) ==
    IF todo = {} THEN [L |-> L, outs |-> outs]
    ELSE LET e == CHOOSE x \in todo : \A y \in todo : x <= y
             r == Process(EE, AF, L, s, e)
         IN ProcessAll(EE, AF, r.L, s, todo \ {e}, Append(outs, r.out))

(***************************************************************************)
(* A join over federation (make_join / send_join): the joining server      *)
(* receives the state before its join event and the auth chain; it keeps   *)
(* the events that are allowed by their auth events, recursively.          *)
(***************************************************************************)
RECURSIVE ChainAccepted(_, _)
ChainAccepted(EE, x) == AllowedAt(EE, Ver, EE[x].auth, x) /\ \A a \in EE[x].auth : ChainAccepted(EE, a)

Handover(EE, S, j) ==
    LET H == S \cup ChainOf(EE, S \cup {j})
        good == {x \in H : ChainAccepted(EE, x)}
        S1 == S \cap good
        A == ApplyTo(EE, S1, j)
    IN [kn |-> H \cup {j},
        vd |-> [x \in H \cup {j} |-> IF x = j \/ x \in good THEN "accepted" ELSE "rejected"],
        sa |-> [x \in {j} |-> A], tips |-> {j}, cur |-> A]

(***************************************************************************)
(* Actions                                                                 *)
(***************************************************************************)
FInit == /\ E = <<>> /\ after = <<>> /\ last = 0 /\ before = {} /\ nbad = 0
         /\ srv = [s \in {Obs} \cup Servers |-> Empty]
         /\ badEv = {} /\ stale = {}
         /\ hist = <<>>

Step(a, s, e, via, outs) == [a |-> a, s |-> s, e |-> e, via |-> via, res |-> outs]

\* the sending server and the observer process the newest event
LocalNew(a, s, via) ==
    LET i == Len(E')
        ro == Process(E', after', srv[Obs], Obs, i)
        rs == Process(E', after', srv[s], s, i)
    IN [o |-> ro, r |-> rs]

\* Create: server 1 sends the next event of the creation prefix on its extremities, citing the state it needs
Create ==
    /\ N < PrefixLen
    /\ LET k == N + 1
           ev == FedPrefix(k)
           EE == Append(E, ev)
       IN /\ ev.prev = srv[1].tips
          /\ ev.auth = {p \in srv[1].cur : KeyOf(E, p) \in NeededKeys(EE, k)}
          /\ E' = EE
          /\ after' = Append(after, ApplyTo(EE, srv[1].cur, k))
          /\ last' = k /\ before' = srv[1].cur /\ nbad' = nbad
    /\ LET p == LocalNew("create", 1, 0) IN
          /\ srv' = [srv EXCEPT ![Obs] = p.o.L, ![1] = p.r.L]
          /\ hist' = Append(hist, Step("create", 1, Len(E'), 0, <<p.r.out>>))
    /\ UNCHANGED <<badEv, stale>>

NFree == N - PrefixLen - (Cardinality({s \in Servers : InRoom(s)}) - 1)     \* events that are neither prefix nor federated joins
AllJoined == \A s \in Servers : InRoom(s)
MaySend == N >= PrefixLen /\ NFree < MaxFree /\ (AllJoined \/ (LateJoin /\ InRoom(2)))

\* Join: the first user of a server that is not in the room joins through server `via`
JoinWith(s, u, via, ts) ==
    /\ N >= PrefixLen /\ ~InRoom(s) /\ Home(u) = s
    /\ \A x \in Servers : x < s => InRoom(x)
    /\ via \in Honest /\ InRoom(via)
    /\ Plausible(srv[via].cur, u, "join") = TRUE
    /\ Send(u, "join", u, 0, "", srv[via].tips, ts, srv[via].cur)
    /\ nbad' = nbad
    /\ LET i == Len(E')
           p == LocalNew("join", via, via)
           H == Handover(E', srv[via].cur, i)
       IN /\ p.r.out.v = "accepted"          \* the resident server answers send_join only for a join it accepts
          /\ srv' = [srv EXCEPT ![Obs] = p.o.L, ![via] = p.r.L, ![s] = H]
          /\ hist' = Append(hist, Step("join", s, i, via,
                               <<p.r.out, [s |-> s, e |-> i, v |-> "accepted", sa |-> H.cur, tips |-> H.tips, cur |-> H.cur]>>))
    /\ UNCHANGED <<badEv, stale>>

Join(s, u, via) == \E ts \in TSChoices : JoinWith(s, u, via, ts)

Params(u, kind) ==
    (IF kind \in {"ban", "kick", "invite"} THEN Users ELSE IF kind = "pl" THEN PLTargets ELSE {u})
      \X (IF kind = "pl" THEN PLLevels ELSE {0})
      \X (IF kind = "jr" THEN {"public", "invite"} ELSE {""})

\* Send: a user of server s (in the room) sends an event on the server's extremities from the server's state
SendWith(s, u, kind, t, lvl, rule, ts) ==
    /\ MaySend /\ InRoom(s) /\ Home(u) = s
    /\ Plausible(srv[s].cur, u, kind) = TRUE
    /\ Send(u, kind, t, lvl, rule, srv[s].tips, ts, srv[s].cur)
    /\ (s \notin Byz => nbad' = nbad)                   \* honest servers send only what their state allows
    /\ (nbad' > nbad => Cardinality(badEv \cup stale) < MaxBad)
    /\ badEv' = IF nbad' > nbad THEN badEv \cup {Len(E')} ELSE badEv
    /\ stale' = stale
    /\ LET p == LocalNew("send", s, 0) IN
          /\ srv' = [srv EXCEPT ![Obs] = p.o.L, ![s] = p.r.L]
          /\ hist' = Append(hist, Step("send", s, Len(E'), 0, <<p.r.out>>))

SendOn(s, u, kind) == \E ts \in TSChoices, p \in Params(u, kind) : SendWith(s, u, kind, p[1], p[2], p[3], ts)

\* a byzantine server sends an event its state does not allow, citing the auth events of an earlier state x of its
\* own that did allow it (the classic attempt: the promotion that has since been taken back, the membership from
\* before the ban)
SendStaleWith(s, u, kind, t, lvl, rule, ts, x) ==
    /\ MaySend /\ InRoom(s) /\ Home(u) = s /\ s \in Byz
    /\ Cardinality(badEv \cup stale) < MaxBad
    /\ x \in HasState(srv[s]) /\ srv[s].sa[x] # srv[s].cur
    /\ \A tp \in srv[s].tips : x \in Ancestors(E, tp)
    /\ Plausible(srv[s].sa[x], u, kind) = TRUE
    /\ Send(u, kind, t, lvl, rule, srv[s].tips, ts, srv[s].sa[x])
    /\ nbad' = nbad                                    \* the stale state allows it ...
    /\ AllowedAt(E', Ver, srv[s].cur, Len(E')) = FALSE \* ... the current state does not
    /\ stale' = stale \cup {Len(E')} /\ badEv' = badEv
    /\ LET p == LocalNew("send", s, 0) IN
          /\ srv' = [srv EXCEPT ![Obs] = p.o.L, ![s] = p.r.L]
          /\ hist' = Append(hist, Step("stale", s, Len(E'), x, <<p.r.out>>))

SendStale(s, u, kind, x) ==
    \E ts \in TSChoices, p \in Params(u, kind) : SendStaleWith(s, u, kind, p[1], p[2], p[3], ts, x)

\* Deliver: server s receives event e, all of whose prev events it has processed
CanDeliver(s, e) == InRoom(s) /\ e \notin srv[s].kn /\ E[e].prev # {} /\ E[e].prev \subseteq HasState(srv[s])

Deliver(s, e) ==
    /\ CanDeliver(s, e)
    /\ LET r == Process(E, after, srv[s], s, e) IN
          /\ srv' = [srv EXCEPT ![s] = r.L]
          /\ hist' = Append(hist, Step("deliver", s, e, 0, <<r.out>>))
    /\ UNCHANGED <<vars, badEv, stale>>

\* the prev events of e, transitively, that s lacks (down to events it has processed)
RECURSIVE MissingBelow(_, _, _)
MissingBelow(L, frontier, seen) ==
    LET nxt == ((UNION {E[x].prev : x \in frontier}) \ HasState(L)) \ seen IN
    IF nxt = {} THEN seen ELSE MissingBelow(L, nxt, seen \cup nxt)

CanDeliverGap(s, e) ==
    /\ Gap /\ InRoom(s) /\ e \notin srv[s].kn
    /\ LET M == MissingBelow(srv[s], {e}, {}) IN
          /\ M # {} /\ Cardinality(M) <= GapMax /\ M \cap srv[s].kn = {}
          /\ \A m \in M : E[m].prev # {}

\* DeliverGap: s receives e, asks for the events between its extremities and e, and processes them oldest first
DeliverGap(s, e) ==
    /\ CanDeliverGap(s, e)
    /\ LET M == MissingBelow(srv[s], {e}, {})
           r == ProcessAll(E, after, srv[s], s, M \cup {e}, <<>>)
       IN /\ srv' = [srv EXCEPT ![s] = r.L]
          /\ hist' = Append(hist, Step("gap", s, e, 0, r.outs))
    /\ UNCHANGED <<vars, badEv, stale>>

FNext ==
    \/ Create
    \/ \E s \in Servers \ {1}, u \in Users, via \in Servers : Join(s, u, via)
    \/ \E s \in Servers, u \in Users, kind \in SendKinds : SendOn(s, u, kind)
    \/ \E s \in Byz, u \in Users, kind \in SendKinds, x \in DOMAIN E : SendStale(s, u, kind, x)
    \/ \E s \in Servers, e \in DOMAIN E : Deliver(s, e)
    \/ \E s \in Servers, e \in DOMAIN E : DeliverGap(s, e)

FSpec == FInit /\ [][FNext]_fvars

Quiet == \A s \in Servers, e \in DOMAIN E : ~CanDeliver(s, e) /\ ~CanDeliverGap(s, e)
Terminal == N >= PrefixLen /\ AllJoined /\ NFree = MaxFree /\ Quiet

(***************************************************************************)
(* THE PROPERTIES - stated over what the servers hold, not over how they   *)
(* got there                                                               *)
(***************************************************************************)
Banned(S, u) == \E x \in S : KeyOf(E, x) = <<"member", u>> /\ E[x].membership = "ban"

\* (1) Convergence: two honest servers agree on every event both have processed - the verdict and the state after
\* it - and servers with the same extremities (in particular: that have processed the same events) hold the same
\* current room state
Convergence ==
    \A s \in Honest, t \in Honest :
       /\ \A e \in srv[s].kn \cap srv[t].kn : srv[s].vd[e] = srv[t].vd[e]
       /\ \A e \in HasState(srv[s]) \cap HasState(srv[t]) : srv[s].sa[e] = srv[t].sa[e]
       /\ (srv[s].tips = srv[t].tips /\ srv[s].tips # {} => srv[s].cur = srv[t].cur)
       /\ (srv[s].kn = srv[t].kn => srv[s].tips = srv[t].tips /\ srv[s].cur = srv[t].cur)

\* (2) Delivery-order independence: what a server holds about an event is a function of the DAG - it is what the
\* observer, who saw every event the moment it was created, holds; and the current state is a function of the
\* extremities
OrderIndependence ==
    \A s \in Honest :
       /\ \A e \in srv[s].kn : srv[s].vd[e] = srv[Obs].vd[e]
       /\ \A e \in HasState(srv[s]) : srv[s].sa[e] = srv[Obs].sa[e]
       /\ (srv[s].tips = srv[Obs].tips => srv[s].cur = srv[Obs].cur)

\* (3) an event a server rejected is in no state that server computes
RejectedNeverInState ==
    \A s \in Judges :
       LET L == srv[s]
           okset(S) == \A x \in S : x \in L.kn /\ L.vd[x] = "accepted" IN
       /\ okset(L.cur)
       /\ \A e \in HasState(L) : okset(L.sa[e])

\* (4) a ban holds.  Weak form: where the state after every extremity has u banned, u is not a member in the resolved
\* state; and no event of u's - other than u's own membership event - sent on top of events after all of which u
\* was banned is accepted.
BanHolds ==
    \A s \in Judges, u \in Users :
       LET L == srv[s] IN
       /\ (L.tips # {} /\ \A p \in L.tips : Banned(L.sa[p], u))
             => ~\E x \in L.cur : KeyOf(E, x) = <<"member", u>> /\ E[x].membership = "join"
       /\ \A e \in HasState(L) :
            (/\ E[e].sender = u /\ KeyOf(E, e) # <<"member", u>>
             /\ E[e].prev # {} /\ E[e].prev \subseteq HasState(L) /\ \A p \in E[e].prev : Banned(L.sa[p], u))
               => L.vd[e] # "accepted"

\* Strict form: ... the resolved state has u banned, and no event of u's at all is accepted there.
\* NOT a theorem of the design: state resolution v2 replays conflicting bans against the resolved power state, so two
\* different bans of u (a moderator bans u and bans u again on one branch, and is banned himself on the other) can
\* BOTH fail, leaving u without a membership event - free to join a public room again.  TLC finds this with three
\* events beyond the prefix and a moderator on the second server (plan v10-3events of checks/x06.py, which records
\* the refutation as a note about the design); the invariant is kept for every other plan.
BanHoldsStrict ==
    \A s \in Judges, u \in Users :
       LET L == srv[s] IN
       /\ (L.tips # {} /\ \A p \in L.tips : Banned(L.sa[p], u)) => Banned(L.cur, u)
       /\ \A e \in HasState(L) :
            (E[e].sender = u /\ E[e].prev # {} /\ E[e].prev \subseteq HasState(L) /\ \A p \in E[e].prev : Banned(L.sa[p], u))
               => L.vd[e] # "accepted"

\* (5) a server accepts the events it sent itself (honest servers send only what their state allows)
OwnSendsAccepted ==
    \A s \in Honest : \A e \in srv[s].kn : Home(E[e].sender) = s => srv[s].vd[e] = "accepted"

\* (6) "Rejection": an event a server rejected is never a prev event of an event that server sent
\* (the event by which a server joined is built on the resident server's extremities)
OwnPrevsAccepted ==
    \A s \in Honest : \A e \in HasState(srv[s]) :
       (Home(E[e].sender) = s /\ \E f \in HasState(srv[s]) : f < e)
          => \A p \in E[e].prev : p \in srv[s].kn /\ srv[s].vd[p] = "accepted"

\* (7) honest rooms: nothing is ever rejected, and every server holds, after each event, the state its sender claimed
HonestRoomsAgree ==
    Byz = {} => \A s \in Judges :
       /\ \A e \in srv[s].kn : srv[s].vd[e] = "accepted"
       /\ \A e \in HasState(srv[s]) : srv[s].sa[e] = after[e]

\* (8) an event that the auth events it cites do not allow is accepted by no honest server
BadNeverAccepted ==
    \A s \in Judges : \A e \in srv[s].kn \cap badEv : srv[s].vd[e] # "accepted"

(***************************************************************************)
(* Oracle sanity                                                           *)
(***************************************************************************)
TypeOK ==
    /\ \A s \in {Obs} \cup Servers :
         LET L == srv[s] IN
         /\ L.kn \subseteq DOMAIN E /\ DOMAIN L.vd = L.kn /\ HasState(L) \subseteq L.kn /\ L.tips \subseteq HasState(L)
         /\ \A e \in L.kn : L.vd[e] \in Verdicts
         /\ \A e \in HasState(L) : L.sa[e] \subseteq L.kn
         /\ L.cur \subseteq L.kn
    /\ srv[Obs].kn = DOMAIN E /\ HasState(srv[Obs]) = DOMAIN E
    /\ badEv \subseteq DOMAIN E /\ stale \subseteq DOMAIN E /\ Len(after) = N

\* the extremities are the accepted events that no accepted event descends from
TipsAreFrontier ==
    \A s \in Judges :
       LET L == srv[s]
           acc == {e \in HasState(L) : L.vd[e] = "accepted"} IN
       L.tips = {e \in acc : \A f \in acc : e \notin Ancestors(E, f)}

\* a server never has to ask for an auth event: the auth events of what it processes are known to it
AuthKnown == \A s \in Judges : \A e \in HasState(srv[s]) : E[e].auth \subseteq srv[s].kn

\* the current state is the resolution over the extremities, and every state is a state: one event per key
CurIsResolved ==
    \A s \in Judges :
       LET L == srv[s] IN
       /\ L.cur = StateOver(E, L, L.tips)
       /\ \A a \in L.cur, b \in L.cur : KeyOf(E, a) = KeyOf(E, b) => a = b

\* what was handed over at a join was all kept
HandoverClean == \A s \in Honest : \A e \in srv[s].kn \ HasState(srv[s]) : srv[s].vd[e] = "accepted"
=============================================================================
