SPECIFICATION Spec
CONSTANTS
  VerSet <- VersFault
  Budget = 2
  Fault = "asbuilt_merge"
  Strict = FALSE
INVARIANTS TypeOK SentIsTheJoin
CHECK_DEADLOCK FALSE
