\* X06 thorough tier, plan v10-3servers: three honest servers, two events beyond the creation prefix and the two joins.
SPECIFICATION GSpec
CONSTANTS
  Start = 1
  Ver = "10"
  MaxFree = 2
  ForkFrom = 1
  TSChoices <- TS1
  IdDesc = FALSE
  Addl = {}
  MaxBad = 0
  Dishonest = FALSE
  NServers = 3
  Byz <- NoByz
  Fault = "none"
  Gap = FALSE
  LateJoin = FALSE
  SendKinds <- PowerKinds
  Mode = "cover"
VIEW CoverView
INVARIANTS TypeOK TipsAreFrontier AuthKnown HandoverClean Convergence OrderIndependence RejectedNeverInState BanHolds OwnSendsAccepted OwnPrevsAccepted HonestRoomsAgree BadNeverAccepted Emit
CHECK_DEADLOCK FALSE
