SPECIFICATION Spec
CONSTANTS
  Versions <- VersionsAll
  Family = "sid"
  ShapeIds <- ShapesSidQuick
  VariantIds <- Variants2
  MaxOps = 2
  Alphabet <- AlphabetSid
  PreOps <- PreNone
  SibFields <- NoFields
  SidPairs <- SidQuick
  TamperMax = 0
INVARIANTS TypeOK PIdStable PRoundTrip PRedactKeeps PV12 PBuildOrRefuse Emit
CHECK_DEADLOCK FALSE
