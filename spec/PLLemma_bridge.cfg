\* by hand: one family of the bridge (checks/c08_lemma.py writes one cfg per family and tier at run time)
SPECIFICATION BSpec
CONSTANTS
  Versions <- VersionsQuick
  Family = "pl1"
  PLDepth = "small"
INVARIANTS BridgeAgree RankLemma
CHECK_DEADLOCK FALSE
