SPECIFICATION GSpec
CONSTANTS
  Servers = {"s1", "s2", "s3"}
  NWorkers = 3
  Q = 3
  StartFirst = FALSE
  KeyIds = {"k1", "k2"}
  DirectOutcomes = {"ok", "err"}
  NotaryOutcomes = {"ok", "err"}
  HasLocal = FALSE
INVARIANTS TypeOK ExactUnion EachServerOnce NothingEarly QueueBound Emit
CHECK_DEADLOCK FALSE
