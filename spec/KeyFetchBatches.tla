--------------------------- MODULE KeyFetchBatches ---------------------------
(* C19 - keyring.go: SEVERAL overlapping FetchKeys batches on ONE DirectKeyFetcher. *)
(*                                                                              *)
(* KeyFetchPool.tla is one batch with its queue and worker pool; here the pool is  *)
(* abstracted (one fetch process per requested server, which is what the pool       *)
(* amounts to for batches of at most 64 servers) and the dimension is the OTHER       *)
(* callers: batches that start at different moments, request overlapping sets of      *)
(* servers, and whose callers go away (context cancelled, or already done when the     *)
(* batch is started) while their requests are in flight.                              *)
(*                                                                              *)
(* The remote servers have a behaviour of their own, independent of who asks         *)
(* (`answer`): "direct" (answers the direct request), "notary" (the direct request     *)
(* fails, the notary request succeeds), "down" (both fail), "flaky" (the FIRST direct  *)
(* and the FIRST notary request it receives fail, every later one succeeds: a           *)
(* transient fault that hits whoever came first).  A request made under a context       *)
(* that is done fails with the context's error, whatever the server would have said.    *)
(*                                                                              *)
(* The code as it is shares nothing between batches (Coalesce = FALSE): every batch    *)
(* makes its own requests.  Coalesce = TRUE is the design in which a batch that needs a   *)
(* server another batch is already asking waits for THAT fetch and takes over its         *)
(* outcome; KeyFetchBatches_coalesce.cfg shows why the outcome of a fetch must not be       *)
(* shared as it is: the first caller goes away, its fetch fails with ITS context error,       *)
(* and the second caller - live context, a server that answers - is handed that failure        *)
(* (LiveCallerGetsWhatTheServersAnswer is refuted).                                        *)
(*                                                                              *)
(* Property: what a batch returns depends on its own context and on the servers only -   *)
(* never on the fate of another caller: a caller whose context stays live gets exactly    *)
(* the keys of the requested servers that answer (what the sequential execution of that   *)
(* batch alone gives); a caller that went away gets nothing it did not fetch; every          *)
(* batch returns (no deadlock: the only terminal state is "all returned").                    *)
EXTENDS Integers, FiniteSets, TLC

CONSTANTS Batches, Servers, Reqs, Behaviours, Cancellable, Coalesce

VARIABLES req,       \* batch -> set of servers it requests (chosen from Reqs)
          answer,    \* server -> behaviour
          ndirect, nnotary,   \* server -> number of direct / notary requests answered so far (for "flaky")
          started,   \* batch -> FetchKeys has been called
          ctx,       \* batch -> "live" | "done"
          f,         \* batch -> server -> "none" | "direct" | "notary" | "merge" | "joined" | "done"
          owner,     \* only with Coalesce: server -> the batch whose fetch is in flight ("" = none)
          results, returned, out,
          own        \* history: batch -> servers one of whose OWN requests succeeded

(* every assignment of non-empty request sets / only those in which two batches share a server *)
AllReqs == [Batches -> (SUBSET Servers) \ {{}}]
OverlappingReqs == {r \in AllReqs : \E b1, b2 \in Batches : b1 # b2 /\ r[b1] \cap r[b2] # {}}

vars == <<req, answer, ndirect, nnotary, started, ctx, f, owner, results, returned, out, own>>

Init ==
  /\ req \in Reqs
  /\ answer \in [Servers -> Behaviours]
  /\ ndirect = [s \in Servers |-> 0] /\ nnotary = [s \in Servers |-> 0]
  /\ started = [b \in Batches |-> FALSE]
  /\ ctx = [b \in Batches |-> "live"]
  /\ f = [b \in Batches |-> [s \in Servers |-> "none"]]
  /\ owner = [s \in Servers |-> ""]
  /\ results = [b \in Batches |-> {}]
  /\ returned = [b \in Batches |-> FALSE]
  /\ out = [b \in Batches |-> {}]
  /\ own = [b \in Batches |-> {}]

(* what server s says to a direct / notary request that reaches it now *)
DirectAnswer(s) == CASE answer[s] = "direct" -> "ok"
                     [] answer[s] = "flaky"  -> IF ndirect[s] = 0 THEN "err" ELSE "ok"
                     [] OTHER -> "err"
NotaryAnswer(s) == CASE answer[s] = "notary" -> "ok"
                     [] answer[s] = "direct" -> "ok"
                     [] answer[s] = "flaky"  -> IF nnotary[s] = 0 THEN "err" ELSE "ok"
                     [] OTHER -> "err"

(* FetchKeys(ctx, requests): the pool is filled and the workers start; with Coalesce a server somebody else is  *)
(* fetching is not asked again                                                                                *)
Start(b) ==
  /\ ~started[b]
  /\ started' = [started EXCEPT ![b] = TRUE]
  /\ f' = [f EXCEPT ![b] = [s \in Servers |-> IF s \notin req[b] THEN "none"
                                               ELSE IF Coalesce /\ owner[s] # "" THEN "joined" ELSE "direct"]]
  /\ owner' = IF Coalesce THEN [s \in Servers |-> IF s \in req[b] /\ owner[s] = "" THEN b ELSE owner[s]] ELSE owner
  /\ UNCHANGED <<req, answer, ndirect, nnotary, ctx, results, returned, out, own>>

(* environment: the caller of b goes away (before or after it started its batch) *)
Cancel(b) ==
  /\ b \in Cancellable
  /\ ctx[b] = "live"
  /\ ~returned[b]
  /\ ctx' = [ctx EXCEPT ![b] = "done"]
  /\ UNCHANGED <<req, answer, ndirect, nnotary, started, f, owner, results, returned, out, own>>

(* the fetch of s on behalf of b is over with outcome ok: the batches that joined it take the outcome over *)
Settle(b, s, ok, fb) ==
  IF Coalesce /\ owner[s] = b
  THEN /\ owner' = [owner EXCEPT ![s] = ""]
       /\ f' = [x \in Batches |-> IF x = b THEN [f[b] EXCEPT ![s] = fb]
                                   ELSE IF f[x][s] = "joined" THEN [f[x] EXCEPT ![s] = IF ok THEN "merge" ELSE "done"]
                                   ELSE f[x]]
  ELSE /\ f' = [f EXCEPT ![b][s] = fb]
       /\ UNCHANGED owner

Direct(b, s) ==
  /\ f[b][s] = "direct"
  /\ LET o == IF ctx[b] = "done" THEN "ctx" ELSE DirectAnswer(s)
     IN /\ ndirect' = IF o = "ctx" THEN ndirect ELSE [ndirect EXCEPT ![s] = @ + 1]
        /\ IF o = "ok"
           THEN Settle(b, s, TRUE, "merge") /\ own' = [own EXCEPT ![b] = @ \cup {s}]
           ELSE f' = [f EXCEPT ![b][s] = "notary"] /\ UNCHANGED <<owner, own>>
  /\ UNCHANGED <<req, answer, nnotary, started, ctx, results, returned, out>>

Notary(b, s) ==
  /\ f[b][s] = "notary"
  /\ LET o == IF ctx[b] = "done" THEN "ctx" ELSE NotaryAnswer(s)
     IN /\ nnotary' = IF o = "ctx" THEN nnotary ELSE [nnotary EXCEPT ![s] = @ + 1]
        /\ IF o = "ok"
           THEN Settle(b, s, TRUE, "merge") /\ own' = [own EXCEPT ![b] = @ \cup {s}]
           ELSE Settle(b, s, FALSE, "done") /\ UNCHANGED own
  /\ UNCHANGED <<req, answer, ndirect, started, ctx, results, returned, out>>

(* only with Coalesce: a batch waiting for somebody else's fetch gives up when its own context is done *)
Leave(b, s) ==
  /\ f[b][s] = "joined"
  /\ ctx[b] = "done"
  /\ f' = [f EXCEPT ![b][s] = "done"]
  /\ UNCHANGED <<req, answer, ndirect, nnotary, started, ctx, owner, results, returned, out, own>>

Merge(b, s) ==
  /\ f[b][s] = "merge"
  /\ results' = [results EXCEPT ![b] = @ \cup {s}]
  /\ f' = [f EXCEPT ![b][s] = "done"]
  /\ UNCHANGED <<req, answer, ndirect, nnotary, started, ctx, owner, returned, out, own>>

Return(b) ==
  /\ started[b] /\ ~returned[b]
  /\ \A s \in req[b] : f[b][s] = "done"
  /\ returned' = [returned EXCEPT ![b] = TRUE]
  /\ out' = [out EXCEPT ![b] = results[b]]
  /\ UNCHANGED <<req, answer, ndirect, nnotary, started, ctx, f, owner, results, own>>

AllReturned == \A b \in Batches : returned[b]
Done == AllReturned /\ UNCHANGED vars

BStep(b) == Start(b) \/ Return(b) \/ \E s \in Servers : Direct(b, s) \/ Notary(b, s) \/ Leave(b, s) \/ Merge(b, s)
Next == (\E b \in Batches : BStep(b) \/ Cancel(b)) \/ Done

Spec == Init /\ [][Next]_vars
FairSpec == Spec /\ \A b \in Batches : WF_vars(BStep(b))

TypeOK ==
  /\ \A b \in Batches : req[b] \subseteq Servers /\ results[b] \subseteq req[b] /\ out[b] \subseteq req[b]
  /\ \A b \in Batches, s \in Servers : f[b][s] \in {"none", "direct", "notary", "merge", "joined", "done"}
  /\ \A s \in Servers : owner[s] \in Batches \cup {""}

Answers(s) == answer[s] \in {"direct", "notary"}
(* the sequential reference: the batch of a caller whose context stays live, executed alone, returns exactly the  *)
(* keys of the requested servers that answer - whatever other callers do meanwhile and whatever becomes of them.    *)
(* (A flaky server fails whoever asks first; see TransientFaultHitsOneCaller.)                                    *)
LiveCallerGetsWhatTheServersAnswer ==
  \A b \in Batches : (returned[b] /\ ctx[b] = "live") =>
     \A s \in req[b] : /\ Answers(s) => s \in out[b]
                       /\ answer[s] = "down" => s \notin out[b]
NothingFromADeadServer == \A b \in Batches : \A s \in out[b] : answer[s] # "down"
(* without sharing, a batch holds exactly what its own requests fetched *)
OwnFetchesOnly == ~Coalesce => \A b \in Batches : returned[b] => out[b] = own[b]
(* a transient fault hits one caller: of the live callers that asked a flaky server at most one goes without *)
TransientFaultHitsOneCaller ==
  \A s \in Servers : answer[s] = "flaky" =>
     Cardinality({b \in Batches : returned[b] /\ ctx[b] = "live" /\ s \in req[b] /\ s \notin out[b]}) <= 1
NothingEarly == \A b \in Batches : ~returned[b] => out[b] = {}
EveryBatchReturns == \A b \in Batches : started[b] ~> returned[b]
=============================================================================
