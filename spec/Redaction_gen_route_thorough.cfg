SPECIFICATION Spec
CONSTANTS
  Versions <- VersionsAll
  FullVersions <- VersionsPairs
  Families <- FamPdu
  Kinds <- KindsRoute
  ChunkSize = 1
  MaxHist = 0
  FullOffsets <- OffNone
  LiteOffsets <- OffNone
  AllOnlyOffsets <- OffNone
  RouteSteps = 3
  RouteFull = FALSE
INVARIANTS TypeOK PExact PIdempotent PHistory PCore PIdentity PRoute PModule PSanity Emit
CHECK_DEADLOCK FALSE
