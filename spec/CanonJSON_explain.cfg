SPECIFICATION TSpec
CONSTANT Scenarios = {}
INVARIANT Explain
CHECK_DEADLOCK FALSE
