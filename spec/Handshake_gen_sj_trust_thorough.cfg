SPECIFICATION GSpec
CONSTANTS
  Family = "sj_trust"
  Width = "thorough"
  MaxForge = 0
  ScenarioSet = "none"
INVARIANTS TypeOK CaseVariantIsAnotherServer MakeJoinExact MakeLeaveExact TemplateShape SendJoinExact InviteExact InviteV3Exact ReturnsCountersigned PerformJoinExact NoJoinWithoutBothHandlers BannedNeverJoins RetrySucceedsWhereAFreshJoinWould UnforgedPublicJoinSucceeds UnforgedRestrictedJoinSucceeds TamperedNeverAccepted TemplateAuthoriser OtherIdentitiesIrrelevant Emit
CHECK_DEADLOCK FALSE
