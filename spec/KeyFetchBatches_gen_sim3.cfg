SPECIFICATION GSpec
CONSTANTS
  Batches = {"b1", "b2", "b3"}
  Servers = {"s1", "s2"}
  Reqs <- OverlappingReqs
  Behaviours = {"direct", "notary", "down", "flaky"}
  Cancellable = {"b1", "b2"}
  Coalesce = FALSE
INVARIANTS TypeOK LiveCallerGetsWhatTheServersAnswer NothingFromADeadServer OwnFetchesOnly TransientFaultHitsOneCaller NothingEarly Emit
CHECK_DEADLOCK FALSE
