SPECIFICATION Spec
CONSTANTS
  Versions = {"10"}
  ClearPer = "batch"
  MaxBatch = 2
  Modes <- ModesQuick
  FirstHows <- FirstQuick
INVARIANTS BatchCoherent
CHECK_DEADLOCK FALSE
