------------------------------ MODULE JoinFlow ------------------------------
(***************************************************************************)
(* X07 (growth) - the join handshake seen from the JOINING server          *)
(* (performjoin.go; the resident side is handlejoin.go, the check of the   *)
(* answer is authstate.go CheckSendJoinResponse).                          *)
(*                                                                         *)
(* Written from the Matrix server-server API ("Joining rooms":             *)
(* GET /_matrix/federation/v1/make_join/{roomId}/{userId},                 *)
(* PUT /_matrix/federation/v2/send_join/{roomId}/{eventId}), the           *)
(* authorisation rules for membership = join, MSC4014 (pseudo IDs: the     *)
(* join is sent and signed by the user's room key and carries an           *)
(* mxid_mapping signed by the user's server) and the doc comments of       *)
(* PerformJoin / PerformJoinInput / PerformJoinResponse / FederationError  *)
(* ("On success it will return the new join event and the state snapshot   *)
(* returned as part of the join") - NOT from the code.                     *)
(*                                                                         *)
(* Roles                                                                   *)
(*   J   the joining server (local): runs PerformJoin for its user, the    *)
(*       joiner                                                            *)
(*   R   the resident server: honest (answers make_join from its own view  *)
(*       of the room - refusing a join its state forbids -, countersigns   *)
(*       the join it is sent and answers with the room state), unreachable *)
(*       or misbehaving (a template that is not a join template of the     *)
(*       user; an answer whose "event" is something else than the join it  *)
(*       was sent; a state that does not hold up)                          *)
(*                                                                         *)
(* One action per step of the flow                                         *)
(*   Prepare          input validation                                     *)
(*   MakeJoinReq      GET make_join                                        *)
(*   RemoteTemplate   honest R   TemplateMisbehave   NetFailMake           *)
(*   ReceiveTemplate  no template: the call fails (network class)          *)
(*   ChooseVersion    the room version the answer names (absent: room      *)
(*                    version 1 / 2 - or the version the references show); *)
(*                    an unknown version ends the call                     *)
(*   SenderID         pseudo-ID room: the joiner's room key, the           *)
(*                    mxid_mapping signed by J                             *)
(*   Build            the join event: type, room, sender, state key,       *)
(*                    membership and "no redacts" are J's; the content is  *)
(*                    the caller's plus the additional keys of the         *)
(*                    template; unsigned is empty; references and depth    *)
(*                    are the template's                                   *)
(*   Sign             J's signature (pseudo IDs: the room key's)           *)
(*   SendJoinReq      PUT send_join                                        *)
(*   RemoteAnswer     honest R   AnswerMisbehave   NetFailSend             *)
(*   ReceiveAnswer    no answer: the call fails (network class)            *)
(*   Adopt            the "event" of the answer replaces J's own event     *)
(*                    ONLY if it is that event: every field but signatures *)
(*                    / unsigned unchanged, J's signature still valid      *)
(*                    (then it may carry R's signature in addition);       *)
(*                    anything else is ignored                             *)
(*   CreateCheck      the answer has a create event of a known version     *)
(*   StoreMappings    pseudo IDs: the mxid mappings of the members         *)
(*   CheckState       signatures and auth rules over state and auth chain  *)
(*                    (events that fail are dropped), the join must be     *)
(*                    allowed by what remains                              *)
(*   SetUnsigned      the caller's unsigned data, on the returned event    *)
(*                    only                                                 *)
(*   Return                                                                *)
(*                                                                         *)
(* Abstract vocabulary                                                     *)
(*   scenario sc (constant along a behaviour)                              *)
(*     ver       room version                                              *)
(*     input     ok | nil_user | nil_room | nil_keyring                    *)
(*     content   caller's content: none | profile (a displayname)          *)
(*     unsigned  caller's unsigned data: none | some                       *)
(*     jr        join rule of the room on R: public | invite               *)
(*     mem       the joiner's membership on R: none | invite | ban | join  *)
(*     tpl       R's make_join behaviour (TplKinds)                        *)
(*     ans       the "event" of R's send_join answer (AnsKinds)            *)
(*     st        state / auth chain of the answer (StKinds)                *)
(*     env       J's environment: ok | sid_err | store_err (pseudo IDs)    *)
(*   an event is described by what the properties read:                    *)
(*     room main|other  type member|other  skey joiner|other|none          *)
(*     mship join|leave|none                                               *)
(*     same   its event ID is that of the event J sent                     *)
(*     body   every field but signatures / unsigned is that of the event J *)
(*            sent                                                         *)
(*     sigJ   validly signed by J (pseudo IDs: by the joiner's room key)   *)
(*     sigR   validly signed by R          uns  none | caller              *)
(*                                                                         *)
(* The properties are stated over the history variables (section           *)
(* "Properties"), separately from the mechanics.  The constant Fault       *)
(* plants a defect into J's mechanics; each must violate the invariant     *)
(* checks/x07.py names for it.  Two of them are the rules the library was  *)
(* found to follow (asbuilt_adopt, asbuilt_merge).                         *)
(***************************************************************************)
EXTENDS Integers, Sequences, FiniteSets, TLC

CONSTANTS VerSet,    \* room versions explored
          Budget,    \* deviations from the base scenario per behaviour
          Fault,     \* "none" or a planted defect of J's mechanics
          Strict     \* design freedom of J (both designs must satisfy every property): FALSE - a template whose fields are
                     \* not those of a join template of the user is repaired (J's own values replace them, unusable
                     \* references are dropped); TRUE - such a template is refused

Versions == {"1", "2", "3", "4", "5", "6", "7", "8", "9", "10", "11", "12",
             "org.matrix.msc3667", "org.matrix.msc3787", "org.matrix.msc4014", "org.matrix.hydra.11"}
Pseudo(v)   == v = "org.matrix.msc4014"     \* senders / state keys are per-room keys
FormatV1(v) == v \in {"1", "2"}             \* event IDs are not hashes; references are [id, hashes] pairs

\* ------------------------------------------------------------------ scenarios
DimSeq == <<"input", "content", "unsigned", "jr", "mem", "tpl", "ans", "st", "env">>
Default(d) ==
    CASE d = "input" -> "ok" [] d = "content" -> "none" [] d = "unsigned" -> "none" [] d = "jr" -> "public"
      [] d = "mem" -> "none" [] d = "tpl" -> "honest" [] d = "ans" -> "honest" [] d = "st" -> "ok" [] d = "env" -> "ok"

\* templates a strict J may refuse: fields that are not those of a join template of the user in the room
OddTpl == {"t_type", "t_room", "t_sender", "t_skey", "t_nokey", "t_redacts", "t_mship", "t_nomship", "t_nocontent",
           "t_auth_malformed", "t_prev_malformed", "t_otherformat", "v_other"}
TplKinds == {"honest", "neterr", "lenient", "t_extra", "t_override", "t_unsigned", "v_absent", "v_unknown"} \cup OddTpl
AnsKinds == {"honest", "neterr", "noevent", "echo", "strip_sig", "corrupt_sig", "redacted", "same_id",
             "other_content_unsigned", "other_content_rsigned", "older_join", "other_refs",
             "other_room", "other_user", "other_mship", "not_member", "unparsable"}
StKinds  == {"ok", "nocreate", "create_unknownver", "create_otherver", "banned", "badsig_state", "badsig_chain"}

Alts(d) ==
    CASE d = "input" -> {"nil_user", "nil_room", "nil_keyring"}
      [] d = "content" -> {"profile"}
      [] d = "unsigned" -> {"some"}
      [] d = "jr" -> {"invite"}
      [] d = "mem" -> {"invite", "ban", "join"}
      [] d = "tpl" -> TplKinds \ {"honest"}
      [] d = "ans" -> AnsKinds \ {"honest"}
      [] d = "st" -> StKinds \ {"ok"}
      [] d = "env" -> {"sid_err", "store_err"}
Base == [input |-> "ok", content |-> "none", unsigned |-> "none", jr |-> "public", mem |-> "none", tpl |-> "honest",
         ans |-> "honest", st |-> "ok", env |-> "ok"]

\* every way of deviating from s in at most k of the dimensions dims (each dimension once)
RECURSIVE Ext(_, _, _)
Ext(s, dims, k) ==
    IF k = 0 \/ dims = <<>> THEN {s}
    ELSE Ext(s, Tail(dims), k)
         \cup UNION {Ext([s EXCEPT ![Head(dims)] = a], Tail(dims), k - 1) : a \in Alts(Head(dims))}

\* --- authorisation rules, membership = join (Matrix "Authorization rules" 4.3 / 5.3, public and invite rooms): a banned
\*     user may not join; a user who is invited or joined may; otherwise the join rule must be public
JoinAllowed(jr, mem) == mem \in {"invite", "join"} \/ (jr = "public" /\ mem # "ban")

\* relevance pruning: a dimension that nothing reads in the scenario stays at its default
AfterTemplate(s) == <<s.ans, s.st, s.env>> = <<"honest", "ok", "ok">>
Relevant(s) ==
    /\ s.input # "ok" => \A i \in DOMAIN DimSeq : DimSeq[i] = "input" \/ s[DimSeq[i]] = Default(DimSeq[i])
    /\ s.tpl \in {"neterr", "v_unknown"} => AfterTemplate(s)
    /\ (s.tpl = "honest" /\ ~JoinAllowed(s.jr, s.mem)) => AfterTemplate(s)
    /\ (Strict /\ s.tpl \in OddTpl) => <<s.ans, s.st>> = <<"honest", "ok">>
    /\ s.env # "ok" => Pseudo(s.ver)
    /\ s.env = "sid_err" => <<s.ans, s.st>> = <<"honest", "ok">>
    /\ s.ans = "neterr" => s.st = "ok"
    /\ s.ans = "same_id" => FormatV1(s.ver)
    \* the redacted form of a join without profile is that join
    /\ s.ans = "redacted" => s.content = "profile"
    /\ s.tpl = "v_other" => <<s.ans, s.st>> = <<"honest", "ok">>
    \* an absent room_version means room version 1 or 2; the other version the reference format alone identifies is 4
    /\ s.tpl = "v_absent" => s.ver \in {"1", "2", "4"}
    \* pseudo-ID rooms: see the assumptions of checks/x07.py (member events without mxid_mapping in the answer)
    /\ Pseudo(s.ver) => /\ s.tpl \notin {"v_absent", "v_other"}
                        /\ s.mem \in {"none", "join", "ban"}
                        /\ s.mem = "join" => s.jr = "public"
                        /\ s.mem = "ban" => s.tpl = "honest"
                        /\ s.st # "banned"

Deviations == Ext(Base, DimSeq, Budget)
MkScenario(v, x) ==
    [ver |-> v, input |-> x.input, content |-> x.content, unsigned |-> x.unsigned, jr |-> x.jr, mem |-> x.mem,
     tpl |-> x.tpl, ans |-> x.ans, st |-> x.st, env |-> x.env]

\* ------------------------------------------------------------------ state
VARIABLES sc,       \* the scenario
          phase,
          tmpl,     \* history: R's answer to make_join
          jv,       \* the room version J works in: "" | "room" (the room's, or one it cannot be told from) | "other"
          built,    \* history: the event J built
          made,     \* history: make_join requests, in order
          sent,     \* history: send_join requests, in order
          answer,   \* history: R's answer to send_join
          ev,       \* the event J goes on with after the answer (its own or the adopted one)
          checked,  \* history: the state check: done, and on which event
          snap,     \* the state snapshot J settles on
          log,      \* history: order of the observable steps
          out       \* what PerformJoin returns
vars == <<sc, phase, tmpl, jv, built, made, sent, answer, ev, checked, snap, log, out>>

NoTpl   == [k |-> "none", rv |-> "", type |-> "", room |-> "", sender |-> "", skey |-> "", redacts |-> FALSE, mship |-> "",
            content |-> "", uns |-> FALSE, refs |-> ""]
GoodTpl == [k |-> "event", rv |-> "same", type |-> "member", room |-> "main", sender |-> "joiner", skey |-> "joiner",
            redacts |-> FALSE, mship |-> "join", content |-> "plain", uns |-> FALSE, refs |-> "ok"]
TplOf(kind) ==
    CASE kind \in {"honest", "lenient"} -> GoodTpl
      [] kind = "t_type"           -> [GoodTpl EXCEPT !.type = "other"]
      [] kind = "t_room"           -> [GoodTpl EXCEPT !.room = "other"]
      [] kind = "t_sender"         -> [GoodTpl EXCEPT !.sender = "other"]
      [] kind = "t_skey"           -> [GoodTpl EXCEPT !.skey = "other"]
      [] kind = "t_nokey"          -> [GoodTpl EXCEPT !.skey = "none"]
      [] kind = "t_redacts"        -> [GoodTpl EXCEPT !.redacts = TRUE]
      [] kind = "t_mship"          -> [GoodTpl EXCEPT !.mship = "leave"]
      [] kind = "t_nomship"        -> [GoodTpl EXCEPT !.mship = "none"]
      [] kind = "t_nocontent"      -> [GoodTpl EXCEPT !.mship = "none", !.content = "null"]
      [] kind = "t_extra"          -> [GoodTpl EXCEPT !.content = "extra"]      \* a key neither the caller nor J sets
      [] kind = "t_override"       -> [GoodTpl EXCEPT !.content = "override"]   \* the keys the caller and J set
      [] kind = "t_unsigned"       -> [GoodTpl EXCEPT !.uns = TRUE]
      [] kind = "t_auth_malformed" -> [GoodTpl EXCEPT !.refs = "auth_malformed"]
      [] kind = "t_prev_malformed" -> [GoodTpl EXCEPT !.refs = "prev_malformed"]
      [] kind = "t_otherformat"    -> [GoodTpl EXCEPT !.refs = "other_format"]
      [] kind = "v_absent"         -> [GoodTpl EXCEPT !.rv = "absent"]
      [] kind = "v_unknown"        -> [GoodTpl EXCEPT !.rv = "unknown"]
      [] kind = "v_other"          -> [GoodTpl EXCEPT !.rv = "other"]

NoBuilt == [present |-> FALSE, type |-> "", room |-> "", sender |-> "", skey |-> "", redacts |-> FALSE, mship |-> "",
            callers |-> "", extra |-> "", mapping |-> "", uns |-> "", refs |-> "", sigJ |-> FALSE]
NoEv    == [present |-> FALSE, parses |-> FALSE, room |-> "", type |-> "", skey |-> "", mship |-> "", same |-> FALSE,
            body |-> FALSE, sigJ |-> FALSE, sigR |-> FALSE, uns |-> "none"]
NoAns   == [k |-> "none", ev |-> NoEv]
NoSnap  == [present |-> FALSE, create |-> FALSE, clean |-> FALSE, allows |-> FALSE, dropped |-> 0]
NoOut   == [res |-> "", class |-> "", why |-> "", ev |-> NoEv, snap |-> NoSnap]

\* --- the "event" of R's answer, relative to the event J sent
GoodAnswer == [present |-> TRUE, parses |-> TRUE, room |-> "main", type |-> "member", skey |-> "joiner", mship |-> "join",
               same |-> TRUE, body |-> TRUE, sigJ |-> TRUE, sigR |-> TRUE, uns |-> "none"]
AnswerOf(kind) ==
    LET g == GoodAnswer
        another == [g EXCEPT !.same = FALSE, !.body = FALSE, !.sigJ = FALSE]   \* another event: J never signed it
    IN CASE kind = "honest"      -> g
         [] kind = "noevent"     -> NoEv
         [] kind = "echo"        -> [g EXCEPT !.sigR = FALSE]                  \* the event as it was sent
         [] kind = "strip_sig"   -> [g EXCEPT !.sigJ = FALSE]
         [] kind = "corrupt_sig" -> [g EXCEPT !.sigJ = FALSE]
         \* J's event with an edited content: the content hash no longer matches and what the receiving parser keeps is
         \* the redacted form - same event ID, J's signature (it covers the redacted form) still valid
         [] kind = "redacted"    -> [g EXCEPT !.body = FALSE]
         \* room versions 1 / 2 (the event ID is a field): another event under the event ID of J's event
         [] kind = "same_id"     -> [another EXCEPT !.same = TRUE]
         [] kind = "other_content_unsigned" -> [another EXCEPT !.sigR = FALSE]
         [] kind = "other_content_rsigned"  -> another
         \* an OLDER genuine join of the same user: J signed it at the time
         [] kind = "older_join"  -> [another EXCEPT !.sigJ = TRUE]
         [] kind = "other_refs"  -> another
         [] kind = "other_room"  -> [another EXCEPT !.room = "other"]
         \* a genuine join of another user of J
         [] kind = "other_user"  -> [another EXCEPT !.skey = "other", !.sigJ = TRUE]
         [] kind = "other_mship" -> [another EXCEPT !.mship = "leave"]
         [] kind = "not_member"  -> [another EXCEPT !.type = "other", !.skey = "other", !.mship = "none"]
         [] kind = "unparsable"  -> [NoEv EXCEPT !.present = TRUE]

\* ------------------------------------------------------------------ actions
Fail(why, class) ==
    /\ out' = [res |-> "err", class |-> IF Fault = "all_transient" /\ class = "protocol" THEN "network" ELSE class,
               why |-> why, ev |-> NoEv, snap |-> NoSnap]
    /\ phase' = "done"

Prepare ==
    /\ phase = "prepare"
    /\ IF sc.input # "ok" THEN Fail("bad_input", "input") ELSE phase' = "mjreq" /\ UNCHANGED out
    /\ UNCHANGED <<sc, tmpl, jv, built, made, sent, answer, ev, checked, snap, log>>

MakeJoinReq ==
    /\ phase = "mjreq"
    /\ made' = Append(made, [origin |-> "J", dest |-> "R", room |-> "main", user |-> "joiner"])
    /\ log' = Append(log, "make_join")
    /\ phase' = "mjremote"
    /\ UNCHANGED <<sc, tmpl, jv, built, sent, answer, ev, checked, snap, out>>

\* honest R: a template if its state allows the join
RemoteTemplate ==
    /\ phase = "mjremote" /\ sc.tpl = "honest"
    /\ tmpl' = IF JoinAllowed(sc.jr, sc.mem) THEN GoodTpl ELSE [NoTpl EXCEPT !.k = "refused"]
    /\ phase' = "mjrecv"
    /\ UNCHANGED <<sc, jv, built, made, sent, answer, ev, checked, snap, log, out>>

TemplateMisbehave ==
    /\ phase = "mjremote" /\ sc.tpl \notin {"honest", "neterr"}
    /\ tmpl' = TplOf(sc.tpl)
    /\ phase' = "mjrecv"
    /\ UNCHANGED <<sc, jv, built, made, sent, answer, ev, checked, snap, log, out>>

NetFailMake ==
    /\ phase = "mjremote" /\ sc.tpl = "neterr"
    /\ tmpl' = [NoTpl EXCEPT !.k = "error"]
    /\ phase' = "mjrecv"
    /\ UNCHANGED <<sc, jv, built, made, sent, answer, ev, checked, snap, log, out>>

ReceiveTemplate ==
    /\ phase = "mjrecv"
    /\ IF tmpl.k # "event" THEN Fail("make_join_failed", "network") ELSE phase' = "version" /\ UNCHANGED out
    /\ UNCHANGED <<sc, tmpl, jv, built, made, sent, answer, ev, checked, snap, log>>

ChooseVersion ==
    /\ phase = "version"
    /\ IF tmpl.rv = "unknown" THEN Fail("unsupported", "protocol") /\ UNCHANGED jv
       ELSE /\ jv' = IF tmpl.rv = "other" THEN "other" ELSE "room"
            /\ phase' = "senderid" /\ UNCHANGED out
    /\ UNCHANGED <<sc, tmpl, built, made, sent, answer, ev, checked, snap, log>>

SenderID ==
    /\ phase = "senderid"
    /\ IF Pseudo(sc.ver) /\ sc.env = "sid_err" THEN Fail("sid_err", "protocol") ELSE phase' = "build" /\ UNCHANGED out
    /\ UNCHANGED <<sc, tmpl, jv, built, made, sent, answer, ev, checked, snap, log>>

\* what becomes of the caller's content and of J's mxid_mapping when the template's content has the same keys / is null
TemplateWins == Fault = "asbuilt_merge"
CallersOf(t) == IF sc.content = "none" THEN "na"
                ELSE IF TemplateWins /\ t.content = "override" THEN "overridden"
                ELSE IF TemplateWins /\ t.content = "null" THEN "dropped"
                ELSE "kept"
MappingOf(t) == IF ~Pseudo(sc.ver) THEN "none"
                ELSE IF TemplateWins /\ t.content = "override" THEN "foreign"
                ELSE IF TemplateWins /\ t.content = "null" THEN "none"
                ELSE "j"

Build ==
    /\ phase = "build"
    /\ IF Strict /\ sc.tpl \in OddTpl THEN Fail("bad_template", "protocol") /\ UNCHANGED built
       ELSE LET keep == Fault = "keep_template_fields" IN
            /\ built' = [present |-> TRUE,
                         type |-> IF keep THEN tmpl.type ELSE "member",
                         room |-> IF keep THEN tmpl.room ELSE "main",
                         redacts |-> IF keep THEN tmpl.redacts ELSE FALSE,
                         sender |-> "joiner", skey |-> "joiner", mship |-> "join",
                         callers |-> CallersOf(tmpl),
                         extra |-> IF tmpl.content = "extra" THEN "kept" ELSE "na",
                         mapping |-> MappingOf(tmpl),
                         uns |-> IF Fault = "leak_unsigned" /\ sc.unsigned = "some" THEN "caller" ELSE "empty",
                         refs |-> "template", sigJ |-> FALSE]
            /\ phase' = "sign" /\ UNCHANGED out
    /\ UNCHANGED <<sc, tmpl, jv, made, sent, answer, ev, checked, snap, log>>

Sign ==
    /\ phase = "sign"
    /\ built' = [built EXCEPT !.sigJ = TRUE]
    /\ phase' = "sjreq"
    /\ UNCHANGED <<sc, tmpl, jv, made, sent, answer, ev, checked, snap, log, out>>

SendJoinReq ==
    /\ phase = "sjreq"
    /\ sent' = Append(sent, [origin |-> "J", dest |-> "R", ev |-> built])
    /\ log' = Append(log, "send_join")
    /\ phase' = "sjremote"
    /\ UNCHANGED <<sc, tmpl, jv, built, made, answer, ev, checked, snap, out>>

\* the event is a join of the user, signed by J, in a pseudo-ID room with J's mapping: what an honest R insists on
ProperJoin(b) == /\ b.type = "member" /\ b.room = "main" /\ b.sender = "joiner" /\ b.skey = "joiner" /\ ~b.redacts
                 /\ b.mship = "join" /\ b.sigJ /\ b.mapping = (IF Pseudo(sc.ver) THEN "j" ELSE "none")

\* honest R (when it lied about the room version in make_join it plays along and countersigns what it is sent): it
\* refuses a banned user and an event that is not the user's join
RemoteAnswer ==
    /\ phase = "sjremote" /\ sc.ans = "honest"
    /\ answer' = IF jv = "room" /\ (sc.mem = "ban" \/ ~ProperJoin(built))
                 THEN [k |-> "refused", ev |-> NoEv] ELSE [k |-> "answer", ev |-> AnswerOf("honest")]
    /\ phase' = "answered"
    /\ UNCHANGED <<sc, tmpl, jv, built, made, sent, ev, checked, snap, log, out>>

AnswerMisbehave ==
    /\ phase = "sjremote" /\ sc.ans \notin {"honest", "neterr"}
    /\ answer' = [k |-> "answer", ev |-> AnswerOf(sc.ans)]
    /\ phase' = "answered"
    /\ UNCHANGED <<sc, tmpl, jv, built, made, sent, ev, checked, snap, log, out>>

NetFailSend ==
    /\ phase = "sjremote" /\ sc.ans = "neterr"
    /\ answer' = [k |-> "error", ev |-> NoEv]
    /\ phase' = "answered"
    /\ UNCHANGED <<sc, tmpl, jv, built, made, sent, ev, checked, snap, log, out>>

\* J's own event, in the vocabulary of the answer
Own == [present |-> TRUE, parses |-> TRUE, room |-> built.room, type |-> built.type, skey |-> built.skey, mship |-> built.mship,
        same |-> TRUE, body |-> TRUE, sigJ |-> built.sigJ, sigR |-> FALSE, uns |-> "none"]

ReceiveAnswer ==
    /\ phase = "answered"
    /\ IF answer.k # "answer" THEN Fail("send_join_failed", "network") /\ UNCHANGED ev
       ELSE /\ ev' = Own
            /\ phase' = IF Fault = "adopt_after_check" THEN "create" ELSE "adopt"
            /\ UNCHANGED out
    /\ UNCHANGED <<sc, tmpl, jv, built, made, sent, answer, checked, snap, log>>

\* --- the adoption rule.  Specified: the answer's event is J's own event (nothing but signatures / unsigned differs) and
\*     still carries J's signature.  asbuilt_adopt: any parsable join member event of the room with the joiner's state
\*     key.  adopt_by_id: the event ID is that of J's event.
Adoptable(e) ==
    /\ e.present /\ e.parses
    /\ CASE Fault = "asbuilt_adopt" -> e.room = "main" /\ e.mship = "join" /\ e.skey = "joiner"
         [] Fault = "adopt_by_id"   -> e.same
         [] OTHER                   -> e.body /\ e.sigJ
AsBuiltAdoptable(e) == e.present /\ e.parses /\ e.room = "main" /\ e.mship = "join" /\ e.skey = "joiner"

Adopt ==
    /\ phase = "adopt"
    /\ IF Adoptable(answer.ev)
       THEN ev' = answer.ev /\ log' = Append(log, "adopt")
       ELSE UNCHANGED <<ev, log>>
    /\ phase' = IF Fault = "adopt_after_check" THEN "unsigned" ELSE "create"
    /\ UNCHANGED <<sc, tmpl, jv, built, made, sent, answer, checked, snap, out>>

\* under a room version that is not the room's the events of the answer are not events: there is no create event
CreateCheck ==
    /\ phase = "create"
    /\ IF sc.st = "nocreate" \/ jv = "other" THEN Fail("no_create", "protocol")
       ELSE IF sc.st = "create_unknownver" THEN Fail("unknown_create_version", "protocol")
       ELSE phase' = "mappings" /\ UNCHANGED out
    /\ UNCHANGED <<sc, tmpl, jv, built, made, sent, answer, ev, checked, snap, log>>

StoreMappings ==
    /\ phase = "mappings"
    /\ IF Pseudo(sc.ver) /\ sc.env = "store_err" THEN Fail("store_err", "protocol") ELSE phase' = "check" /\ UNCHANGED out
    /\ UNCHANGED <<sc, tmpl, jv, built, made, sent, answer, ev, checked, snap, log>>

\* --- the state of the answer.  Events whose signature fails are dropped together with what only they authorise
\*     (documented: CheckSendJoinResponse); the create event carries everything.
StateAllows == /\ sc.st \notin {"create_otherver", "banned", "badsig_state"}
               /\ JoinAllowed(sc.jr, sc.mem)
RawSnap     == [present |-> TRUE, create |-> TRUE, clean |-> sc.st \notin {"badsig_state", "badsig_chain"},
                allows |-> StateAllows, dropped |-> 0]
CheckedSnap == [present |-> TRUE, create |-> TRUE, clean |-> TRUE, allows |-> StateAllows,
                dropped |-> IF sc.st = "badsig_chain" THEN 1 ELSE 0]

CheckState ==
    /\ phase = "check"
    /\ IF Fault = "skip_state_check"
       THEN snap' = RawSnap /\ phase' = "unsigned" /\ UNCHANGED <<checked, log, out>>
       ELSE /\ log' = Append(log, "check")
            /\ checked' = [done |-> TRUE, same |-> ev.same, body |-> ev.body]
            /\ IF ~StateAllows /\ Fault # "skip_allowed" THEN Fail("bad_state", "protocol") /\ UNCHANGED snap
               ELSE /\ snap' = CheckedSnap
                    /\ phase' = IF Fault = "adopt_after_check" THEN "adopt" ELSE "unsigned"
                    /\ UNCHANGED out
    /\ UNCHANGED <<sc, tmpl, jv, built, made, sent, answer, ev>>

SetUnsigned ==
    /\ phase = "unsigned"
    /\ ev' = [ev EXCEPT !.uns = IF sc.unsigned = "some" THEN "caller" ELSE "none"]
    /\ phase' = "return"
    /\ UNCHANGED <<sc, tmpl, jv, built, made, sent, answer, checked, snap, log, out>>

Return ==
    /\ phase = "return"
    /\ out' = [res |-> "ok", class |-> "", why |-> "none", ev |-> ev, snap |-> snap]
    /\ log' = Append(log, "return")
    /\ phase' = "done"
    /\ UNCHANGED <<sc, tmpl, jv, built, made, sent, answer, ev, checked, snap>>

Init == /\ \E v \in VerSet, x \in Deviations :
              /\ sc = MkScenario(v, x)
              /\ Relevant(sc) = TRUE
        /\ phase = "prepare" /\ tmpl = NoTpl /\ jv = "" /\ built = NoBuilt /\ made = <<>> /\ sent = <<>>
        /\ answer = NoAns /\ ev = NoEv /\ checked = [done |-> FALSE, same |-> FALSE, body |-> FALSE] /\ snap = NoSnap
        /\ log = <<>> /\ out = NoOut
Next == Prepare \/ MakeJoinReq \/ RemoteTemplate \/ TemplateMisbehave \/ NetFailMake \/ ReceiveTemplate \/ ChooseVersion
        \/ SenderID \/ Build \/ Sign \/ SendJoinReq \/ RemoteAnswer \/ AnswerMisbehave \/ NetFailSend \/ ReceiveAnswer
        \/ Adopt \/ CreateCheck \/ StoreMappings \/ CheckState \/ SetUnsigned \/ Return
Spec == Init /\ [][Next]_vars
Done == phase = "done"

\* ================================================================== properties
\* every reason why this call must not succeed (plain conjuncts over the scenario; independent of any order of checks)
Reasons ==
    (IF sc.input # "ok" THEN {"bad_input"} ELSE {})
    \cup (IF sc.tpl = "neterr" \/ (sc.tpl = "honest" /\ ~JoinAllowed(sc.jr, sc.mem)) THEN {"make_join_failed"} ELSE {})
    \cup (IF sc.tpl = "v_unknown" THEN {"unsupported"} ELSE {})
    \cup (IF Pseudo(sc.ver) /\ sc.env = "sid_err" THEN {"sid_err"} ELSE {})
    \cup (IF Strict /\ sc.tpl \in OddTpl THEN {"bad_template"} ELSE {})
    \cup (IF sc.ans = "neterr" \/ (sc.ans = "honest" /\ sc.tpl # "v_other" /\ sc.mem = "ban") THEN {"send_join_failed"} ELSE {})
    \cup (IF sc.st = "nocreate" \/ sc.tpl = "v_other" THEN {"no_create"} ELSE {})
    \cup (IF sc.st = "create_unknownver" THEN {"unknown_create_version"} ELSE {})
    \cup (IF Pseudo(sc.ver) /\ sc.env = "store_err" THEN {"store_err"} ELSE {})
    \cup (IF ~StateAllows THEN {"bad_state"} ELSE {})

\* ---- P1  the event handed to the caller is the join J built and signed: a join member event of the joiner in the room
\*          whose event ID is that of the event J sent, with nothing but signatures / unsigned differing from it, J's
\*          signature valid on it (it may carry R's in addition); its unsigned data is the caller's
ReturnedIsTheJoin ==
    out.res = "ok" =>
        LET e == out.ev IN
        /\ e.present /\ e.parses
        /\ e.room = "main" /\ e.type = "member" /\ e.skey = "joiner" /\ e.mship = "join"
        /\ e.same /\ e.body /\ e.sigJ
        /\ e.uns = (IF sc.unsigned = "some" THEN "caller" ELSE "none")

\* ---- P2  what goes to R: make_join names J's user and the room; send_join carries a join member event of that user in that
\*          room (no redacts), signed by J, with the caller's content (pseudo IDs: and J's signed mxid_mapping) plus the
\*          template's additional keys, the template's references, and nothing in unsigned
SentIsTheJoin ==
    /\ \A i \in DOMAIN made : made[i] = [origin |-> "J", dest |-> "R", room |-> "main", user |-> "joiner"]
    /\ \A i \in DOMAIN sent :
         LET e == sent[i].ev IN
         /\ sent[i].origin = "J" /\ sent[i].dest = "R"
         /\ e.present /\ e.type = "member" /\ e.room = "main" /\ e.sender = "joiner" /\ e.skey = "joiner" /\ ~e.redacts
         /\ e.mship = "join" /\ e.sigJ
         /\ e.callers = (IF sc.content = "none" THEN "na" ELSE "kept")
         /\ e.mapping = (IF Pseudo(sc.ver) THEN "j" ELSE "none")
         /\ e.extra = (IF tmpl.content = "extra" THEN "kept" ELSE "na")
         /\ e.refs = "template"

\* ---- P3  nothing of the caller's unsigned data (nor of the template's) goes over the wire; nothing at all is sent on
\*          bad input; one make_join, then at most one send_join - and none after a make_join that failed
NoLeak ==
    /\ \A i \in DOMAIN sent : sent[i].ev.uns = "empty"
    /\ sc.input # "ok" => (made = <<>> /\ sent = <<>>)
    /\ Len(made) <= 1 /\ Len(sent) <= 1
    /\ sent # <<>> => (made # <<>> /\ tmpl.k = "event")

\* ---- P4  success means the state snapshot passed the checks of a federation response: it has a create event of a known
\*          version, every event in it is validly signed, and it allows the join
StateChecked ==
    out.res = "ok" => /\ checked.done
                      /\ out.snap.present /\ out.snap.create /\ out.snap.clean /\ out.snap.allows
\*          and the check was made on the event that is returned, before it is returned
CheckBeforeReturn ==
    out.res = "ok" => /\ \E i \in DOMAIN log : /\ log[i] = "check"
                                                /\ \A j \in (i + 1)..Len(log) : log[j] # "adopt"
                      /\ checked.same = out.ev.same /\ checked.body = out.ev.body
                      /\ log[Len(log)] = "return"

\* ---- P5  error taxonomy (FederationError: Transient - "will fail if performed again" or not; Reachable - "whether the
\*          server could be contacted"): an exchange that failed is transient + unreachable; an answer J refuses is
\*          permanent + reachable; bad input is permanent
ErrorTaxonomy ==
    out.res = "err" =>
        /\ out.class \in {"input", "network", "protocol"}
        /\ (out.class = "input") = (sc.input # "ok")
        /\ (out.class = "network") = (sc.input = "ok" /\ (tmpl.k \in {"error", "refused"} \/ answer.k \in {"error", "refused"}))

\* ---- the flow is decided by the scenario: it succeeds exactly when no reason stands against it, and fails for one
\*      of the reasons that do
Complete == Done => (out.res = "ok" <=> Reasons = {})
WhySound == (Done /\ out.res = "err") => out.why \in Reasons

\* ---- sanity
HonestSucceeds ==
    (Done /\ sc.input = "ok" /\ sc.tpl = "honest" /\ sc.ans = "honest" /\ sc.st = "ok" /\ sc.env = "ok"
     /\ JoinAllowed(sc.jr, sc.mem)) => out.res = "ok"
BannedNeverJoins == out.res = "ok" => (sc.mem # "ban" /\ sc.st # "banned")
TypeOK ==
    /\ phase \in {"prepare", "mjreq", "mjremote", "mjrecv", "version", "senderid", "build", "sign", "sjreq", "sjremote",
                  "answered", "adopt", "create", "mappings", "check", "unsigned", "return", "done"}
    /\ out.res \in {"", "ok", "err"}
    /\ tmpl.k \in {"none", "event", "refused", "error"}
    /\ answer.k \in {"none", "answer", "refused", "error"}
    /\ jv \in {"", "room", "other"}
    /\ Len(log) <= 5
Sanity ==
    /\ tmpl.k # "none" => made # <<>>                        \* R only answers what it was asked
    /\ answer.k # "none" => sent # <<>>
    /\ (out.res = "ok") => (answer.k = "answer" /\ built.present /\ built.sigJ)
    /\ out.res = "" <=> ~Done
    /\ (out.res = "ok" /\ sc.st = "badsig_chain") => out.snap.dropped = 1   \* a bad event nothing needs is dropped, not fatal
=============================================================================
