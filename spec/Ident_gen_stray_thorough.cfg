SPECIFICATION Spec
CONSTANTS
  Mode = "stray"
  FreeLen = 0
  MaxDev = 0
INVARIANTS TypeOK FaultAgrees LaxAdmitsMore StrictWithinHistorical Unambiguous AcceptedShape KindsDisjoint IPv4WithinDns StrayRefused StrayBasesValid Emit
CHECK_DEADLOCK FALSE
