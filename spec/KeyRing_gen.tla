---------------------------- MODULE KeyRing_gen ----------------------------
(***************************************************************************)
(* Scenario generator for KeyRing.tla.  The scenario is built step by step *)
(* (requests one at a time, then the database, then each fetcher) so that  *)
(* the same module serves exhaustive search (all workers share the work)   *)
(* and seeded simulation (-simulate: one random walk = one scenario).      *)
(* Relevance pruning: the database and the fetcher tables only range over  *)
(* the key names some request wants (plus one junk name for extras).       *)
(* Then the stages of KeyRing.tla run; Emit prints scenario + outcome.     *)
(*                                                                         *)
(* Families:                                                               *)
(*   single  one request, one key ID: every validity boundary              *)
(*           (ts x valid_until_ts / expired_ts x now x cap x strict)       *)
(*           x database entry x two fetchers                               *)
(*   pair    two requests, mixed servers / several key IDs / unsupported   *)
(*           / unsigned, coarse time, full per-key fetcher behaviours      *)
(*   batch   up to three requests, widest vocabulary (simulation)          *)
(*   dberr   database failures (and the empty batch)                       *)
(*   twin    the same (server, key ID) twice in one batch with different   *)
(*           timestamps / validity rules                                   *)
(*   versions  one request per registered room version, judged with that   *)
(*           version's own SignatureValidityCheck; which versions are      *)
(*           strict comes from MatrixBase (the Matrix specification)       *)
(***************************************************************************)
EXTENDS KeyRing, Json, TLC

MB == INSTANCE MatrixBase

CONSTANTS Families,   \* the scenario families to enumerate in this run (a set)
          Tier

VARIABLES fam,     \* the family of this scenario (chosen first, never changes)
          gen,     \* "req" | "db" | "fstart" | "ffill" | "run"
          todo,    \* wanted (server, key ID) pairs still to be given an entry
          nreq, nf

allvars == <<vars, fam, gen, todo, nreq, nf>>

\* --------------------------------------------------------------- vocabulary
TQuick == {-48, -24, 24, 192}
TThorough == {-72, -48, -24, 24, 48, 167, 169, 192, 216}   \* 167 / 169: one hour either side of the 7-day cap
T == IF Tier = "quick" THEN TQuick ELSE TThorough

Cur(k, v) == [key |-> k, vu |-> v, exp |-> NoTS]
Exp(k, e) == [key |-> k, vu |-> NoTS, exp |-> e]
Bare(k) == [key |-> k, vu |-> NoTS, exp |-> NoTS]           \* a row with valid_until_ts = 0 and expired_ts = 0
Both(k, v, e) == [key |-> k, vu |-> v, exp |-> e]           \* a row carrying BOTH timestamps: expired_ts rules
\* rows on which "expired_ts decides" and "valid_until_ts decides" disagree around the request timestamps
Odd(g) == {Bare(g), Both(g, 24, -24), Both(g, -48, 24)}
Epoch == NoTS                                               \* request timestamp 0 (realised as AtTS = 0)

Sg(kid, by) == [kid |-> kid, alg |-> IF kid = "rsa" THEN "rsa" ELSE "ed25519", by |-> by]
Rq(srv, sigs, ts, strict) == [srv |-> srv, form |-> "obj", sigs |-> sigs, ts |-> ts, strict |-> strict, ver |-> ""]
\* judged by room version v's own check: strict iff the Matrix specification says so for v
RqV(srv, sigs, ts, v) == [srv |-> srv, form |-> "obj", sigs |-> sigs, ts |-> ts, strict |-> MB!StrictKeyValidity(v), ver |-> v]

GoodKey(kid) == IF kid = "k2" THEN "K2" ELSE "K1"
WrongKey(kid) == IF kid = "k2" THEN "K1" ELSE "K2"

\* signature patterns of a message (what the named server's signature block holds)
Patterns == {
    {Sg("k1", "K1")}, {Sg("k1", "G")}, {Sg("k2", "K2")},
    {Sg("k1", "K1"), Sg("k2", "K2")}, {Sg("k1", "G"), Sg("k2", "K2")}, {Sg("k1", "K2"), Sg("k2", "K1")},
    {Sg("rsa", "G")}, {Sg("rsa", "G"), Sg("k1", "K1")}, {} }
PatternsSmall == { {Sg("k1", "K1")}, {Sg("k1", "G"), Sg("k2", "K2")}, {Sg("rsa", "G")}, {} }

PatternsQ1 == { {Sg("k1", "K1")}, {Sg("k1", "G"), Sg("k2", "K2")}, {Sg("rsa", "G"), Sg("k1", "K1")}, {} }
PatternsQ2 == { {Sg("k1", "K1")}, {Sg("k2", "K2")}, {Sg("rsa", "G")}, {} }

NotJSON(srv) == [srv |-> srv, form |-> "notjson", sigs |-> {}, ts |-> -48, strict |-> TRUE, ver |-> ""]

ReqOpts(n) ==
    CASE fam = "single" ->
            {Rq("s1", {Sg("k1", by)}, ts, st) : by \in {"K1", "G"},
                                               ts \in (IF Tier = "quick" THEN T ELSE T \cup {Epoch}), st \in BOOLEAN}
      [] fam = "twin" ->
            {Rq("s1", {Sg("k1", "K1")}, ts, st) : ts \in TQuick, st \in BOOLEAN}
      [] fam = "versions" ->
            {RqV("s1", {Sg("k1", "K1")}, ts, v) : ts \in {Epoch, -24, 192}, v \in MB!AllVersions}
      [] fam = "pair" ->
            IF Tier = "quick"
            THEN IF n = 1 THEN {Rq("s1", p, -48, TRUE) : p \in PatternsQ1} \cup {NotJSON("s1")}
                 ELSE {Rq(s, p, -48, TRUE) : s \in {"s1", "s2"}, p \in PatternsQ2}
            ELSE IF n = 1 THEN {Rq("s1", p, -48, TRUE) : p \in Patterns} \cup {NotJSON("s1")}
                 ELSE {Rq(s, p, -48, TRUE) : s \in {"s1", "s2"}, p \in PatternsSmall}
      [] fam = "dberr" ->
            {Rq(s, p, -48, TRUE) : s \in {"s1", "s2"}, p \in PatternsSmall}
      [] OTHER ->  \* batch
            {Rq(s, p, ts, st) : s \in {"s1", "s2"}, p \in Patterns, ts \in {Epoch, -48, 24, 192}, st \in BOOLEAN}
            \cup {NotJSON("s1")}

MaxReq == CASE fam = "single" -> 1 [] fam = "pair" -> 2 [] fam = "twin" -> 2 [] fam = "versions" -> 1
            [] fam = "dberr" -> (IF Tier = "quick" THEN 1 ELSE 2) [] OTHER -> 3
MinReq == CASE fam = "pair" -> 2 [] fam = "twin" -> 2 [] fam = "dberr" -> 0 [] OTHER -> 1
MaxF == CASE fam \in {"dberr", "twin", "versions"} -> 1 [] OTHER -> 2
DBModes == IF fam = "dberr" THEN {"fetcherr", "storeerr"} ELSE {"ok"}

\* entries offered for a wanted pair <<srv, kid>>
DBEntries(p) ==
    LET g == GoodKey(p[2])  w == WrongKey(p[2]) IN
    CASE fam = "single" ->
            {NoKey} \cup {Cur(k, v) : k \in {g, w}, v \in T} \cup {Exp(k, e) : k \in {g, w}, e \in T} \cup Odd(g)
      [] fam = "twin" ->
            {NoKey} \cup {Cur(g, v) : v \in TQuick} \cup {Exp(g, e) : e \in TQuick} \cup Odd(g)
      [] fam = "versions" ->
            {Cur(g, -48), Cur(g, -24), Cur(g, 216), Bare(g)}    \* only rows on which strictness decides
      [] fam = "pair" ->
            {NoKey, Cur(g, 24), Cur(g, -24)}
      [] fam = "dberr" -> {NoKey, Cur(g, 24), Cur(g, -24)}
      [] OTHER ->
            {NoKey, Cur(g, 24), Cur(g, -24), Cur(g, -72), Cur(g, 216), Cur(w, 24), Cur(w, -24),
             Exp(g, -24), Exp(g, -48), Exp(g, -72), Exp(w, 24)} \cup Odd(g)

FEntries(j, p) ==
    LET g == GoodKey(p[2])  w == WrongKey(p[2]) IN
    CASE fam = "single" ->
            IF j = 1 THEN {NoKey} \cup {Cur(k, v) : k \in {g, w}, v \in T} \cup {Exp(k, e) : k \in {g, w}, e \in T} \cup Odd(g)
            ELSE IF Tier = "quick" THEN {NoKey, Cur(g, 216)} ELSE {NoKey, Cur(g, 216), Cur(w, 216)}
      [] fam = "twin" -> {NoKey, Cur(g, 24), Cur(g, 216), Exp(g, -24), Bare(g)}
      [] fam = "versions" -> {NoKey, Cur(g, 216)}
      [] fam = "pair" -> {NoKey, Cur(g, 24), Cur(w, 24)}
      [] fam = "dberr" -> {NoKey, Cur(g, 24)}
      [] OTHER -> {NoKey, Cur(g, 24), Cur(g, -24), Cur(g, 216), Cur(w, 24), Exp(g, -24), Exp(g, -72), Bare(g), Both(g, 24, -24)}

\* ------------------------------------------------------------ table helpers
WantedPairs == UNION {{<<requests[i].srv, k>> : k \in SupportedIDs(requests[i])} : i \in DOMAIN requests}
Put(t, p, e) == IF e.key = "-" THEN t ELSE Merge(t, KN(p[1], p[2]) :> e)
Junk == ("s1/k9" :> Cur("K1", 24))      \* a key nobody asked for
FullTab(K(_)) == [kn \in {KN(p[1], p[2]) : p \in WantedPairs} |->
                    LET p == CHOOSE q \in WantedPairs : KN(q[1], q[2]) = kn IN Cur(K(p[2]), 24)]

ErrF == [mode |-> "error", tab |-> <<>>, all |-> FALSE]
\* how fetcher j starts: a finished fetcher (fill = FALSE) or an empty table to be filled per wanted key
Shapes(j) ==
    LET fill(a, junk) == [fill |-> TRUE, f |-> [mode |-> "ok", tab |-> IF junk THEN Junk ELSE <<>>, all |-> a]]
        fixed(f) == [fill |-> FALSE, f |-> f]
    IN  IF fam = "pair" /\ j = 2
        THEN {fixed(ErrF),
              fixed([mode |-> "ok", tab |-> FullTab(GoodKey), all |-> TRUE]),
              fixed([mode |-> "ok", tab |-> FullTab(WrongKey), all |-> TRUE])}
             \cup (IF Tier = "quick" THEN {} ELSE {fixed([mode |-> "ok", tab |-> FullTab(GoodKey), all |-> FALSE])})
        ELSE IF fam \in {"single", "twin", "versions"} THEN {fixed(ErrF), fill(FALSE, FALSE)}
        ELSE IF fam = "pair" /\ Tier = "quick" THEN {fixed(ErrF), fill(FALSE, FALSE), fill(TRUE, TRUE)}
        ELSE {fixed(ErrF), fill(FALSE, FALSE), fill(TRUE, FALSE), fill(TRUE, TRUE)}

\* --------------------------------------------------------------- generation
GenInit ==
    /\ fam \in Families
    /\ gen = "req" /\ todo = {}
    /\ nreq \in MinReq..MaxReq /\ nf \in 0..MaxF
    /\ requests = <<>> /\ db = <<>> /\ fetchers = <<>>
    /\ dbmode \in DBModes /\ now = 0
    /\ stage = "idle" /\ fi = 1 /\ results = <<>> /\ pending = {} /\ have = <<>>
    /\ fetched = <<>> /\ stored = <<>> /\ toperr = FALSE /\ calls = <<>>

GenReq ==
    /\ gen = "req" /\ Len(requests) < nreq
    /\ \E r \in ReqOpts(Len(requests) + 1) : requests' = Append(requests, r)
    /\ UNCHANGED <<db, dbmode, fetchers, now, ringvars, fam, gen, todo, nreq, nf>>

GenReqDone ==
    /\ gen = "req" /\ Len(requests) = nreq
    /\ gen' = "db" /\ todo' = WantedPairs
    /\ UNCHANGED <<vars, fam, nreq, nf>>

GenDB ==
    /\ gen = "db" /\ todo # {}
    /\ LET p == CHOOSE q \in todo : TRUE IN
       /\ \E e \in DBEntries(p) : db' = Put(db, p, e)
       /\ todo' = todo \ {p}
    /\ UNCHANGED <<requests, dbmode, fetchers, now, ringvars, fam, gen, nreq, nf>>

GenDBDone ==
    /\ gen = "db" /\ todo = {}
    /\ gen' = "fstart"
    /\ UNCHANGED <<vars, fam, todo, nreq, nf>>

GenFStart ==
    /\ gen = "fstart" /\ Len(fetchers) < nf
    /\ \E s \in Shapes(Len(fetchers) + 1) :
          /\ fetchers' = Append(fetchers, s.f)
          /\ IF s.fill THEN gen' = "ffill" /\ todo' = WantedPairs ELSE UNCHANGED <<gen, todo>>
    /\ UNCHANGED <<requests, db, dbmode, now, ringvars, fam, nreq, nf>>

GenFFill ==
    /\ gen = "ffill"
    /\ IF todo = {} THEN gen' = "fstart" /\ UNCHANGED <<fetchers, todo>>
       ELSE LET p == CHOOSE q \in todo : TRUE
                j == Len(fetchers) IN
            /\ \E e \in FEntries(j, p) : fetchers' = [fetchers EXCEPT ![j].tab = Put(@, p, e)]
            /\ todo' = todo \ {p} /\ UNCHANGED gen
    /\ UNCHANGED <<requests, db, dbmode, now, ringvars, fam, nreq, nf>>

GenFDone ==
    /\ gen = "fstart" /\ Len(fetchers) = nf
    /\ gen' = "run" /\ stage' = "prepare"
    /\ UNCHANGED <<scenario, fi, results, pending, have, fetched, stored, toperr, calls, fam, todo, nreq, nf>>

Run == gen = "run" /\ RingNext /\ UNCHANGED <<fam, gen, todo, nreq, nf>>

Init == GenInit
Next == GenReq \/ GenReqDone \/ GenDB \/ GenDBDone \/ GenFStart \/ GenFFill \/ GenFDone \/ Run
Spec == Init /\ [][Next]_allvars

\* exhaustive search: the history `calls` is hidden from the fingerprint
View == <<requests, db, dbmode, fetchers, now, stage, fi, results, pending, have, fetched, stored, toperr, fam, gen, todo, nreq, nf>>

\* ----------------------------------------------------------------- emission
MustClass(i) == IF MustOK(i) THEN "ok" ELSE IF MayOK(i) THEN "free" ELSE "fail"

Emit == (gen = "run" /\ Done) =>
    PrintT(ToJson([fam |-> fam,
                   requests |-> requests, db |-> db, dbmode |-> dbmode, fetchers |-> fetchers,
                   results |-> results, toperr |-> toperr, calls |-> calls,
                   fetched |-> fetched, have |-> have,
                   must |-> [i \in DOMAIN requests |-> MustClass(i)],
                   askable |-> Askable]))
=============================================================================
