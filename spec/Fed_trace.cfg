\* trace validation of harness/cmd/x06 x06rec (honest servers); checks/x06.py writes the sibling cfgs (Ver, Byz)
\* at run time from this file
SPECIFICATION TSpec
CONSTANTS
  Start = 1
  Ver = "10"
  MaxFree = 99
  ForkFrom = 1
  TSChoices = {1, 2, 3}
  IdDesc = FALSE
  Addl = {}
  MaxBad = 0
  Dishonest = FALSE
  NServers = 3
  Byz <- NoByz
  Fault = "none"
  Gap = TRUE
  LateJoin = TRUE
  BobLevel <- NotListed
  SendKinds <- AllKinds
INVARIANTS Report TypeOK Convergence OrderIndependence RejectedNeverInState BanHolds BanHoldsStrict OwnSendsAccepted OwnPrevsAccepted HonestRoomsAgree BadNeverAccepted TipsAreFrontier AuthKnown HandoverClean
POSTCONDITION TraceAccepted
CHECK_DEADLOCK FALSE
