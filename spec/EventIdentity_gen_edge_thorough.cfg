SPECIFICATION Spec
CONSTANTS
  Versions <- VersionsAll
  Family = "edge"
  ShapeIds <- ShapesC03
  VariantIds <- VariantsEdge
  MaxOps = 3
  Alphabet <- AlphabetQuick
  PreOps <- PreNone
  SibFields <- NoFields
  SidPairs <- NoSid
  TamperMax = 0
INVARIANTS TypeOK PIdStable PRoundTrip PRedactKeeps PV12 PBuildOrRefuse  Emit
CHECK_DEADLOCK FALSE
