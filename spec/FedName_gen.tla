---------------------------- MODULE FedName_gen ----------------------------
(* Generation wrapper for FedName.tla: names near the IPv6-literal grammar, *)
(* each printed with the verdict of the grammar (harness/cmd/c13 c13name    *)
(* signs a request under the name and gives it to VerifyHTTPRequest).       *)
(*   body    a groups, "::" or not, b groups, a dotted quad at the end or   *)
(*           not (without "::" the split a / b does not show: a = 0)        *)
(*   defect  one departure from the grammar inside the literal              *)
(*   br      how it is bracketed      pt   what follows the bracket         *)
(* plus the names that are not literals (family "simple").                  *)
EXTENDS FedName, TLC, Json

CONSTANTS MaxTotal,      \* a + b <= MaxTotal
          Defects, Brackets, Ports

T(k) == [k |-> k]
RECURSIVE Gs(_)
Gs(n) == IF n = 0 THEN <<>> ELSE IF n = 1 THEN <<T("h")>> ELSE <<T("h"), T("c")>> \o Gs(n - 1)

Body(a, ell, b, tail) ==
    LET post == IF tail THEN (IF b > 0 THEN Gs(b) \o <<T("c"), T("v4")>> ELSE <<T("v4")>>) ELSE Gs(b)
    IN IF ell THEN Gs(a) \o <<T("c"), T("c")>> \o post
       ELSE IF a > 0 /\ post # <<>> THEN Gs(a) \o <<T("c")>> \o post
       ELSE Gs(a) \o post

HasH(s) == \E i \in 1..Len(s) : s[i].k = "h"
FirstH(s) == CHOOSE i \in 1..Len(s) : s[i].k = "h" /\ \A j \in 1..(i - 1) : s[j].k # "h"

DefectsAll == {"none", "zone", "zonemid", "h5", "x", "leadc", "trailc", "v4first", "ell2"}
Applicable(s, d) == CASE d \in {"h5", "x"} -> HasH(s)
                      [] d = "zonemid" -> s # <<>>
                      [] OTHER -> TRUE
Defect(s, d) ==
    CASE d = "none"    -> s
      [] d = "zone"    -> s \o <<T("zone")>>                       \* [fe80::1%eth0]
      [] d = "zonemid" -> <<s[1], T("zone")>> \o Tail(s)           \* [fe80%eth0::1]
      [] d = "h5"      -> [s EXCEPT ![FirstH(s)] = T("h5")]
      [] d = "x"       -> [s EXCEPT ![FirstH(s)] = T("x")]
      [] d = "leadc"   -> <<T("c")>> \o s
      [] d = "trailc"  -> s \o <<T("c")>>
      [] d = "v4first" -> <<T("v4"), T("c")>> \o s
      [] d = "ell2"    -> s \o <<T("c"), T("c"), T("h")>>

BracketsAll == {"both", "bare", "open", "close", "double"}
Wrap(s, br) ==
    CASE br = "both"   -> <<T("lb")>> \o s \o <<T("rb")>>
      [] br = "bare"   -> s
      [] br = "open"   -> <<T("lb")>> \o s
      [] br = "close"  -> s \o <<T("rb")>>
      [] br = "double" -> <<T("lb"), T("lb")>> \o s \o <<T("rb"), T("rb")>>

PortsAll == {"none", "port", "emptyport", "nocolon"}
PortPart(pt) == CASE pt = "none" -> <<>> [] pt = "port" -> <<T("c"), T("port")>>
                  [] pt = "emptyport" -> <<T("c")>> [] pt = "nocolon" -> <<T("port")>>

\* names that are not IPv6 literals
Simple == { <<T("dns")>>, <<T("dns"), T("c"), T("port")>>, <<T("v4")>>, <<T("v4"), T("c"), T("port")>>,
            <<T("lb"), T("dns"), T("rb")>>, <<T("lb"), T("dns"), T("rb"), T("c"), T("port")>>,
            <<T("dns"), T("c")>>, <<T("dns"), T("c"), T("port"), T("c"), T("port")>>, <<T("dns"), T("zone")>>,
            <<T("v4"), T("zone")>>, <<T("lb"), T("rb")>>, <<T("lb"), T("zone"), T("rb")>> }

VARIABLES phase, p, name, valid
vars == <<phase, p, name, valid>>

NoP == [fam |-> "simple", a |-> 0, ell |-> FALSE, b |-> 0, tail |-> FALSE, d |-> "none", br |-> "both", pt |-> "none"]

Init ==
    /\ phase = "init" /\ valid = FALSE
    /\ \/ /\ name \in Simple /\ p = NoP
       \/ \E a \in 0..MaxTotal, b \in 0..MaxTotal, ell \in BOOLEAN, tail \in BOOLEAN, d \in Defects, br \in Brackets, pt \in Ports :
             /\ a + b <= MaxTotal
             /\ ~ell => a = 0                                  \* (without "::" only a + b shows)
             /\ d # "none" => br = "both" /\ pt \in {"none", "port"}     \* one departure at a time
             /\ Applicable(Body(a, ell, b, tail), d)
             /\ br \in {"bare", "close"} => Count(Body(a, ell, b, tail), "c") >= 2   \* (else it may read as dns-name ":" port)
             /\ p = [fam |-> "v6", a |-> a, ell |-> ell, b |-> b, tail |-> tail, d |-> d, br |-> br, pt |-> pt]
             /\ name = Wrap(Defect(Body(a, ell, b, tail), d), br) \o PortPart(pt)
    /\ Unambiguous(name)

Classify == /\ phase = "init"
            /\ valid' = ValidName(name)
            /\ phase' = "done"
            /\ UNCHANGED <<p, name>>

Next == Classify
Spec == Init /\ [][Next]_vars

Done == phase = "done"

\* oracle sanity, over the generation parameters: what the construction must come to
NGroups == p.a + p.b + (IF p.tail THEN 2 ELSE 0)
SaneLiteral == (Done /\ p.fam = "v6" /\ p.d = "none" /\ p.br = "both" /\ p.pt \in {"none", "port"})
                  => (valid <=> IF p.ell THEN NGroups <= 7 ELSE NGroups = 8)
SaneDefect  == (Done /\ p.fam = "v6" /\ (p.d \in {"zone", "zonemid", "h5", "x", "leadc", "v4first"} \/ p.br # "both" \/ p.pt \in {"emptyport", "nocolon"}))
                  => ~valid
SaneZone    == (Done /\ Count(name, "zone") > 0) => ~valid
SaneSimple  == (Done /\ p.fam = "simple") => (valid <=> name \in {<<T("dns")>>, <<T("dns"), T("c"), T("port")>>, <<T("v4")>>, <<T("v4"), T("c"), T("port")>>})

Emit_ == Done => PrintT(ToJson([name |-> [i \in 1..Len(name) |-> name[i].k], valid |-> valid, fam |-> p.fam, d |-> p.d, br |-> p.br, pt |-> p.pt]))
=============================================================================
