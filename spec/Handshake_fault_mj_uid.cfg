\* C15 planted design fault: the handlers put their questions to R's tables under another identity than the member's
\* sender ID (Handshake!AskKey).  TLC must refute TemplateAuthoriser (checks/c15.py FAULTS).
SPECIFICATION GSpec
CONSTANTS
  Family = "mjv"
  Width = "quick"
  MaxForge = 0
  ScenarioSet = "none"
  AskKey <- AskUid
INVARIANTS TemplateAuthoriser
CHECK_DEADLOCK FALSE
