------------------------------ MODULE KeyLife ------------------------------
(***************************************************************************)
(* X02 - the life cycle of a server's signing keys seen through ONE        *)
(* long-lived key ring (keyring.go: KeyRing.VerifyJSONs, KeyDatabase,      *)
(* KeyFetchers; keys.go: ServerKeys / old_verify_keys).                    *)
(*                                                                         *)
(* KeyRing.tla (C12) describes one VerifyJSONs call stage by stage.  This  *)
(* module describes a HISTORY: time passes, the origin server rotates and  *)
(* renews its keys, a notary keeps a (possibly stale) copy of what the     *)
(* origin published, fetchers go down and come back, and the key ring      *)
(* serves one verification request after another out of a persistent key   *)
(* database which only its own calls write.                                *)
(*                                                                         *)
(* Time.  Integer ticks.  Everything the origin publishes (valid_until_ts, *)
(* expired_ts) and every request timestamp lies ON a tick; the instant at  *)
(* which a call reads the clock lies strictly between tick `now` and tick  *)
(* now + 1 (the harness realises a tick as 7 days and places the real      *)
(* clock half a tick after tick `now`).  So "now < valid_until_ts" is      *)
(* now < vu on ticks, and "7 days into the future" lies strictly between   *)
(* tick now + 1 and tick now + 2: Cap = 1.                                 *)
(*                                                                         *)
(* Key IDs are 1..NK in order of use: key k is current after k-1           *)
(* rotations; a key ID is never reused and has one key material.           *)
(* An entry (what a PublicKeyLookupResult says about a key ID) is          *)
(* [vu, exp]: Cur(v) = current key of a response valid until v,            *)
(* Old(x) = old_verify_keys entry with expired_ts x, NoEnt = nothing.      *)
(* A table maps every key ID to an entry.                                  *)
(*                                                                         *)
(* The mechanics (one action per event; Verify = ONE VerifyJSONs call with *)
(* one message carrying one signature) follow the documented behaviour of  *)
(* keyring.go:                                                             *)
(*  - the database is asked first; "the key is expired - it's not going to *)
(*    change so just return it and don't bother requesting it again";      *)
(*    "if the key is inside validity then we don't need to update it";     *)
(*  - if the database supplied a key, verification is tried with it; only  *)
(*    "if we run into any errors when verifying using the keys that we     *)
(*    have" are the fetchers asked - in configuration order, each only     *)
(*    while the key is still wanted;                                       *)
(*  - "a key we did not ask this fetcher for must not displace one that    *)
(*    the database or an earlier fetcher already supplied";                *)
(*  - "add the keys to the database so that we won't need to fetch them    *)
(*    again".                                                              *)
(* Validity is PublicKeyLookupResult.WasValidAt: an expired key is valid   *)
(* strictly before expired_ts; a current key, where the room version is    *)
(* strict (v5+, StrictValiditySignatureCheck), up to the lesser of         *)
(* valid_until_ts and 7 days ahead of the clock; lenient rooms (v1-v4)     *)
(* ignore valid_until_ts (Matrix: "MUST be ignored in room versions 1-4"). *)
(*                                                                         *)
(* A fetcher answers with a whole key response, i.e. also for key IDs it   *)
(* was not asked for.  StoreRule selects what a call writes for those:     *)
(*   "monotone" (reference) a volunteered key is stored when the database  *)
(*             has nothing for that key ID or when it says MORE than the   *)
(*             entry held: an expired_ts where the database has none, a    *)
(*             later valid_until_ts.  It never displaces what the key ring *)
(*             holds by something older ("keys a fetcher volunteers no     *)
(*             longer displace keys the key ring already holds"; "the key  *)
(*             is expired - it's not going to change").                    *)
(*   "held"    stricter: stored only if the database has nothing for it.   *)
(*   "asbuilt" what keyring.go does: the guard only looks at the keys      *)
(*             obtained DURING THIS CALL, so a volunteered key overwrites  *)
(*             the database entry of a key ID that was not asked for now,  *)
(*             whatever it says.                                           *)
(* The clauses below hold for "monotone" and "held".  Under "asbuilt" TLC  *)
(* refutes ExpiredIsFinal / DBMonotone / KnownExpiry (KeyLife_asbuilt.cfg):*)
(* a stale copy replayed by the notary revives a retired key.  That is the *)
(* design-level counterexample; the replay shows whether the real library  *)
(* takes that step.                                                        *)
(*                                                                         *)
(* The property clauses are stated over history variables (pub = all the   *)
(* origin ever published; hist = every step with, for a Verify, the        *)
(* environment it ran in, the database before and after, the fetchers      *)
(* contacted and their answers, the result) and over the pure function     *)
(* Outcome for counterfactuals (same state, fetchers down / a second       *)
(* identical call).  They do not mention the stage variables of a call.    *)
(***************************************************************************)
EXTENDS Integers, Sequences, FiniteSets

CONSTANTS NK,         \* number of key IDs (at most NK - 1 rotations)
          MaxT,       \* ticks 0..MaxT
          MaxRot,     \* rotations
          MaxReq,     \* Verify calls per behaviour
          V,          \* a response published at tick t says valid_until_ts = t + V
          Orders,     \* fetcher configurations: subsets of {<<"d","n">>, <<"n","d">>}
          NModes,     \* notary behaviours: "any" answers with its copy whatever key ID is asked
                      \* ("the notary server may return multiple keys regardless of the Key IDs given"),
                      \* "match" only when its copy mentions the key ID asked for
          Sigs,       \* signatures of a request: "good" (made with the key material of its key ID),
                      \* "bad" (made with a key the origin never published)
          ReqTS,      \* request timestamps
          Rules,      \* room-version rules of a request: subset of BOOLEAN (TRUE = strict)
          StoreRule   \* "monotone" | "held" | "asbuilt"

NoTS == -1            \* PublicKeyNotExpired / PublicKeyNotValid (the library's magic 0)
Cap  == 1             \* "7 days into the future" in ticks (see Time above)
KIDS == 1..NK

NoEnt  == [vu |-> NoTS, exp |-> NoTS]
Cur(v) == [vu |-> v, exp |-> NoTS]
Old(x) == [vu |-> NoTS, exp |-> x]
Empty  == [k \in KIDS |-> NoEnt]
NoRq   == [kid |-> 0, ts |-> NoTS, strict |-> FALSE, sig |-> "-"]

VARIABLES
    now,            \* the tick the clock is in
    \* ---- the origin server
    cur,            \* its current key ID
    ovu,            \* valid_until_ts of the response it currently publishes
    oexp,           \* key ID -> expired_ts of a retired key (NoTS otherwise)
    \* ---- the notary's copy of an origin response (Empty: it has none)
    snap,
    \* ---- the key ring's environment
    dirUp, notUp,   \* is the direct fetcher / the notary fetcher able to answer
    order,          \* configuration order of the two fetchers
    nmode,          \* behaviour of the notary
    \* ---- the key ring's persistent state
    db,             \* the key database: a table
    \* ---- history
    nreq,           \* Verify calls so far
    pub,            \* every [kid, e] the origin ever published
    known,          \* key ID -> the expired_ts the database has ever held for it (NoTS: never)
    hist            \* every step

origin == <<cur, ovu, oexp>>
env    == <<dirUp, notUp, order, nmode>>
vars   == <<now, origin, snap, env, db, nreq, pub, known, hist>>

Requests == [kid : KIDS, ts : ReqTS, strict : Rules, sig : Sigs]

\* ------------------------------------------------------------- validity
Present(e)    == e # NoEnt
Expired(e)    == e.exp # NoTS
Fresh(e, t)   == Present(e) /\ ~Expired(e) /\ t < e.vu
Settled(e, t) == Present(e) /\ (Expired(e) \/ Fresh(e, t))

\* PublicKeyLookupResult.WasValidAt with the room version's rule, the clock being in tick t
ValidAt(e, ts, strict, t) ==
    /\ Present(e)
    /\ IF Expired(e) THEN ts < e.exp
       ELSE strict => (e.vu # NoTS /\ ts <= e.vu /\ ts <= t + Cap)

Good(e, rq, t) == rq.sig = "good" /\ ValidAt(e, rq.ts, rq.strict, t)

\* entry a says more than entry b about the same key ID: expiry is final, a later response supersedes
Newer(a, b) == Present(a) /\ Present(b) /\
               ((Expired(a) /\ ~Expired(b)) \/ (~Expired(a) /\ ~Expired(b) /\ a.vu > b.vu))

\* ------------------------------------------------------------- sources
\* what the origin serves at /_matrix/key/v2/server right now
Truth == [k \in KIDS |-> IF k = cur THEN Cur(ovu) ELSE IF k < cur THEN Old(oexp[k]) ELSE NoEnt]

\* what fetcher f returns when asked for key ID kid (a whole response, or nothing)
AnswerOf(f, tr, sn, du, nu, nm, kid) ==
    IF f = "d" THEN (IF du THEN tr ELSE Empty)
    ELSE IF ~nu THEN Empty
    ELSE IF nm = "match" /\ ~Present(sn[kid]) THEN Empty
    ELSE sn

\* ------------------------------------------------------------- one call
\* st: [have (keys obtained during the call), pend (is the key ID still wanted), con, ans]
AskStep(st, f, ret, kid) ==
    IF ~st.pend THEN st
    ELSE [have |-> [k \in KIDS |-> IF Present(ret[k]) /\ (k = kid \/ ~Present(st.have[k]))
                                   THEN ret[k] ELSE st.have[k]],
          pend |-> ~Present(ret[kid]),
          con  |-> Append(st.con, f),
          ans  |-> Append(st.ans, ret)]

\* The whole call as a function of what it can see: database d, clock t, origin response tr, notary
\* copy sn, availability du / nu, configuration ord / nm, request rq.
Outcome(d, t, tr, sn, du, nu, ord, nm, rq) ==
    LET e0    == d[rq.kid]
        early == Present(e0) /\ Good(e0, rq, t)
        st0   == [have |-> [k \in KIDS |-> IF k = rq.kid THEN e0 ELSE NoEnt],
                  pend |-> ~Settled(e0, t), con |-> <<>>, ans |-> <<>>]
        st1   == AskStep(st0, ord[1], AnswerOf(ord[1], tr, sn, du, nu, nm, rq.kid), rq.kid)
        st2   == AskStep(st1, ord[2], AnswerOf(ord[2], tr, sn, du, nu, nm, rq.kid), rq.kid)
        h     == st2.have
        newdb == [k \in KIDS |->
                    IF StoreRule = "asbuilt" \/ k = rq.kid THEN (IF Present(h[k]) THEN h[k] ELSE d[k])
                    ELSE IF ~Present(d[k]) THEN h[k]
                    ELSE IF StoreRule = "monotone" /\ Newer(h[k], d[k]) THEN h[k]
                    ELSE d[k]]
    IN  IF early
        THEN [res |-> "ok", con |-> <<>>, ans |-> <<>>, db |-> d]
        ELSE [res |-> IF Good(h[rq.kid], rq, t) THEN "ok" ELSE "fail",
              con |-> st2.con, ans |-> st2.ans, db |-> newdb]

Here(d, du, nu, rq) == Outcome(d, now, Truth, snap, du, nu, order, nmode, rq)

\* ------------------------------------------------------------- steps
EnvStep(a, f) == [a |-> a, f |-> f, rq |-> NoRq, res |-> "-", con |-> <<>>, ans |-> <<>>,
                  t |-> now, du |-> dirUp, nu |-> notUp, tr |-> <<>>, sn |-> <<>>, dbb |-> <<>>, dba |-> <<>>]

Init ==
    /\ now = 0
    /\ cur = 1 /\ ovu = V /\ oexp = [k \in KIDS |-> NoTS]
    /\ snap = Empty
    /\ dirUp = TRUE /\ notUp = TRUE
    /\ order \in Orders /\ nmode \in NModes
    /\ db = Empty
    /\ nreq = 0
    /\ pub = {[kid |-> 1, e |-> Cur(V)]}
    /\ known = [k \in KIDS |-> NoTS]
    /\ hist = <<>>

Tick ==
    /\ now < MaxT
    /\ now' = now + 1
    /\ hist' = Append(hist, EnvStep("tick", "-"))
    /\ UNCHANGED <<origin, snap, env, db, nreq, pub, known>>

\* the origin retires its current key (expired_ts = now) and starts using the next key ID
Rotate ==
    /\ cur < NK /\ cur - 1 < MaxRot
    /\ oexp' = [oexp EXCEPT ![cur] = now]
    /\ cur' = cur + 1
    /\ ovu' = now + V
    /\ pub' = pub \cup {[kid |-> cur, e |-> Old(now)], [kid |-> cur + 1, e |-> Cur(now + V)]}
    /\ hist' = Append(hist, EnvStep("rotate", "-"))
    /\ UNCHANGED <<now, snap, env, db, nreq, known>>

\* the origin publishes a later valid_until_ts for the same keys
Renew ==
    /\ now + V > ovu
    /\ ovu' = now + V
    /\ pub' = pub \cup {[kid |-> cur, e |-> Cur(now + V)]}
    /\ hist' = Append(hist, EnvStep("renew", "-"))
    /\ UNCHANGED <<now, cur, oexp, snap, env, db, nreq, known>>

\* the notary refreshes its copy; until the next Sync the copy goes stale whenever the origin changes
Sync ==
    /\ snap # Truth
    /\ snap' = Truth
    /\ hist' = Append(hist, EnvStep("sync", "-"))
    /\ UNCHANGED <<now, origin, env, db, nreq, pub, known>>

Outage(f) ==
    /\ IF f = "d" THEN dirUp /\ dirUp' = FALSE /\ UNCHANGED notUp
                  ELSE notUp /\ notUp' = FALSE /\ UNCHANGED dirUp
    /\ hist' = Append(hist, EnvStep("down", f))
    /\ UNCHANGED <<now, origin, snap, order, nmode, db, nreq, pub, known>>

Recover(f) ==
    /\ IF f = "d" THEN ~dirUp /\ dirUp' = TRUE /\ UNCHANGED notUp
                  ELSE ~notUp /\ notUp' = TRUE /\ UNCHANGED dirUp
    /\ hist' = Append(hist, EnvStep("up", f))
    /\ UNCHANGED <<now, origin, snap, order, nmode, db, nreq, pub, known>>

Call(rq) ==
    /\ LET o == Here(db, dirUp, notUp, rq) IN
       /\ db' = o.db
       /\ known' = [k \in KIDS |-> IF Expired(o.db[k]) THEN o.db[k].exp ELSE known[k]]
       /\ hist' = Append(hist, [a |-> "verify", f |-> "-", rq |-> rq, res |-> o.res, con |-> o.con,
                                ans |-> o.ans, t |-> now, du |-> dirUp, nu |-> notUp,
                                tr |-> Truth, sn |-> snap, dbb |-> db, dba |-> o.db])
    /\ nreq' = nreq + 1
    /\ UNCHANGED <<now, origin, snap, env, pub>>

Verify(rq) == nreq < MaxReq /\ Call(rq)

EnvNext == Tick \/ Rotate \/ Renew \/ Sync \/ (\E f \in {"d", "n"} : Outage(f) \/ Recover(f))
Next == EnvNext \/ (\E rq \in Requests : Verify(rq))
Spec == Init /\ [][Next]_vars

\* ========================================================== the property
Calls == {i \in DOMAIN hist : hist[i].a = "verify"}
Published(k) == {p.e : p \in {q \in pub : q.kid = k}}

\* keys a call obtained for key ID k: what the database held, what each contacted fetcher answered
Obtained(c, k) == {x \in {c.dbb[k]} \cup {c.ans[j][k] : j \in DOMAIN c.ans} : Present(x)}
\* did a fetcher contacted in call c answer for key ID k
Answered(c, k) == \E j \in DOMAIN c.ans : Present(c.ans[j][k])
FirstAnswer(c, k) == c.ans[CHOOSE j \in DOMAIN c.ans :
                            Present(c.ans[j][k]) /\ \A i \in 1..(j - 1) : ~Present(c.ans[i][k])][k]

TypeOK ==
    /\ now \in 0..MaxT /\ cur \in KIDS /\ nreq \in Nat
    /\ \A k \in KIDS : db[k] \in {NoEnt} \cup {Cur(v) : v \in 0..(MaxT + V)} \cup {Old(x) : x \in 0..MaxT}

\* Clauses about ONE call are written over its history record c (XxxC) and asserted for every call
\* of the history (Xxx) and, as an action property, for every Verify transition (EveryCallOK).

\* (1) a request succeeds only under a key the origin published for that key ID, which the key ring
\*     obtained (database or a contacted fetcher), valid at the request's timestamp by the applicable rule,
\*     and only if the signature was made with that key
SoundC(c) ==
    c.res = "ok" =>
        /\ c.rq.sig = "good"
        /\ \E e \in Obtained(c, c.rq.kid) :
              /\ e \in Published(c.rq.kid)
              /\ ValidAt(e, c.rq.ts, c.rq.strict, c.t)

\* ... and it does succeed when the first source able to speak for the key ID supplies such a key:
\* the database if it holds the key settled or good for the request, else the first fetcher in
\* configuration order that answers for the key ID, else the (stale) database entry
FirstSource(c) ==
    LET k == c.rq.kid IN
    IF Present(c.dbb[k]) /\ (Settled(c.dbb[k], c.t) \/ Good(c.dbb[k], c.rq, c.t)) THEN c.dbb[k]
    ELSE IF Answered(c, k) THEN FirstAnswer(c, k)
    ELSE c.dbb[k]
CompleteC(c) == Good(FirstSource(c), c.rq, c.t) => c.res = "ok"

\* (2) once a usable key is in the database no fetcher is contacted for requests it satisfies; an
\*     expired key is never requested again; a key inside its validity is not refreshed
NoNeedlessContactC(c) == LET e == c.dbb[c.rq.kid] IN
    (Present(e) /\ (Good(e, c.rq, c.t) \/ Settled(e, c.t))) => c.con = <<>>
\* fetchers are asked in configuration order, a later one only when the earlier ones did not answer
InOrderC(c) ==
    /\ Len(c.con) <= 2 /\ \A j \in DOMAIN c.con : c.con[j] = order[j]
    /\ \A j \in DOMAIN c.con : \A l \in 1..(j - 1) : ~Present(c.ans[l][c.rq.kid])

\* (3) rotation.  Once the database says key ID k expired at x, every request under k is judged by x
\*     alone - from the database, whatever the fetchers would say (ExpiredDecides), for the rest of
\*     the history (KnownExpiry, ExpiredIsFinal below)
ExpiredDecidesC(c) == LET e == c.dbb[c.rq.kid] IN
    (Present(e) /\ Expired(e)) =>
        /\ c.con = <<>>
        /\ c.res = (IF c.rq.sig = "good" /\ c.rq.ts < e.exp THEN "ok" ELSE "fail")
KnownExpiry == \A i, j \in Calls : LET a == hist[i]  b == hist[j]  k == b.rq.kid IN
    (i < j /\ Present(a.dba[k]) /\ Expired(a.dba[k])) =>
        b.res = (IF b.rq.sig = "good" /\ b.rq.ts < a.dba[k].exp THEN "ok" ELSE "fail")
\*     the same as a statement about every reachable state and every possible request: once the key
\*     ring has learnt that key ID k expired at x, nothing timestamped x or later verifies under k
\*     any more, and what a good signature covers before x still does - whatever the fetchers say
RetiredForGood == \A rq \in Requests : known[rq.kid] # NoTS =>
    \A du, nu \in BOOLEAN :
        Here(db, du, nu, rq).res = (IF rq.sig = "good" /\ rq.ts < known[rq.kid] THEN "ok" ELSE "fail")
\*     ... and a key ID the origin has retired still verifies what was signed before its expired_ts,
\*     and nothing after, when the key ring learns of it from the origin itself (old_verify_keys)
OldKeyStillVerifiesC(c) == LET k == c.rq.kid IN
    (Expired(c.tr[k]) /\ c.con # <<>> /\ FirstSource(c) = c.tr[k] /\ c.rq.sig = "good") =>
        c.res = (IF c.rq.ts < c.tr[k].exp THEN "ok" ELSE "fail")

\* (4) the database only grows in knowledge.  Nothing is deleted.  The entry of the key ID the call
\*     asked for is replaced only when it is neither expired nor inside its validity, by what the
\*     first answering fetcher said (the documented refresh).  The entry of any other key ID is
\*     replaced only by a volunteered entry that says more (Newer): never by something older, and an
\*     expired entry by nothing at all.  A new entry is what a contacted fetcher answered for that
\*     key ID.  Everything in the database was published by the origin.
VolunteeredFor(c, k) == {c.ans[j][k] : j \in DOMAIN c.ans}
DBMonotoneC(c) == \A k \in KIDS :
    /\ Present(c.dbb[k]) => Present(c.dba[k])
    /\ (Present(c.dbb[k]) /\ c.dba[k] # c.dbb[k]) =>
            IF k = c.rq.kid
            THEN ~Settled(c.dbb[k], c.t) /\ Answered(c, k) /\ c.dba[k] = FirstAnswer(c, k)
            ELSE Newer(c.dba[k], c.dbb[k]) /\ c.dba[k] \in VolunteeredFor(c, k)
    /\ (~Present(c.dbb[k]) /\ Present(c.dba[k])) => (Answered(c, k) /\ c.dba[k] = FirstAnswer(c, k))
ExpiredKeptC(c) == \A k \in KIDS : Expired(c.dbb[k]) => c.dba[k] = c.dbb[k]
\* what a fetcher answered for the key ID asked for is in the database afterwards
StoredFetchedC(c) == LET k == c.rq.kid IN Answered(c, k) => c.dba[k] = FirstAnswer(c, k)
ExpiredIsFinal == \A i, j \in Calls : \A k \in KIDS : LET a == hist[i] IN
    (i <= j /\ Present(a.dbb[k]) /\ Expired(a.dbb[k])) => hist[j].dba[k] = a.dbb[k]
NothingInvented == \A k \in KIDS : Present(db[k]) => db[k] \in Published(k)
\* the database changes in Verify steps only, and the history is continuous
Continuity == \A i, j \in Calls :
    (i < j /\ \A m \in (i + 1)..(j - 1) : m \notin Calls) => hist[j].dbb = hist[i].dba
LastDB == \A i \in Calls : (\A m \in Calls : m <= i) => hist[i].dba = db
EnvLeavesDB == [][(\A rq \in Requests : ~Call(rq)) => UNCHANGED db]_vars

\* (5) fetcher outage never turns a request the database can verify into a failure and never makes
\*     an unverifiable one succeed; it leaves the database alone.  Counterfactual on every reachable
\*     state: the same call with the fetchers as they are, with each one down, with both down.
VerifiableByDB(rq) == Present(db[rq.kid]) /\ Good(db[rq.kid], rq, now)
OutageHarmless == \A rq \in Requests :
    LET out == Here(db, FALSE, FALSE, rq)
    IN  /\ VerifiableByDB(rq) => \A du, nu \in BOOLEAN : Here(db, du, nu, rq).res = "ok"
        /\ ~VerifiableByDB(rq) => (out.res = "fail" /\ out.db = db)
\* the same on the calls that happened: when no contacted fetcher answered, the database alone decided
OutageC(c) == LET k == c.rq.kid IN
    (\A kk \in KIDS : ~Answered(c, kk)) =>
        /\ c.dba = c.dbb
        /\ c.res = (IF Good(c.dbb[k], c.rq, c.t) THEN "ok" ELSE "fail")

CallOK(c) ==
    /\ SoundC(c) /\ CompleteC(c) /\ NoNeedlessContactC(c) /\ InOrderC(c) /\ ExpiredDecidesC(c)
    /\ OldKeyStillVerifiesC(c) /\ DBMonotoneC(c) /\ ExpiredKeptC(c)
    /\ StoredFetchedC(c) /\ OutageC(c)

Sound              == \A i \in Calls : SoundC(hist[i])
Complete           == \A i \in Calls : CompleteC(hist[i])
NoNeedlessContact  == \A i \in Calls : NoNeedlessContactC(hist[i])
InOrder            == \A i \in Calls : InOrderC(hist[i])
ExpiredDecides     == \A i \in Calls : ExpiredDecidesC(hist[i])
OldKeyStillVerifies == \A i \in Calls : OldKeyStillVerifiesC(hist[i])
DBMonotone         == \A i \in Calls : DBMonotoneC(hist[i]) /\ ExpiredKeptC(hist[i])
StoredFetched      == \A i \in Calls : StoredFetchedC(hist[i])
OutageInHistory    == \A i \in Calls : OutageC(hist[i])
\* every Verify transition (also the ones that lead to a state already seen)
EveryCallOK == [][(Len(hist') > Len(hist) /\ hist'[Len(hist')].a = "verify") => CallOK(hist'[Len(hist')])]_vars

\* "add the keys to the database so that we won't need to fetch them again": the same request again,
\* at once, gets the same answer, leaves the database as it is, and contacts nobody if the first call
\* left a key that is settled or good for it
Again == \A rq \in Requests :
    LET o1 == Here(db, dirUp, notUp, rq)
        o2 == Here(o1.db, dirUp, notUp, rq)
    IN  /\ o2.res = o1.res /\ o2.db = o1.db
        /\ (o1.res = "ok" \/ Settled(o1.db[rq.kid], now)) => o2.con = <<>>

\* ------------------------------------------------ sanity of the oracle
\* consequences that must hold if the clauses above say what they are meant to say
Sanity ==
    /\ \A k \in KIDS : k > cur => ~Present(db[k]) /\ ~Present(snap[k])     \* nobody knows a key before it exists
    /\ \A k \in KIDS : Expired(db[k]) => (k < cur /\ db[k] = Truth[k])      \* a stored expiry is the true one
    /\ \A k \in KIDS : Expired(snap[k]) => snap[k] = Truth[k]
    /\ \A i \in Calls : hist[i].rq.sig = "bad" => hist[i].res = "fail"
=============================================================================
