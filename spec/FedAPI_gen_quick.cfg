SPECIFICATION Spec
CONSTANTS
  CallSet <- CallsAll
  ClassSet <- ClassesAll
  RespSet <- RespQuick
  Resp2Set <- Resp2Quick
  OrigSet <- OrigAll
  ResSet <- ResAll
  Budget = 1
  PairBonus = 1
  Fault = "none"
INVARIANTS TypeOK Fidelity Authenticity ResponseHandling Destination RouteUnambiguous Emit
CHECK_DEADLOCK FALSE
