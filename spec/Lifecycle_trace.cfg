SPECIFICATION TSpec
INVARIANT Report
POSTCONDITION TraceAccepted
CHECK_DEADLOCK FALSE
