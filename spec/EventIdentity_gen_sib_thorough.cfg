SPECIFICATION Spec
CONSTANTS
  Versions <- VersionsAll
  Family = "sib"
  ShapeIds <- ShapesC03
  VariantIds <- VariantsSibAll
  MaxOps = 0
  Alphabet <- NoOps
  PreOps <- PreSib
  SibFields <- SibAll
  SidPairs <- NoSid
  TamperMax = 0
INVARIANTS TypeOK PIdStable PRoundTrip PRedactKeeps PV12 PBuildOrRefuse PSibling PSiblingHash Emit
CHECK_DEADLOCK FALSE
