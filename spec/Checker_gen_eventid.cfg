SPECIFICATION Spec
CONSTANTS
  Versions <- VersionsQuick
  MaxLen = 2
  CacheKey = "eventid"
INVARIANTS Coherent
CHECK_DEADLOCK FALSE
