SPECIFICATION Spec
CONSTANTS
  VerSet <- VersFault
  Budget = 2
  Fault = "adopt_after_check"
  Strict = FALSE
INVARIANTS TypeOK CheckBeforeReturn
CHECK_DEADLOCK FALSE
