-------------------------- MODULE CheckerProv_gen --------------------------
(* Emits every operation history of CheckerProv.tla of length MaxOps (all shorter ones are its prefixes) with    *)
(* what the accessors must answer after every operation; harness command c09prov drives a real AuthEvents       *)
(* through the history and compares the accessors and the verdicts of Allowed() over it.                        *)
EXTENDS CheckerProv, Json

Emit == Len(hist) = MaxOps => PrintT(ToJson([ops |-> hist, views |-> views]))
=============================================================================
