SPECIFICATION Spec
CONSTANTS
  Procs = {"c1", "c2"}
  Hosts = {"a", "b"}
  Size = 1
  MaxCalls = 3
  MaxExpire = 2
  Kinds = {"lookup", "dial"}
  Faults = TRUE
VIEW View
INVARIANTS TypeOK SizeBound ServedFreshAndSequential NoCrossHost RefinesSequential MissReturnsOwnAnswer MutexDiscipline
