SPECIFICATION TSpec
CONSTANTS
  MaxForge = 99
  ScenarioSet = "trace"
INVARIANTS Report MakeJoinExact MakeLeaveExact TemplateShape SendJoinExact InviteExact ReturnsCountersigned TemplateAuthoriser OtherIdentitiesIrrelevant
POSTCONDITION TraceAccepted
CHECK_DEADLOCK FALSE
