-------------------------- MODULE KeyResponse_gen --------------------------
(***************************************************************************)
(* Scenario generator for KeyResponse.tla.  Init ranges over the scenarios *)
(* of one mode, Eval derives the outcome, Emit prints both for replay.     *)
(*   check   CheckKeys(expected, now, response): now is a parameter, so    *)
(*           valid_until_ts = now is exercised exactly                     *)
(*   pubkey  ServerKeys.PublicKey(kid, ts) around valid_until / expired_ts *)
(*   direct  DirectKeyFetcher.FetchKeys over a scripted KeyClient          *)
(*   persp   PerspectiveKeyFetcher.FetchKeys over a scripted KeyClient     *)
(***************************************************************************)
EXTENDS KeyResponse, Json, TLC

CONSTANTS Modes, Tier

VARIABLES sc, out, phase
vars == <<sc, out, phase>>

VK(kid, key, size, sig) == [kid |-> kid, alg |-> IF kid = "rsa" THEN "rsa" ELSE "ed25519", key |-> key, size |-> size, sig |-> sig]
V1 == {VK("k1", "A1", "ok", "good")}
V2 == {VK("k1", "A1", "ok", "bad")}
V3 == {VK("k1", "A1", "ok", "none")}
V4 == {VK("k1", "A1", "short", "none")}
V5 == {VK("k1", "A1", "ok", "good"), VK("k2", "A2", "ok", "good")}
V6 == {VK("k1", "A1", "ok", "good"), VK("k2", "A2", "ok", "bad")}
V7 == {VK("rsa", "R", "ok", "none")}
V8 == {VK("rsa", "R", "ok", "none"), VK("k1", "A1", "ok", "good")}
V9 == {}
Old0 == {}
Old1 == {[kid |-> "k0", key |-> "A0", exp |-> -48]}
Old2 == {[kid |-> "k1", key |-> "A1", exp |-> -48]}     \* the ID of a current key listed as an old key too
OldR == {[kid |-> "rsa", key |-> "R", exp |-> -48]}     \* an old key of another algorithm

Resp(name, vu, vk, old, nsig) == [name |-> name, vu |-> vu, vkeys |-> vk, old |-> old, nsig |-> nsig]
Dummy == Resp("s1", 24, V1, Old0, "none")
NoD == [kind |-> "error", r |-> Dummy]
EmptyD == [kind |-> "empty", r |-> Dummy]               \* the client hands back a zero ServerKeys and no error
NoN == [kind |-> "error", rs |-> <<>>]
Other(s) == IF s = "s1" THEN "s2" ELSE "s1"

Base == [mode |-> "check", expected |-> "s1", now |-> 0, r |-> Dummy, kid |-> "k1", ts |-> 0,
         srv2 |-> FALSE, local |-> FALSE, d |-> NoD, n |-> NoN, p |-> NoN]

ScCheck ==
    {[Base EXCEPT !.mode = "check", !.expected = e, !.r = Resp("s1", vu, vk, old, "none")] :
        e \in {"s1", "s2"}, vu \in {-24, 0, 24}, vk \in {V1, V2, V3, V4, V5, V6, V7, V8, V9}, old \in {Old0, Old1, Old2, OldR}}

ScPubKey ==
    {[Base EXCEPT !.mode = "pubkey", !.r = Resp("s1", 24, V1, Old1, "none"), !.kid = k, !.ts = t] :
        k \in {"k1", "k0", "k9"}, t \in {-72, -48, -24, 24, 48}}
    \cup  \* one ID both current (until -24) and old (expired at 48)
    {[Base EXCEPT !.mode = "pubkey", !.r = Resp("s1", -24, V1, {[kid |-> "k1", key |-> "A1", exp |-> 48]}, "none"),
                  !.kid = "k1", !.ts = t] : t \in {-48, -24, 24, 48, 72}}

DirectResps(s) ==
    {Resp(nm, vu, vk, old, "none") : nm \in {s, Other(s)}, vu \in {-24, 24},
                                      vk \in {V1, V2, V5, V6, V7, V9}, old \in {Old0, Old1, Old2}}
NotaryLists(s, small) ==
    LET stranger == Resp(Other(s), 24, V1, Old0, "none")
    IN  {<<>>, <<stranger>>} \cup {<<r>> : r \in small} \cup {<<stranger, r>> : r \in small}
NotarySmall(s) == {Resp(s, vu, vk, Old0, "none") : vu \in {-24, 24}, vk \in {V1, V2}}
\* the fallback path driven through every acceptance clause as well
NotaryRich(s) == {Resp(s, vu, vk, old, "none") : vu \in {-24, 24}, vk \in {V1, V2, V4, V5, V6, V7, V9}, old \in {Old0, Old1, Old2}}
ScDirect ==
    {[Base EXCEPT !.mode = "direct", !.d = d, !.n = n, !.srv2 = s2, !.local = lo] :
        d \in {NoD, EmptyD} \cup {[kind |-> "resp", r |-> r] : r \in DirectResps("s1")},
        n \in {NoN} \cup {[kind |-> "list", rs |-> rs] : rs \in NotaryLists("s1", NotarySmall("s1"))},
        s2 \in BOOLEAN, lo \in (IF Tier = "quick" THEN {FALSE} ELSE BOOLEAN)}
    \cup
    {[Base EXCEPT !.mode = "direct", !.d = d, !.n = [kind |-> "list", rs |-> rs], !.srv2 = FALSE, !.local = FALSE] :
        d \in {NoD, EmptyD, [kind |-> "resp", r |-> Resp("s1", 24, V2, Old0, "none")],
                            [kind |-> "resp", r |-> Resp("s2", 24, V1, Old0, "none")]},
        rs \in NotaryLists("s1", NotaryRich("s1"))}

PerspResps(s) ==
    {Resp(s, vu, vk, old, ns) : vu \in {-24, 24}, vk \in {V1, V2, V5, V7}, old \in {Old0, Old1, Old2},
                                ns \in {"good", "bad", "unknown", "none"}}
\* notary = origin: the notary answers about itself; its single signature under its key ID is at the same
\* time the self-signature (good iff made with the listed key) and the notary signature (good iff made
\* with the key the client knows for the notary, P1)
NotarySelf ==
    {Resp("notary", vu, {VK("p1", c[1], "ok", c[2])}, Old0, c[3]) : vu \in {-24, 24},
        c \in {<<"P1", "good", "good">>, <<"PX", "good", "bad">>, <<"PX", "bad", "good">>, <<"P1", "bad", "bad">>}}
ScPersp ==
    {[Base EXCEPT !.mode = "persp", !.p = p] :
        p \in {NoN, [kind |-> "list", rs |-> <<>>]}
              \cup {[kind |-> "list", rs |-> <<r>>] : r \in PerspResps("s1") \cup NotarySelf}
              \cup {[kind |-> "list", rs |-> <<a, b>>] : a \in NotarySelf, b \in {Resp("s1", 24, V1, Old0, "good")}}
              \cup {[kind |-> "list", rs |-> <<a, b>>] : a \in PerspResps("s1"),
                        b \in (IF Tier = "quick" THEN {r \in PerspResps("s2") : r.old = Old0 /\ r.vkeys = V1}
                               ELSE PerspResps("s2"))}}

Scenarios == (IF "check" \in Modes THEN ScCheck ELSE {}) \cup (IF "pubkey" \in Modes THEN ScPubKey ELSE {})
             \cup (IF "direct" \in Modes THEN ScDirect ELSE {}) \cup (IF "persp" \in Modes THEN ScPersp ELSE {})

\* what the caller of the fetcher gets: a table key name -> entry
S2Good == Resp("s2", 24, V1, Old0, "none")
LocalTab == ("s0/k1" :> [key |-> "L", vu |-> 99999, exp |-> NoTS])
DirectWant(s) ==
    Merge(Merge(DirectOne("s1", s.now, s.d, s.n),
                IF s.srv2 THEN Named("s2", KeysOf(S2Good)) ELSE <<>>),
          IF s.local THEN LocalTab ELSE <<>>)
DirectCalls(s) ==
    {[op |-> "get", srv |-> "s1"]} \cup (IF DirectAsksNotary("s1", s.now, s.d) THEN {[op |-> "lookup", srv |-> "s1"]} ELSE {})
    \cup (IF s.srv2 THEN {[op |-> "get", srv |-> "s2"]} ELSE {})

NoOut == [tab |-> <<>>, calls |-> {}, key |-> "-", checks |-> Checks("s1", 0, Dummy), keys |-> {}]
Outcome(s) ==
    CASE s.mode = "check"  -> [NoOut EXCEPT !.checks = Checks(s.expected, s.now, s.r),
                                           !.keys = CheckedKeys(s.expected, s.now, s.r)]
      [] s.mode = "pubkey" -> [NoOut EXCEPT !.key = PublicKeyAt(s.r, s.kid, s.ts)]
      [] s.mode = "direct" -> [NoOut EXCEPT !.tab = DirectWant(s), !.calls = DirectCalls(s)]
      [] OTHER             -> [NoOut EXCEPT !.tab = Perspective(s.now, s.p)]

Init == sc \in Scenarios /\ out = NoOut /\ phase = "init"
Eval == phase = "init" /\ out' = Outcome(sc) /\ phase' = "done" /\ UNCHANGED sc
Next == Eval
Spec == Init /\ [][Next]_vars

\* ---- oracle sanity
SaneDirect == (phase = "done" /\ sc.mode = "direct") => OnlyFromAccepted("s1", sc.now, sc.d, sc.n)
SanePersp == (phase = "done" /\ sc.mode = "persp" /\ out.tab # <<>>) =>
                \A i \in DOMAIN sc.p.rs : sc.p.rs[i].nsig = "good" /\ sc.p.rs[i].vu > sc.now
SaneCheck == (phase = "done" /\ sc.mode = "check") =>
                /\ (out.checks.all => sc.r.name = sc.expected /\ sc.r.vu > sc.now /\ out.keys # {})
                /\ (~out.checks.all => out.keys = {})
SanePubKey == (phase = "done" /\ sc.mode = "pubkey" /\ out.key # "-") =>
                \/ (sc.kid \in Kids(sc.r.vkeys) /\ sc.ts <= sc.r.vu)
                \/ (\E o \in sc.r.old : o.kid = sc.kid /\ sc.ts < o.exp)

Emit == phase = "done" =>
    PrintT(ToJson(
        CASE sc.mode = "check"  -> [mode |-> "check", expected |-> sc.expected, now |-> sc.now, r |-> sc.r,
                                    checks |-> out.checks, keys |-> out.keys]
          [] sc.mode = "pubkey" -> [mode |-> "pubkey", r |-> sc.r, kid |-> sc.kid, ts |-> sc.ts, key |-> out.key]
          [] sc.mode = "direct" -> [mode |-> "direct", d |-> sc.d, n |-> sc.n, srv2 |-> sc.srv2, local |-> sc.local,
                                    tab |-> out.tab, calls |-> out.calls]
          [] OTHER              -> [mode |-> "persp", p |-> sc.p, tab |-> out.tab]))
=============================================================================
