-------------------------- MODULE KeyResponse_gen --------------------------
(***************************************************************************)
(* Scenario generator for KeyResponse.tla.  Init ranges over the scenarios *)
(* of one mode, Eval derives the outcome, Emit prints both for replay.     *)
(*   check   CheckKeys(expected, now, response): now is a parameter, so    *)
(*           valid_until_ts = now is exercised exactly                     *)
(*   pubkey  ServerKeys.PublicKey(kid, ts) around valid_until / expired_ts *)
(*   direct  DirectKeyFetcher.FetchKeys over a scripted KeyClient          *)
(*   persp   PerspectiveKeyFetcher.FetchKeys over a scripted KeyClient     *)
(***************************************************************************)
EXTENDS KeyResponse, Json, TLC

CONSTANTS Modes, Tier

VARIABLES sc, out, phase
vars == <<sc, out, phase>>

VK(kid, key, size, sig) == [kid |-> kid, alg |-> IF kid = "rsa" THEN "rsa" ELSE "ed25519", key |-> key, size |-> size, sig |-> sig]
V1 == {VK("k1", "A1", "ok", "good")}
V2 == {VK("k1", "A1", "ok", "bad")}
V3 == {VK("k1", "A1", "ok", "none")}
V4 == {VK("k1", "A1", "short", "none")}
V5 == {VK("k1", "A1", "ok", "good"), VK("k2", "A2", "ok", "good")}
V6 == {VK("k1", "A1", "ok", "good"), VK("k2", "A2", "ok", "bad")}
V7 == {VK("rsa", "R", "ok", "none")}
V8 == {VK("rsa", "R", "ok", "none"), VK("k1", "A1", "ok", "good")}
V9 == {}
Old0 == {}
Old1 == {[kid |-> "k0", key |-> "A0", exp |-> -48]}
Old2 == {[kid |-> "k1", key |-> "A1", exp |-> -48]}     \* the ID of a current key listed as an old key too
OldR == {[kid |-> "rsa", key |-> "R", exp |-> -48]}     \* an old key of another algorithm

Resp(name, vu, vk, old, nsig) == [name |-> name, vu |-> vu, vkeys |-> vk, old |-> old, nsig |-> nsig, dup |-> NoDup]
Dummy == Resp("s1", 24, V1, Old0, "none")
NoD == [kind |-> "error", r |-> Dummy]
EmptyD == [kind |-> "empty", r |-> Dummy]               \* the client hands back a zero ServerKeys and no error
NoN == [kind |-> "error", rs |-> <<>>]
Other(s) == IF s = "s1" THEN "s2" ELSE "s1"

NoQ == [kid |-> "k1", by |-> "A1", ts |-> -48]
Base == [mode |-> "check", expected |-> "s1", now |-> 0, r |-> Dummy, kid |-> "k1", ts |-> 0,
         srv2 |-> FALSE, local |-> FALSE, d |-> NoD, n |-> NoN, p |-> NoN, via |-> "direct", q |-> NoQ]

ScCheck ==
    {[Base EXCEPT !.mode = "check", !.expected = e, !.r = Resp("s1", vu, vk, old, "none")] :
        e \in {"s1", "s2"}, vu \in {-24, 0, 24}, vk \in {V1, V2, V3, V4, V5, V6, V7, V8, V9}, old \in {Old0, Old1, Old2, OldR}}

ScPubKey ==
    {[Base EXCEPT !.mode = "pubkey", !.r = Resp("s1", 24, V1, Old1, "none"), !.kid = k, !.ts = t] :
        k \in {"k1", "k0", "k9"}, t \in {-72, -48, -24, 24, 48}}
    \cup  \* one ID both current (until -24) and old (expired at 48)
    {[Base EXCEPT !.mode = "pubkey", !.r = Resp("s1", -24, V1, {[kid |-> "k1", key |-> "A1", exp |-> 48]}, "none"),
                  !.kid = "k1", !.ts = t] : t \in {-48, -24, 24, 48, 72}}

DirectResps(s) ==
    {Resp(nm, vu, vk, old, "none") : nm \in {s, Other(s)}, vu \in {-24, 24},
                                      vk \in {V1, V2, V5, V6, V7, V9}, old \in {Old0, Old1, Old2}}
NotaryLists(s, small) ==
    LET stranger == Resp(Other(s), 24, V1, Old0, "none")
    IN  {<<>>, <<stranger>>} \cup {<<r>> : r \in small} \cup {<<stranger, r>> : r \in small}
NotarySmall(s) == {Resp(s, vu, vk, Old0, "none") : vu \in {-24, 24}, vk \in {V1, V2}}
\* the fallback path driven through every acceptance clause as well
NotaryRich(s) == {Resp(s, vu, vk, old, "none") : vu \in {-24, 24}, vk \in {V1, V2, V4, V5, V6, V7, V9}, old \in {Old0, Old1, Old2}}
ScDirect ==
    {[Base EXCEPT !.mode = "direct", !.d = d, !.n = n, !.srv2 = s2, !.local = lo] :
        d \in {NoD, EmptyD} \cup {[kind |-> "resp", r |-> r] : r \in DirectResps("s1")},
        n \in {NoN} \cup {[kind |-> "list", rs |-> rs] : rs \in NotaryLists("s1", NotarySmall("s1"))},
        s2 \in BOOLEAN, lo \in (IF Tier = "quick" THEN {FALSE} ELSE BOOLEAN)}
    \cup
    {[Base EXCEPT !.mode = "direct", !.d = d, !.n = [kind |-> "list", rs |-> rs], !.srv2 = FALSE, !.local = FALSE] :
        d \in {NoD, EmptyD, [kind |-> "resp", r |-> Resp("s1", 24, V2, Old0, "none")],
                            [kind |-> "resp", r |-> Resp("s2", 24, V1, Old0, "none")]},
        rs \in NotaryLists("s1", NotaryRich("s1"))}

PerspResps(s) ==
    {Resp(s, vu, vk, old, ns) : vu \in {-24, 24}, vk \in {V1, V2, V5, V7}, old \in {Old0, Old1, Old2},
                                ns \in {"good", "bad", "unknown", "none"}}
\* notary = origin: the notary answers about itself; its single signature under its key ID is at the same
\* time the self-signature (good iff made with the listed key) and the notary signature (good iff made
\* with the key the client knows for the notary, P1)
NotarySelf ==
    {Resp("notary", vu, {VK("p1", c[1], "ok", c[2])}, Old0, c[3]) : vu \in {-24, 24},
        c \in {<<"P1", "good", "good">>, <<"PX", "good", "bad">>, <<"PX", "bad", "good">>, <<"P1", "bad", "bad">>}}
ScPersp ==
    {[Base EXCEPT !.mode = "persp", !.p = p] :
        p \in {NoN, [kind |-> "list", rs |-> <<>>]}
              \cup {[kind |-> "list", rs |-> <<r>>] : r \in PerspResps("s1") \cup NotarySelf}
              \cup {[kind |-> "list", rs |-> <<a, b>>] : a \in NotarySelf, b \in {Resp("s1", 24, V1, Old0, "good")}}
              \cup {[kind |-> "list", rs |-> <<a, b>>] : a \in PerspResps("s1"),
                        b \in (IF Tier = "quick" THEN {r \in PerspResps("s2") : r.old = Old0 /\ r.vkeys = V1}
                               ELSE PerspResps("s2"))}}

\* ---- one response that writes a top-level member twice
Dp(m, pos, c) == [m |-> m, pos |-> pos, c |-> c]
Poss == {"before", "after"}
DupKinds ==
    {Dp("verify_keys", pos, c) : pos \in Poss, c \in {"evil", "evilnosig", "sameid", "empty"}}
    \cup {Dp("old_verify_keys", pos, c) : pos \in Poss, c \in {"evil", "sameid", "empty"}}
    \cup {Dp("server_name", pos, "other") : pos \in Poss}
    \cup {Dp("valid_until_ts", pos, c) : pos \in Poss, c \in {"future", "past"}}
    \cup {Dp("signatures", pos, "attacker") : pos \in Poss}
WithDup(r, dp) == [r EXCEPT !.dup = dp]
\* the genuine responses the relay works on: one or two current keys, with and without an old key
\* (thorough: also next to a key of another algorithm, and with an ID listed as current and old)
DupResps(s, vus, nsigs) == {WithDup(Resp(s, vu, vk, old, ns), dp) :
                                vu \in vus, vk \in (IF Tier = "quick" THEN {V1, V5} ELSE {V1, V5, V8}),
                                old \in (IF Tier = "quick" THEN {Old0, Old1} ELSE {Old0, Old1, Old2}),
                                ns \in nsigs, dp \in DupKinds}
DupRespsV1(s, ns) == {x \in DupResps(s, {24}, {ns}) : x.vkeys = V1}
PlainGood == Resp("s1", 24, V5, Old0, "none")

ScDupCheck ==
    {[Base EXCEPT !.mode = "dupcheck", !.expected = e, !.r = x] :
        e \in {"s1", "s2"}, x \in DupResps("s1", {-24, 24}, {"none"})}
ScDupCheckPruned == {s \in ScDupCheck : s.expected = "s1" \/ s.r.dup.m = "server_name"}

ScDupDirect ==
    \* the server's own answer tampered with on the way
    {[Base EXCEPT !.mode = "dupdirect", !.d = [kind |-> "resp", r |-> x], !.n = n] :
        x \in DupResps("s1", {24}, {"none"}), n \in {NoN, [kind |-> "list", rs |-> <<PlainGood>>]}}
    \cup  \* the fallback (a notary's list) tampered with
    {[Base EXCEPT !.mode = "dupdirect", !.d = d, !.n = [kind |-> "list", rs |-> rs]] :
        d \in {NoD, [kind |-> "resp", r |-> Resp("s1", 24, V2, Old0, "none")]},
        rs \in UNION {{<<x>>, <<Resp("s2", 24, V1, Old0, "none"), x>>, <<x, PlainGood>>} : x \in DupRespsV1("s1", "none")}}

S2Signed == Resp("s2", 24, V1, Old0, "good")
ScDupPersp ==
    {[Base EXCEPT !.mode = "duppersp", !.p = [kind |-> "list", rs |-> rs]] :
        rs \in UNION {{<<x>>, <<x, S2Signed>>, <<S2Signed, x>>} :
                        x \in DupResps("s1", {24}, {"good"}) \cup {y \in DupRespsV1("s1", "none") : y.old = Old0}}}

\* end to end: what a message is signed with and for when
Asks == {[kid |-> "k1", by |-> "A1", ts |-> -48], [kid |-> "kx", by |-> "X", ts |-> -48],
         [kid |-> "k0", by |-> "X", ts |-> -48], [kid |-> "k1", by |-> "X", ts |-> -48],
         [kid |-> "k0", by |-> "A0", ts |-> -72]}
ScDupRing ==
    {[Base EXCEPT !.mode = "dupring", !.via = "direct", !.d = [kind |-> "resp", r |-> x], !.q = q] :
        x \in DupRespsV1("s1", "none"), q \in Asks}
    \cup
    {[Base EXCEPT !.mode = "dupring", !.via = "persp", !.p = [kind |-> "list", rs |-> <<x>>], !.q = q] :
        x \in DupRespsV1("s1", "good"), q \in Asks}

DupModes == {"dupcheck", "dupdirect", "duppersp", "dupring"}
Scenarios == (IF "check" \in Modes THEN ScCheck ELSE {}) \cup (IF "pubkey" \in Modes THEN ScPubKey ELSE {})
             \cup (IF "direct" \in Modes THEN ScDirect ELSE {}) \cup (IF "persp" \in Modes THEN ScPersp ELSE {})
             \cup (IF "dup" \in Modes THEN ScDupCheckPruned \cup ScDupDirect \cup ScDupPersp \cup ScDupRing ELSE {})

\* what the caller of the fetcher gets: a table key name -> entry
S2Good == Resp("s2", 24, V1, Old0, "none")
LocalTab == ("s0/k1" :> [key |-> "L", vu |-> 99999, exp |-> NoTS])
DirectWant(s) ==
    Merge(Merge(DirectOne("s1", s.now, s.d, s.n),
                IF s.srv2 THEN Named("s2", KeysOf(S2Good)) ELSE <<>>),
          IF s.local THEN LocalTab ELSE <<>>)
DirectCalls(s) ==
    {[op |-> "get", srv |-> "s1"]} \cup (IF DirectAsksNotary("s1", s.now, s.d) THEN {[op |-> "lookup", srv |-> "s1"]} ELSE {})
    \cup (IF s.srv2 THEN {[op |-> "get", srv |-> "s2"]} ELSE {})

\* ---- a member written twice: one outcome per thing an implementation may do with such a response
PolSeq == <<"lastwins", "refuse", "drop">>
Seen(pol, s) == [s EXCEPT !.r = View(pol, s.r), !.d = ViewD(pol, s.d), !.n = ViewL(pol, s.n), !.p = ViewL(pol, s.p)]
DupTab(s) == IF s.mode = "dupdirect" \/ (s.mode = "dupring" /\ s.via = "direct") THEN DirectWant(s)
             ELSE Perspective(s.now, s.p)
\* KeyRing over an empty database and this one fetcher, strict validity, the instant well before now: the
\* message verifies iff the fetcher supplied the signing key under that ID and the instant lies before its
\* expired_ts (an old key) or at or before its valid_until_ts (a current one)
RingVerdict(tab, q) ==
    LET kn == KN("s1", q.kid) IN
    IF kn \in DOMAIN tab /\ tab[kn].key = q.by
          /\ (IF tab[kn].exp # NoTS THEN q.ts < tab[kn].exp ELSE tab[kn].vu # NoTS /\ q.ts <= tab[kn].vu)
    THEN "ok" ELSE "fail"
NoAlt == [pol |-> "-", tab |-> <<>>, calls |-> {}, checks |-> Checks("s1", 0, Dummy), keys |-> {}, res |-> "-"]
AltFor(pol, s0) ==
    LET s == Seen(pol, s0) IN
    CASE s.mode = "dupcheck" ->
            \* "drop": the response does not decode, there is nothing to check
            [NoAlt EXCEPT !.pol = pol, !.checks = Checks(s.expected, s.now, s.r), !.keys = CheckedKeys(s.expected, s.now, s.r)]
      [] s.mode = "dupdirect" -> [NoAlt EXCEPT !.pol = pol, !.tab = DupTab(s), !.calls = DirectCalls(s)]
      [] s.mode = "duppersp"  -> [NoAlt EXCEPT !.pol = pol, !.tab = DupTab(s)]
      [] OTHER                -> [NoAlt EXCEPT !.pol = pol, !.tab = DupTab(s), !.res = RingVerdict(DupTab(s), s.q)]
Alts(s) == [i \in DOMAIN PolSeq |-> AltFor(PolSeq[i], s)]

NoOut == [tab |-> <<>>, calls |-> {}, key |-> "-", checks |-> Checks("s1", 0, Dummy), keys |-> {}, alts |-> <<>>]
Outcome(s) ==
    CASE s.mode \in DupModes -> [NoOut EXCEPT !.alts = Alts(s)]
      [] s.mode = "check"  -> [NoOut EXCEPT !.checks = Checks(s.expected, s.now, s.r),
                                           !.keys = CheckedKeys(s.expected, s.now, s.r)]
      [] s.mode = "pubkey" -> [NoOut EXCEPT !.key = PublicKeyAt(s.r, s.kid, s.ts)]
      [] s.mode = "direct" -> [NoOut EXCEPT !.tab = DirectWant(s), !.calls = DirectCalls(s)]
      [] OTHER             -> [NoOut EXCEPT !.tab = Perspective(s.now, s.p)]

Init == sc \in Scenarios /\ out = NoOut /\ phase = "init"
Eval == phase = "init" /\ out' = Outcome(sc) /\ phase' = "done" /\ UNCHANGED sc
Next == Eval
Spec == Init /\ [][Next]_vars

\* ---- oracle sanity
SaneDirect == (phase = "done" /\ sc.mode = "direct") => OnlyFromAccepted("s1", sc.now, sc.d, sc.n)
SanePersp == (phase = "done" /\ sc.mode = "persp" /\ out.tab # <<>>) =>
                \A i \in DOMAIN sc.p.rs : sc.p.rs[i].nsig = "good" /\ sc.p.rs[i].vu > sc.now
SaneCheck == (phase = "done" /\ sc.mode = "check") =>
                /\ (out.checks.all => sc.r.name = sc.expected /\ sc.r.vu > sc.now /\ out.keys # {})
                /\ (~out.checks.all => out.keys = {})
SanePubKey == (phase = "done" /\ sc.mode = "pubkey" /\ out.key # "-") =>
                \/ (sc.kid \in Kids(sc.r.vkeys) /\ sc.ts <= sc.r.vu)
                \/ (\E o \in sc.r.old : o.kid = sc.kid /\ sc.ts < o.exp)

\* ---- the property for a member written twice, stated over the scenario and the outcomes only: whatever
\* the implementation does with such a response, every key (and validity) handed out is what the reading
\* covered by the signatures of some response of the scenario says, that response being acceptable so read
RespsOf(s) == (IF s.d.kind = "resp" THEN {s.d.r} ELSE {}) \cup (IF s.n.kind = "list" THEN {s.n.rs[i] : i \in DOMAIN s.n.rs} ELSE {})
              \cup (IF s.p.kind = "list" THEN {s.p.rs[i] : i \in DOMAIN s.p.rs} ELSE {})
ViaNotary(s) == s.mode = "duppersp" \/ (s.mode = "dupring" /\ s.via = "persp")
DupOnlySigned == (phase = "done" /\ sc.mode \in {"dupdirect", "duppersp", "dupring"}) =>
    \A i \in DOMAIN out.alts : OnlyWhatIsSigned(out.alts[i].tab, "s1", sc.now, RespsOf(sc), ViaNotary(sc))
DupCheckOnlySigned == (phase = "done" /\ sc.mode = "dupcheck") =>
    \A i \in DOMAIN out.alts :
        /\ out.alts[i].keys \in {{}, CheckedKeys(sc.expected, sc.now, Reading(sc.r))}
        /\ out.alts[i].checks.all => Accepts(sc.expected, sc.now, Reading(sc.r))
\* consequences: the notary never signed anything of the relay's, so the relay's key never comes out of a
\* notary's answer; directly, only a response that lists it as a current key in its last copy and carries
\* its signature yields it (that is a self-signed response of the relay's own: nothing a direct fetch can
\* tell from the server's); a message verifies only with a key that was handed out
DupSane == (phase = "done" /\ sc.mode \in DupModes) =>
    \A i \in DOMAIN out.alts :
        LET a == out.alts[i] IN
        /\ (\E kn \in DOMAIN a.tab : a.tab[kn].key = "X") =>
                (~ViaNotary(sc) /\ \E r \in RespsOf(sc) : r.dup = Dp("verify_keys", "after", "evil"))
        /\ (a.res = "ok" => KN("s1", sc.q.kid) \in DOMAIN a.tab)
        /\ (a.pol # "lastwins" /\ sc.mode # "dupcheck" =>
                \A kn \in DOMAIN a.tab : \E r \in RespsOf(sc) : r.dup.m = "none" /\ kn \in DOMAIN Named(r.name, KeysOf(r)))
\* the scenarios tell the one reading from a decoder that unites the copies (checked once, at start-up)
DupTeeth ==
    /\ \E x \in DupResps("s1", {24}, {"good"}) :
            ViaNotaryOK(0, Merged(x)) /\ ViaNotaryOK(0, Reading(x)) /\ KeysOf(Merged(x)) # KeysOf(Reading(x))
    /\ \E x \in DupResps("s1", {24}, {"none"}) :
            Accepts("s1", 0, Merged(x)) /\ Accepts("s1", 0, Reading(x)) /\ KeysOf(Merged(x)) # KeysOf(Reading(x))
ASSUME "dup" \notin Modes \/ DupTeeth

EmitAlts == [i \in DOMAIN out.alts |->
                [pol |-> out.alts[i].pol, tab |-> out.alts[i].tab, calls |-> out.alts[i].calls,
                 all |-> out.alts[i].checks.all, keys |-> out.alts[i].keys, res |-> out.alts[i].res]]
Emit == phase = "done" =>
    PrintT(ToJson(
        CASE sc.mode = "dupcheck" -> [mode |-> sc.mode, expected |-> sc.expected, now |-> sc.now, r |-> sc.r,
                                      checks |-> out.alts[1].checks, alts |-> EmitAlts]
          [] sc.mode = "dupdirect" -> [mode |-> sc.mode, d |-> sc.d, n |-> sc.n, alts |-> EmitAlts]
          [] sc.mode = "duppersp" -> [mode |-> sc.mode, p |-> sc.p, alts |-> EmitAlts]
          [] sc.mode = "dupring" -> [mode |-> sc.mode, via |-> sc.via, d |-> sc.d, p |-> sc.p, q |-> sc.q, alts |-> EmitAlts]
          [] sc.mode = "check"  -> [mode |-> "check", expected |-> sc.expected, now |-> sc.now, r |-> sc.r,
                                    checks |-> out.checks, keys |-> out.keys]
          [] sc.mode = "pubkey" -> [mode |-> "pubkey", r |-> sc.r, kid |-> sc.kid, ts |-> sc.ts, key |-> out.key]
          [] sc.mode = "direct" -> [mode |-> "direct", d |-> sc.d, n |-> sc.n, srv2 |-> sc.srv2, local |-> sc.local,
                                    tab |-> out.tab, calls |-> out.calls]
          [] OTHER              -> [mode |-> "persp", p |-> sc.p, tab |-> out.tab]))
=============================================================================
