------------------------- MODULE Tokens_class_gen -------------------------
(* The user-ID alphabet family of Tokens_gen (SpecClass) with the sanity of its tables checked once, as an          *)
(* assumption (a constant-level invariant would be re-evaluated in every state).                                    *)
EXTENDS Tokens_gen

\* sanity of the family: every class occurs, the neighbourhood never contains the ID itself and always the unmarked one
ASSUME ClassSane ==
    /\ \A c \in Classes : \E f \in Frames, p \in Positions : WellPlaced(f, c, p)
    /\ \A u \in ClassUsers : u \notin Neighbours(u) /\ Neighbours(u) \subseteq ClassUsers
    /\ \A u \in ClassUsers : LET plain == ClassUser(PartsOf[u][1], "none", "mid") IN u # plain => plain \in Neighbours(u)
    /\ \A u \in ClassUsers : ClassUser(PartsOf[u][1], PartsOf[u][2], PartsOf[u][3]) = u
=============================================================================
