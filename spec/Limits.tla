------------------------------- MODULE Limits -------------------------------
(***************************************************************************)
(* C17 (second sentence) - event size and field-length limits.             *)
(*                                                                         *)
(*   "Events are refused on receipt and on build when their JSON exceeds   *)
(*    65 536 bytes or their type, state key, sender or room ID exceeds     *)
(*    255 code points, and are reported as too large but persistable when  *)
(*    only the 255-byte limit is exceeded."                                *)
(*                                                                         *)
(* A scenario fixes, for each limited field, a shape (code points, how     *)
(* many of them are multi-byte, their width) and the size of the event     *)
(* JSON; one action per public operation (Receive = NewEventFromUntrusted- *)
(* JSON, Build = EventBuilder.Build, CheckFields) writes the judgement.    *)
(* The rule is the same on every path and in every room version.           *)
(*                                                                         *)
(* On receipt the content hash of the event may or may not match           *)
(* (dimension `hash`).  A mismatch only means that the event which         *)
(* survives is the redacted form; the sentence makes no exception for it,  *)
(* so the judgement is the same, evaluated on what survives redaction:     *)
(* type, state key, sender and room ID are kept by every redaction         *)
(* algorithm, and the size scenarios grow the event through auth_events,   *)
(* which is kept as well.  "mismatch": redaction changes the JSON (the     *)
(* receiver re-parses the redacted form); "mismatch_same": the hash is     *)
(* wrong but redaction leaves the JSON as it is.  Because the received     *)
(* JSON of a "mismatch" event is larger than the surviving one, its size   *)
(* scenarios keep both on the same side of the limit (sizeof says which    *)
(* of the two has exactly `size` bytes): received <= 65 536 implies        *)
(* surviving <= 65 536, surviving > 65 536 implies received > 65 536.      *)
(***************************************************************************)
EXTENDS MatrixBase

CONSTANTS Versions, Family      \* "single" | "core" | "pair" | "create"

MaxFieldLen == 255
MaxEventLen == 65536

Fields == {"type", "state_key", "sender", "room_id"}
Paths == {"receipt", "build", "checkfields"}
Hashes == {"match", "mismatch", "mismatch_same"}
HashesOf(p) == IF p = "receipt" THEN Hashes ELSE {"match"}
\* which JSON of the scenario has exactly `size` bytes
SizeOf(h, sz) == IF sz = 0 THEN "n/a" ELSE IF h # "mismatch" THEN "both" ELSE IF sz > MaxEventLen THEN "surviving" ELSE "received"

\* sender and room ID are spelled  sigil filler ":hs1"  (5 ASCII characters around the filler);
\* type and state key are pure filler
Frame(f) == IF f \in {"sender", "room_id"} THEN 5 ELSE 0

\* a shape: cps code points in total, nwide of the filler characters are `width` bytes wide.
\* cps = 0 is the natural short value of the field.
Natural == [cps |-> 0, nwide |-> 0, width |-> 1]
CpsOf(sh) == sh.cps
BytesOf(sh) == sh.cps + sh.nwide * (sh.width - 1)

\* shapes at, just below and just above both limits
Shapes(f) ==
    LET fr == Frame(f) IN
       {[cps |-> c, nwide |-> 0, width |-> 1] : c \in {254, 255, 256}}
    \* one wide character: the code-point boundary and the byte boundary (cps + width - 1 around 255)
    \cup {[cps |-> c, nwide |-> 1, width |-> 2] : c \in {253, 254, 255, 256}}
    \cup {[cps |-> c, nwide |-> 1, width |-> 4] : c \in {251, 252, 253, 254, 255, 256}}
    \* every filler character wide: the code-point boundary (bytes far above) and the byte boundary (few code points)
    \cup UNION {{[cps |-> c, nwide |-> c - fr, width |-> w] :
                   c \in {254, 255, 256} \cup {fr + (MaxFieldLen - fr) \div w, fr + (MaxFieldLen - fr) \div w + 1}} : w \in {2, 4}}

SoftOnly == [cps |-> 200, nwide |-> 100, width |-> 2]      \* 300 bytes, 200 code points
HardCps  == [cps |-> 256, nwide |-> 0, width |-> 1]

VARIABLES sc, phase, out
vars == <<sc, phase, out>>

AllNatural == [f \in Fields |-> Natural]

\* scenario families (version and path are added by Init)
Singles == UNION {{[size |-> 0, fields |-> [AllNatural EXCEPT ![f] = sh]] : sh \in Shapes(f)} : f \in Fields}
Sizes   == {[size |-> sz, fields |-> AllNatural] : sz \in {65535, 65536, 65537}}
\* two limits at once.  An excess is (field, kind): kind "soft" = over the byte limit only, "hard" = over the
\* code-point limit (ASCII, or multi-byte so that the bytes are far above as well); the event size is a sixth
\* "field" that can only be exceeded hard.  Every pair of excesses on two different fields:
\*   soft + hard -> refused (the hard one decides, whichever field is examined first),
\*   hard + hard -> refused,   soft + soft -> persistable.
HardWide == [cps |-> 256, nwide |-> 200, width |-> 2]       \* 456 bytes, 256 code points
FieldPairs == {q \in Fields \X Fields : q[1] # q[2]}
PairsSoftHard == {[size |-> 0, fields |-> [AllNatural EXCEPT ![q[1]] = SoftOnly, ![q[2]] = h]] : q \in FieldPairs, h \in {HardCps, HardWide}}
                 \cup {[size |-> 65537, fields |-> [AllNatural EXCEPT ![f] = SoftOnly]] : f \in Fields}
PairsHardHard == {[size |-> 0, fields |-> [AllNatural EXCEPT ![q[1]] = HardCps, ![q[2]] = HardCps]] : q \in FieldPairs}
                 \cup {[size |-> 65537, fields |-> [AllNatural EXCEPT ![f] = HardCps]] : f \in Fields}
PairsSoftSoft == {[size |-> 0, fields |-> [AllNatural EXCEPT ![q[1]] = SoftOnly, ![q[2]] = SoftOnly]] : q \in FieldPairs}
                 \cup {[size |-> 65536, fields |-> [AllNatural EXCEPT ![f] = SoftOnly]] : f \in Fields}
Pairs == PairsSoftHard \cup PairsHardHard \cup PairsSoftSoft
\* the core of the single-field family (run for every registered version already in the quick tier: the
\* lenient byte limit is granted per version): at and one over the code-point limit in ASCII, and the two
\* all-multi-byte shapes around the byte limit
CoreShapes(f) == LET fr == Frame(f)  k == (MaxFieldLen - fr) \div 2 IN
                 {[cps |-> c, nwide |-> 0, width |-> 1] : c \in {255, 256}}
                 \cup {[cps |-> fr + k + d, nwide |-> k + d, width |-> 2] : d \in {0, 1}}
CoreSingles == UNION {{[size |-> 0, fields |-> [AllNatural EXCEPT ![f] = sh]] : sh \in CoreShapes(f)} : f \in Fields}
\* room versions with domainless room IDs tolerate a create event that still carries a room_id member (the
\* room ID proper is derived from the event ID); the member is a room ID of the event like any other, so the
\* sentence applies to it.  EventBuilder refuses to build such an event: receipt and CheckFields only.
CreateWithRoomID == {[size |-> 0, fields |-> [AllNatural EXCEPT !["room_id"] = sh]] : sh \in Shapes("room_id")}
Scenarios == CASE Family = "single" -> Singles \cup Sizes
               [] Family = "create" -> CreateWithRoomID
               [] Family = "core" -> CoreSingles \cup Sizes
               [] Family = "pair" -> Pairs

Init == /\ phase = "scenario" /\ out = "none"
        /\ \E v \in Versions, p \in Paths, s0 \in Scenarios : \E h \in HashesOf(p) :
             /\ (Family = "create" => DomainlessRoomIDs(v) /\ p # "build")
             /\ sc = [ver |-> v, path |-> p, hash |-> h, size |-> s0.size, sizeof |-> SizeOf(h, s0.size), fields |-> s0.fields,
                      create |-> Family = "create"]

\* --- the rule ----------------------------------------------------------------
Hard(s) == s.size > MaxEventLen \/ \E f \in Fields : CpsOf(s.fields[f]) > MaxFieldLen
Soft(s) == \E f \in Fields : BytesOf(s.fields[f]) > MaxFieldLen
Judgement(s) == IF Hard(s) THEN "refused" ELSE IF Soft(s) THEN "persistable" ELSE "ok"

Receive     == phase = "scenario" /\ sc.path = "receipt"     /\ out' = Judgement(sc) /\ phase' = "done" /\ UNCHANGED sc
Build       == phase = "scenario" /\ sc.path = "build"       /\ out' = Judgement(sc) /\ phase' = "done" /\ UNCHANGED sc
CheckFields == phase = "scenario" /\ sc.path = "checkfields" /\ out' = Judgement(sc) /\ phase' = "done" /\ UNCHANGED sc

Next == Receive \/ Build \/ CheckFields
Spec == Init /\ [][Next]_vars

\* --- the property sentence, clause by clause -----------------------------------
Done == phase = "done"
RefusedWhenOver == Done => ((sc.size > 65536 \/ \E f \in Fields : sc.fields[f].cps > 255) <=> out = "refused")
PersistableOnlyBytes == Done => (out = "persistable" <=>
                                   /\ sc.size <= 65536 /\ \A f \in Fields : sc.fields[f].cps <= 255
                                   /\ \E f \in Fields : BytesOf(sc.fields[f]) > 255)
\* a mismatching content hash changes nothing
HashIndependent == Done => out = Judgement([sc EXCEPT !.hash = "match", !.sizeof = "both"])
OkWithin == Done => (out = "ok" <=> sc.size <= 65536 /\ \A f \in Fields : BytesOf(sc.fields[f]) <= 255)
ShapesWellFormed == \A f \in Fields : LET sh == sc.fields[f] IN
                       sh = Natural \/ (/\ BytesOf(sh) >= CpsOf(sh) /\ sh.nwide >= 0 /\ sh.nwide <= sh.cps - Frame(f)
                                        /\ (sh.width = 1 <=> sh.nwide = 0))
=============================================================================
