------------------------------- MODULE Limits -------------------------------
(***************************************************************************)
(* C17 (second sentence) - event size and field-length limits.             *)
(*                                                                         *)
(*   "Events are refused on receipt and on build when their JSON exceeds   *)
(*    65 536 bytes or their type, state key, sender or room ID exceeds     *)
(*    255 code points, and are reported as too large but persistable when  *)
(*    only the 255-byte limit is exceeded."                                *)
(*                                                                         *)
(* A scenario fixes, for each limited field, a shape (code points, how     *)
(* many of them are multi-byte, their width) and the size of the event     *)
(* JSON; one action per public operation (Receive = NewEventFromUntrusted- *)
(* JSON, Build = EventBuilder.Build, CheckFields) writes the judgement.    *)
(* The rule is the same on every path and in every room version.           *)
(*                                                                         *)
(* On receipt the content hash of the event may or may not match           *)
(* (dimension `hash`).  A mismatch only means that the event which         *)
(* survives is the redacted form; the sentence makes no exception for it,  *)
(* so the judgement is the same, evaluated on what survives redaction:     *)
(* type, state key, sender and room ID are kept by every redaction         *)
(* algorithm, and the size scenarios grow the event through auth_events,   *)
(* which is kept as well.  "mismatch": redaction changes the JSON (the     *)
(* receiver re-parses the redacted form); "mismatch_same": the hash is     *)
(* wrong but redaction leaves the JSON as it is.  Because the received     *)
(* JSON of a "mismatch" event is larger than the surviving one, its size   *)
(* scenarios keep both on the same side of the limit (sizeof says which    *)
(* of the two has exactly `size` bytes): received <= 65 536 implies        *)
(* surviving <= 65 536, surviving > 65 536 implies received > 65 536.      *)
(*                                                                         *)
(* WHERE the bytes are (family "place").  "their JSON" is the whole JSON   *)
(* of the event, so on build and in CheckFields the judgement depends on   *)
(* the total only, wherever its bulk sits: in content, in unsigned, split  *)
(* between the two (each part far below the limit), in type / state key    *)
(* at their own limits plus content, in prev_events, in auth_events, in    *)
(* the signatures of many servers.  `size` is the total, `proper` the      *)
(* bytes of the same JSON without its "unsigned" member.                   *)
(* On receipt the receiver drops "unsigned" (data local to the sending     *)
(* server, with age_ts / outlier / destinations) before there is an event: *)
(* the event it keeps, judges and hands on has `proper` bytes, and that is *)
(* the JSON the model judges on receipt (the size scenarios without        *)
(* unsigned have always meant this: proper = size).  Where the dropped     *)
(* member alone carries the received bytes over the limit (proper <=       *)
(* 65 536 < size) the sentence can also be read literally (the JSON that   *)
(* arrived is too long): `alt` admits "refused" there next to the          *)
(* judgement of the kept event, and nowhere else.                          *)
(* An event also comes to CheckFields after SetUnsigned (the unsigned      *)
(* bytes are added to an event of `proper` bytes) and after Sign by        *)
(* further servers (vias "setunsigned", "sign"): CheckFields judges the    *)
(* event before (`pre`) and after the step.                                *)
(*                                                                         *)
(* WHAT IS HANDED ON (history variable `ret`).  "Reported as too large but *)
(* persistable" is a report about an event the caller is meant to keep:    *)
(* the receipt constructor and EventBuilder.Build return the event WITH    *)
(* the error, and a list of received events (EventJSONs.UntrustedEvents)   *)
(* keeps it.  So besides the judgement every operation that makes an event *)
(* answers two more questions: is there an event in the caller's hands     *)
(* (`pdu`), and does the list operation keep it (`kept`, receipt only).    *)
(* accepted / persistable -> the event, kept; refused -> dropped from the  *)
(* list (whether the constructor also returns something next to a          *)
(* non-persistable error is not judged).  One clause is contested and not  *)
(* judged: a room ID over the byte limit only is found before there is an  *)
(* event (the constructors examine it first), so nothing may come back.    *)
(* The rule is the same in every room version, for every limited field and *)
(* whether or not the content hash matches.                                *)
(* Family "batch2" / "batch3": a LIST of received events (ok, over the     *)
(* byte limit only, over the code-point limit, not an event at all) goes   *)
(* through the list operation item by item; what comes back is exactly the *)
(* sub-list of the accepted and the persistable ones, in order.            *)
(***************************************************************************)
EXTENDS MatrixBase

CONSTANTS Versions, Family      \* "single" | "core" | "pair" | "create" | "place" | "batch2" | "batch3"

MaxFieldLen == 255
MaxEventLen == 65536

Fields == {"type", "state_key", "sender", "room_id"}
Paths == {"receipt", "build", "checkfields"}
Hashes == {"match", "mismatch", "mismatch_same"}
HashesOf(p) == IF p = "receipt" THEN Hashes ELSE {"match"}
\* which JSON of the scenario has exactly `size` bytes
SizeOf(h, sz) == IF sz = 0 THEN "n/a" ELSE IF h # "mismatch" THEN "both" ELSE IF sz > MaxEventLen THEN "surviving" ELSE "received"

\* sender and room ID are spelled  sigil filler ":hs1"  (5 ASCII characters around the filler);
\* type and state key are pure filler
Frame(f) == IF f \in {"sender", "room_id"} THEN 5 ELSE 0

\* a shape: cps code points in total, nwide of the filler characters are `width` bytes wide.
\* cps = 0 is the natural short value of the field.
Natural == [cps |-> 0, nwide |-> 0, width |-> 1]
CpsOf(sh) == sh.cps
BytesOf(sh) == sh.cps + sh.nwide * (sh.width - 1)

\* shapes at, just below and just above both limits
Shapes(f) ==
    LET fr == Frame(f) IN
       {[cps |-> c, nwide |-> 0, width |-> 1] : c \in {254, 255, 256}}
    \* one wide character: the code-point boundary and the byte boundary (cps + width - 1 around 255)
    \cup {[cps |-> c, nwide |-> 1, width |-> 2] : c \in {253, 254, 255, 256}}
    \cup {[cps |-> c, nwide |-> 1, width |-> 4] : c \in {251, 252, 253, 254, 255, 256}}
    \* every filler character wide: the code-point boundary (bytes far above) and the byte boundary (few code points)
    \cup UNION {{[cps |-> c, nwide |-> c - fr, width |-> w] :
                   c \in {254, 255, 256} \cup {fr + (MaxFieldLen - fr) \div w, fr + (MaxFieldLen - fr) \div w + 1}} : w \in {2, 4}}

SoftOnly == [cps |-> 200, nwide |-> 100, width |-> 2]      \* 300 bytes, 200 code points
HardCps  == [cps |-> 256, nwide |-> 0, width |-> 1]

\* ev: byte accounting of the PDU in hand (total / without unsigned); pre: what CheckFields said of the PDU
\* before SetUnsigned / Sign ("none" when the scenario has no such step)
\* ret: what the operation hands on besides the judgement (pdu: is there an event in the caller's hands; kept:
\* does the list operation keep it); todo / keptidx: the list operation at work (family "batch*")
VARIABLES sc, phase, out, ev, pre, ret, todo, keptidx
vars == <<sc, phase, out, ev, pre, ret, todo, keptidx>>

AllNatural == [f \in Fields |-> Natural]

\* scenario families (version and path are added by Init)
Singles == UNION {{[size |-> 0, fields |-> [AllNatural EXCEPT ![f] = sh]] : sh \in Shapes(f)} : f \in Fields}
Sizes   == {[size |-> sz, fields |-> AllNatural] : sz \in {65535, 65536, 65537}}
\* two limits at once.  An excess is (field, kind): kind "soft" = over the byte limit only, "hard" = over the
\* code-point limit (ASCII, or multi-byte so that the bytes are far above as well); the event size is a sixth
\* "field" that can only be exceeded hard.  Every pair of excesses on two different fields:
\*   soft + hard -> refused (the hard one decides, whichever field is examined first),
\*   hard + hard -> refused,   soft + soft -> persistable.
HardWide == [cps |-> 256, nwide |-> 200, width |-> 2]       \* 456 bytes, 256 code points
FieldPairs == {q \in Fields \X Fields : q[1] # q[2]}
PairsSoftHard == {[size |-> 0, fields |-> [AllNatural EXCEPT ![q[1]] = SoftOnly, ![q[2]] = h]] : q \in FieldPairs, h \in {HardCps, HardWide}}
                 \cup {[size |-> 65537, fields |-> [AllNatural EXCEPT ![f] = SoftOnly]] : f \in Fields}
PairsHardHard == {[size |-> 0, fields |-> [AllNatural EXCEPT ![q[1]] = HardCps, ![q[2]] = HardCps]] : q \in FieldPairs}
                 \cup {[size |-> 65537, fields |-> [AllNatural EXCEPT ![f] = HardCps]] : f \in Fields}
PairsSoftSoft == {[size |-> 0, fields |-> [AllNatural EXCEPT ![q[1]] = SoftOnly, ![q[2]] = SoftOnly]] : q \in FieldPairs}
                 \cup {[size |-> 65536, fields |-> [AllNatural EXCEPT ![f] = SoftOnly]] : f \in Fields}
Pairs == PairsSoftHard \cup PairsHardHard \cup PairsSoftSoft
\* the core of the single-field family (run for every registered version already in the quick tier: the
\* lenient byte limit is granted per version): at and one over the code-point limit in ASCII, and the two
\* all-multi-byte shapes around the byte limit
CoreShapes(f) == LET fr == Frame(f)  k == (MaxFieldLen - fr) \div 2 IN
                 {[cps |-> c, nwide |-> 0, width |-> 1] : c \in {255, 256}}
                 \cup {[cps |-> fr + k + d, nwide |-> k + d, width |-> 2] : d \in {0, 1}}
CoreSingles == UNION {{[size |-> 0, fields |-> [AllNatural EXCEPT ![f] = sh]] : sh \in CoreShapes(f)} : f \in Fields}
\* room versions with domainless room IDs tolerate a create event that still carries a room_id member (the
\* room ID proper is derived from the event ID); the member is a room ID of the event like any other, so the
\* sentence applies to it.  EventBuilder refuses to build such an event: receipt and CheckFields only.
CreateWithRoomID == {[size |-> 0, fields |-> [AllNatural EXCEPT !["room_id"] = sh]] : sh \in Shapes("room_id")}
Scenarios == CASE Family = "single" -> Singles \cup Sizes
               [] Family = "create" -> CreateWithRoomID
               [] Family = "core" -> CoreSingles \cup Sizes
               [] Family = "pair" -> Pairs
               [] OTHER -> {}

\* --- a list of received events ---------------------------------------------------
\* an item: an event within the limits, one over the byte limit only / over the code-point limit in one field, or
\* something that is not an event at all.  (A room ID over the byte limit only is the contested clause: left out.)
IsBatch == Family \in {"batch2", "batch3"}
BatchLen == IF Family = "batch3" THEN 3 ELSE 2
Item(k, f) == [kind |-> k, field |-> f,
               fields |-> CASE k = "soft" -> [AllNatural EXCEPT ![f] = SoftOnly]
                            [] k = "hard" -> [AllNatural EXCEPT ![f] = HardCps]
                            [] OTHER -> AllNatural]
Items == {Item("ok", "none"), Item("junk", "none")}
         \cup {Item("soft", f) : f \in Fields \ {"room_id"}} \cup {Item("hard", f) : f \in Fields}
Batches == UNION {[1..k -> Items] : k \in 1..BatchLen}

\* --- where the bytes are ---------------------------------------------------------
Places == {"content", "unsigned", "split", "mixed", "fields", "prev_events", "auth_events", "signatures"}
UnsignedPlaces == {"unsigned", "split", "mixed"}
Around == {65535, 65536, 65537}
AtLimit == [cps |-> 255, nwide |-> 0, width |-> 1]
SmallEvent == 2000      \* "unsigned": an event of 2000 bytes, everything else in unsigned
Half == 32768           \* "split": half of the limit in unsigned, the rest in the event proper
Few == 40               \* "mixed": 40 bytes of unsigned next to a large content
SignBase == 4000        \* "sign": an event of 4000 bytes to which further servers add their signatures
PlacedAt(pl) ==
    CASE pl = "unsigned" -> {[size |-> sz, proper |-> SmallEvent] : sz \in Around}
      [] pl = "split"    -> {[size |-> sz, proper |-> sz - Half] : sz \in Around}
                            \cup {[size |-> 80000, proper |-> 40000]}        \* both parts far below, the sum far above
      \* the boundary of the total and the boundary of the event proper
      [] pl = "mixed"    -> {[size |-> sz, proper |-> sz - Few] : sz \in Around} \cup {[size |-> sz + Few, proper |-> sz] : sz \in Around}
      [] OTHER           -> {[size |-> sz, proper |-> sz] : sz \in Around}
Placed == UNION {{[size |-> q.size, proper |-> q.proper, place |-> pl,
                   fields |-> IF pl = "fields" THEN [AllNatural EXCEPT !["type"] = AtLimit, !["state_key"] = AtLimit] ELSE AllNatural]
                  : q \in PlacedAt(pl)} : pl \in Places}
\* EventBuilder.Build signs once: the signatures of many servers reach an event by Sign or arrive with it
Realisable(p, pl) == ~(p = "build" /\ pl = "signatures")
ViasOf(p, pl) == CASE p = "receipt" -> {"wire"}
                   [] p = "build" -> {"builder"}
                   [] p = "checkfields" -> {"trusted", "headered"} \cup (IF pl \in UnsignedPlaces THEN {"setunsigned"} ELSE {})
                                                                 \cup (IF pl = "signatures" THEN {"sign"} ELSE {})
DefaultVia(p) == CHOOSE w \in ViasOf(p, "content") : w # "headered"
Derived == {"setunsigned", "sign"}
\* bytes of the PDU before the SetUnsigned / Sign step
BaseBytes(w, size, proper) == IF w = "setunsigned" THEN proper ELSE IF w = "sign" THEN SignBase ELSE size

InitClassic == \E v \in Versions, p \in Paths, s0 \in Scenarios : \E h \in HashesOf(p) :
             /\ (Family = "create" => DomainlessRoomIDs(v) /\ p # "build")
             /\ sc = [ver |-> v, path |-> p, hash |-> h, size |-> s0.size, sizeof |-> SizeOf(h, s0.size), fields |-> s0.fields,
                      create |-> Family = "create", place |-> IF s0.size = 0 THEN "n/a" ELSE "content", proper |-> s0.size,
                      via |-> DefaultVia(p), base |-> s0.size, batch |-> <<>>]
\* a mismatching content hash on receipt: the classic size scenarios grow the event through auth_events, which
\* redaction keeps; prev_events is the other list that it keeps
PlaceHashes(p, pl) == IF pl = "prev_events" THEN HashesOf(p) ELSE {"match"}
InitPlace == \E v \in Versions, p \in Paths, s0 \in Placed : \E w \in ViasOf(p, s0.place), h \in PlaceHashes(p, s0.place) :
             /\ Realisable(p, s0.place)
             /\ sc = [ver |-> v, path |-> p, hash |-> h, size |-> s0.size, sizeof |-> SizeOf(h, s0.size), fields |-> s0.fields,
                      create |-> FALSE, place |-> s0.place, proper |-> s0.proper,
                      via |-> w, base |-> BaseBytes(w, s0.size, s0.proper), batch |-> <<>>]
InitBatch == \E v \in Versions, b \in Batches :
             sc = [ver |-> v, path |-> "receipt", hash |-> "match", size |-> 0, sizeof |-> "n/a", fields |-> AllNatural,
                   create |-> FALSE, place |-> "n/a", proper |-> 0, via |-> "list", base |-> 0, batch |-> b]
NoRet == [pdu |-> "n/a", kept |-> "n/a"]
Init == /\ phase = "scenario" /\ out = "none" /\ pre = "none" /\ ret = NoRet /\ todo = 1 /\ keptidx = <<>>
        /\ IF Family = "place" THEN InitPlace ELSE IF IsBatch THEN InitBatch ELSE InitClassic
        /\ ev = IF sc.via \in Derived THEN [size |-> sc.base, proper |-> IF sc.via = "sign" THEN sc.base ELSE sc.proper]
                ELSE [size |-> sc.size, proper |-> sc.proper]

\* --- the rule ----------------------------------------------------------------
\* the JSON that is judged: the whole event; on receipt the event that is kept (no unsigned)
Measured(s) == IF s.path = "receipt" THEN s.proper ELSE s.size
Hard(s) == Measured(s) > MaxEventLen \/ \E f \in Fields : CpsOf(s.fields[f]) > MaxFieldLen
Soft(s) == \E f \in Fields : BytesOf(s.fields[f]) > MaxFieldLen
Judgement(s) == IF Hard(s) THEN "refused" ELSE IF Soft(s) THEN "persistable" ELSE "ok"
\* receipt of a JSON that is over the limit only with the member the receiver drops
Straddle(s) == s.path = "receipt" /\ s.proper <= MaxEventLen /\ s.size > MaxEventLen
Alt(s) == IF Straddle(s) THEN "refused" ELSE Judgement(s)
Judge(e) == Judgement([sc EXCEPT !.size = e.size, !.proper = e.proper])

\* what is handed on with judgement j: the event with "ok" and with "persistable" (that is what persistable is
\* for), and the list operation keeps exactly these; CheckFields hands nothing on (it judges an event the caller
\* holds).  Not judged ("free"): a room ID over the byte limit only (found before there is an event), and what
\* the constructors return next to a non-persistable error.
RoomSoft(s) == BytesOf(s.fields["room_id"]) > MaxFieldLen
Handed(s, j) ==
    LET k(x) == IF s.path = "receipt" THEN x ELSE "n/a" IN
    CASE s.path = "checkfields" -> NoRet
      [] j = "ok"          -> [pdu |-> "event", kept |-> k("yes")]
      [] j = "persistable" -> IF RoomSoft(s) THEN [pdu |-> "free", kept |-> k("free")] ELSE [pdu |-> "event", kept |-> k("yes")]
      [] OTHER             -> [pdu |-> "free", kept |-> k("no")]

Receive     == /\ phase = "scenario" /\ sc.path = "receipt" /\ ~IsBatch
               /\ out' = Judge(ev) /\ ret' = Handed(sc, Judge(ev)) /\ phase' = "done" /\ UNCHANGED <<sc, ev, pre, todo, keptidx>>
Build       == /\ phase = "scenario" /\ sc.path = "build"
               /\ out' = Judge(ev) /\ ret' = Handed(sc, Judge(ev)) /\ phase' = "done" /\ UNCHANGED <<sc, ev, pre, todo, keptidx>>
CheckFields == /\ sc.path = "checkfields"
               /\ \/ /\ phase = "scenario" /\ sc.via \in Derived
                     /\ pre' = Judge(ev) /\ phase' = "base" /\ UNCHANGED <<sc, ev, out, ret, todo, keptidx>>
                  \/ /\ (phase = "scenario" /\ sc.via \notin Derived) \/ phase = "derived"
                     /\ out' = Judge(ev) /\ phase' = "done" /\ UNCHANGED <<sc, ev, pre, ret, todo, keptidx>>
\* the list operation: every item is received on its own; the accepted and the persistable ones are kept, in order
ItemJudgement(it) == IF it.kind = "junk" THEN "notanevent"
                     ELSE Judgement([path |-> "receipt", size |-> 0, proper |-> 0, fields |-> it.fields])
ItemKept(it) == LET j == ItemJudgement(it) IN
                j # "notanevent" /\ Handed([path |-> "receipt", fields |-> it.fields], j).kept = "yes"
ReceiveItem == /\ phase = "scenario" /\ IsBatch /\ todo <= Len(sc.batch)
               /\ keptidx' = IF ItemKept(sc.batch[todo]) THEN Append(keptidx, todo) ELSE keptidx
               /\ todo' = todo + 1
               /\ UNCHANGED <<sc, phase, out, ev, pre, ret>>
ListDone    == /\ phase = "scenario" /\ IsBatch /\ todo > Len(sc.batch)
               /\ out' = "list" /\ phase' = "done" /\ UNCHANGED <<sc, ev, pre, ret, todo, keptidx>>
\* SetUnsigned returns a copy of the event that carries the unsigned member; Sign one with one more signature
SetUnsigned == /\ phase = "base" /\ sc.via = "setunsigned"
               /\ ev' = [size |-> ev.proper + (sc.size - sc.proper), proper |-> ev.proper]
               /\ phase' = "derived" /\ UNCHANGED <<sc, out, pre, ret, todo, keptidx>>
Sign        == /\ phase = "base" /\ sc.via = "sign"
               /\ ev' = [size |-> ev.size + (sc.size - sc.base), proper |-> ev.proper + (sc.size - sc.base)]
               /\ phase' = "derived" /\ UNCHANGED <<sc, out, pre, ret, todo, keptidx>>

Next == Receive \/ Build \/ CheckFields \/ SetUnsigned \/ Sign \/ ReceiveItem \/ ListDone
Spec == Init /\ [][Next]_vars

\* --- the property sentence, clause by clause -----------------------------------
Done == phase = "done" /\ ~IsBatch
BatchDone == phase = "done" /\ IsBatch
\* "their JSON": all of it on build and in CheckFields; on receipt the event as kept (received minus "unsigned")
JsonBytes == IF sc.path = "receipt" THEN sc.proper ELSE sc.size
RefusedWhenOver == Done => ((JsonBytes > 65536 \/ \E f \in Fields : sc.fields[f].cps > 255) <=> out = "refused")
PersistableOnlyBytes == Done => (out = "persistable" <=>
                                   /\ JsonBytes <= 65536 /\ \A f \in Fields : sc.fields[f].cps <= 255
                                   /\ \E f \in Fields : BytesOf(sc.fields[f]) > 255)
\* a mismatching content hash changes nothing
HashIndependent == Done => out = Judgement([sc EXCEPT !.hash = "match", !.sizeof = "both"])
OkWithin == Done => (out = "ok" <=> JsonBytes <= 65536 /\ \A f \in Fields : BytesOf(sc.fields[f]) <= 255)
ShapesWellFormed == \A f \in Fields : LET sh == sc.fields[f] IN
                       sh = Natural \/ (/\ BytesOf(sh) >= CpsOf(sh) /\ sh.nwide >= 0 /\ sh.nwide <= sh.cps - Frame(f)
                                        /\ (sh.width = 1 <=> sh.nwide = 0))
\* on build and in CheckFields only the total counts: not where its bytes are, not how the event came to be
PlacementIndependent == Done /\ sc.path # "receipt" =>
                          out = Judgement([sc EXCEPT !.place = "content", !.proper = sc.size, !.via = DefaultVia(sc.path), !.base = sc.size])
\* on receipt the judgement is that of the same event arriving without its unsigned member
ReceiptJudgesKept == Done /\ sc.path = "receipt" => out = Judgement([sc EXCEPT !.size = sc.proper])
\* the second reading is admitted for the straddling receipt only, and is the literal one
AltOnlyStraddle == Done => /\ (Alt(sc) # out => sc.path = "receipt" /\ sc.size > 65536 /\ sc.proper <= 65536 /\ Alt(sc) = "refused")
                           /\ (sc.path = "receipt" /\ sc.size > 65536 => "refused" \in {out, Alt(sc)})
\* byte accounting: unsigned is a part of the JSON; the PDU that is finally judged is the scenario's event;
\* adding bytes to an event never lifts a refusal
Accounting == /\ sc.proper <= sc.size /\ sc.base <= sc.size
              /\ (sc.proper < sc.size => sc.place \in UnsignedPlaces)
              /\ (sc.size = 0 <=> sc.place = "n/a")
              /\ ev.proper <= ev.size /\ ev.size <= sc.size
              /\ (Done => ev = [size |-> sc.size, proper |-> sc.proper])
              /\ (Done => (sc.via \in Derived <=> pre # "none"))
              /\ (sc.via \in Derived => sc.path = "checkfields")
GrowthKeepsRefusal == Done /\ pre = "refused" => out = "refused"
\* "too large but persistable": the event is in the caller's hands and the list operation keeps it (room ID
\* apart); an accepted event likewise; a refused one never survives the list operation
Making == sc.path \in {"receipt", "build"}
PersistableIsHandedOn == Done /\ Making /\ out = "persistable" /\ ~RoomSoft(sc) =>
                           ret.pdu = "event" /\ (sc.path = "receipt" => ret.kept = "yes")
AcceptedIsHandedOn == Done /\ Making /\ out = "ok" => ret.pdu = "event" /\ (sc.path = "receipt" => ret.kept = "yes")
RefusedIsDropped == Done /\ sc.path = "receipt" /\ out = "refused" => ret.kept = "no"
KeptOnReceiptOnly == Done => (ret.kept = "n/a" <=> sc.path # "receipt") /\ (ret.pdu = "n/a" <=> sc.path = "checkfields")
\* the same in every room version, whatever the content hash, wherever the bytes are
HandedUniform == Done => \A v \in Versions, h \in HashesOf(sc.path) :
                           Handed([sc EXCEPT !.ver = v, !.hash = h, !.place = "content"], out) = ret
\* the list operation returns exactly the accepted and the persistable items, in the order received
BatchFilter == BatchDone =>
                 /\ \A i \in 1..Len(sc.batch) :
                       (\E k \in 1..Len(keptidx) : keptidx[k] = i) <=> ItemJudgement(sc.batch[i]) \in {"ok", "persistable"}
                 /\ \A k \in 1..(Len(keptidx) - 1) : keptidx[k] < keptidx[k + 1]
                 /\ todo = Len(sc.batch) + 1
BatchItemsJudged == IsBatch => \A i \in 1..Len(sc.batch) :
                      LET it == sc.batch[i] IN
                      ItemJudgement(it) = CASE it.kind = "ok" -> "ok" [] it.kind = "soft" -> "persistable"
                                            [] it.kind = "hard" -> "refused" [] OTHER -> "notanevent"
=============================================================================
