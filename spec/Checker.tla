------------------------------ MODULE Checker ------------------------------
(***************************************************************************)
(* C09 - the reusable auth checker (allowerContext) as state resolution    *)
(* drives it: one checker, one provider that is cleared and refilled       *)
(* before every check, then update(), then allowed().                      *)
(*                                                                         *)
(* The checker caches the parsed create / power-levels / join-rules        *)
(* contents keyed by the identity of the event they were parsed from.      *)
(* Design: Load refreshes a cached component whenever the provider's event *)
(* identity differs from the cached one and drops it when the provider has *)
(* none; Check reads those three components from the cache and never       *)
(* writes the cache.  The property (Coherent): every verdict equals        *)
(* Auth!Allowed on the state loaded for that check - the cache is          *)
(* unobservable, so the verdict is a function of the event and the state   *)
(* it needs, whatever was checked before.                                  *)
(*                                                                         *)
(* Identity is the identity of the event OBJECT, which is finer than the   *)
(* event ID: two different objects can carry one event ID - an event and   *)
(* its redacted copy (the event ID is computed over the redacted form in   *)
(* room versions 3+, and is a kept top-level key in versions 1-2), or two  *)
(* events whose sender picked the same ID (versions 1-2; a trusted load    *)
(* under a given ID in any version).  A step therefore names, per cached   *)
(* kind, the event ID (tag), whether the provider holds the redacted copy, *)
(* and the content; the relations between two steps are                    *)
(*   same ID, same object            | new ID, same content                *)
(*   new ID, new content             | event removed                       *)
(*   same ID, other object, other content (forged / sender-chosen ID)      *)
(*   same ID, redacted copy (content shrinks per the redaction algorithm   *)
(*                           of the room version, or stays the same)       *)
(* CacheKey selects what the modelled cache compares: "object" is the      *)
(* design; with "eventid" TLC refutes Coherent (kept as a sanity check of  *)
(* the pool: it must contain sequences that tell the two apart).           *)
(***************************************************************************)
EXTENDS Auth

CONSTANTS Versions, MaxLen, CacheKey

Rd == INSTANCE Redaction

\* ---- the pool of (state, event) steps; tags give event IDs --------------------------
\* a component with the same tag, same redaction flag and same content in two steps is the *same event object*
Step(st, ev, ct, pt, jt) == [st |-> st, ev |-> ev, ctag |-> ct, ptag |-> pt, jtag |-> jt,
                             cred |-> FALSE, pred |-> FALSE, jred |-> FALSE]
RedC(s) == [s EXCEPT !.cred = TRUE]      \* the provider holds the redacted copy of the create event
RedP(s) == [s EXCEPT !.pred = TRUE]      \* ... of the power-levels event
RedJ(s) == [s EXCEPT !.jred = TRUE]      \* ... of the join-rules event

RoomBase == WithMem(WithMem(BaseSt, "creator", "join"), "carol", "join")
WithJR(s, jr) == [s EXCEPT !.jr = jr]
Msg(u) == [BaseEv EXCEPT !.sender = u]
Topic(u) == [BaseEv EXCEPT !.sender = u, !.type = "topic", !.skey = "empty"]
PLOne(ed, bobLevel) == [EmptyPL EXCEPT !.events_default = ed, !.users = [u \in Users |-> IF u = "bob" THEN bobLevel ELSE Absent]]
\* a power-levels content whose `invite` and `notifications` matter: bob (level 50) may send power-levels events
\* but neither invite nor touch the room notification level
PLRich == [EmptyPL EXCEPT !.invite = 4, !.notif = [k \in NKeys |-> IF k = "room" THEN 4 ELSE Absent],
                          !.users = [u \in Users |-> IF u = "bob" THEN 3 ELSE Absent]]
PLEvBy(u, c) == [BaseEv EXCEPT !.type = "pl", !.sender = u, !.skey = "empty", !.newpl = c]

\* ---- what redaction leaves of the three cached contents (Redaction.tla, per room version) -----
KeptKey(v, t, k) == Rd!KeepAllContent(RedactionAlgo(v), t) \/ k \in Rd!ContentKeep(RedactionAlgo(v), t)

RedactedPL(v, c) ==
    LET keep(k) == KeptKey(v, "m.room.power_levels", k)
        sc(k) == IF keep(k) THEN c[k] ELSE Absent
    IN [c EXCEPT !.ban = sc("ban"), !.kick = sc("kick"), !.invite = sc("invite"), !.redact = sc("redact"),
                 !.events_default = sc("events_default"), !.state_default = sc("state_default"),
                 !.users_default = sc("users_default"),
                 !.users = IF keep("users") THEN @ ELSE [u \in Users |-> Absent],
                 !.events = IF keep("events") THEN @ ELSE [k \in EvKeys |-> Absent],
                 !.notif = IF keep("notifications") THEN @ ELSE [k \in NKeys |-> Absent]]

RedactedCreate(v, c) ==
    [c EXCEPT !.federate = IF KeptKey(v, "m.room.create", "m.federate") THEN @ ELSE "absent",
              !.addl = IF KeptKey(v, "m.room.create", "additional_creators") THEN @ ELSE {}]

RedactedJR(v, jr) == IF jr = "absent" \/ KeptKey(v, "m.room.join_rules", "join_rule") THEN jr ELSE "nokey"

\* the auth state the provider actually holds in a step
Held(v, s) ==
    [s.st EXCEPT !.create = IF s.cred THEN RedactedCreate(v, @) ELSE @,
                 !.pl.c = IF s.pred THEN RedactedPL(v, @) ELSE @,
                 !.jr = IF s.jred THEN RedactedJR(v, @) ELSE @]

Pool(v) ==
  LET fedFalse == [RoomBase EXCEPT !.create.federate = "false",
                                   !.create.room = IF DomainlessRoomIDs(v) THEN "other" ELSE "same"]
      richRoom == WithPL(WithMem(RoomBase, "bob", "join"), PLRich)
      s1 == Step(WithJR(RoomBase, "restricted"), [MemberEv("bob", "bob", "join") EXCEPT !.authvia = "creator"], 1, 0, 1)
      s24 == Step(WithMem([RoomBase EXCEPT !.create.federate = "false"], "bob", "join"), Msg("bob"), 1, 0, 0)
      s26 == Step(richRoom, MemberEv("bob", "alice", "invite"), 1, 3, 0)
      s28 == Step(richRoom, PLEvBy("bob", PLRich), 1, 3, 0)
  IN
  << \* 1 restricted join authorised by the creator (the check treats the rule as public)
     s1,
     \* 2 restricted join without authoriser by a user who is not invited
     Step(WithJR(RoomBase, "restricted"), MemberEv("alice", "alice", "join"), 1, 0, 1),
     \* 3 restricted join by an invited user without authoriser (the check treats the rule as invite)
     Step(WithJR(WithMem(RoomBase, "bob", "invite"), "restricted"), MemberEv("bob", "bob", "join"), 1, 0, 1),
     \* 4 public join
     Step(WithJR(RoomBase, "public"), MemberEv("alice", "alice", "join"), 1, 0, 2),
     \* 5 join refused by an invite-only rule
     Step(WithJR(RoomBase, "invite"), MemberEv("alice", "alice", "join"), 1, 0, 3),
     \* 6 join with no join-rules event (default invite)
     Step(RoomBase, MemberEv("alice", "alice", "join"), 1, 0, 0),
     \* 7 message although the provider has no create event
     Step([RoomBase EXCEPT !.create.present = FALSE], Msg("creator"), 0, 0, 0),
     \* 8 ordinary message
     Step(RoomBase, Msg("creator"), 1, 0, 0),
     \* 9 remote user's message in an unfederated room (another create event)
     Step(WithMem(fedFalse, "bob", "join"), Msg("bob"), 2, 0, 0),
     \* 10 remote user's message in a federated room
     Step(WithMem(RoomBase, "bob", "join"), Msg("bob"), 1, 0, 0),
     \* 11 message below the required level
     Step(WithPL(WithMem(RoomBase, "bob", "join"), PLOne(3, 2)), Msg("bob"), 1, 1, 0),
     \* 12 message at the required level (another power-levels event)
     Step(WithPL(WithMem(RoomBase, "bob", "join"), PLOne(1, 2)), Msg("bob"), 1, 2, 0),
     \* 13 creator's state event without a power-levels event
     Step(RoomBase, Topic("creator"), 1, 0, 0),
     \* 14 ordinary user's state event without a power-levels event
     Step(WithMem(RoomBase, "alice", "join"), Topic("alice"), 1, 0, 0),
     \* 15 as 2 but the restricted rule is a different event with the same content
     Step(WithJR(RoomBase, "restricted"), MemberEv("alice", "alice", "join"), 1, 0, 4),
     \* 16 knock_restricted join authorised by the creator
     Step(WithJR(RoomBase, "knock_restricted"), [MemberEv("bob", "bob", "join") EXCEPT !.authvia = "creator"], 1, 0, 5),
     \* 17 knock under that same knock_restricted rule
     Step(WithJR(RoomBase, "knock_restricted"), MemberEv("alice", "alice", "knock"), 1, 0, 5),
     \* 18-21 the sender's own membership differs from that of an earlier step (nothing about a sender may be
     \* carried from one check to the next): bob has left / is banned / was never there; alice has not joined
     Step(WithMem(RoomBase, "bob", "leave"), Msg("bob"), 1, 0, 0),
     Step(WithMem(RoomBase, "bob", "ban"), Msg("bob"), 1, 0, 0),
     Step(WithPL(RoomBase, PLOne(1, 2)), Msg("bob"), 1, 2, 0),
     Step(RoomBase, Topic("alice"), 1, 0, 0),
     \* ---- one event ID, another event object with OTHER content (sender-chosen IDs of room versions 1-2, or a
     \* forged copy loaded under the ID): the ID says nothing about the content
     \* 22 as 12 (message at the required level) but the power-levels event carries the ID of the one in 11
     Step(WithPL(WithMem(RoomBase, "bob", "join"), PLOne(1, 2)), Msg("bob"), 1, 1, 0),
     \* 23 as 4 (public join) but the join-rules event carries the ID of the invite-only rule in 5
     Step(WithJR(RoomBase, "public"), MemberEv("alice", "alice", "join"), 1, 0, 3),
     \* 24 as 10 but the create event, under the usual create event's ID, forbids federation
     s24,
     \* 25 as 14 but the create event, under the usual ID, names alice as an additional creator
     Step(WithMem([RoomBase EXCEPT !.create.addl = {"alice"}], "alice", "join"), Topic("alice"), 1, 0, 0),
     \* ---- an event and its redacted copy (same event ID; what the copy still says depends on the room version)
     \* 26 / 27 bob's invite under a power-levels event that reserves invites, and under its redacted copy
     \*         (`invite` survives redaction from room version 11 on only)
     s26, RedP(s26),
     \* 28 / 29 bob re-sends that power-levels content, judged against the event and against its redacted copy
     \*         (`notifications` never survives: the copy makes the unchanged content a change above bob's level)
     s28, RedP(s28),
     \* 30 as 24 with the redacted copy of that create event (`m.federate` survives from room version 11 on only)
     RedC(s24),
     \* 31 as 1 with the redacted copy of the join-rules event (`join_rule` always survives: same content, other object)
     RedJ(s1)
  >>

NPool == 31

\* evaluated once per version (TLC caches constant definitions without parameters)
PoolOf == [v \in AllVersions |-> Pool(v)]

None == [none |-> TRUE]

VARIABLES ver, seq, loaded, cache, verdicts, phase
vars == <<ver, seq, loaded, cache, verdicts, phase>>

\* a component of a step as an event object: <<event ID, redacted?, content held>>, or None when the provider has no such event
CreateOf(v, s) == IF s.st.create.present THEN [tag |-> s.ctag, red |-> s.cred, c |-> Held(v, s).create] ELSE None
PLOfStep(v, s) == IF s.st.pl.present THEN [tag |-> s.ptag, red |-> s.pred, c |-> Held(v, s).pl.c] ELSE None
JROf(v, s) == IF s.st.jr # "absent" THEN [tag |-> s.jtag, red |-> s.jred, c |-> Held(v, s).jr] ELSE None

Init == /\ ver \in Versions /\ seq = <<>> /\ loaded = None /\ verdicts = <<>> /\ phase = "idle"
        /\ cache = [create |-> None, pl |-> None, jr |-> None]

\* are the cached component and the provider's the same as far as the cache can tell?
SameEvent(old, new) ==
    /\ old # None /\ new # None
    /\ IF CacheKey = "object" THEN old = new ELSE old.tag = new.tag

\* refresh on identity change, drop when absent
Refresh(old, new) == IF SameEvent(old, new) THEN old ELSE new

\* Load: what authAndApplyEvents does before each check (Clear, AddEvent..., update)
Load(i) ==
    /\ phase = "idle" /\ Len(seq) < MaxLen
    /\ LET s == PoolOf[ver][i] IN
       /\ loaded' = s
       /\ cache' = [create |-> Refresh(cache.create, CreateOf(ver, s)),
                    pl |-> Refresh(cache.pl, PLOfStep(ver, s)),
                    jr |-> Refresh(cache.jr, JROf(ver, s))]
    /\ seq' = Append(seq, i)
    /\ phase' = "loaded"
    /\ UNCHANGED <<ver, verdicts>>

\* the state the checker judges against: three components from its cache, the rest from the provider
Effective(s, c) ==
    [s.st EXCEPT !.create = IF c.create = None THEN [@ EXCEPT !.present = FALSE] ELSE c.create.c,
                 !.pl = IF c.pl = None THEN [present |-> FALSE, c |-> EmptyPL] ELSE [present |-> TRUE, c |-> c.pl.c],
                 !.jr = IF c.jr = None THEN "absent" ELSE c.jr.c]

Check ==
    /\ phase = "loaded"
    /\ verdicts' = Append(verdicts, Allowed(ver, Effective(loaded, cache), loaded.ev))
    /\ phase' = "idle"
    /\ UNCHANGED <<ver, seq, loaded, cache>>      \* a check never writes the cache

Next == (\E i \in 1..NPool : Load(i)) \/ Check
Spec == Init /\ [][Next]_vars

\* ---- the property ---------------------------------------------------------------------
\* the verdict a fresh check of the step's event against the state actually supplied gives
FreshVerdict(v, i) == LET s == PoolOf[v][i] IN Allowed(v, Held(v, s), s.ev)

Coherent == \A k \in 1..Len(verdicts) : verdicts[k] = FreshVerdict(ver, seq[k])

\* and it only depends on the state the event needs
OnlyNeeded == \A k \in 1..Len(verdicts) :
               LET s == PoolOf[ver][seq[k]] IN verdicts[k] = Allowed(ver, RestrictTo(Held(ver, s), Needed(s.ev)), s.ev)

\* ---- sanity of the pool (a dimension that no version can observe would be dead weight) ----------
\* every "same ID, other object" relation changes a verdict in some version: the forged copies in every version,
\* the redacted power-levels / create copies by the redaction algorithm
PoolSane ==
    /\ Len(Pool("10")) = NPool
    /\ \A v \in AllVersions :
         /\ FreshVerdict(v, 22) # FreshVerdict(v, 11) /\ FreshVerdict(v, 23) # FreshVerdict(v, 5)
         /\ FreshVerdict(v, 24) # FreshVerdict(v, 10)
         /\ (FreshVerdict(v, 25) # FreshVerdict(v, 14)) = PrivilegedCreators(v)
         /\ (FreshVerdict(v, 27) # FreshVerdict(v, 26)) = (RedactionAlgo(v) < 5)
         /\ FreshVerdict(v, 29) # FreshVerdict(v, 28)
         /\ (FreshVerdict(v, 30) # FreshVerdict(v, 24)) = (RedactionAlgo(v) < 5)
         /\ FreshVerdict(v, 31) = FreshVerdict(v, 1)
ASSUME PoolSane
=============================================================================
