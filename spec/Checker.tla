------------------------------ MODULE Checker ------------------------------
(***************************************************************************)
(* C09 - the reusable auth checker (allowerContext) as state resolution    *)
(* drives it: one checker, one provider that is cleared and refilled       *)
(* before every check, then update(), then allowed().                      *)
(*                                                                         *)
(* The checker caches the parsed create / power-levels / join-rules        *)
(* contents keyed by the identity of the event they were parsed from.      *)
(* Design: Load refreshes a cached component whenever the provider's event *)
(* identity differs from the cached one and drops it when the provider has *)
(* none; Check reads those three components from the cache and never       *)
(* writes the cache.  The property (Coherent): every verdict equals        *)
(* Auth!Allowed on the state loaded for that check - the cache is          *)
(* unobservable, so the verdict is a function of the event and the state   *)
(* it needs, whatever was checked before.                                  *)
(***************************************************************************)
EXTENDS Auth

CONSTANTS Versions, MaxLen

\* ---- the pool of (state, event) steps; tags give event identities -----------------
\* a component with the same tag and content in two steps is the *same event object*
Step(st, ev, ct, pt, jt) == [st |-> st, ev |-> ev, ctag |-> ct, ptag |-> pt, jtag |-> jt]

RoomBase == WithMem(WithMem(BaseSt, "creator", "join"), "carol", "join")
WithJR(s, jr) == [s EXCEPT !.jr = jr]
Msg(u) == [BaseEv EXCEPT !.sender = u]
Topic(u) == [BaseEv EXCEPT !.sender = u, !.type = "topic", !.skey = "empty"]
PLOne(ed, bobLevel) == [EmptyPL EXCEPT !.events_default = ed, !.users = [u \in Users |-> IF u = "bob" THEN bobLevel ELSE Absent]]

Pool(v) ==
  LET fedFalse == [RoomBase EXCEPT !.create.federate = "false",
                                   !.create.room = IF DomainlessRoomIDs(v) THEN "other" ELSE "same"] IN
  << \* 1 restricted join authorised by the creator (the check treats the rule as public)
     Step(WithJR(RoomBase, "restricted"), [MemberEv("bob", "bob", "join") EXCEPT !.authvia = "creator"], 1, 0, 1),
     \* 2 restricted join without authoriser by a user who is not invited
     Step(WithJR(RoomBase, "restricted"), MemberEv("alice", "alice", "join"), 1, 0, 1),
     \* 3 restricted join by an invited user without authoriser (the check treats the rule as invite)
     Step(WithJR(WithMem(RoomBase, "bob", "invite"), "restricted"), MemberEv("bob", "bob", "join"), 1, 0, 1),
     \* 4 public join
     Step(WithJR(RoomBase, "public"), MemberEv("alice", "alice", "join"), 1, 0, 2),
     \* 5 join refused by an invite-only rule
     Step(WithJR(RoomBase, "invite"), MemberEv("alice", "alice", "join"), 1, 0, 3),
     \* 6 join with no join-rules event (default invite)
     Step(RoomBase, MemberEv("alice", "alice", "join"), 1, 0, 0),
     \* 7 message although the provider has no create event
     Step([RoomBase EXCEPT !.create.present = FALSE], Msg("creator"), 0, 0, 0),
     \* 8 ordinary message
     Step(RoomBase, Msg("creator"), 1, 0, 0),
     \* 9 remote user's message in an unfederated room (another create event)
     Step(WithMem(fedFalse, "bob", "join"), Msg("bob"), 2, 0, 0),
     \* 10 remote user's message in a federated room
     Step(WithMem(RoomBase, "bob", "join"), Msg("bob"), 1, 0, 0),
     \* 11 message below the required level
     Step(WithPL(WithMem(RoomBase, "bob", "join"), PLOne(3, 2)), Msg("bob"), 1, 1, 0),
     \* 12 message at the required level (another power-levels event)
     Step(WithPL(WithMem(RoomBase, "bob", "join"), PLOne(1, 2)), Msg("bob"), 1, 2, 0),
     \* 13 creator's state event without a power-levels event
     Step(RoomBase, Topic("creator"), 1, 0, 0),
     \* 14 ordinary user's state event without a power-levels event
     Step(WithMem(RoomBase, "alice", "join"), Topic("alice"), 1, 0, 0),
     \* 15 as 2 but the restricted rule is a different event with the same content
     Step(WithJR(RoomBase, "restricted"), MemberEv("alice", "alice", "join"), 1, 0, 4),
     \* 16 knock_restricted join authorised by the creator
     Step(WithJR(RoomBase, "knock_restricted"), [MemberEv("bob", "bob", "join") EXCEPT !.authvia = "creator"], 1, 0, 5),
     \* 17 knock under that same knock_restricted rule
     Step(WithJR(RoomBase, "knock_restricted"), MemberEv("alice", "alice", "knock"), 1, 0, 5),
     \* 18-21 the sender's own membership differs from that of an earlier step (nothing about a sender may be
     \* carried from one check to the next): bob has left / is banned / was never there; alice has not joined
     Step(WithMem(RoomBase, "bob", "leave"), Msg("bob"), 1, 0, 0),
     Step(WithMem(RoomBase, "bob", "ban"), Msg("bob"), 1, 0, 0),
     Step(WithPL(RoomBase, PLOne(1, 2)), Msg("bob"), 1, 2, 0),
     Step(RoomBase, Topic("alice"), 1, 0, 0)
  >>

NPool == 21

None == [none |-> TRUE]

VARIABLES ver, seq, loaded, cache, verdicts, phase
vars == <<ver, seq, loaded, cache, verdicts, phase>>

\* identity of a component of a step: <<tag, content>>, or None when the provider has no such event
CreateOf(s) == IF s.st.create.present THEN [tag |-> s.ctag, c |-> s.st.create] ELSE None
PLOfStep(s) == IF s.st.pl.present THEN [tag |-> s.ptag, c |-> s.st.pl.c] ELSE None
JROf(s) == IF s.st.jr # "absent" THEN [tag |-> s.jtag, c |-> s.st.jr] ELSE None

Init == /\ ver \in Versions /\ seq = <<>> /\ loaded = None /\ verdicts = <<>> /\ phase = "idle"
        /\ cache = [create |-> None, pl |-> None, jr |-> None]

\* Load: what authAndApplyEvents does before each check (Clear, AddEvent..., update)
Load(i) ==
    /\ phase = "idle" /\ Len(seq) < MaxLen
    /\ LET s == Pool(ver)[i] IN
       /\ loaded' = s
       /\ cache' = [create |-> CreateOf(s), pl |-> PLOfStep(s), jr |-> JROf(s)]   \* refresh on identity change, drop when absent
    /\ seq' = Append(seq, i)
    /\ phase' = "loaded"
    /\ UNCHANGED <<ver, verdicts>>

\* the state the checker judges against: three components from its cache, the rest from the provider
Effective(s, c) ==
    [s.st EXCEPT !.create = IF c.create = None THEN [@ EXCEPT !.present = FALSE] ELSE c.create.c,
                 !.pl = IF c.pl = None THEN [present |-> FALSE, c |-> EmptyPL] ELSE [present |-> TRUE, c |-> c.pl.c],
                 !.jr = IF c.jr = None THEN "absent" ELSE c.jr.c]

Check ==
    /\ phase = "loaded"
    /\ verdicts' = Append(verdicts, Allowed(ver, Effective(loaded, cache), loaded.ev))
    /\ phase' = "idle"
    /\ UNCHANGED <<ver, seq, loaded, cache>>      \* a check never writes the cache

Next == (\E i \in 1..NPool : Load(i)) \/ Check
Spec == Init /\ [][Next]_vars

\* ---- the property ---------------------------------------------------------------------
Coherent == \A k \in 1..Len(verdicts) :
               verdicts[k] = Allowed(ver, Pool(ver)[seq[k]].st, Pool(ver)[seq[k]].ev)

\* and it only depends on the state the event needs
OnlyNeeded == \A k \in 1..Len(verdicts) :
               LET s == Pool(ver)[seq[k]] IN verdicts[k] = Allowed(ver, RestrictTo(s.st, Needed(s.ev)), s.ev)
=============================================================================
