SPECIFICATION Spec
CONSTANTS
  Family = "e2e"
  MaxAllow = 2
  MaxDeny = 2
INVARIANTS Sound DenyBeatsAllow OnlyAllowed OnlySafeNets BadEntriesInert ReachIrrelevant Emit
CHECK_DEADLOCK FALSE
