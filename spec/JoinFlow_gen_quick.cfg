SPECIFICATION Spec
CONSTANTS
  VerSet <- VersQuick
  Budget = 2
  Fault = "none"
  Strict = FALSE
INVARIANTS TypeOK Sanity ReturnedIsTheJoin SentIsTheJoin NoLeak StateChecked CheckBeforeReturn ErrorTaxonomy Complete WhySound HonestSucceeds BannedNeverJoins Emit
CHECK_DEADLOCK FALSE
