------------------------- MODULE TransportCache_gen -------------------------
(* Schedules for the replay against the real destinationTripper.  The yield point  *)
(* of RoundTrip is the request on the held transport (realised by a gated          *)
(* resolver underneath the transport's dialer); the second getTransport after a     *)
(* failed request has no hook and runs with priority.                              *)
(* The reaper is not bound to quiescent points: a pass may also come between the     *)
(* failed request and the second getTransport of a caller (q = FALSE in its record).  *)
(* The replay realises every run of consecutive critical sections                    *)
(* (call | get_again | reaper) as a queue on the transports mutex itself, handed over  *)
(* from one to the next without a gap (see transport.go), so that "reaper directly     *)
(* after the insert" and "reaper directly before the second getTransport" are real     *)
(* schedules of the code and not only of the model.                                   *)
EXTENDS TransportCache, Sequences, SequencesExt, Json

VARIABLE hist
gvars == <<vars, hist>>

Urgent(p) == loc[p].pc = "get"
Quiet == \A q \in Procs : ~Urgent(q)

Snap(c) == SetToSortSeq({[name |-> t.name, id |-> t.id, aged |-> t.aged] : t \in c}, LAMBDA x, y : x.id < y.id)

Rec(a, p, n) == [a |-> a, p |-> p, n |-> n,
                 at |-> IF p \in Procs THEN loc[p].pc' ELSE "",
                 st |-> IF p \in Procs THEN loc[p].status' ELSE "",
                 held |-> IF p \in Procs THEN loc[p].held' ELSE 0,
                 q |-> (\A x \in Procs : loc[x].pc' # "get"),
                 cache |-> Snap(cache')]

GInit == Init /\ hist = << >>
GNext ==
  \/ \E p \in Procs : GetAgain(p) /\ hist' = Append(hist, Rec("get_again", p, loc[p].name))
  \/ \E p \in Procs : Quiet /\ SendOk(p) /\ hist' = Append(hist, Rec("send_ok", p, loc[p].name))
  \/ \E p \in Procs : Quiet /\ SendFail(p) /\ hist' = Append(hist, Rec("send_fail", p, loc[p].name))
  \/ \E p \in Procs, n \in Names : Quiet /\ Call(p, n) /\ hist' = Append(hist, Rec("call", p, n))
  \/ Quiet /\ ~Terminated /\ Reaper /\ hist' = Append(hist, Rec("reaper", "", ""))
  \/ ~Quiet /\ Reaper /\ hist' = Append(hist, Rec("reaper", "", ""))
  \/ \E n \in Names : Quiet /\ ~Terminated /\ Age(n) /\ hist' = Append(hist, Rec("age", "", n))

GSpec == GInit /\ [][GNext]_gvars
Emit == Terminated => PrintT(ToJson([steps |-> hist]))
=============================================================================
