SPECIFICATION Spec
INVARIANT Report
POSTCONDITION TraceAccepted
CHECK_DEADLOCK FALSE
