----------------------------- MODULE ResolveSeq -----------------------------
(***************************************************************************)
(* C16 - ONE client, SEVERAL requests, DIFFERENT server names.             *)
(*                                                                         *)
(* Resolve.tla is the resolution of one server name.  A federation client  *)
(* (fclient.Client / destinationTripper) is an object with state that      *)
(* outlives a request: resolutions it remembers, one transport (TLS        *)
(* configuration) per TLS server name.  The property speaks about every    *)
(* connection: "each target carrying the Host header and TLS server name   *)
(* the specification assigns to that step", the targets being those of the *)
(* order prescribed for THAT server name.  So whatever the client          *)
(* remembers, what request number j does is a function of its own server   *)
(* name and the world - not of the requests before it.                     *)
(*                                                                         *)
(* World: a few DNS names, each with a well-known document of its own      *)
(* (none, or delegating to another name of the world / that name with a    *)
(* port / an IP literal) and SRV records of its own; a name is at the same *)
(* time a server name in its own right, a delegated name, an SRV target.   *)
(* Actions (one per operation of the client):                              *)
(*    CacheHit     the client remembers a resolution of this server name   *)
(*    ResolveMiss  it resolves the name (ResolveFn.tla) and remembers it   *)
(*    Send         it takes the transport of the target's TLS name         *)
(*                 (creating it if there is none) and opens a connection   *)
(* History: conns (every connection: request, destination, Host, TLS name  *)
(* as taken from the transport's configuration OBJECT), wklog (well-known  *)
(* requests).  The property is stated over the history only.               *)
(*                                                                         *)
(* Fault: planted defects of the client design ("none" in generation).     *)
(* ResolveSeq_fault_*.cfg: TLC must refute each - the invariants bite.     *)
(***************************************************************************)
EXTENDS Integers, Sequences, FiniteSets, TLC

CONSTANT Fault     \* "none" | "shared_tls" | "alias_deleg" | "alias_dest" | "key_host" | "key_sni"

Fn == INSTANCE ResolveFn

NoPort == Fn!NoPort
MkName(h, lit, p, v) == [host |-> h, lit |-> lit, port |-> p, valid |-> v]
NoName == MkName("", "no", NoPort, FALSE)

VARIABLES
    world,       \* [wk, srv] as in ResolveFn.tla             } scenario,
    reqs,        \* the server names of the requests, in order } fixed in Init
    k, pc,       \* request being served; "lookup" | "send" | "done"
    cur,         \* targets the client is about to walk
    cache,       \* client: set of [name, targets]  (remembered resolutions)
    transports,  \* client: set of [key (TLS name), cfg (identity of a configuration object)]
    cfgs,        \* the configuration objects: id -> [sni]
    conns,       \* history: connections made
    wklog        \* history: <<request, host asked for its well-known document>>

scen == <<world, reqs>>
vars == <<world, reqs, k, pc, cur, cache, transports, cfgs, conns, wklog>>

Start ==
    /\ k = 1 /\ pc = "lookup" /\ cur = <<>>
    /\ cache = {} /\ transports = {} /\ cfgs = <<>>
    /\ conns = <<>> /\ wklog = <<>>

\* what the specification assigns to server name n - whoever asks, whenever
Resolution(n) == Fn!ResolveName(n, world, Fn!StrictLat)

Name == reqs[k]
\* under which key a resolution is remembered (planted: by host without the port, by TLS name)
CacheKey(n, res) ==
    CASE Fault = "key_host" -> MkName(n.host, n.lit, NoPort, TRUE)
      [] OTHER -> n
Cached(n) == {e \in cache : e.name = CacheKey(n, <<>>)}

CacheHit ==
    /\ pc = "lookup" /\ k <= Len(reqs) /\ Cached(Name) # {}
    /\ cur' = (CHOOSE e \in Cached(Name) : TRUE).targets
    /\ pc' = "send"
    /\ UNCHANGED <<scen, k, cache, transports, cfgs, conns, wklog>>

\* planted: the resolution is also filed under the name / host it leads to
Aliases(n, res) ==
    CASE Fault = "alias_deleg" /\ res # <<>> /\ res[1].host # Fn!HostPort(n.host, n.port)
              -> {MkName(res[1].host.h, "no", res[1].host.p, TRUE)}
      [] Fault = "alias_dest" /\ res # <<>> -> {MkName(res[1].dest.h, "no", NoPort, TRUE)}
      [] Fault = "key_sni" /\ res # <<>> -> {MkName(res[1].sni, "no", NoPort, TRUE)}
      [] OTHER -> {}

ResolveMiss ==
    /\ pc = "lookup" /\ k <= Len(reqs) /\ Cached(Name) = {}
    /\ LET r == Resolution(Name) IN
       /\ ~r.refused                        \* (the worlds of this module refuse nothing)
       /\ cur' = r.result
       /\ cache' = cache \cup {[name |-> CacheKey(Name, r.result), targets |-> r.result]}
                         \cup {[name |-> a, targets |-> r.result] :
                                   a \in {b \in Aliases(Name, r.result) : \A e \in cache : e.name # b}}
    /\ wklog' = (IF Fn!AsksWellKnown(Name) THEN Append(wklog, <<k, Name.host>>) ELSE wklog)
    /\ pc' = "send"
    /\ UNCHANGED <<scen, k, transports, cfgs, conns>>

\* every target of this module is alive: the first one answers
Send ==
    /\ pc = "send"
    /\ LET t == cur[1]
           have == {x \in transports : x.key = t.sni}
           newid == IF Fault = "shared_tls" THEN 1 ELSE Len(cfgs) + 1
           tr == IF have # {} THEN CHOOSE x \in have : TRUE ELSE [key |-> t.sni, cfg |-> newid]
       IN
       /\ transports' = transports \cup {tr}
       /\ cfgs' = (IF have # {} THEN cfgs
                   ELSE IF newid <= Len(cfgs) THEN [cfgs EXCEPT ![newid] = [sni |-> t.sni]]   \* overwritten
                   ELSE Append(cfgs, [sni |-> t.sni]))
       /\ conns' = Append(conns, [req |-> k, dest |-> t.dest, host |-> t.host, sni |-> cfgs'[tr.cfg].sni])
    /\ k' = k + 1
    /\ pc' = (IF k = Len(reqs) THEN "done" ELSE "lookup")
    /\ cur' = <<>>
    /\ UNCHANGED <<scen, cache, wklog>>

Next == CacheHit \/ ResolveMiss \/ Send

Done == pc = "done"

\* --------------------------------------------------------------- the property
\* every connection goes where the resolution of ITS request's server name says, carrying the Host
\* header and TLS name of that step - no matter what the client was asked before
Expect(j) == Resolution(reqs[j]).result[1]
PerRequestTarget == \A i \in DOMAIN conns :
    LET c == conns[i]  e == Expect(c.req) IN
    /\ c.dest = e.dest
    /\ c.host = e.host
    /\ c.sni = e.sni

\* one connection per request, in order
OneEach == /\ Len(conns) = (IF pc = "lookup" THEN k - 1 ELSE IF pc = "send" THEN k - 1 ELSE Len(reqs))
           /\ \A i \in DOMAIN conns : conns[i].req = i

\* the order of the steps, per server name: the first request for a port-less DNS name asks for THAT
\* name's well-known document, once; nobody else's document is ever asked for; a remembered resolution
\* may spare a later request for the SAME server name its lookup
Served(j) == j < k \/ (j = k /\ pc = "send") \/ Done
FirstFor(j) == \A i \in 1..(j - 1) : reqs[i] # reqs[j]
WellKnownPerName ==
    /\ \A i \in DOMAIN wklog : wklog[i][2] = reqs[wklog[i][1]].host /\ Fn!AsksWellKnown(reqs[wklog[i][1]])
    /\ \A j \in DOMAIN reqs : Cardinality({i \in DOMAIN wklog : wklog[i][1] = j}) <= 1
    /\ \A j \in DOMAIN reqs : Served(j) /\ FirstFor(j) /\ Fn!AsksWellKnown(reqs[j]) =>
            \E i \in DOMAIN wklog : wklog[i] = <<j, reqs[j].host>>

\* what the client remembers is true (the reason why the design keeps the property)
CacheSound == \A e \in cache : e.targets = Resolution(e.name).result
TransportSound == \A x \in transports : cfgs[x.cfg].sni = x.key
=============================================================================
