SPECIFICATION Spec
CONSTANTS
  Family = "rawevent"
  Versions <- VersionsAll
  TypesC <- TypesTwo
  Depth = "core"
  FieldSet = "full"
  Entries <- EntriesUntrusted
  MaxOps = 1
  Heavy <- NoOps
  HeavyAfter <- NoOps
  Muts <- NoOps
INVARIANTS TypeOK NoPanic WellOrdered Emit
CHECK_DEADLOCK FALSE
