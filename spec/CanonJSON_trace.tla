-------------------------- MODULE CanonJSON_trace --------------------------
(***************************************************************************)
(* Trace validation (code -> spec) for CanonJSON.tla (C01).                *)
(* Each line of the trace is one random document that the Go driver built  *)
(* from tokens, with what the real library answered:                       *)
(*   text  tokens           inb   input bytes (first lines only, else <<>>)*)
(*   ok    CanonicalJSON returned no error      out  its output bytes      *)
(*   av    CanonicalJSONAssumeValid(input) = out                           *)
(*   idem  CanonicalJSON(out) = out                                        *)
(*   vers  registered room versions                                        *)
(*   rej / erej  versions whose CheckCanonicalJSON / EnforcedCanonicalJSON *)
(*               refused the input                                         *)
(*   eout  every accepting EnforcedCanonicalJSON returned out              *)
(*   sb    every entry point called repeatedly on ONE shared buffer gave   *)
(*         the outcome it gives on a fresh copy of the text                *)
(* The specification reads the tokens with its own validating reader       *)
(* (Parse), decides the class of the text, recomputes the canonical bytes  *)
(* Bytes(Canon(value)) and the enforced verdict per room version, and      *)
(* accepts the line iff the logged results are the ones it derives.        *)
(*                                                                         *)
(* TRACE_MODE = "explain": instead of validating, print for every line the *)
(* record CanonJSON_gen would emit for that text (used by checks/c01.py to *)
(* re-execute rejected lines through the replay harness).                  *)
(***************************************************************************)
EXTENDS CanonJSON, Json, IOUtils

MB == INSTANCE MatrixBase

Trace == ndJsonDeserialize(IOEnv.TRACE_FILE)

VARIABLES l,     \* next trace line
          bad    \* lines whose logged result the specification does not explain
tvars == <<l, bad>>

SeqToSet(s) == {s[i] : i \in DOMAIN s}

\* the enforced variant for one room version on a valid text with value v
EnforcedExplained(r, v, ver) ==
    LET enf    == MB!EnforcedCanonJSON(ver)
        rej    == ver \in SeqToSet(r.rej)
        erej   == ver \in SeqToSet(r.erej)
    IN  IF enf /\ EnforcedMustReject(v) THEN rej /\ erej
        ELSE IF enf /\ HasNegZeroLit(v) THEN TRUE            \* the literal -0 under enforcement: not constrained
        ELSE ~rej /\ ~erej

Explains(r) ==
    LET p  == Parse(r.text)
        st == StatusOf(p)
    IN  /\ r.inb # <<>> => r.inb = Bytes(r.text)              \* the Go renderer agrees with section 8
        /\ SeqToSet(r.vers) = MB!AllVersions
        /\ CASE st = "valid" ->
                  /\ r.ok
                  /\ (r.out = Bytes(Canon(p.v)) \/ r.out = Bytes(CanonAlt(p.v)))
                  /\ r.av /\ r.idem /\ r.eout
                  /\ \A ver \in MB!AllVersions : EnforcedExplained(r, p.v, ver)
                  /\ r.sb
             [] st = "invalid" -> ~r.ok /\ SeqToSet(r.erej) = MB!AllVersions /\ r.sb
             [] OTHER -> r.ok => NoInventedAstral(r.out, p.v)    \* unpaired surrogates / duplicate keys: no panic, and
                                                               \* no supplementary code point the text does not hold

\* the writer of CanonJSON.tla is not used here: its variables are frozen
Frozen == scen = 0 /\ todo = <<>> /\ text = <<>> /\ status = "valid" /\ bud = 0 /\ cor = "none" /\ nums = <<>> /\ phase = "done"
TInit == l = 1 /\ bad = <<>> /\ Frozen

\* One step per logged call.  A line the specification does not explain is recorded (so the rest of the
\* trace is still checked in the same run) and makes the trace rejected.
TStep ==
    /\ l <= Len(Trace)
    /\ bad' = IF IOEnv.TRACE_MODE = "explain" \/ Explains(Trace[l]) THEN bad ELSE Append(bad, l)
    /\ l' = l + 1
    /\ UNCHANGED vars

TSpec == TInit /\ [][TStep]_<<tvars, vars>>

Report == (l = Len(Trace) + 1 /\ bad # <<>>) => PrintT("TRACE_REJECTED " \o ToJson(bad))
TraceAccepted == TLCGet("stats").diameter - 1 = Len(Trace)

\* explain mode: the generation record of line l
Explain ==
    (IOEnv.TRACE_MODE = "explain" /\ l <= Len(Trace)) =>
        LET r   == Trace[l]
            p   == Parse(r.text)
            st  == StatusOf(p)
            val == st = "valid"
        IN PrintT(ToJson([fam  |-> "trace",
                          text |-> r.text,
                          st   |-> st,
                          cor  |-> IF st = "invalid" THEN "damaged" ELSE "none",
                          exp  |-> IF val THEN Canon(p.v) \o <<>> ELSE <<>>,
                          alt  |-> IF val /\ CanonAlt(p.v) # Canon(p.v) THEN CanonAlt(p.v) \o <<>> ELSE <<>>,
                          bad  |-> IF val THEN InadmissibleLits(p.v) ELSE <<>>,
                          nz   |-> val /\ HasNegZeroLit(p.v),
                          look |-> IF val THEN LooksOf(p.v) ELSE <<>>,
                          ast  |-> IF st \in {"illformed", "dupkeys"} THEN AstralOf(p.v) \o <<>> ELSE <<>>]))
=============================================================================
