---------------------------- MODULE Tokens_gen ----------------------------
(* Generation wrapper: emits every Validate / GetUser outcome reachable in *)
(* the bounded model as one JSON record for replay against the real code.  *)
EXTENDS Tokens, Json

OffsetsQuick == {-1, 0, 1, 70}
OffsetsKeys == {-1, 1}
OffsetsThorough == {-3000, -61, -1, 0, 1, 59, 61, 3000}
DurationsThorough == {0, 1, 5, 61, 119, 120, 121, 3600, 3601, 86400, 604800, -5}

OffsetsClass == {-1}
DurationsClass == {0}

(* The user-ID alphabet family: tokens issued for every structured user ID (frame x character class x position),    *)
(* read back (GetUser), validated for the user read (ValidateRead), for the issued user under every key, and for    *)
(* every NEIGHBOUR of the issued user under the issuing key (a refusal there is owed to the user ID alone).         *)
(* Relevance pruning: no rule that reads the user ID reads the key or the clock, so alterations and re-minting      *)
(* (explored with the plain user IDs) are left out and the instants are few.  Issued under one key, validated      *)
(* under all.  WideNeighbours (thorough): every structured user ID of the same frame is tried, not only neighbours. *)
CONSTANT WideNeighbours
SameFrameTable == [u \in ClassUsers |-> {v \in ClassUsers : PartsOf[v][1] = PartsOf[u][1]} \ {u}]
TriedWith(u) == IF WideNeighbours THEN SameFrameTable[u] ELSE Neighbours(u)

ClassIssueSecrets == {CHOOSE s \in Secrets : TRUE}
NextClass == \/ tok = NoToken /\ \E s \in ClassIssueSecrets, u \in ClassUsers, d \in Durations : Issue(s, u, d)
             \/ \E o \in Offsets : TickTo(o)
             \/ tok # NoToken /\ \E s \in Secrets : Validate(s, origin.user)
             \/ tok # NoToken /\ (WideNeighbours \/ clock = origin.at)      \* (quick: neighbours at the issue instant only)
                /\ \E v \in TriedWith(origin.user) : Validate(origin.secret, v)
             \/ GetUser
             \/ \E s \in Secrets : ValidateRead(s)
SpecClass == Init /\ [][NextClass]_vars

Emit == (out.call \in {"validate", "getuser", "validate_read"}) =>
          PrintT(ToJson([call |-> out.call,
                         secret |-> origin.secret, user |-> origin.user, dur |-> origin.dur,
                         at |-> origin.at, altered |-> altered, clock |-> clock,
                         vsecret |-> IF Validated THEN out.secret ELSE "",
                         vuser |-> IF Validated THEN out.user ELSE "",
                         ok |-> out.ok,
                         guser |-> IF out.call = "getuser" /\ Unaltered THEN out.user ELSE ""]))
=============================================================================
