---------------------------- MODULE Tokens_gen ----------------------------
(* Generation wrapper: emits every Validate / GetUser outcome reachable in *)
(* the bounded model as one JSON record for replay against the real code.  *)
EXTENDS Tokens, Json

OffsetsQuick == {-1, 0, 1, 70}
OffsetsKeys == {-1, 1}
OffsetsThorough == {-3000, -61, -1, 0, 1, 59, 61, 3000}
DurationsThorough == {0, 1, 5, 61, 119, 120, 121, 3600, 3601, 86400, 604800, -5}

Emit == (out.call \in {"validate", "getuser"}) =>
          PrintT(ToJson([call |-> out.call,
                         secret |-> origin.secret, user |-> origin.user, dur |-> origin.dur,
                         at |-> origin.at, altered |-> altered, clock |-> clock,
                         vsecret |-> IF out.call = "validate" THEN out.secret ELSE "",
                         vuser |-> IF out.call = "validate" THEN out.user ELSE "",
                         ok |-> out.ok,
                         guser |-> IF out.call = "getuser" /\ Unaltered THEN out.user ELSE ""]))
=============================================================================
