SPECIFICATION Spec
CONSTANTS
  Families = {"versions"}
  Tier = "thorough"
VIEW View
INVARIANTS OneResultEach Sound Complete SoundOnScenario OnlyNeeded InOrder NothingWithoutKeys StoredFetched NothingInvented TopErrOnlyDB ClassSane Emit
CHECK_DEADLOCK FALSE
