SPECIFICATION Spec
CONSTANTS
  Versions <- VersionsQuick
  MaxLen = 2
INVARIANTS Coherent OnlyNeeded Emit
CHECK_DEADLOCK FALSE
