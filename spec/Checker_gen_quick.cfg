SPECIFICATION Spec
CONSTANTS
  Versions <- VersionsQuick
  MaxLen = 2
  CacheKey = "object"
INVARIANTS Coherent OnlyNeeded EmitPool Emit
CHECK_DEADLOCK FALSE
