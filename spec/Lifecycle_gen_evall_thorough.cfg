SPECIFICATION Spec
CONSTANTS
  Family = "event1"
  Versions <- VersionsAll
  TypesC <- TypesAll
  Depth = "edge"
  FieldSet = "edge"
  Entries <- EntriesUntrusted
  MaxOps = 2
  Heavy <- HeavyAll
  HeavyAfter <- NoOps
  Muts <- MutsTwo
INVARIANTS TypeOK NoPanic WellOrdered Emit
CHECK_DEADLOCK FALSE
