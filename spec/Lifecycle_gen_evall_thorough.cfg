SPECIFICATION Spec
CONSTANTS
  Family = "event1"
  Versions <- VersionsAll
  TypesC <- TypesAll
  Depth = "edge"
  FieldSet = "edge"
  Entries <- EntriesAll
  MaxOps = 2
  Heavy <- HeavyAll
  HeavyAfter <- NoOps
  Muts <- MutsAll
INVARIANTS TypeOK NoPanic WellOrdered Emit
CHECK_DEADLOCK FALSE
