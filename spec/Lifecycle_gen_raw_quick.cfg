SPECIFICATION Spec
CONSTANTS
  Family = "raw"
  Versions <- VersionsQuick
  TypesC <- TypesAll
  Depth = "core"
  FieldSet = "core"
  Entries <- EntriesUntrusted
  MaxOps = 1
  Heavy <- NoOps
  HeavyAfter <- NoOps
  Muts <- NoOps
INVARIANTS TypeOK NoPanic WellOrdered Emit
CHECK_DEADLOCK FALSE
