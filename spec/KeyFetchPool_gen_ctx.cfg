SPECIFICATION GSpec
CONSTANTS
  Servers = {"s1", "s2"}
  NWorkers = 2
  Q = 2
  StartFirst = FALSE
  KeyIds = {"k1", "k2"}
  DirectOutcomes = {"ok", "err"}
  NotaryOutcomes = {"ok", "err"}
  HasLocal = TRUE
  CtxModes = {"before", "deadline", "mid"}
  StopOnDone = FALSE
INVARIANTS TypeOK ExactUnion EachServerOnce NothingEarly QueueBound GoneBeforeTheCall Emit
CHECK_DEADLOCK FALSE
