SPECIFICATION BSpec
CONSTANTS
  ByteAlphabet = "large"
  MaxBytes = 3
  Part = "json"
  Mode = "free"
  FreeLen = 0
  MaxDev = 0
INVARIANTS AlphabetsAgree UnpaddedLength SpellingIrrelevant BEmit
CHECK_DEADLOCK FALSE
