\* X06 planted pipeline fault (here: a rejected event still updates the state): TLC must refute the invariant the
\* fault is aimed at.  checks/x06.py writes one such cfg per fault (FAULTS).
SPECIFICATION GSpec
CONSTANTS
  Start = 1
  Ver = "10"
  MaxFree = 2
  ForkFrom = 1
  TSChoices <- TS1
  IdDesc = FALSE
  Addl = {}
  MaxBad = 1
  Dishonest = TRUE
  NServers = 2
  Byz <- Byz2
  Fault = "apply_rejected"
  Gap = FALSE
  LateJoin = FALSE
  SendKinds <- FaultKinds
  Mode = "none"
VIEW CoverView
INVARIANTS RejectedNeverInState
CHECK_DEADLOCK FALSE
