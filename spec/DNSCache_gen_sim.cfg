SPECIFICATION GSpec
CONSTANTS
  Procs = {"c1", "c2", "c3"}
  Hosts = {"a", "b", "c"}
  Size = 2
  MaxCalls = 2
  MaxExpire = 2
  Kinds = {"lookup", "dial"}
  ZeroDuration = FALSE
  Faults = TRUE
INVARIANTS TypeOK SizeBound ServedFreshAndSequential NoCrossHost RefinesSequential MissReturnsOwnAnswer Emit
CHECK_DEADLOCK FALSE
