---------------------------- MODULE CheckerBatch ----------------------------
(***************************************************************************)
(* C09 - the reused checker inside state resolution: authAndApplyEvents    *)
(* auths a BATCH of conflicted events, one after the other, through one    *)
(* checker and one provider.  For every event the provider is to hold, for *)
(* each (type, state_key) pair the event needs,                            *)
(*   - the event of the partial (so far resolved) state for that pair, or  *)
(*   - where the pair is still unresolved: the event for that pair among   *)
(*     the event's OWN usable auth events (cited, known, not rejected),    *)
(*   - else nothing.                                                       *)
(* An allowed event is applied to the partial state before the next one is *)
(* judged (forward progress).                                              *)
(*                                                                         *)
(* The property (BatchCoherent) is stated over the history of verdicts: the *)
(* verdict on the k-th event equals Auth!Allowed on the state that the     *)
(* partial state before it and the event's own usable auth events give -   *)
(* whatever the events before it brought with them.  An event that does    *)
(* not cite its sender's membership (or cites an unknown or rejected one,  *)
(* or one under another state key) is judged without it, also right after  *)
(* an event of the same sender that did bring one; likewise for the power  *)
(* levels, the join rules, the third-party invite, the create event.       *)
(*                                                                         *)
(* A scenario: a focus component that is unresolved (absent from the       *)
(* partial state, which holds the rest of the room as the first event saw  *)
(* it); a batch of items, each a template event with                       *)
(*   how = "own"  : cites a usable event for the focus (its view's),       *)
(*         "alt"  : cites a usable event for the focus with OTHER content, *)
(*         a mode : has no usable event for it - "nocite" (not cited),     *)
(*                  "unknown" (cited, not among the known auth events),    *)
(*                  "rejected" (cited, known, rejected by the server),     *)
(*                  "wrongkey" (cites an event of that type under another  *)
(*                  state key).  The modes must be indistinguishable.      *)
(* ClearPer = "event" is the design (the provider is emptied before every  *)
(* event); with "batch" (emptied once per batch) TLC refutes BatchCoherent.*)
(***************************************************************************)
EXTENDS CheckerShapes

CONSTANTS Versions, ClearPer, MaxBatch, Modes, FirstHows

Custom(u) == [BaseEv EXCEPT !.type = "at_state", !.sender = u, !.skey = "empty"]

Templates ==
  << \*  1 state event by the moderator bob
     [st |-> RoomWith("public", "absent"), ev |-> [BaseEv EXCEPT !.sender = "bob", !.type = "topic", !.skey = "empty"]],
     \*  2 state event of an unnamed type by the ordinary member alice
     [st |-> RoomWith("public", "absent"), ev |-> Custom("alice")],
     \*  3 bob changes his profile (join -> join) in an invite-only room
     [st |-> RoomWith("invite", "absent"), ev |-> MemberEv("bob", "bob", "join")],
     \*  4 carol joins a public room
     [st |-> RoomWith("public", "absent"), ev |-> MemberEv("carol", "carol", "join")],
     \*  5 bob invites carol
     [st |-> RoomWith("invite", "absent"), ev |-> MemberEv("bob", "carol", "invite")],
     \*  6 restricted join of carol authorised by the creator
     [st |-> RoomWith("restricted", "absent"), ev |-> [MemberEv("carol", "carol", "join") EXCEPT !.authvia = "creator"]],
     \*  7 third-party invite of carol by bob
     [st |-> RoomWith("invite", "absent"), ev |-> [MemberEv("bob", "carol", "invite") EXCEPT !.tpi = "ok"]],
     \*  8 bob re-sends the power levels
     [st |-> RoomWith("public", "absent"), ev |-> [BaseEv EXCEPT !.type = "pl", !.sender = "bob", !.skey = "empty", !.newpl = PLRoom]],
     \*  9 bob sets the join rules
     [st |-> RoomWith("invite", "absent"), ev |-> [BaseEv EXCEPT !.type = "jr", !.sender = "bob", !.skey = "empty"]],
     \* 10 bob kicks carol
     [st |-> RoomWith("public", "join"), ev |-> MemberEv("bob", "carol", "leave")],
     \* 11 the invited carol joins an invite-only room
     [st |-> RoomWith("invite", "invite"), ev |-> MemberEv("carol", "carol", "join")]
  >>
NT == 11
TemplatesC == Templates

\* the templates tried per focus: those that need it (for the create event and the power levels, which every one needs, a few)
TemplatesOf(c) ==
    CASE c = "create" -> {1, 4, 8}
      [] c = "pl" -> {1, 2, 5, 8, 9, 10}
      [] OTHER -> {t \in 1..NT : c \in Names(Needed(TemplatesC[t].ev))}

\* the focus component with other content
AltView(st, c) ==
    CASE c = "create" -> [st EXCEPT !.create.federate = "false"]
      [] c = "pl" -> [st EXCEPT !.pl.c = PLRoomAlt]
      [] c = "jr" -> [st EXCEPT !.jr = IF @ = "public" THEN "invite" ELSE "public"]
      [] c = "tpi" -> [st EXCEPT !.tpi = "nomatch"]
      [] OTHER -> [st EXCEPT !.mem = [u \in Users |-> IF MemName(u) = c THEN (IF @[u] = "join" THEN "leave" ELSE "join") ELSE @[u]]]

Hows == {"own", "alt"} \cup Modes
Item(t, how) == [t |-> t, how |-> how]

VARIABLES ver, focus, batch, k, part, prov, verdicts, phase
vars == <<ver, focus, batch, k, part, prov, verdicts, phase>>

EvOf(it) == TemplatesC[it.t].ev
ViewOf(it, c) == IF it.how = "alt" THEN AltView(TemplatesC[it.t].st, c) ELSE TemplatesC[it.t].st
\* the components for which the item's own auth events hold a usable event
UsableOf(it, c) == LET all == NAnd(Needed(EvOf(it)), Present(ViewOf(it, c)))
                   IN IF it.how \in {"own", "alt"} THEN all ELSE NMinus(all, One(c))

EmptyProv == [st |-> BaseSt, has |-> NoneShape]

\* the partial state at the start: the room as the first item's template sees it, without the focus component
StartPart(b, c) == LET st == TemplatesC[b[1].t].st IN [st |-> st, has |-> NMinus(Present(st), One(c))]

Init == /\ ver \in Versions
        /\ focus \in CompNames
        /\ \E len \in 2..MaxBatch :
             batch \in { b \in [1..len -> {Item(t, h) : t \in TemplatesOf(focus), h \in Hows}] :
                             /\ b[1].how \in FirstHows
                             \* where the room ID names the create event there is ONE create event of the room, cited
                             \* by every event: it is usable for all items or for none
                             /\ (DomainlessRoomIDs(ver) /\ focus = "create") =>
                                    \A j \in 1..len : b[j].how # "alt" /\ b[j].how = b[1].how }
        /\ k = 1 /\ part = StartPart(batch, focus) /\ prov = EmptyProv
        /\ verdicts = <<>> /\ phase = "auth"

\* what the provider holds once it was (or was not) emptied and the partial state and the event's own usable auth events
\* were layered on: Clear (per event, or once per batch), then AddEvent per needed (type, state_key)
Loaded(it, j, p, pv) ==
    LET need == Needed(EvOf(it))
        base == IF ClearPer = "event" \/ j = 1 THEN EmptyProv ELSE pv
        fromPart == NAnd(need, p.has)
        fromOwn == NAnd(NMinus(need, p.has), UsableOf(it, focus))
        st1 == Merge(p.st, fromPart, base.st)
        st2 == Merge(ViewOf(it, focus), fromOwn, st1)
    IN [st |-> st2, has |-> NOr(base.has, NOr(fromPart, fromOwn))]

\* an allowed state event becomes part of the partial state
ApplyEv(p, ev) ==
    IF ev.skey = "none" THEN p
    ELSE CASE ev.type = "member" -> [st |-> [p.st EXCEPT !.mem[ev.target] = ev.membership],
                                     has |-> NOr(p.has, Shape(FALSE, FALSE, FALSE, {ev.target}, FALSE))]
           [] ev.type = "pl" /\ ev.skey = "empty" -> [st |-> [p.st EXCEPT !.pl = [present |-> TRUE, c |-> ev.newpl]],
                                                     has |-> NOr(p.has, One("pl"))]
           [] ev.type = "jr" /\ ev.skey = "empty" -> [st |-> [p.st EXCEPT !.jr = "public"], has |-> NOr(p.has, One("jr"))]
           [] OTHER -> p

\* one turn of the loop of authAndApplyEvents: load the provider, judge the event against it, apply it if allowed
AuthAndApply ==
    /\ phase = "auth" /\ k <= Len(batch)
    /\ LET ev == EvOf(batch[k])
           pv == Loaded(batch[k], k, part, prov)
           ok == Allowed(ver, RestrictTo(pv.st, pv.has), ev)
       IN /\ prov' = pv
          /\ verdicts' = Append(verdicts, ok)
          /\ part' = IF ok THEN ApplyEv(part, ev) ELSE part
    /\ k' = k + 1
    /\ phase' = IF k = Len(batch) THEN "done" ELSE "auth"
    /\ UNCHANGED <<ver, focus, batch>>

Next == AuthAndApply
Spec == Init /\ [][Next]_vars

\* ---- the property: over the history variable `verdicts` (and the scenario) only ----------------------------
\* the partial state before the j-th item: the start with every earlier ALLOWED item applied - a function of the verdicts
\* so far, not of the mechanics
RECURSIVE PartBefore(_)
PartBefore(j) == IF j = 1 THEN StartPart(batch, focus)
                 ELSE IF verdicts[j - 1] THEN ApplyEv(PartBefore(j - 1), EvOf(batch[j - 1])) ELSE PartBefore(j - 1)

\* the state an item is to be judged against, given the partial state before it: a function of those two alone
StateFor(p, it, c) ==
    LET need == Needed(EvOf(it))
        fromPart == NAnd(need, p.has)
        fromOwn == NAnd(NMinus(need, p.has), UsableOf(it, c))
    IN RestrictTo(Merge(ViewOf(it, c), fromOwn, Merge(p.st, fromPart, BaseSt)), NOr(fromPart, fromOwn))

BatchCoherent == phase = "done" => \A j \in 1..Len(verdicts) :
    verdicts[j] = Allowed(ver, StateFor(PartBefore(j), batch[j], focus), EvOf(batch[j]))

\* the ways of having no usable event are indistinguishable: the verdict of an item that lacks the focus does not depend
\* on its mode (two items, same template, different modes, same partial state => same verdict)
ModesAlike == phase = "done" => \A i, j \in 1..Len(verdicts) :
    (batch[i].t = batch[j].t /\ batch[i].how \in Modes /\ batch[j].how \in Modes /\ PartBefore(i) = PartBefore(j))
        => verdicts[i] = verdicts[j]

\* sanity of the templates: for every focus, some template's verdict differs between bringing the component and lacking
\* it (else emptying the provider late could not be observed)
BatchSane == \A c \in CompNames : \E v \in {"10", "12"}, t \in TemplatesOf(c) :
    LET s == TemplatesC[t] IN
    Allowed(v, RestrictTo(s.st, Needed(s.ev)), s.ev) # Allowed(v, RestrictTo(s.st, NMinus(Needed(s.ev), One(c))), s.ev)
ASSUME BatchSane
=============================================================================
