SPECIFICATION Spec
CONSTANTS
  Versions <- VersionsAll
  Family = "num"
  ShapeIds <- ShapesNum
  VariantIds <- Variants1
  MaxOps = 2
  Alphabet <- AlphabetQuick
  PreOps <- PreNone
  SibFields <- NoFields
  SidPairs <- NoSid
  TamperMax = 0
INVARIANTS TypeOK PIdStable PRoundTrip PRedactKeeps PV12 PBuildOrRefuse Emit
CHECK_DEADLOCK FALSE
