SPECIFICATION Spec
CONSTANTS
  Batches = {"b1", "b2"}
  Servers = {"s1", "s2"}
  Reqs <- AllReqs
  Behaviours = {"direct", "down", "flaky"}
  Cancellable = {"b1"}
  Coalesce = FALSE
INVARIANTS TypeOK LiveCallerGetsWhatTheServersAnswer NothingFromADeadServer OwnFetchesOnly TransientFaultHitsOneCaller NothingEarly
