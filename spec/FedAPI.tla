------------------------------- MODULE FedAPI -------------------------------
(***************************************************************************)
(* X03 (growth) - the outbound federation client end to end                *)
(* (fclient/federationclient.go, client.go, request.go, invitev2/3.go,     *)
(* relaytypes.go, federationtypes.go).                                     *)
(*                                                                         *)
(* A small protocol.  ONE call of the client API is                        *)
(*                                                                         *)
(*   Send      the caller composes a request from the row of the call      *)
(*             table (method, path template with typed parameter slots,    *)
(*             query parameters, JSON body or none, signed or not) and the *)
(*             identifiers it was given, signs it as the identity chosen   *)
(*             by the `origin` argument and puts it on the wire            *)
(*   Deliver   the network hands it to the listener that server-name       *)
(*             resolution yields for the destination (or refuses)          *)
(*             the receiving server (a) cuts the request target at the     *)
(*             first "?", splits the path at "/" and percent-decodes every *)
(*             segment, splits the query at "&" / "=" and decodes it,      *)
(*             (b) matches the segments against ALL routes of the table,   *)
(*             (c) rebuilds the signed object from what it received and    *)
(*             verifies it, (d) answers from a small set of responses      *)
(*   Return    the caller turns the answer into (result, error); after a   *)
(*             404 on an endpoint that has an older variant it sends the   *)
(*             older variant (second Send)                                 *)
(*                                                                         *)
(* The call table is written from the Matrix server-server API (and, for   *)
(* the unstable / Dendrite-only endpoints, from the MSC / the doc comment  *)
(* that names the endpoint), NOT from the format strings of the code.      *)
(*                                                                         *)
(* Identifiers are BYTE sequences over a small alphabet: "a" "b" "c" "d"   *)
(* stand for runs of unreserved characters, "L" for a very long run, the   *)
(* characters "/" "?" "#" "%" "&" "=" "+" " " for themselves, "xC3" "xA9"  *)
(* for the two bytes of a non-ASCII character, "4" "1" for two hex digits  *)
(* (so that <<"%","4","1">> is the text %41), "!" "$" "@" "#" ":" for the  *)
(* sigils and "dom" for a domain.  The wire is a sequence of raw           *)
(* characters; literal path segments and parameter names are single        *)
(* tokens ("federation", "event_id").                                      *)
(*                                                                         *)
(* The properties (P1 .. P4 below) are stated over history variables and   *)
(* do not mention how the sender encodes: any sender whose requests make   *)
(* the receiver recover the right things satisfies them.  The constant     *)
(* Fault plants a defect into the model sender; every fault must violate   *)
(* the invariant checks/x03.py names for it (all in the thorough tier, two  *)
(* per run in the quick tier).                                             *)
(***************************************************************************)
EXTENDS Integers, Sequences, FiniteSets, TLC

CONSTANTS CallSet,     \* calls explored (subset of CallNames)
          ClassSet,    \* identifier classes explored
          RespSet,     \* answers to the first request
          Resp2Set,    \* answers to the request sent after a 404 (older endpoint variant)
          OrigSet,     \* which identity the `origin` argument names: "A" first, "B" second, "U" none of the client's
          ResSet,      \* how the destination's server name resolves
          Budget,      \* deviations from the base scenario per record
          PairBonus,   \* two slots carrying "/" or "?" at once cost 2 - PairBonus
          Fault        \* "none" or a planted defect of the model sender

\* ------------------------------------------------------------------ bytes
ClassBody(c) ==
    CASE c = "plain"    -> <<"a", "b">>
      [] c = "slash"    -> <<"a", "/", "b">>
      [] c = "qmark"    -> <<"a", "?", "b">>
      [] c = "hash"     -> <<"a", "#", "b">>
      [] c = "pct"      -> <<"a", "%", "4", "1">>
      [] c = "amp"      -> <<"a", "&", "b", "=", "c">>
      [] c = "plus"     -> <<"a", "+", "b">>
      [] c = "space"    -> <<"a", " ", "b">>
      [] c = "nonascii" -> <<"a", "xC3", "xA9">>
      [] c = "b64"      -> <<"a", "/", "b", "+", "c">>    \* an event ID of room version 3: standard base64
      [] c = "long"     -> <<"a", "L", "b">>
      [] c = "empty"    -> <<>>
AllClasses == {"plain", "slash", "qmark", "hash", "pct", "amp", "plus", "space", "nonascii", "b64", "long", "empty"}

Hex(b) ==
    CASE b = "/" -> <<"2", "F">> [] b = "?" -> <<"3", "F">> [] b = "#" -> <<"2", "3">> [] b = "%" -> <<"2", "5">>
      [] b = "&" -> <<"2", "6">> [] b = "=" -> <<"3", "D">> [] b = "+" -> <<"2", "B">> [] b = " " -> <<"2", "0">>
      [] b = "xC3" -> <<"C", "3">> [] b = "xA9" -> <<"A", "9">>
      [] b = "a" -> <<"6", "1">> [] b = "b" -> <<"6", "2">> [] b = "c" -> <<"6", "3">> [] b = "d" -> <<"6", "4">>
      [] b = "A" -> <<"4", "1">> [] b = "!" -> <<"2", "1">> [] b = "$" -> <<"2", "4">> [] b = "@" -> <<"4", "0">>
      [] b = ":" -> <<"3", "A">>
HexKnown == {"/", "?", "#", "%", "&", "=", "+", " ", "xC3", "xA9", "a", "b", "c", "d", "A", "!", "$", "@", ":"}
Unhex(h1, h2) == LET m == {x \in HexKnown : Hex(x) = <<h1, h2>>} IN IF m = {} THEN "BAD" ELSE CHOOSE x \in m : TRUE

\* What a sender MUST escape.  "Decod": otherwise the receiver's splitting / decoding yields something else;
\* "Legal": not allowed raw in a request target at all (RFC 3986 / RFC 7230).
PathDecod  == {"/", "?", "#", "%"}
QueryDecod == {"&", "#", "%", "+"}
Illegal    == {" ", "xC3", "xA9"}
PathMust   == PathDecod \cup Illegal
QueryMust  == QueryDecod \cup Illegal
\* what a sender MAY escape in addition (every escape decodes to the byte it stands for)
PathMay    == {"a", "b", "c", "d", "!", "$", "@", ":", "&", "=", "+"}
QueryMay   == {"a", "b", "c", "d", "!", "$", "@", ":", "=", "/", "?"}

RECURSIVE Enc(_, _)
Enc(s, esc) == IF s = <<>> THEN <<>>
               ELSE (IF Head(s) \in esc THEN <<"%">> \o Hex(Head(s)) ELSE <<Head(s)>>) \o Enc(Tail(s), esc)

RECURSIVE Dec(_, _)
Dec(s, plusIsSpace) ==
    IF s = <<>> THEN <<>>
    ELSE IF Head(s) = "%" THEN (IF Len(s) >= 3 THEN <<Unhex(s[2], s[3])>> \o Dec(SubSeq(s, 4, Len(s)), plusIsSpace)
                                ELSE <<"BAD">>)
    ELSE IF plusIsSpace /\ Head(s) = "+" THEN <<" ">> \o Dec(Tail(s), plusIsSpace)
    ELSE <<Head(s)>> \o Dec(Tail(s), plusIsSpace)

RECURSIVE SplitAt(_, _)
SplitAt(s, sep) ==      \* <<a,/,b>> -> << <<a>>, <<b>> >>   ;   <<>> -> << <<>> >>
    IF s = <<>> THEN << <<>> >>
    ELSE LET r == SplitAt(Tail(s), sep) IN
         IF Head(s) = sep THEN << <<>> >> \o r ELSE << <<Head(s)>> \o Head(r) >> \o Tail(r)

HasCh(s, c) == \E i \in DOMAIN s : s[i] = c
FirstPos(s, c) == CHOOSE i \in DOMAIN s : s[i] = c /\ \A j \in 1..(i - 1) : s[j] # c
Before(s, c) == IF HasCh(s, c) THEN SubSeq(s, 1, FirstPos(s, c) - 1) ELSE s
After(s, c)  == IF HasCh(s, c) THEN SubSeq(s, FirstPos(s, c) + 1, Len(s)) ELSE <<>>

RECURSIVE Flat(_)
Flat(ss) == IF ss = <<>> THEN <<>> ELSE Head(ss) \o Flat(Tail(ss))
RECURSIVE Join(_, _)
Join(ss, sep) == IF ss = <<>> THEN <<>> ELSE IF Len(ss) = 1 THEN Head(ss) ELSE Head(ss) \o <<sep>> \o Join(Tail(ss), sep)

\* ------------------------------------------------------------- call table
L(s) == [k |-> "lit", v |-> s]          \* literal segment
P(s) == [k |-> "par", v |-> s]          \* parameter slot
DST  == [k |-> "dst", v |-> ""]         \* the destination's server name (client-server media endpoint)
Fed(ver) == <<L("_matrix"), L("federation"), L(ver)>>
\* query parameter: k = "par" (slot v; one name=value per element), "const" (value v), "flag" (the boolean
\* argument of the call), "vers" (one per room version the sender supports), "int" (an integer argument);
\* dflt # "" : the value the API defines for an absent parameter (sending it or leaving it out is the same)
Q(n, k, v, d) == [n |-> n, k |-> k, v |-> v, dflt |-> d]
\* slot: type t, carried in the path / query / body, list-valued?, optional (may be empty)?
S(n, t, car, list, opt) == [n |-> n, t |-> t, car |-> car, list |-> list, opt |-> opt]
Row(m, path, q, body, signed, resp, fb, slots, flag) ==
    [m |-> m, path |-> path, q |-> q, body |-> body, signed |-> signed, resp |-> resp, fb |-> fb, slots |-> slots, flag |-> flag]

Room  == S("roomId", "room", "path", FALSE, FALSE)
UserP == S("userId", "user", "path", FALSE, FALSE)
EvP   == S("eventId", "event", "path", FALSE, FALSE)
EvQ   == S("eventId", "event", "query", FALSE, FALSE)
NoQ   == <<>>

CallNames == {"SendTransaction", "GetEvent", "GetEventAuth", "LookupState", "LookupStateIDs", "LookupMissingEvents",
              "MakeJoin", "SendJoin", "SendJoinPartialState", "MakeLeave", "SendLeave", "SendInvite", "SendInviteV2",
              "SendInviteV3", "MakeKnock", "SendKnock", "Peek", "Backfill", "GetUserDevices", "ClaimKeys", "QueryKeys",
              "LookupProfile", "LookupRoomAlias", "GetPublicRooms", "GetPublicRoomsFiltered", "ExchangeThirdPartyInvite",
              "MSC2836EventRelationships", "RoomHierarchy", "GetServerKeys", "LookupServerKeys", "GetVersion",
              "P2PSendTransactionToRelay", "P2PGetTransactionFromRelay", "DownloadMedia", "LookupUserInfo",
              "CreateMediaDownloadRequest"}

TableRow(c) ==
    CASE c = "SendTransaction" ->          \* PUT /_matrix/federation/v1/send/{txnId}
           Row("PUT", Fed("v1") \o <<L("send"), P("txnId")>>, NoQ, "json", TRUE, "send", "none",
               <<S("txnId", "txn", "path", FALSE, FALSE)>>, FALSE)
      [] c = "GetEvent" ->                 \* GET /_matrix/federation/v1/event/{eventId}
           Row("GET", Fed("v1") \o <<L("event"), P("eventId")>>, NoQ, "none", TRUE, "txn", "none", <<EvP>>, FALSE)
      [] c = "GetEventAuth" ->             \* GET /_matrix/federation/v1/event_auth/{roomId}/{eventId}
           Row("GET", Fed("v1") \o <<L("event_auth"), P("roomId"), P("eventId")>>, NoQ, "none", TRUE, "eventauth", "none",
               <<Room, EvP>>, FALSE)
      [] c = "LookupState" ->              \* GET /_matrix/federation/v1/state/{roomId}?event_id=
           Row("GET", Fed("v1") \o <<L("state"), P("roomId")>>, <<Q("event_id", "par", "eventId", "")>>, "none", TRUE,
               "state", "none", <<Room, EvQ>>, FALSE)
      [] c = "LookupStateIDs" ->           \* GET /_matrix/federation/v1/state_ids/{roomId}?event_id=
           Row("GET", Fed("v1") \o <<L("state_ids"), P("roomId")>>, <<Q("event_id", "par", "eventId", "")>>, "none", TRUE,
               "stateids", "none", <<Room, EvQ>>, FALSE)
      [] c = "LookupMissingEvents" ->      \* POST /_matrix/federation/v1/get_missing_events/{roomId}
           Row("POST", Fed("v1") \o <<L("get_missing_events"), P("roomId")>>, NoQ, "json", TRUE, "missing", "none",
               <<Room, S("earliest", "event", "body", TRUE, FALSE), S("latest", "event", "body", TRUE, FALSE)>>, FALSE)
      [] c = "MakeJoin" ->                 \* GET /_matrix/federation/v1/make_join/{roomId}/{userId}?ver=..
           Row("GET", Fed("v1") \o <<L("make_join"), P("roomId"), P("userId")>>, <<Q("ver", "vers", "", "")>>, "none", TRUE,
               "makejoin", "none", <<Room, UserP>>, FALSE)
      [] c = "SendJoin" ->                 \* PUT /_matrix/federation/v2/send_join/{roomId}/{eventId}  (omit_members defaults to false)
           Row("PUT", Fed("v2") \o <<L("send_join"), P("roomId"), P("eventId")>>, <<Q("omit_members", "const", "false", "false")>>,
               "json", TRUE, "sendjoin", "v1", <<Room, EvP>>, FALSE)
      [] c = "SendJoinPartialState" ->     \* PUT /_matrix/federation/v2/send_join/{roomId}/{eventId}?omit_members=true
           Row("PUT", Fed("v2") \o <<L("send_join"), P("roomId"), P("eventId")>>, <<Q("omit_members", "const", "true", "false")>>,
               "json", TRUE, "sendjoin", "v1", <<Room, EvP>>, FALSE)
      [] c = "MakeLeave" ->                \* GET /_matrix/federation/v1/make_leave/{roomId}/{userId}
           Row("GET", Fed("v1") \o <<L("make_leave"), P("roomId"), P("userId")>>, NoQ, "none", TRUE, "makeleave", "none",
               <<Room, UserP>>, FALSE)
      [] c = "SendLeave" ->                \* PUT /_matrix/federation/v2/send_leave/{roomId}/{eventId}
           Row("PUT", Fed("v2") \o <<L("send_leave"), P("roomId"), P("eventId")>>, NoQ, "json", TRUE, "empty", "v1",
               <<Room, EvP>>, FALSE)
      [] c = "SendInvite" ->               \* PUT /_matrix/federation/v1/invite/{roomId}/{eventId}
           Row("PUT", Fed("v1") \o <<L("invite"), P("roomId"), P("eventId")>>, NoQ, "json", TRUE, "invitev1", "none",
               <<Room, EvP>>, FALSE)
      [] c = "SendInviteV2" ->             \* PUT /_matrix/federation/v2/invite/{roomId}/{eventId}
           Row("PUT", Fed("v2") \o <<L("invite"), P("roomId"), P("eventId")>>, NoQ, "json", TRUE, "invitev2", "v1",
               <<Room, EvP>>, FALSE)
      [] c = "SendInviteV3" ->             \* PUT /_matrix/federation/v3/invite/{roomId}/{userId}   (pseudo-ID rooms; doc comment)
           Row("PUT", Fed("v3") \o <<L("invite"), P("roomId"), P("userId")>>, NoQ, "json", TRUE, "invitev2", "none",
               <<Room, UserP>>, FALSE)
      [] c = "MakeKnock" ->                \* GET /_matrix/federation/v1/make_knock/{roomId}/{userId}?ver=..
           Row("GET", Fed("v1") \o <<L("make_knock"), P("roomId"), P("userId")>>, <<Q("ver", "par", "vers", "")>>, "none", TRUE,
               "makeknock", "none", <<Room, UserP, S("vers", "ver", "query", TRUE, FALSE)>>, FALSE)
      [] c = "SendKnock" ->                \* PUT /_matrix/federation/v1/send_knock/{roomId}/{eventId}
           Row("PUT", Fed("v1") \o <<L("send_knock"), P("roomId"), P("eventId")>>, NoQ, "json", TRUE, "sendknock", "none",
               <<Room, EvP>>, FALSE)
      [] c = "Peek" ->                     \* PUT /_matrix/federation/v1/peek/{roomId}/{peekId}?ver=..   (MSC2753)
           Row("PUT", Fed("v1") \o <<L("peek"), P("roomId"), P("peekId")>>, <<Q("ver", "par", "vers", "")>>, "json", TRUE,
               "peek", "none", <<Room, S("peekId", "opaque", "path", FALSE, FALSE), S("vers", "ver", "query", TRUE, FALSE)>>, FALSE)
      [] c = "Backfill" ->                 \* GET /_matrix/federation/v1/backfill/{roomId}?v=..&limit=
           Row("GET", Fed("v1") \o <<L("backfill"), P("roomId")>>, <<Q("v", "par", "from", ""), Q("limit", "int", "", "")>>,
               "none", TRUE, "txn", "none", <<Room, S("from", "event", "query", TRUE, FALSE)>>, FALSE)
      [] c = "GetUserDevices" ->           \* GET /_matrix/federation/v1/user/devices/{userId}
           Row("GET", Fed("v1") \o <<L("user"), L("devices"), P("userId")>>, NoQ, "none", TRUE, "devices", "none", <<UserP>>, FALSE)
      [] c = "ClaimKeys" ->                \* POST /_matrix/federation/v1/user/keys/claim
           Row("POST", Fed("v1") \o <<L("user"), L("keys"), L("claim")>>, NoQ, "json", TRUE, "claim", "none",
               <<S("user", "user", "body", FALSE, FALSE), S("device", "opaque", "body", FALSE, FALSE)>>, FALSE)
      [] c = "QueryKeys" ->                \* POST /_matrix/federation/v1/user/keys/query
           Row("POST", Fed("v1") \o <<L("user"), L("keys"), L("query")>>, NoQ, "json", TRUE, "querykeys", "none",
               <<S("user", "user", "body", FALSE, FALSE), S("devices", "opaque", "body", TRUE, FALSE)>>, FALSE)
      [] c = "LookupProfile" ->            \* GET /_matrix/federation/v1/query/profile?user_id=&field=
           Row("GET", Fed("v1") \o <<L("query"), L("profile")>>,
               <<Q("user_id", "par", "userId", ""), Q("field", "par", "field", "")>>, "none", TRUE, "profile", "none",
               <<S("userId", "user", "query", FALSE, FALSE), S("field", "opaque", "query", FALSE, TRUE)>>, FALSE)
      [] c = "LookupRoomAlias" ->          \* GET /_matrix/federation/v1/query/directory?room_alias=
           Row("GET", Fed("v1") \o <<L("query"), L("directory")>>, <<Q("room_alias", "par", "alias", "")>>, "none", TRUE,
               "directory", "none", <<S("alias", "alias", "query", FALSE, FALSE)>>, FALSE)
      [] c = "GetPublicRooms" ->           \* GET or POST /_matrix/federation/v1/publicRooms (same parameters, query or body)
           Row("GET|POST", Fed("v1") \o <<L("publicRooms")>>, NoQ, "json", TRUE, "publicrooms", "none",
               <<S("since", "opaque", "body", FALSE, TRUE), S("tpid", "opaque", "body", FALSE, TRUE)>>, TRUE)
      [] c = "GetPublicRoomsFiltered" ->   \* POST /_matrix/federation/v1/publicRooms
           Row("POST", Fed("v1") \o <<L("publicRooms")>>, NoQ, "json", TRUE, "publicrooms", "none",
               <<S("since", "opaque", "body", FALSE, TRUE), S("tpid", "opaque", "body", FALSE, TRUE),
                 S("filter", "opaque", "body", FALSE, TRUE)>>, TRUE)
      [] c = "ExchangeThirdPartyInvite" -> \* PUT /_matrix/federation/v1/exchange_third_party_invite/{roomId}
           Row("PUT", Fed("v1") \o <<L("exchange_third_party_invite"), P("roomId")>>, NoQ, "json", TRUE, "empty", "none",
               <<Room>>, FALSE)
      [] c = "MSC2836EventRelationships" -> \* POST /_matrix/federation/unstable/event_relationships   (MSC2836)
           Row("POST", <<L("_matrix"), L("federation"), L("unstable"), L("event_relationships")>>, NoQ, "json", TRUE, "msc2836",
               "none", <<S("eventId", "event", "body", FALSE, FALSE), S("batch", "opaque", "body", FALSE, TRUE)>>, FALSE)
      [] c = "RoomHierarchy" ->            \* GET /_matrix/federation/v1/hierarchy/{roomId}?suggested_only=
           Row("GET", Fed("v1") \o <<L("hierarchy"), P("roomId")>>, <<Q("suggested_only", "flag", "", "false")>>, "none", TRUE,
               "hierarchy", "msc2946", <<Room>>, TRUE)
      [] c = "GetServerKeys" ->            \* GET /_matrix/key/v2/server
           Row("GET", <<L("_matrix"), L("key"), L("v2"), L("server")>>, NoQ, "none", FALSE, "serverkeys", "none", <<>>, FALSE)
      [] c = "LookupServerKeys" ->         \* POST /_matrix/key/v2/query
           Row("POST", <<L("_matrix"), L("key"), L("v2"), L("query")>>, NoQ, "json", FALSE, "keyquery", "none",
               <<S("keyId", "opaque", "body", FALSE, TRUE)>>, FALSE)
      [] c = "GetVersion" ->               \* GET /_matrix/federation/v1/version
           Row("GET", Fed("v1") \o <<L("version")>>, NoQ, "none", FALSE, "version", "none", <<>>, FALSE)
      [] c = "P2PSendTransactionToRelay" -> \* PUT /_matrix/federation/v1/send_relay/{txnId}/{userId}   (doc comment, relaytypes.go)
           Row("PUT", Fed("v1") \o <<L("send_relay"), P("txnId"), P("userId")>>, NoQ, "json", TRUE, "empty", "none",
               <<S("txnId", "txn", "path", FALSE, FALSE), UserP>>, FALSE)
      [] c = "P2PGetTransactionFromRelay" -> \* GET /_matrix/federation/v1/relay_txn/{userId} with a body   (doc comment, relaytypes.go)
           Row("GET", Fed("v1") \o <<L("relay_txn"), P("userId")>>, NoQ, "json", TRUE, "relaytxn", "none", <<UserP>>, FALSE)
      [] c = "DownloadMedia" ->            \* GET /_matrix/federation/v1/media/download/{mediaId}
           Row("GET", Fed("v1") \o <<L("media"), L("download"), P("mediaId")>>, NoQ, "none", TRUE, "raw", "none",
               <<S("mediaId", "opaque", "path", FALSE, FALSE)>>, FALSE)
      [] c = "LookupUserInfo" ->           \* GET /_matrix/federation/v1/openid/userinfo?access_token=
           Row("GET", Fed("v1") \o <<L("openid"), L("userinfo")>>, <<Q("access_token", "par", "token", "")>>, "none", FALSE,
               "userinfo", "none", <<S("token", "opaque", "query", FALSE, FALSE)>>, FALSE)
      [] c = "CreateMediaDownloadRequest" -> \* GET /_matrix/media/v3/download/{serverName}/{mediaId}?allow_remote=false
           Row("GET", <<L("_matrix"), L("media"), L("v3"), L("download"), DST, P("mediaId")>>,
               <<Q("allow_remote", "const", "false", "true")>>, "none", FALSE, "raw", "none",
               <<S("mediaId", "opaque", "path", FALSE, FALSE)>>, FALSE)

Table == [c \in CallNames |-> TableRow(c)]

\* the older / unstable variant requested after a 404 (same slots, same body, same signing)
FallbackRow(c) ==
    LET r == Table[c] IN
    CASE c \in {"SendJoin", "SendJoinPartialState"} ->    \* PUT /_matrix/federation/v1/send_join/..   answers [200, {..}]
           [r EXCEPT !.path = Fed("v1") \o <<L("send_join"), P("roomId"), P("eventId")>>, !.q = NoQ, !.resp = "sendjoinv1", !.fb = "none"]
      [] c = "SendLeave" ->                                \* PUT /_matrix/federation/v1/send_leave/..  answers [200, {}]
           [r EXCEPT !.path = Fed("v1") \o <<L("send_leave"), P("roomId"), P("eventId")>>, !.resp = "emptyv1", !.fb = "none"]
      [] c = "SendInviteV2" ->                             \* PUT /_matrix/federation/v1/invite/..      answers [200, {event}]
           [r EXCEPT !.path = Fed("v1") \o <<L("invite"), P("roomId"), P("eventId")>>, !.resp = "invitev1", !.fb = "none"]
      [] c = "RoomHierarchy" ->                            \* GET /_matrix/federation/unstable/org.matrix.msc2946/hierarchy/{roomId}
           [r EXCEPT !.path = <<L("_matrix"), L("federation"), L("unstable"), L("org.matrix.msc2946"), L("hierarchy"), P("roomId")>>,
                     !.fb = "none"]
HasFallback(c) == Table[c].fb # "none"

\* calls that hand the raw HTTP response to the caller, and the call whose errors are not typed
RawCalls == {"DownloadMedia", "CreateMediaDownloadRequest"}
ErrType(c) == IF c = "LookupUserInfo" THEN "plain" ELSE "http"

\* A route of the receiving server is an endpoint: (method, path template).  Several calls share one (SendJoin and
\* SendJoinPartialState; the two publicRooms calls; SendInvite and the older variant of SendInviteV2).
MethodsOf(m) == IF m = "GET|POST" THEN {"GET", "POST"} ELSE {m}
RouteKeys(row) == {[m |-> mm, path |-> row.path] : mm \in MethodsOf(row.m)}
Routes == UNION ({RouteKeys(Table[c]) : c \in CallNames}
          \cup {RouteKeys(FallbackRow(c)) : c \in {x \in CallNames : HasFallback(x)}})

\* ---------------------------------------------------------------- identifiers
SlotNames(c) == {Table[c].slots[i].n : i \in DOMAIN Table[c].slots}
SlotOf(c, n) == CHOOSE s \in {Table[c].slots[i] : i \in DOMAIN Table[c].slots} : s.n = n

\* which classes a slot admits (Matrix identifier grammar; for "txn" the documented contract of the library:
\* "The ID must be safe to insert into a URL path segment")
Admits(s, c) ==
    /\ c = "empty" => (s.list \/ s.opt)
    /\ s.t = "txn" => c \in {"plain", "long"}
    /\ s.t = "ver" => c \in {"plain", "empty"}

Ident(t, body) ==
    CASE t = "room"  -> <<"!">> \o body \o <<":", "dom">>
      [] t = "user"  -> <<"@">> \o body \o <<":", "dom">>
      [] t = "alias" -> <<"#">> \o body \o <<":", "dom">>
      [] t = "event" -> <<"$">> \o body
      [] OTHER       -> body
\* the value of a slot: a list of identifiers (one element for a scalar)
Val(s, c) == IF s.list THEN (IF c = "empty" THEN <<>> ELSE <<Ident(s.t, ClassBody(c)), Ident(s.t, <<"c", "d">>)>>)
             ELSE IF c = "empty" THEN << <<>> >> ELSE <<Ident(s.t, ClassBody(c))>>
Vals(c, cls) == [n \in SlotNames(c) |-> Val(SlotOf(c, n), cls[n])]

SupportedVers == << <<"v1">>, <<"v2">> >>      \* the room versions the sender supports (tokens)

\* ---------------------------------------------------------------- the sender
PathEsc  == IF Fault = "noesc_path_slash" THEN PathMust \ {"/"}
            ELSE IF Fault = "noesc_path_pct" THEN PathMust \ {"%"} ELSE PathMust
QueryEsc == IF Fault = "noesc_query_amp" THEN QueryMust \ {"&"}
            ELSE IF Fault = "noesc_query_plus" THEN QueryMust \ {"+"} ELSE QueryMust

BoolStr(b) == IF b THEN "true" ELSE "false"

PathChars(row, vals) ==
    Flat([i \in DOMAIN row.path |->
            <<"/">> \o (CASE row.path[i].k = "lit" -> <<row.path[i].v>>
                          [] row.path[i].k = "dst" -> <<"D">>
                          [] row.path[i].k = "par" -> Enc(vals[row.path[i].v][1], PathEsc))])

\* the name=value items of one query parameter
QItems(qr, vals, flag) ==
    CASE qr.k = "par"   -> LET v == vals[qr.v] IN
                           IF v = << <<>> >> THEN <<>>      \* an optional parameter that is empty is left out
                           ELSE [i \in DOMAIN v |-> <<qr.n, "=">> \o Enc(v[i], QueryEsc)]
      [] qr.k = "const" -> IF qr.v = qr.dflt THEN <<>> ELSE << <<qr.n, "=", qr.v>> >>
      [] qr.k = "flag"  -> IF BoolStr(flag) = qr.dflt THEN <<>> ELSE << <<qr.n, "=", BoolStr(flag)>> >>
      [] qr.k = "vers"  -> [i \in DOMAIN SupportedVers |-> <<qr.n, "=">> \o SupportedVers[i]]
      [] qr.k = "int"   -> << <<qr.n, "=", "N">> >>
QueryChars(row, vals, flag) ==
    LET items == Flat([i \in DOMAIN row.q |-> QItems(row.q[i], vals, flag)]) IN
    IF items = <<>> THEN <<>> ELSE <<"?">> \o Join(items, "&")

BodySlots(row) == {row.slots[i].n : i \in {j \in DOMAIN row.slots : row.slots[j].car = "body"}}
NoBody == [present |-> FALSE, params |-> <<>>]
BodyOf(row, vals) == IF row.body = "json" THEN [present |-> TRUE, params |-> [n \in BodySlots(row) |-> vals[n]]] ELSE NoBody

NoAuth == [present |-> FALSE, origin |-> "", dest |-> "", covers |-> [m |-> "", uri |-> <<>>, o |-> "", d |-> "", body |-> NoBody]]

VARIABLES phase,   \* "call" "net" "ret" "done"
          scen,    \* the scenario (history: what the caller was asked to do)
          wire,    \* history: the requests put on the wire, in order
          rlog,    \* history: what the receiving server made of every delivered request
          out      \* the caller's outcome
vars == <<phase, scen, wire, rlog, out>>

Cur == Len(wire)                                  \* number of requests sent so far
RowNow(n) == IF n = 1 THEN Table[scen.call] ELSE FallbackRow(scen.call)
RouteNow(n) == IF n = 1 THEN scen.call ELSE scen.call \o "#fb"
AnswerNow(n) == IF n = 1 THEN scen.resp ELSE scen.resp2
TheVals == Vals(scen.call, scen.cls)

\* Method the model sender uses where the API offers two
MethodOf(row) == IF row.m = "GET|POST" THEN "POST" ELSE row.m

\* ------------------------------------------------------------ resolution
\* where a request for server name D must go, per way of resolving D (Matrix server-server API, "Resolving
\* server names"): the listener, the Host header, the TLS server name
Resolve(mode) ==
    CASE mode = "port" -> [listener |-> "D", host |-> "D+port", sni |-> "D"]          \* name with explicit port
      [] mode = "ip"   -> [listener |-> "I", host |-> "I+port", sni |-> "none"]       \* IP literal with port
      [] mode = "wk"   -> [listener |-> "W", host |-> "W+port", sni |-> "W"]          \* well-known delegates to W:port
      [] mode = "srv"  -> [listener |-> "T", host |-> "D", sni |-> "D"]               \* SRV record points to T:port

SignAs == IF Fault = "sign_first" THEN "A" ELSE scen.orig

Send ==
    /\ phase = "call"
    /\ ~(Table[scen.call].signed /\ scen.orig = "U")
    /\ LET n == Cur + 1
           row == RowNow(n)
           target == PathChars(row, TheVals) \o QueryChars(row, TheVals, scen.flag)
           body == BodyOf(row, TheVals)
           signedURI == IF Fault = "sign_path_only" THEN Before(target, "?") ELSE target
           auth == IF row.signed \/ Fault = "auth_on_unsigned"
                   THEN [present |-> TRUE, origin |-> SignAs, dest |-> "D",
                         covers |-> [m |-> MethodOf(row), uri |-> signedURI, o |-> SignAs, d |-> "D", body |-> body]]
                   ELSE NoAuth
           to == IF Fault = "no_resolve" THEN [listener |-> "D8448", host |-> "D", sni |-> "D"] ELSE Resolve(scen.res)
       IN wire' = Append(wire, [m |-> MethodOf(row), target |-> target, body |-> body, auth |-> auth, to |-> to])
    /\ phase' = "net"
    /\ UNCHANGED <<scen, rlog, out>>

\* no identity for the origin named by the caller: nothing is sent
NoIdentity ==
    /\ phase = "call"
    /\ Table[scen.call].signed /\ scen.orig = "U"
    /\ IF Fault = "unknown_origin_sends"
       THEN /\ wire' = Append(wire, [m |-> MethodOf(RowNow(1)), target |-> PathChars(RowNow(1), TheVals), body |-> NoBody,
                                     auth |-> NoAuth, to |-> Resolve(scen.res)])
       ELSE UNCHANGED wire
    /\ out' = [err |-> "noident", code |-> 0, mx |-> FALSE, result |-> "zero"]
    /\ phase' = "done"
    /\ UNCHANGED <<scen, rlog>>

\* ---------------------------------------------------------------- the receiver
Matches(row, m, segs) ==
    /\ m = row.m
    /\ Len(segs) = Len(row.path)
    /\ \A i \in DOMAIN row.path :
          CASE row.path[i].k = "lit" -> segs[i] = <<row.path[i].v>>
            [] row.path[i].k = "dst" -> segs[i] = <<"D">>
            [] OTHER -> TRUE

QPairs(rawq) == IF rawq = <<>> THEN <<>>
                ELSE LET items == SplitAt(rawq, "&") IN
                     [i \in DOMAIN items |-> [n |-> Dec(Before(items[i], "="), TRUE), v |-> Dec(After(items[i], "="), TRUE)]]
QValues(pairs, name) == LET idx == {i \in DOMAIN pairs : pairs[i].n = <<name>>} IN
                        [j \in 1..Cardinality(idx) |-> pairs[CHOOSE i \in idx : Cardinality({x \in idx : x < i}) = j - 1].v]

Receive(req) ==
    LET t == Before(req.target, "#")                    \* a fragment never leaves the sender
        rawp == Before(t, "?")
        rawq == After(t, "?")
        segs0 == SplitAt(rawp, "/")
        segs == [i \in 1..(Len(segs0) - 1) |-> Dec(segs0[i + 1], FALSE)]      \* the path starts with "/"
        pairs == QPairs(rawq)
        routes == {r \in Routes : Matches(r, req.m, segs)}
        verified == /\ req.auth.present
                    /\ req.auth.dest = "D"
                    /\ req.auth.origin \in {"A", "B"}          \* the origins whose keys the receiver can obtain
                    /\ req.auth.covers = [m |-> req.m, uri |-> t, o |-> req.auth.origin, d |-> req.auth.dest, body |-> req.body]
    IN [m |-> req.m, segs |-> segs, pairs |-> pairs, routes |-> routes, body |-> req.body,
        authpresent |-> req.auth.present, verified |-> verified, origin |-> req.auth.origin, at |-> req.to]

Deliver ==
    /\ phase = "net"
    /\ IF AnswerNow(Cur) = "refused" THEN UNCHANGED rlog
       ELSE rlog' = Append(rlog, Receive(wire[Cur]))
    /\ phase' = "ret"
    /\ UNCHANGED <<scen, wire, out>>

\* ---------------------------------------------------------------- the caller's outcome
Malformed == {"trunc", "notjson", "wrongtop", "emptybody"}
Outcome(c, ans) ==
    IF ans = "refused" THEN [err |-> "conn", code |-> 0, mx |-> FALSE, result |-> "zero"]
    ELSE IF c \in RawCalls THEN      \* the response is the result, whatever its status (the caller inspects it)
         [err |-> "none", code |-> (CASE ans = "e403" -> 403 [] ans = "e404" -> 404 [] ans = "e500" -> 500 [] OTHER -> 200),
          mx |-> FALSE, result |-> "raw"]
    ELSE IF ans = "ok" THEN [err |-> "none", code |-> 200, mx |-> FALSE,
                             result |-> IF Fault = "drop_result" THEN "zero" ELSE "populated"]
    ELSE IF ans \in Malformed THEN [err |-> "decode", code |-> 200, mx |-> FALSE, result |-> "any"]
    ELSE LET code == CASE ans = "e403" -> 403 [] ans = "e404" -> 404 [] ans = "e500" -> 500 IN
         IF ErrType(c) = "plain" THEN [err |-> "plain", code |-> code, mx |-> FALSE, result |-> "zero"]
         ELSE [err |-> "http", code |-> code, mx |-> ans # "e500",
               result |-> IF Fault = "populate_on_error" THEN "populated" ELSE "zero"]

Return ==
    /\ phase = "ret"
    /\ IF Cur = 1 /\ AnswerNow(1) = "e404" /\ HasFallback(scen.call) /\ Fault # "no_fallback"
       THEN phase' = "call" /\ UNCHANGED out
       ELSE phase' = "done" /\ out' = Outcome(scen.call, AnswerNow(Cur))
    /\ UNCHANGED <<scen, wire, rlog>>

\* ---------------------------------------------------------------- scenarios
NonPlain(cls) == Cardinality({n \in DOMAIN cls : cls[n] # "plain"})
SlotCost(cls) == LET n == NonPlain(cls) IN
                 IF n = 2 /\ \A x \in DOMAIN cls : cls[x] \in {"plain", "slash", "qmark"} THEN n - PairBonus ELSE n
Cost(s) == SlotCost(s.cls)
         + (IF s.resp = "ok" THEN 0 ELSE 1) + (IF s.resp2 \in {"ok", "na"} THEN 0 ELSE 1)
         + (IF s.orig \in {"A", "na"} THEN 0 ELSE 1) + (IF s.res = "port" THEN 0 ELSE 1)

ScenOf(c) ==
    LET row == Table[c]
        clss == {f \in [SlotNames(c) -> ClassSet] :
                    /\ \A n \in SlotNames(c) : Admits(SlotOf(c, n), f[n])
                    /\ SlotCost(f) <= Budget}
    IN UNION {
         { s \in [call : {c}, cls : {f},
                  flag : (IF row.flag THEN BOOLEAN ELSE {FALSE}),
                  orig : (IF row.signed THEN OrigSet ELSE {"na"}),
                  res : ResSet,
                  resp : RespSet,
                  resp2 : Resp2Set \cup {"na"}] :
             /\ (s.resp2 # "na") <=> (s.resp = "e404" /\ HasFallback(c) /\ s.orig # "U")
             /\ s.orig = "U" => s.resp = "ok"           \* nothing is sent: the answer is irrelevant
             /\ Cost(s) <= Budget }
         : f \in clss }
Scenarios == UNION {ScenOf(c) : c \in CallSet}

Init == /\ scen \in Scenarios
        /\ phase = "call" /\ wire = <<>> /\ rlog = <<>>
        /\ out = [err |-> "", code |-> 0, mx |-> FALSE, result |-> ""]
Next == Send \/ NoIdentity \/ Deliver \/ Return
Spec == Init /\ [][Next]_vars
Done == phase = "done"

\* ================================================================ properties
\* ---- P1  parameter fidelity / no injection: the receiver recovers the route the call stands for and exactly the
\*          identifiers the caller passed, slot by slot; nothing else appears in the path or the query
ExpectedQ(row, qr) ==      \* the values the receiver must arrive at for one query parameter (after defaults)
    CASE qr.k = "par"   -> TheVals[qr.v]
      [] qr.k = "const" -> << <<qr.v>> >>
      [] qr.k = "flag"  -> << <<BoolStr(scen.flag)>> >>
      [] qr.k = "vers"  -> SupportedVers
      [] qr.k = "int"   -> << <<"N">> >>
EffectiveQ(rl, qr) ==      \* what the receiver arrives at: an absent parameter takes its default / is the empty value
    LET got == QValues(rl.pairs, qr.n) IN
    IF got # <<>> THEN got
    ELSE IF qr.dflt # "" THEN << <<qr.dflt>> >>
    ELSE IF qr.k = "par" /\ ~SlotOf(scen.call, qr.v).list /\ SlotOf(scen.call, qr.v).opt THEN << <<>> >>
    ELSE <<>>
Fidelity ==
    \A k \in DOMAIN rlog :
       LET rl == rlog[k]
           row == RowNow(k) IN
       /\ rl.routes = {[m |-> rl.m, path |-> row.path]}                                \* the endpoint, and no other
       /\ rl.m \in MethodsOf(row.m)
       /\ \A i \in DOMAIN row.path : row.path[i].k = "par" => rl.segs[i] = TheVals[row.path[i].v][1]
       /\ \A i \in DOMAIN row.q : EffectiveQ(rl, row.q[i]) = ExpectedQ(row, row.q[i])
       /\ \A i \in DOMAIN rl.pairs : \E j \in DOMAIN row.q : rl.pairs[i].n = <<row.q[j].n>>      \* no foreign parameter
       /\ rl.body = BodyOf(row, TheVals)                                                \* body parameters, or no body

\* ---- P2  authenticity: a call the API requires to be signed verifies at the destination as coming from the
\*          origin the caller named, for that destination, over the request line and body that arrived;
\*          an unsigned call carries no X-Matrix header; without an identity for the origin nothing is sent
Authenticity ==
    /\ \A k \in DOMAIN rlog :
          IF RowNow(k).signed THEN rlog[k].verified /\ rlog[k].origin = scen.orig
          ELSE ~rlog[k].authpresent
    /\ (Table[scen.call].signed /\ scen.orig = "U") => (wire = <<>> /\ (Done => out.err = "noident"))

\* ---- P3  response handling
ResponseHandling ==
    Done /\ out.err # "noident" =>
       LET last == AnswerNow(Cur)
           raw == scen.call \in RawCalls IN
       /\ last = "refused" => out.err = "conn" /\ out.result = "zero"
       /\ (last \in {"e403", "e404", "e500"} /\ ~raw) =>
              /\ out.err \in {"http", "plain"} /\ out.result = "zero" /\ out.code = (CASE last = "e403" -> 403 [] last = "e404" -> 404 [] OTHER -> 500)
              /\ (out.err = "http" => (out.mx <=> last # "e500"))
       /\ (last \in Malformed /\ ~raw) => out.err = "decode"
       /\ (last = "ok" /\ ~raw) => out.err = "none" /\ out.result = "populated"
       /\ raw /\ last # "refused" => out.err = "none" /\ out.result = "raw"
       \* the older variant is asked exactly when the first answer is 404 and there is one
       /\ Cur = (IF scen.resp = "e404" /\ HasFallback(scen.call) THEN 2 ELSE 1)

\* ---- P4  destination: every request goes where resolution of the destination's name says, with the Host header
\*          and TLS server name that go with it
Destination == \A k \in DOMAIN wire : wire[k].to = Resolve(scen.res)

\* ---- table sanity: for whatever the model sender sends, at most one route matches (the table is unambiguous)
RouteUnambiguous == \A k \in DOMAIN rlog : Cardinality(rlog[k].routes) <= 1

TypeOK == /\ phase \in {"call", "net", "ret", "done"}
          /\ Len(wire) \in 0..2 /\ Len(rlog) <= Len(wire)

\* ================================================================ encoding lemmas (an ASSUME: TLC checks it once): the escape sets are sufficient (any sender escaping at least the Must set is decoded right
\* and cannot add segments / parameters) and necessary (dropping one Decod byte from the set breaks some identifier)
AllIdents == {Ident(t, ClassBody(c)) : t \in {"room", "user", "alias", "event", "opaque"}, c \in AllClasses}
PathRoundTrip(esc) == \A id \in AllIdents :
    LET w == Enc(id, esc) IN
    /\ Len(SplitAt(w, "/")) = 1 /\ ~HasCh(w, "?") /\ ~HasCh(w, "#") /\ \A b \in Illegal : ~HasCh(w, b)
    /\ Dec(w, FALSE) = id
QueryRoundTrip(esc) == \A id \in AllIdents :
    LET w == Enc(id, esc) IN
    /\ Len(SplitAt(w, "&")) = 1 /\ ~HasCh(w, "#") /\ \A b \in Illegal : ~HasCh(w, b)
    /\ Dec(w, TRUE) = id
PathRecovered(id, esc) == LET segs == SplitAt(Before(Before(<<"x", "/">> \o Enc(id, esc), "#"), "?"), "/") IN
                          Len(segs) = 2 /\ Dec(segs[2], FALSE) = id /\ ~HasCh(Enc(id, esc), "?") /\ ~HasCh(Enc(id, esc), "#")
QueryRecovered(id, esc) == LET items == SplitAt(Before(<<"n", "=">> \o Enc(id, esc), "#"), "&") IN
                           Len(items) = 1 /\ Dec(After(items[1], "="), TRUE) = id
EncodingLemmas ==
    /\ PathRoundTrip(PathMust) /\ PathRoundTrip(PathMust \cup PathMay)
    /\ QueryRoundTrip(QueryMust) /\ QueryRoundTrip(QueryMust \cup QueryMay)
    /\ \A id1, id2 \in AllIdents : Enc(id1, PathMust) = Enc(id2, PathMust) => id1 = id2          \* injective
    /\ \A b \in PathDecod : \E id \in AllIdents : ~PathRecovered(id, PathMust \ {b})
    /\ \A b \in QueryDecod : \E id \in AllIdents : ~QueryRecovered(id, QueryMust \ {b})
ASSUME EncodingLemmas
=============================================================================
