--------------------------- MODULE Handshake_trace ---------------------------
(***************************************************************************)
(* Trace validation (code -> spec) for Handshake.tla (C15).                *)
(* The recorder runs real handshakes (PerformJoin <-> HandleMakeJoin /     *)
(* HandleSendJoin through an in-process federation client that forges      *)
(* messages; make_leave and invite request / response pairs) and logs one  *)
(* line per action of the specification:                                   *)
(*   begin         the scenario facts (and the forgeries, for replay)      *)
(*   ...Req        the message as observed at the real call boundary,      *)
(*                 projected to the abstract vocabulary                    *)
(*   Forge         the forgery and the message as observable afterwards    *)
(*   ...Resp       the outcome of the real handler (accepted / refused,    *)
(*                 template, signature checks on the returned event)       *)
(*   BuildJoin     the event PerformJoin built (seen when it is sent), or  *)
(*                 built = FALSE when PerformJoin gave up before           *)
(*   JoinDone      what PerformJoin returned                               *)
(* Each line must be explained by the action of that name, taken from the  *)
(* current state of Handshake.tla: the action must be enabled, and the     *)
(* state it leads to must agree with what the line observed (multi-step    *)
(* grain mapping: the abstract state is carried from line to line).  A     *)
(* line that is not explained is recorded in `bad`; the rest of its run    *)
(* is skipped.                                                             *)
(***************************************************************************)
EXTENDS Handshake, Json, IOUtils

Trace == ndJsonDeserialize(IOEnv.TRACE_FILE)

VARIABLES l,      \* next trace line
          bad,    \* lines the specification does not explain
          info,   \* for each of them: what the specification derives at that point
          skip    \* the rest of the current run is ignored
tvars == <<l, bad, info, skip>>

Line == Trace[l]
More == l <= Len(Trace)

TInit ==
    /\ l = 1 /\ bad = <<>> /\ info = <<>> /\ skip = FALSE
    /\ sc = Base("10") /\ flow = "none" /\ phase = "idle" /\ net = NoMsg /\ jev = NoEv
    /\ hist = <<>> /\ nforge = 0 /\ pj = ""

\* signature classes are observable only as valid / not valid
NSig(x) == IF SigOK(x) THEN "valid" ELSE "invalid"

SameEv(a, b) ==
    /\ a.type = b.type
    /\ a.type # "none" =>
         /\ a.mship = b.mship /\ a.ssrv = b.ssrv /\ a.skey = b.skey /\ a.room = b.room /\ a.via = b.via
         /\ a.auth = b.auth /\ NSig(a.sig) = NSig(b.sig)

\* the message in flight agrees with the observed one
SameNet(m, x) ==
    /\ m.k = x.k
    /\ CASE m.k = "mjreq"  -> m.origin = x.origin /\ m.usrv = x.usrv /\ m.vers = x.vers /\ m.room = x.room
         [] m.k = "mlreq"  -> m.origin = x.origin /\ m.usrv = x.usrv /\ m.room = x.room
         [] m.k = "mjresp" -> m.res = x.res /\ m.ver = x.ver /\ m.tmpl = x.tmpl
         [] m.k = "sjreq"  -> m.origin = x.origin /\ m.room = x.room /\ m.eid = x.eid /\ SameEv(m.ev, x.ev)
         [] m.k = "sjresp" -> m.res = x.res /\ m.jret = x.jret /\ m.create = x.create /\ m.st = x.st
                              /\ m.jrsig = x.jrsig /\ m.ban = x.ban
         [] m.k = "invreq" -> m.room = x.room /\ SameEv(m.ev, x.ev)
         [] OTHER -> FALSE

Last(h) == h[Len(h)]

\* the action named by the line is enabled in the current state
Enabled(x) ==
    CASE x.a = "MakeJoinReq"   -> flow = "join" /\ phase = "start"
      [] x.a = "MakeJoinResp"  -> phase = "mjreq" /\ net.k = "mjreq"
      [] x.a = "BuildJoin"     -> phase = "mjresp" /\ net.k = "mjresp"
      [] x.a = "SendJoinReq"   -> phase = "built"
      [] x.a = "SendJoinResp"  -> phase = "sjreq" /\ net.k = "sjreq"
      [] x.a = "JoinDone"      -> phase = "sjresp" /\ net.k = "sjresp"
      [] x.a = "MakeLeaveReq"  -> flow = "leave" /\ phase = "start"
      [] x.a = "MakeLeaveResp" -> phase = "mlreq" /\ net.k = "mlreq"
      [] x.a = "InviteReq"     -> flow = "invite" /\ phase = "start"
      [] x.a = "InviteResp"    -> phase = "invreq" /\ net.k = "invreq"
      [] x.a = "Retry"         -> CanRetry
      [] x.a = "Forge"         -> ForgeGuard(x.f, x.v, x.resign)
      [] OTHER -> FALSE

\* take it
Do(x) ==
    \/ x.a = "MakeJoinReq"   /\ MakeJoinReq
    \/ x.a = "MakeJoinResp"  /\ MakeJoinResp
    \/ x.a = "BuildJoin"     /\ BuildJoin
    \/ x.a = "SendJoinReq"   /\ SendJoinReq
    \/ x.a = "SendJoinResp"  /\ SendJoinResp
    \/ x.a = "JoinDone"      /\ JoinDone
    \/ x.a = "MakeLeaveReq"  /\ MakeLeaveReq
    \/ x.a = "MakeLeaveResp" /\ MakeLeaveResp
    \/ x.a = "InviteReq"     /\ InviteReq
    \/ x.a = "InviteResp"    /\ InviteResp
    \/ x.a = "Retry"         /\ Retry
    \/ x.a = "Forge"         /\ Forge(x.f, x.v, x.resign)

\* what the line observed agrees with the state reached (n: the message after the step, h: the new history entry)
Agrees(x, n, h, j, p) ==
    CASE x.a \in {"MakeJoinReq", "SendJoinReq", "MakeLeaveReq", "InviteReq", "Forge"} -> SameNet(n, x.msg)
      [] x.a \in {"MakeJoinResp", "MakeLeaveResp"} -> h.res = x.res /\ h.tmpl = x.tmpl /\ x.note = ""
      [] x.a \in {"SendJoinResp", "InviteResp"} -> h.res = x.res /\ (x.res = "ok" => (x.rsig /\ x.same))
      [] x.a = "BuildJoin" -> /\ h.built = x.built
                              /\ IF x.built THEN SameEv(j, x.ev) ELSE (p = "refused" /\ x.pj = "refused")
      [] x.a = "JoinDone" -> p = x.res /\ x.note = ""
      [] x.a = "Retry" -> TRUE
      [] OTHER -> FALSE

Reject(a, want, why) ==
    /\ bad' = Append(bad, l)
    /\ info' = Append(info, [l |-> l, a |-> a, want |-> want, why |-> why])

Load ==
    /\ More /\ Line.a = "begin"
    /\ sc' = Line.sc /\ flow' = Line.flow /\ phase' = "start" /\ net' = NoMsg /\ jev' = NoEv
    /\ hist' = <<>> /\ nforge' = 0 /\ pj' = ""
    /\ IF phase = "idle" \/ Final \/ skip THEN UNCHANGED <<bad, info>>
       ELSE Reject("unfinished", "", {})                                        \* the previous run never finished
    /\ skip' = FALSE /\ l' = l + 1

Skipping ==
    /\ More /\ skip /\ Line.a # "begin"
    /\ l' = l + 1 /\ UNCHANGED <<bad, info, skip, vars>>

\* what the specification says the handler / PerformJoin does at this step
Derived(h) == IF "res" \in DOMAIN h THEN h.res ELSE ""
Failing(h) == IF "why" \in DOMAIN h THEN h.why ELSE {}

StepLine ==
    /\ More /\ ~skip /\ Line.a # "begin"
    /\ IF Enabled(Line) = TRUE
       THEN /\ Do(Line)
            /\ IF Agrees(Line, net', Last(hist'), jev', pj') = TRUE
               THEN UNCHANGED <<bad, info, skip>>
               ELSE Reject(Line.a, Derived(Last(hist')), Failing(Last(hist'))) /\ skip' = TRUE
       ELSE /\ UNCHANGED vars
            /\ Reject(Line.a, "not-enabled", {}) /\ skip' = TRUE
    /\ l' = l + 1

TNext == Load \/ Skipping \/ StepLine
TSpec == TInit /\ [][TNext]_<<vars, tvars>>

\* the last run of the trace must have finished as well
Report ==
    (l = Len(Trace) + 1) =>
        LET open == ~(phase = "idle" \/ Final \/ skip)
            b == IF open THEN Append(bad, Len(Trace)) ELSE bad
            i == IF open THEN Append(info, [l |-> Len(Trace), a |-> "unfinished", want |-> "", why |-> {}]) ELSE info
        IN  b # <<>> => (PrintT("TRACE_REJECTED " \o ToJson(b)) /\ PrintT("TRACE_INFO " \o ToJson(i)))
TraceAccepted == TLCGet("stats").diameter - 1 >= Len(Trace)
=============================================================================
