------------------------------ MODULE Fed_gen ------------------------------
(***************************************************************************)
(* Behaviour generator for Fed.tla (X06).                                  *)
(*                                                                         *)
(* Mode "cover": the history is hidden from the fingerprint (VIEW          *)
(*   CoverView in the cfg).  TLC visits every reachable state within the   *)
(*   bounds and takes every TRANSITION exactly once; each is printed with  *)
(*   one complete behaviour leading to it from the empty room.  A real     *)
(*   server's step depends on what that server holds and on the event      *)
(*   only, so agreement on every transition carries over to every          *)
(*   behaviour by induction.                                               *)
(* Mode "paths": no VIEW - every behaviour (every interleaving of sends    *)
(*   and deliveries) is a state of its own and is printed when it is       *)
(*   complete: all events sent, nothing left to deliver.  Used for tighter *)
(*   bounds, and with -simulate for the larger configurations.             *)
(*                                                                         *)
(* A record: the room version, the events (Room.tla records), the steps    *)
(* - each with what the acting servers must hold afterwards: the verdict   *)
(* on the event, the state after it, the extremities, the current state -  *)
(* and what every server holds at the end.                                 *)
(***************************************************************************)
EXTENDS Fed, Json

CONSTANT Mode

gvars == fvars

EvJson(EE, i) == [id |-> i, type |-> EE[i].type, sender |-> EE[i].sender, skey |-> EE[i].skey,
                  membership |-> EE[i].membership, plu |-> EE[i].plu, jr |-> EE[i].jr, prev |-> EE[i].prev,
                  auth |-> EE[i].auth, depth |-> EE[i].depth, ts |-> EE[i].ts, idr |-> EE[i].idr, sha |-> EE[i].sha,
                  home |-> Home(EE[i].sender)]

\* what server L holds at the end, per event number ("" / {}: not known / no state)
Held(EE, L) == [kn |-> L.kn, hs |-> HasState(L),
                vd |-> [i \in DOMAIN EE |-> IF i \in L.kn THEN L.vd[i] ELSE ""],
                sa |-> [i \in DOMAIN EE |-> IF i \in HasState(L) THEN L.sa[i] ELSE {}],
                tips |-> L.tips, cur |-> L.cur]

Rec(EE, SV, H, B, ST) ==
    [ver |-> Ver, n |-> NServers, byz |-> Byz, events |-> [i \in DOMAIN EE |-> EvJson(EE, i)],
     steps |-> H, final |-> [s \in Servers |-> Held(EE, SV[s])], bad |-> B, stale |-> ST]

EmitNow == PrintT(ToJson(Rec(E', srv', hist', badEv', stale')))

GInit == FInit
GNext == FNext /\ (Mode = "cover" => EmitNow)
GSpec == GInit /\ [][GNext]_gvars

\* "paths": one record per complete behaviour
Emit == (Mode = "paths" /\ Terminal) => PrintT(ToJson(Rec(E, srv, hist, badEv, stale)))

\* "cover": everything but the history
CoverView == <<E, after, srv, badEv, stale, nbad>>

\* values for the cfg files
NoByz == {}
NotListed == Absent
Byz2 == {2}
Byz3 == {3}
AllKinds == Kinds
CoreKinds == {"join", "leave", "ban", "kick", "pl", "jr", "topic"}
PowerKinds == {"ban", "kick", "pl", "jr", "leave", "join"}
ByzKinds == {"ban", "kick", "pl", "topic", "leave"}
ResKinds == {"ban", "kick", "pl", "jr", "leave"}
FaultKinds == {"ban", "kick", "leave", "invite"}
BanKinds == {"ban", "kick", "leave"}
TwoKinds == {"ban", "kick"}
TS1 == {1}
TS12 == {1, 2}
=============================================================================
