--------------------------- MODULE CheckerSel_gen ---------------------------
(* Emits one pool record per room version and one compact record per (scenario, provider) of CheckerSel.tla:   *)
(* what the provider holds, what AddAuthEvents must list, and the verdict every server must reach.            *)
EXTENDS CheckerSel, Json

VersionsQuick == {"1", "10", "11", "12", "org.matrix.hydra.11"}
VersionsAll == AllVersions

EmitPool == (phase = "built" /\ n = 1 /\ have = FullShape) =>
    PrintT(ToJson([ver |-> ver, selpool |-> [i \in 1..NSel |-> [n |-> i, st |-> SelPoolC[i].st, ev |-> SelPoolC[i].ev]]]))

Emit == phase = "selected" =>
    PrintT(ToJson([ver |-> ver, n |-> n, have |-> Names(have), sel |-> refs, want |-> Want]))
=============================================================================
