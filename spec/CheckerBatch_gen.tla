-------------------------- MODULE CheckerBatch_gen --------------------------
(* Emits, per room version, the template pool of CheckerBatch.tla (with the alternative views per focus) and one    *)
(* compact record per batch: focus, items (template, how) and the verdict of every item; checks/c09.py joins them, *)
(* harness command c09batch drives the real authAndApplyEvents.                                                   *)
EXTENDS CheckerBatch, Json

VersionsQuick == {"10", "12"}
VersionsMid == {"1", "6", "8", "10", "11", "12", "org.matrix.hydra.11"}
ModesQuick == {"nocite", "rejected"}
ModesAll == {"nocite", "unknown", "rejected", "wrongkey"}
HowsAll == {"own", "alt"} \cup ModesAll
FirstQuick == {"own", "alt", "nocite"}

EmitPool == (phase = "auth" /\ k = 1 /\ focus = "create" /\ batch = [i \in 1..2 |-> Item(1, "own")]) =>
    PrintT(ToJson([ver |-> ver,
                   tpool |-> [t \in 1..NT |-> [n |-> t, ev |-> TemplatesC[t].ev, st |-> TemplatesC[t].st,
                                                need |-> Names(Needed(TemplatesC[t].ev)),
                                                alt |-> [c \in CompNames |-> AltView(TemplatesC[t].st, c)]]]]))

Emit == phase = "done" =>
    PrintT(ToJson([ver |-> ver, focus |-> focus, items |-> batch, want |-> verdicts]))
=============================================================================
