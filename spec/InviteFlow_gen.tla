--------------------------- MODULE InviteFlow_gen ---------------------------
(* Generation wrapper of InviteFlow.tla (X05): every completed behaviour     *)
(* within the configured bounds is printed as one record for the Go harness *)
(* (harness/cmd/x05): the scenario and what the specification derives - the *)
(* outcome, every reason that stands against the call, what went on the     *)
(* wire, the references of the built event, the order of A's auth check and *)
(* the send, and the description of the event handed to the caller.         *)
EXTENDS InviteFlow, Json

\* the room versions of the quick tier (the assignment's list) and of the thorough tier (every registered version)
VersQuick == {"1", "6", "10", "11", "12", "org.matrix.msc4014", Unknown}
VersAll   == Versions \cup {Unknown}
VersFault == {"10", "org.matrix.msc4014"}

Emit == Done =>
    PrintT(ToJson([ver |-> sc.ver, local |-> sc.local, sc |-> sc,
                   out |-> [res |-> out.res, why |-> out.why],
                   reasons |-> Reasons,
                   sent |-> wire,
                   built |-> [present |-> built.present, auth |-> built.auth, nprev |-> Len(built.prev),
                              nlatest |-> Len(Latest), depth |-> built.depth, skey |-> built.skey],
                   order |-> log,
                   answered |-> ans.k,
                   \* the other design (Repair = TRUE) may instead hand back the good event
                   mayrepair |-> (~sc.local /\ sc.remote \notin {"honest", "neterr"} /\ RepairableKind(sc.remote)),
                   good |-> [Countersigned(GoodAnswer) EXCEPT !.irs = sc.stripped],
                   ret |-> out.ev]))
=============================================================================
