SPECIFICATION FairSpec
CONSTANTS
  Servers = {"s1", "s2", "s3"}
  NWorkers = 2
  Q = 3
  StartFirst = FALSE
  KeyIds = {"k1", "k2"}
  DirectOutcomes = {"ok", "err", "bad"}
  NotaryOutcomes = {"ok", "err", "missing", "bad"}
  HasLocal = TRUE
  CtxModes = {"live", "before", "deadline", "mid"}
  StopOnDone = FALSE
INVARIANTS TypeOK ExactUnion EachServerOnce NothingEarly QueueBound GoneBeforeTheCall
PROPERTIES Returns
