SPECIFICATION Spec
CONSTANTS
  Versions <- VersionsQuick
  Family = "pair"
INVARIANTS RefusedWhenOver PersistableOnlyBytes OkWithin HashIndependent ShapesWellFormed Emit
CHECK_DEADLOCK FALSE
