SPECIFICATION Spec
CONSTANTS
  Versions <- VersionsPairQuick
  Family = "pair"
INVARIANTS RefusedWhenOver PersistableOnlyBytes OkWithin HashIndependent ShapesWellFormed PlacementIndependent ReceiptJudgesKept AltOnlyStraddle Accounting GrowthKeepsRefusal PersistableIsHandedOn AcceptedIsHandedOn RefusedIsDropped KeptOnReceiptOnly HandedUniform Emit
CHECK_DEADLOCK FALSE
