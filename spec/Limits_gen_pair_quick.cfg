SPECIFICATION Spec
CONSTANTS
  Versions <- VersionsQuick
  Family = "pair"
INVARIANTS RefusedWhenOver PersistableOnlyBytes OkWithin ShapesWellFormed Emit
CHECK_DEADLOCK FALSE
