SPECIFICATION Spec
CONSTANTS
  Versions <- VersionsPairQuick
  Family = "pair"
INVARIANTS RefusedWhenOver PersistableOnlyBytes OkWithin HashIndependent ShapesWellFormed Emit
CHECK_DEADLOCK FALSE
