--------------------------- MODULE CanonJSON_gen ---------------------------
(***************************************************************************)
(* Generation wrapper for CanonJSON.tla (C01, spec -> code).               *)
(* GenInit picks a scenario (value + presentation budget) from the         *)
(* families below; the writer of CanonJSON.tla produces every presentation *)
(* within the budget; every finished text is emitted as one JSON record    *)
(*   fam   family            text  the presentation (tokens)               *)
(*   st    valid | invalid | illformed          cor  Corrupt action taken  *)
(*   exp   canonical text (tokens) of a valid text                         *)
(*   alt   second admissible canonical text (only with -0.0 like literals) *)
(*   bad   number literals the enforced variant must refuse (ASCII bytes)  *)
(*   nz    the text holds the literal -0 (enforced variant unconstrained)  *)
(*   look  what a number reader would make of the characters of the text's *)
(*         STRINGS (NumLook classes present; no expected result reads it)  *)
(*   ast   supplementary code points an ill-formed text really holds: an   *)
(*         accepted ill-formed text may not produce any other              *)
(* and the room version table is emitted once (ASSUME at the end).         *)
(***************************************************************************)
EXTENDS CanonJSON, Json

CONSTANT Tier             \* "quick" | "thorough"
Quick == Tier = "quick"

MB == INSTANCE MatrixBase

Sc(fam, v, ws, sp, perm, c) == [fam |-> fam, v |-> v, ws |-> ws, sp |-> sp, perm |-> perm, cor |-> c]
All == 99                 \* a budget that is never exhausted

\* --- alphabets -------------------------------------------------------------
\* one code point per escape class: " \ / \b \t \n \f \r NUL US DEL a b e-acute U+2028 U+FB01 U+1F600
\* (U+FB01 > U+1F600 in UTF-16 code unit order, U+FB01 < U+1F600 in code point order)
Alpha == {34, 92, 47, 8, 9, 10, 12, 13, 0, 31, 127, 97, 98, 233, 8232, 64257, 128512}
Ka == <<97>>
Kb == <<98>>
StrsOfLen(n) == {f \o <<>> : f \in [1..n -> Alpha]}
StrsUpTo(n) == UNION {StrsOfLen(m) : m \in 0..n}

B(ch) == CASE ch = "0" -> 48 [] ch = "1" -> 49 [] ch = "2" -> 50 [] ch = "3" -> 51 [] ch = "4" -> 52
           [] ch = "5" -> 53 [] ch = "6" -> 54 [] ch = "7" -> 55 [] ch = "8" -> 56 [] ch = "9" -> 57
           [] ch = "-" -> 45 [] ch = "+" -> 43 [] ch = "." -> 46 [] ch = "e" -> 101 [] ch = "E" -> 69
Lit(cs) == [i \in 1..Len(cs) |-> B(cs[i])] \o <<>>

\* integer literals far outside +/-(2^53-1), around the points where a 64-bit integer parse saturates or wraps:
\* 2^63-1  2^63  2^64-1  2^64  2^64+1  2^64+2^53-1  2^64+2^53  2^65  30 digits  -2^63  -2^63-1  -(2^64-1)  -2^64  -(2^64+1)  -(2^64+2^53-1)  -2^65
\* (all are integer literals, out of range: refused by the enforced variant, preserved verbatim otherwise)
Dec(ds) == [i \in 1..Len(ds) |-> 48 + ds[i]] \o <<>>
NegDec(ds) == <<45>> \o Dec(ds)
WideLits == {
  Dec(<<9,2,2,3,3,7,2,0,3,6,8,5,4,7,7,5,8,0,7>>),
  Dec(<<9,2,2,3,3,7,2,0,3,6,8,5,4,7,7,5,8,0,8>>),
  Dec(<<1,8,4,4,6,7,4,4,0,7,3,7,0,9,5,5,1,6,1,5>>),
  Dec(<<1,8,4,4,6,7,4,4,0,7,3,7,0,9,5,5,1,6,1,6>>),
  Dec(<<1,8,4,4,6,7,4,4,0,7,3,7,0,9,5,5,1,6,1,7>>),
  Dec(<<1,8,4,5,5,7,5,1,2,7,2,9,6,4,2,9,2,6,0,7>>),
  Dec(<<1,8,4,5,5,7,5,1,2,7,2,9,6,4,2,9,2,6,0,8>>),
  Dec(<<3,6,8,9,3,4,8,8,1,4,7,4,1,9,1,0,3,2,3,2>>),
  Dec(<<1,2,3,4,5,6,7,8,9,0,1,2,3,4,5,6,7,8,9,0,1,2,3,4,5,6,7,8,9,0>>),
  NegDec(<<9,2,2,3,3,7,2,0,3,6,8,5,4,7,7,5,8,0,8>>),
  NegDec(<<9,2,2,3,3,7,2,0,3,6,8,5,4,7,7,5,8,0,9>>),
  NegDec(<<1,8,4,4,6,7,4,4,0,7,3,7,0,9,5,5,1,6,1,5>>),
  NegDec(<<1,8,4,4,6,7,4,4,0,7,3,7,0,9,5,5,1,6,1,6>>),
  NegDec(<<1,8,4,4,6,7,4,4,0,7,3,7,0,9,5,5,1,6,1,7>>),
  NegDec(<<1,8,4,5,5,7,5,1,2,7,2,9,6,4,2,9,2,6,0,7>>),
  NegDec(<<3,6,8,9,3,4,8,8,1,4,7,4,1,9,1,0,3,2,3,2>>) }

ASSUME \A l \in WideLits : IsIntLit(l) /\ ~InRange(l) /\ ~NumAdmissible(l)

\* exponent spellings: e / E, sign + / - / none, exponent with a leading zero or zero, after a mantissa ending in 0
ExpLits == {
  Lit(<<"1","E","-","0","5">>), Lit(<<"1","E","+","0","5">>), Lit(<<"1","e","+","0","5">>), Lit(<<"1","e","0","5">>),
  Lit(<<"1","E","0","5">>), Lit(<<"1","e","-","0">>), Lit(<<"1","E","-","0">>), Lit(<<"1","E","+","0">>),
  Lit(<<"-","0","e","-","0">>), Lit(<<"-","0","E","-","0","5">>), Lit(<<"1",".","5","E","-","0","5">>),
  Lit(<<"1","0","e","-","0","1">>), Lit(<<"-","1","E","-","0","5">>) }
\* in-range and out-of-range integers next to the 16-digit boundary: 2^53-2, -(2^53-2), 10^15, 10^16-1, 10^16
EdgeLits == {
  Dec(<<9,0,0,7,1,9,9,2,5,4,7,4,0,9,9,0>>), NegDec(<<9,0,0,7,1,9,9,2,5,4,7,4,0,9,9,0>>),
  Dec(<<1,0,0,0,0,0,0,0,0,0,0,0,0,0,0,0>>), Dec(<<9,9,9,9,9,9,9,9,9,9,9,9,9,9,9,9>>),
  Dec(<<1,0,0,0,0,0,0,0,0,0,0,0,0,0,0,0,0>>) }
ASSUME /\ \A l \in ExpLits : IsNumLit(l) /\ ~IsIntLit(l)
       /\ {l \in EdgeLits : NumAdmissible(l)} = {Dec(<<9,0,0,7,1,9,9,2,5,4,7,4,0,9,9,0>>), NegDec(<<9,0,0,7,1,9,9,2,5,4,7,4,0,9,9,0>>),
                                                Dec(<<1,0,0,0,0,0,0,0,0,0,0,0,0,0,0,0>>)}

MaxSafeLit == <<"9","0","0","7","1","9","9","2","5","4","7","4","0","9","9","1">>
OverLit    == <<"9","0","0","7","1","9","9","2","5","4","7","4","0","9","9","2">>
Lits == {
  Lit(<<"0">>), Lit(<<"1">>), Lit(<<"-","1">>), Lit(<<"1","0">>), Lit(<<"-","1","0">>), Lit(<<"1","0","0">>),
  Lit(MaxSafeLit), Lit(OverLit), Lit(<<"-">> \o MaxSafeLit), Lit(<<"-">> \o OverLit),
  Lit(<<"9","0","0","7","1","9","9","2","5","4","7","4","0","9","9","3">>),
  Lit(<<"1","2","3","4","5","6","7","8","9","0","1","2","3","4","5","6","7","8","9","0">>),
  Lit(<<"0",".","5">>), Lit(<<"-","0",".","5">>), Lit(<<"1",".","0">>), Lit(<<"0",".","0">>),
  Lit(<<"-","0",".","0">>), Lit(<<"-","0","e","1">>), Lit(<<"-","0",".","0","E","-","0">>),
  Lit(<<"1","e","2">>), Lit(<<"1","E","2">>), Lit(<<"1","e","+","2">>), Lit(<<"1","E","-","2">>),
  Lit(<<"1","e","-","0","5">>), Lit(<<"-","1","e","-","0","5">>), Lit(<<"0","e","1">>), Lit(<<"0","E","0">>),
  Lit(<<"1",".","5","e","3","0","0">>), Lit(<<"1","e","4","0","0">>), Lit(<<"0",".","1","e","1">>),
  Lit(<<"1",".","0","E","+","2">>), Lit(<<"1","0",".","0","1">>), Lit(<<"-","2",".","5","e","-","0">>),
  Lit(<<"2","0">>), Lit(<<"-","0",".","0","5">>) } \cup WideLits \cup ExpLits \cup EdgeLits
One == VNum(<<49>>)
Two == VNum(<<50>>)
Three == VNum(<<51>>)

\* Families are kept as separate sets and Init is their disjunction: TLC's set union (\cup, UNION) tests
\* membership by linear search, which is quadratic on large sets of records.

\* --- family str: every string of the alphabet in every position, every spelling ---------
StrPlace(p, s) == CASE p = "top"  -> VStr(s)
                    [] p = "elem" -> VArr(<<VStr(s)>>)
                    [] p = "mval" -> VObj(<<Mem(Ka, VStr(s))>>)
                    [] p = "key"  -> VObj(<<Mem(s, One)>>)
FamStrA == {Sc("str", StrPlace(p, s), 0, All, FALSE, FALSE) : p \in {"top", "elem", "mval", "key"}, s \in StrsUpTo(2)}
FamStrB == IF Quick THEN {}
           ELSE {Sc("str", StrPlace(p, s), 0, 1, FALSE, FALSE) : p \in {"key", "elem"}, s \in StrsOfLen(3)}

\* --- family num: every literal in every position; zero also written -0 -------------------
NumPlace(p, n) ==
    CASE p = "top"    -> VNum(n)
      [] p = "elem"   -> VArr(<<VNum(n)>>)
      [] p = "first"  -> VArr(<<VNum(n), VTrue>>)
      [] p = "last"   -> VArr(<<VStr(Ka), VNum(n)>>)
      [] p = "mval"   -> VObj(<<Mem(Ka, VNum(n))>>)
      [] p = "mfirst" -> VObj(<<Mem(Ka, VNum(n)), Mem(Kb, VNull)>>)
      [] p = "arrarr" -> VArr(<<VArr(<<VNum(n)>>)>>)
      [] p = "objobj" -> VObj(<<Mem(Ka, VObj(<<Mem(Kb, VNum(n))>>))>>)
      [] p = "arrobj" -> VObj(<<Mem(Ka, VArr(<<VNum(n)>>))>>)
      [] p = "objarr" -> VArr(<<VObj(<<Mem(Ka, VNum(n))>>)>>)
NumPlaces == {"top", "elem", "first", "last", "mval", "mfirst", "arrarr", "objobj", "arrobj", "objarr"}
FamNumA == {Sc("num", NumPlace(p, n), 0, 1, FALSE, FALSE) : p \in NumPlaces, n \in Lits}
FamNumB == {Sc("num", NumPlace(p, n), 1, 1, FALSE, FALSE) : p \in {"top", "elem", "mval"}, n \in Lits}
\* two numbers in one text (an admissible next to an inadmissible one, both orders): every literal with every
\* literal in the thorough tier, every literal with six partners in the quick tier
PairPartners == {Zero, <<49>>, Lit(<<"-","0",".","5">>), Lit(<<"1","E","2">>), Lit(OverLit), Lit(<<"1","e","-","0","5">>)}
FamNumC == {Sc("num", VArr(<<VNum(n), VNum(m)>>), 0, 2, FALSE, FALSE) :
               n \in Lits, m \in (IF Quick THEN PairPartners ELSE Lits)}
FamNumD == IF Quick THEN {Sc("num", VArr(<<VNum(m), VNum(n)>>), 0, 2, FALSE, FALSE) : n \in Lits, m \in PairPartners}
           ELSE {}

\* --- family keys: objects whose keys need escaping / sort differently in UTF-16 ------------
Keys == { <<>>, Ka, Kb, <<97, 97>>, <<97, 98>>, <<97, 34>>, <<34>>, <<92>>, <<0>>, <<10>>, <<31>>, <<47>>, <<127>>,
          <<233>>, <<8232>>, <<64257>>, <<128512>>, <<97, 128512>>, <<64257, 97>>, <<128512, 97>>, <<233, 97>>, <<97, 0>>,
          \* keys whose order changes if the escaped text or the closing quote takes part in the comparison:
          \* "a " and "a!" (below the quote) after their prefix "a", # [ ] (around the quote and the backslash), A
          <<97, 32>>, <<97, 33>>, <<32>>, <<35>>, <<91>>, <<93>>, <<65>> }
KeyPairs(S) == {p \in S \X S : LexLess(p[1], p[2])}
KeyTriples(S) == {p \in S \X S \X S : LexLess(p[1], p[2]) /\ LexLess(p[2], p[3])}
FamKeysA == {Sc("keys", VObj(<<Mem(p[1], One), Mem(p[2], Two)>>), 0, 1, TRUE, FALSE) : p \in KeyPairs(Keys)}
FamKeysB == {Sc("keys", VObj(<<Mem(p[1], One), Mem(p[2], Two)>>), 0, All, TRUE, FALSE) : p \in KeyPairs(StrsOfLen(1))}
\* triples: all keys in the thorough tier, the keys that need escapes or order differently in UTF-16 in the quick tier
KeysQuick3 == { <<>>, Ka, <<97, 34>>, <<34>>, <<92>>, <<0>>, <<10>>, <<233>>, <<64257>>, <<128512>>, <<97, 128512>>, <<64257, 97>>,
                <<97, 32>>, <<35>>, <<91>> }
FamKeysC == {Sc("keys", VObj(<<Mem(p[1], One), Mem(p[2], Two), Mem(p[3], Three)>>), 0, 0, TRUE, FALSE) :
                p \in KeyTriples(IF Quick THEN KeysQuick3 ELSE Keys)}

\* --- family ws: whitespace in every gap ------------------------------------------------
WsDocs == { VObj(<<Mem(Ka, VArr(<<One, VStr(Kb)>>)), Mem(<<99>>, VObj(<<>>))>>),
            VArr(<<>>), VObj(<<>>), VArr(<<VArr(<<>>), VObj(<<>>)>>), VStr(<<115>>),
            VNum(<<45, 48, 46, 53>>), VNull, VArr(<<VTrue, VFalse, VNull>>) }
FamWs == {Sc("ws", v, IF Quick THEN 2 ELSE 3, 0, FALSE, FALSE) : v \in WsDocs}

\* --- family nest: nested containers, every member order -----------------------------------
Scalars == {VNull, One, VStr(Ka)}
NoValue == [k |-> "absent", s |-> <<>>, c |-> <<>>]       \* "no element here" (never part of a value)
Present(f) == SelectSeq(f \o <<>>, LAMBDA m : m.val.k # "absent")
\* arrays of at most n elements of E
ArrsUpTo(E, n) == {[k |-> "arr", s |-> <<>>, c |-> Present([i \in 1..n |-> Mem(<<>>, f[i])])] :
                      f \in {g \in [1..n -> E \cup {NoValue}] : \A i \in 1..(n - 1) : g[i] = NoValue => g[i + 1] = NoValue}}
\* objects over the keys K (a sequence): every subset of the keys, every choice of values from E
Objs(K, E) == {VObj(Present([i \in 1..Len(K) |-> Mem(K[i], f[i])])) : f \in [1..Len(K) -> E \cup {NoValue}]}
Kc == <<99>>
D1 == IF Quick THEN ArrsUpTo(Scalars, 2) \cup Objs(<<Kb, Ka>>, Scalars)
               ELSE ArrsUpTo(Scalars, 2) \cup Objs(<<Kc, Ka, Kb>>, {One, VStr(Ka)})
E1 == Scalars \cup D1
Nest(S) == {Sc("nest", v, 0, 0, TRUE, FALSE) : v \in S}
FamNestA == Nest(ArrsUpTo(E1, 2))
FamNestB == Nest(Objs(<<Kb, Ka>>, E1))
\* depth 3 (thorough): the depth-2 objects once more inside an array and inside an object
FamNestC == IF Quick THEN {} ELSE Nest({VArr(<<v>>) : v \in Objs(<<Kb, Ka>>, E1)})
FamNestD == IF Quick THEN {} ELSE Nest({VObj(<<Mem(Kc, v), Mem(Ka, VNull)>>) : v \in Objs(<<Kb, Ka>>, E1)})

\* --- family mix: whitespace, spellings and member order together ------------------------
MixDoc == VObj(<<Mem(Kb, VArr(<<VStr(<<10>>), VNum(Zero)>>)), Mem(Ka, VObj(<<Mem(<<233>>, VStr(<<47>>))>>))>>)
FamMix == {Sc("mix", MixDoc, 1, IF Quick THEN 1 ELSE 2, TRUE, FALSE)}

\* --- family cor: every Corrupt action at every position of a few documents ----------------
CorDocs == { VObj(<<Mem(Ka, VArr(<<One, VStr(<<98, 10>>)>>)), Mem(Kc, VObj(<<>>)), Mem(<<100>>, VNull)>>),
             VArr(<<VTrue, VNum(<<45, 49, 46, 53, 101, 51>>), VObj(<<Mem(<<107>>, VStr(<<118>>))>>)>>),
             VStr(<<115>>), VNum(Zero), VObj(<<>>), VArr(<<>>), VFalse,
             VObj(<<Mem(<<128512>>, VStr(<<128512, 97>>))>>) }
FamCor == {Sc("cor", v, 0, 0, FALSE, TRUE) : v \in CorDocs}

\* --- family edge: code points at the boundaries of the escape rules and of UTF-8 / UTF-16 -------------
\* US | space ! (control boundary), ~ DEL U+0080 (ASCII boundary), U+07FF U+0800 (UTF-8 length), U+2029,
\* U+D7FF | U+E000 (around the surrogates), U+FFFE U+FFFF | U+10000 (BMP boundary),
\* surrogate pairs whose halves are at their boundaries: U+10000 = D800 DC00, U+103FF = D800 DFFF, U+10400 = D801 DC00,
\* U+10FC00 = DBFF DC00, U+10FFFF = DBFF DFFF
EdgeAlpha == {31, 32, 33, 126, 127, 128, 2047, 2048, 8233, 55295, 57344, 65534, 65535,
              65536, 66559, 66560, 1113088, 1114111}
FamEdgeA == {Sc("edge", StrPlace(p, <<c>>), 0, All, FALSE, FALSE) : p \in {"elem", "key"}, c \in EdgeAlpha}
\* ... next to another character (what follows / precedes an escape must survive)
FamEdgeB == {Sc("edge", StrPlace("elem", s), 0, All, FALSE, FALSE) :
                s \in {<<c, d>> : c \in {65536, 66559, 1113088, 1114111, 32}, d \in {97, 92, 65535, 65536}}
                      \cup {<<d, c>> : c \in {65536, 66559, 1113088, 1114111, 32}, d \in {97, 92, 65535}}}

\* --- family look: strings and keys that look like something else; none of it may have any effect --------
\* -0  -0.5  1e-05  1.5  1E5  (number spellings inside strings: kept verbatim, and no concern of the enforced variant)
\* "a b" and " " (whitespace inside a string is significant), { [ : , null and an escaped quote followed by -0
LookStrs == { <<45, 48>>, <<45, 48, 46, 53>>, <<49, 101, 45, 48, 53>>, <<49, 46, 53>>, <<49, 69, 53>>, <<46>>, <<101>>, <<69>>,
              <<97, 32, 98>>, <<32>>, <<32, 32>>, <<123>>, <<91, 93>>, <<58>>, <<44>>, <<110, 117, 108, 108>>,
              <<34, 45, 48>>, <<92, 45, 48>>, <<34, 32, 34>>, <<92, 110>>, <<92, 117, 48, 48, 52, 49>> }
FamLook == {Sc("look", StrPlace(p, s), 0, 0, FALSE, FALSE) : p \in {"top", "elem", "mval", "key"}, s \in LookStrs}

\* --- families numstr / lenient / keynum: kinds do not cross (CanonJSON.tla section 3b) ------------------
\* The characters of a number BETWEEN QUOTES: a string value or an object key whose characters a number reader
\* would take for a number that the room-version-6 rule refuses (or for any number at all).  Such a text holds
\* no number: every room version must accept it and return what the plain variant returns; next to a real
\* number the verdict follows the real number alone.  The records carry look = LooksOf(value) (the classes of
\* NumLook present) for naming a disagreement; the expected results are Canon / InadmissibleLits as ever.
\* numstr A: every scenario of the num family with its number between quotes (every literal x every place)
FamNumStrA == {Sc("numstr", Quoted(NumPlace(p, n)), 0, 0, FALSE, FALSE) : p \in NumPlaces, n \in Lits}
\* numstr B: next to a real number, both orders, in an array and in an object (partners: admissible, -0.5, 1E2, 2^53, ...)
StrNumPair(k, n, m) == CASE k = "sn" -> VArr(<<VStr(n), VNum(m)>>)
                         [] k = "ns" -> VArr(<<VNum(m), VStr(n)>>)
                         [] k = "obj" -> VObj(<<Mem(Ka, VStr(n)), Mem(Kb, VNum(m))>>)
                         [] k = "deep" -> VObj(<<Mem(Ka, VArr(<<VObj(<<Mem(Kb, VStr(n))>>)>>)), Mem(Kb, VArr(<<VNum(m)>>))>>)
FamNumStrB == {Sc("numstr", StrNumPair(k, n, m), 0, 0, FALSE, FALSE) :
                  k \in {"sn", "ns", "obj", "deep"}, n \in Lits, m \in (IF Quick THEN {<<49>>, Lit(OverLit), Lit(<<"1","E","2">>)} ELSE PairPartners)}
\* numstr C: one character of the string spelt with an escape (the characters of a string are what its escapes denote);
\* every character in turn.  Quick: the out-of-range and huge literals; thorough: every literal, two places
StrongLits == WideLits \cup {Lit(OverLit), Lit(<<"-">> \o OverLit), Lit(<<"1","e","4","0","0">>), Lit(<<"1",".","5","e","3","0","0">>)}
FamNumStrC == {Sc("numstr", StrPlace(p, n), 0, 1, FALSE, FALSE) :
                  p \in (IF Quick THEN {"mval"} ELSE {"mval", "elem", "key"}), n \in (IF Quick THEN StrongLits ELSE Lits)}
\* keynum: the literal as an object KEY, its value an admissible / an inadmissible number / a string / a container
KeyNumVal(k, n) == CASE k = "ok" -> One [] k = "over" -> VNum(Lit(OverLit)) [] k = "same" -> VStr(n)
                      [] k = "arr" -> VArr(<<>>) [] k = "nested" -> VObj(<<Mem(n, VNull)>>)
FamKeyNum == {Sc("keynum", VObj(<<Mem(n, KeyNumVal(k, n))>>), 0, 0, FALSE, FALSE) :
                 n \in Lits, k \in {"ok", "over", "same", "arr", "nested"}}

\* lenient: spellings OUTSIDE the JSON number grammar that lenient readers (strtod, ParseFloat, ECMAScript Number())
\* accept: inf / infinity / nan in any case with a sign, hexadecimal floats, a leading +, a point without digits on
\* one side, leading zeros, digit-group underscores, surrounding blanks (_SP_ below is a space)
LenientStrs == {
  \* Infinity   infinity   INFINITY   iNfInItY
  <<73,110,102,105,110,105,116,121>>, <<105,110,102,105,110,105,116,121>>, <<73,78,70,73,78,73,84,89>>, <<105,78,102,73,110,73,116,89>>,
  \* inf   Inf   INF   -Infinity
  <<105,110,102>>, <<73,110,102>>, <<73,78,70>>, <<45,73,110,102,105,110,105,116,121>>,
  \* +Infinity   -inf   +inf   -INF
  <<43,73,110,102,105,110,105,116,121>>, <<45,105,110,102>>, <<43,105,110,102>>, <<45,73,78,70>>,
  \* NaN   nan   NAN   -nan
  <<78,97,78>>, <<110,97,110>>, <<78,65,78>>, <<45,110,97,110>>,
  \* +NaN   0x1p60   0X1P60   0x1p+60
  <<43,78,97,78>>, <<48,120,49,112,54,48>>, <<48,88,49,80,54,48>>, <<48,120,49,112,43,54,48>>,
  \* -0x1p60   +0x1p60   0x1.8p1023   0x1p1024
  <<45,48,120,49,112,54,48>>, <<43,48,120,49,112,54,48>>, <<48,120,49,46,56,112,49,48,50,51>>, <<48,120,49,112,49,48,50,52>>,
  \* 0x1p-60   0x20000000000000   0X1.FFFFFFFFFFFFFP52   0x_1p6_0
  <<48,120,49,112,45,54,48>>, <<48,120,50,48,48,48,48,48,48,48,48,48,48,48,48,48>>, <<48,88,49,46,70,70,70,70,70,70,70,70,70,70,70,70,70,80,53,50>>, <<48,120,95,49,112,54,95,48>>,
  \* +1   +1e400   +9007199254740992   .5
  <<43,49>>, <<43,49,101,52,48,48>>, <<43,57,48,48,55,49,57,57,50,53,52,55,52,48,57,57,50>>, <<46,53>>,
  \* 5.   1.e400   .5e400   -.5e400
  <<53,46>>, <<49,46,101,52,48,48>>, <<46,53,101,52,48,48>>, <<45,46,53,101,52,48,48>>,
  \* 01   009007199254740992   -09007199254740992   1_0
  <<48,49>>, <<48,48,57,48,48,55,49,57,57,50,53,52,55,52,48,57,57,50>>, <<45,48,57,48,48,55,49,57,57,50,53,52,55,52,48,57,57,50>>, <<49,95,48>>,
  \* 1_000e400   9_007_199_254_740_992   _SP_1e400   1e400_SP_
  <<49,95,48,48,48,101,52,48,48>>, <<57,95,48,48,55,95,49,57,57,95,50,53,52,95,55,52,48,95,57,57,50>>, <<32,49,101,52,48,48>>, <<49,101,52,48,48,32>>,
  \* _SP_9007199254740992_SP_   \t1   1e400\n   _SP_Infinity
  <<32,57,48,48,55,49,57,57,50,53,52,55,52,48,57,57,50,32>>, <<9,49>>, <<49,101,52,48,48,10>>, <<32,73,110,102,105,110,105,116,121>>,
  \* -inf_SP_
  <<45,105,110,102,32>> }
ASSUME /\ \A x \in LenientStrs : ~IsNumLit(x) /\ NumLook(x) \in {"inf-nan-word", "hex-float", "lenient-decimal", "number-in-blanks"}
       /\ {NumLook(x) : x \in LenientStrs} = {"inf-nan-word", "hex-float", "lenient-decimal", "number-in-blanks"}
       /\ \A x \in Lits : NumLook(x) = LitLook(x)
       /\ {NumLook(x) : x \in Lits} = {"integer-in-range", "integer-out-of-range", "fraction-or-exponent"}
       /\ \A x \in StrsUpTo(1) \cup Keys : NumLook(x) = "none"
FamLenientA == {Sc("lenient", StrPlace(p, x), 0, 0, FALSE, FALSE) : p \in {"top", "elem", "mval", "key"}, x \in LenientStrs}
FamLenientB == {Sc("lenient", StrNumPair(k, x, m), 0, 0, FALSE, FALSE) :
                   k \in {"sn", "ns", "obj"}, x \in LenientStrs, m \in {<<49>>, Lit(OverLit)}}
FamLenientC == {Sc("lenient", StrPlace("mval", x), 0, 1, FALSE, FALSE) :
                   x \in (IF Quick THEN {y \in LenientStrs : Len(y) <= 8} ELSE LenientStrs)}

\* --- family nestkeys: order-sensitive key pairs inside NESTED objects -----------------------------------
OrderPairs == { <<<<34>>, <<35>>>>, <<<<10>>, <<34>>>>, <<<<92>>, <<93>>>>, <<<<91>>, <<92>>>>, <<<<64257>>, <<128512>>>>,
                <<Ka, <<97, 32>>>>, <<<<65>>, Ka>>, <<<<0>>, <<31>>>> }
NestKeysDoc(p) == VObj(<<Mem(Kb, VObj(<<Mem(p[2], One), Mem(p[1], Two)>>)),
                         Mem(Ka, VArr(<<VObj(<<Mem(p[1], VObj(<<Mem(p[2], VNull), Mem(p[1], VTrue)>>)), Mem(p[2], Three)>>)>>))>>)
FamNestKeys == {Sc("nestkeys", NestKeysDoc(p), 0, IF Quick THEN 0 ELSE 1, TRUE, FALSE) : p \in OrderPairs}

\* --- family wide: objects with as many members as / more members than the library sorts in place (128) ---
WideKey(i) == <<97 + (i % 26), 97 + (i \div 26)>>
WideObj(n) == VObj([i \in 1..n |-> Mem(WideKey(n - i), VNum(<<48 + (i % 10)>>))] \o <<>>)      \* written in descending order
FamWide == {Sc("wide", WideObj(n), 0, 0, FALSE, FALSE) : n \in (IF Quick THEN {128, 129} ELSE {127, 128, 129, 130, 200})}

\* --- family dup: duplicate keys (outside the statement's "valid": only absence of panics is checked) -----
FamDup == {Sc("dup", v, 0, 0, TRUE, FALSE) :
              v \in { VObj(<<Mem(Ka, One), Mem(Ka, Two)>>),
                      VObj(<<Mem(Kb, One), Mem(Ka, VObj(<<Mem(<<34>>, One), Mem(<<34>>, VNum(<<49, 46, 53>>))>>)), Mem(Kb, VNull)>>) }}

\* --- family order: the ORDER of object keys, over every class of characters an ordering can tell apart ------
\* (CanonJSON.tla section 8b: KeyOrderIsByteOrder, UnitOrderDiffersExactly, CanonKeysInByteOrder).  The canonical
\* order is the order of code points = of the bytes of the UTF-8; an implementation can go wrong by comparing
\* something else: UTF-16 code units (differs across the surrogate gap: E000..FFFF against the supplementary
\* planes), the raw escaped text, bytes as signed numbers (differs between ASCII and everything else), string
\* lengths ...  The alphabet has the boundary characters of every class and some from the middle:
\*   ascii a DEL | two-byte U+0080 U+07FF | below the surrogates U+0800 U+D7FF |
\*   above the surrogates U+E000 (private use) U+F900 (CJK compatibility) U+FF01 (fullwidth) U+FFFD U+FFFF |
\*   supplementary U+10000 U+10437 U+1F600 U+20BB7 (CJK extension B) U+10FFFF       (thorough: some more)
OrdAlphaSeq == IF Quick THEN <<97, 127, 128, 2047, 2048, 55295, 57344, 63744, 65281, 65533, 65535,
                               65536, 66615, 128512, 134071, 1114111>>
               ELSE <<97, 127, 128, 233, 2047, 2048, 8232, 55295, 57344, 63744, 64257, 65281, 65533, 65534, 65535,
                      65536, 66559, 66560, 66615, 128512, 134071, 1113088, 1114111>>
OrdAlpha == {OrdAlphaSeq[i] : i \in DOMAIN OrdAlphaSeq}
ASSUME \A i \in 1..(Len(OrdAlphaSeq) - 1) : OrdAlphaSeq[i] < OrdAlphaSeq[i + 1]
Single(S) == {<<c>> : c \in S}
\* order A: every pair of one-character keys, both member orders, the characters raw and escaped (a supplementary
\* character also as an escaped surrogate pair, lower / upper / mixed case): all spellings of both keys for the pairs
\* across the surrogate gap (all pairs in the thorough tier; the quick tier writes the other pairs raw: escaped keys of
\* the lower classes are the keys family's)
FamOrderA == {Sc("order", VObj(<<Mem(p[1], One), Mem(p[2], Two)>>), 0,
                 IF AcrossSurrogateGap(p[1], p[2]) \/ ~Quick THEN All ELSE 0, TRUE, FALSE) : p \in KeyPairs(Single(OrdAlpha))}
\* every ordered pair of classes is met by some pair of keys, and every class by two keys of its own
ASSUME \A i, j \in DOMAIN CpClasses : i <= j =>
           \E p \in KeyPairs(Single(OrdAlpha)) : DiffClasses(p[1], p[2]) = <<CpClasses[i], CpClasses[j]>>
\* order B: the deciding characters after a common prefix (ASCII "m.", a supplementary character - one code point, two
\* UTF-16 code units, four bytes -, a fullwidth form) and before suffixes that would decide otherwise if they took part
OrdRep == {97, 233, 8232, 65281, 65533, 66615, 128512}
OrdPrefixes == { <<109, 46>>, <<128512>>, <<65281>> }
OrdSuffixes == { <<<<>>, <<>>>>, <<<<97>>, <<>>>>, <<<<>>, <<97>>>>, <<<<128512>>, <<65281>>>> }
FamOrderB == {Sc("order", VObj(<<Mem(pre \o <<p[1]>> \o suf[1], One), Mem(pre \o <<p[2]>> \o suf[2], Two)>>), 0, 0, TRUE, FALSE) :
                 pre \in OrdPrefixes, suf \in OrdSuffixes, p \in {q \in OrdRep \X OrdRep : q[1] < q[2]}}
\* ... and a key against its own extension (the shorter key first, whatever follows)
FamOrderB2 == {Sc("order", VObj(<<Mem(<<c>>, One), Mem(<<c, d>>, Two)>>), 0, 0, TRUE, FALSE) : c, d \in OrdRep}
ASSUME \A c, d \in OrdRep : DiffClasses(<<c>>, <<c, d>>) = <<"end", CpClass(d)>>
\* order C: the object somewhere else than at the top: in an array, as a member's value, three members inside an array
\* inside an object, and with the order-sensitive keys at two levels at once
OrdGapPairs == { <<65281, 128512>>, <<65533, 66615>>, <<57344, 134071>>, <<65535, 65536>>, <<233, 128512>>, <<8232, 65281>> }
OrdPlace(pl, a, b) ==
    CASE pl = "elem" -> VArr(<<VObj(<<Mem(<<a>>, One), Mem(<<b>>, Two)>>)>>)
      [] pl = "mval" -> VObj(<<Mem(Ka, VObj(<<Mem(<<a>>, One), Mem(<<b>>, Two)>>))>>)
      [] pl = "deep" -> VObj(<<Mem(<<99>>, VArr(<<VObj(<<Mem(Ka, VNum(Zero)), Mem(<<a>>, VStr(<<121>>)), Mem(<<b>>, VStr(<<120>>))>>)>>))>>)
      [] pl = "both" -> VObj(<<Mem(<<a>>, VObj(<<Mem(<<a>>, One), Mem(<<b>>, Two)>>)),
                               Mem(<<b>>, VArr(<<VObj(<<Mem(<<a>>, VNull), Mem(<<b>>, VTrue)>>)>>))>>)
FamOrderC == {Sc("order", OrdPlace(pl, p[1], p[2]), 0, 0, TRUE, FALSE) : pl \in {"elem", "mval", "deep", "both"}, p \in OrdGapPairs}
\* order D: three keys of three classes, every member order
OrdTripleAlpha == IF Quick THEN {97, 233, 8232, 57344, 65281, 65535, 65536, 128512} ELSE OrdAlpha
FamOrderD == {Sc("order", VObj(<<Mem(p[1], One), Mem(p[2], Two), Mem(p[3], Three)>>), 0, 0, TRUE, FALSE) :
                 p \in KeyTriples(Single(OrdTripleAlpha))}
\* order E: the whole alphabet in one object (more members than a sort handles by insertion), written descending and
\* scrambled; and after 113 ASCII keys, so that the object has 129 members (one more than the library sorts in place)
OrdN == Len(OrdAlphaSeq)
OrdStride == IF Quick THEN 7 ELSE 5
ASSUME \A i, j \in 1..OrdN : i # j => (i * OrdStride) % OrdN # (j * OrdStride) % OrdN       \* the scramble is a permutation
OrdMany(kind) ==
    LET at(i) == CASE kind = "descending" -> OrdN + 1 - i
                   [] kind = "scrambled"  -> ((i * OrdStride) % OrdN) + 1
        tail == [i \in 1..OrdN |-> Mem(<<OrdAlphaSeq[at(i)]>>, VNum(<<48 + (i % 10)>>))]
    IN  IF kind = "wide" THEN VObj((WideObj(129 - OrdN).c \o [i \in 1..OrdN |-> Mem(<<OrdAlphaSeq[OrdN + 1 - i], 65>>, VNull)]) \o <<>>)
        ELSE VObj(tail \o <<>>)
FamOrderE == {Sc("order", OrdMany(kind), 0, 0, FALSE, FALSE) : kind \in {"descending", "scrambled", "wide"}}
ASSUME \A sc \in FamOrderE : ~HasDupKeys(sc.v)

GenInit == \/ InitWith(FamStrA) \/ InitWith(FamStrB)
           \/ InitWith(FamOrderA) \/ InitWith(FamOrderB) \/ InitWith(FamOrderB2) \/ InitWith(FamOrderC)
           \/ InitWith(FamOrderD) \/ InitWith(FamOrderE)
           \/ InitWith(FamNumA) \/ InitWith(FamNumB) \/ InitWith(FamNumC) \/ InitWith(FamNumD)
           \/ InitWith(FamEdgeA) \/ InitWith(FamEdgeB) \/ InitWith(FamLook) \/ InitWith(FamNestKeys)
           \/ InitWith(FamWide) \/ InitWith(FamDup)
           \/ InitWith(FamNumStrA) \/ InitWith(FamNumStrB) \/ InitWith(FamNumStrC) \/ InitWith(FamKeyNum)
           \/ InitWith(FamLenientA) \/ InitWith(FamLenientB) \/ InitWith(FamLenientC)
           \/ InitWith(FamKeysA) \/ InitWith(FamKeysB) \/ InitWith(FamKeysC)
           \/ InitWith(FamWs)
           \/ InitWith(FamNestA) \/ InitWith(FamNestB) \/ InitWith(FamNestC) \/ InitWith(FamNestD)
           \/ InitWith(FamMix) \/ InitWith(FamCor)
GenSpec == GenInit /\ [][Next]_vars

\* --- emission ----------------------------------------------------------------------------
Emit == Done =>
    LET val == status = "valid" IN
    PrintT(ToJson([fam  |-> scen.fam,
                   text |-> text \o <<>>,
                   st   |-> status,
                   cor  |-> cor,
                   exp  |-> IF val THEN Canon(scen.v) \o <<>> ELSE <<>>,
                   alt  |-> IF val /\ CanonAlt(scen.v) # Canon(scen.v) THEN CanonAlt(scen.v) \o <<>> ELSE <<>>,
                   bad  |-> IF val THEN InadmissibleLits(Parse(text).v) ELSE <<>>,
                   nz   |-> val /\ HasNegZeroLit(Parse(text).v),
                   look |-> IF val THEN LooksOf(Parse(text).v) ELSE <<>>,
                   ast  |-> IF status \in {"illformed", "dupkeys"} THEN AstralOf(Parse(text).v) \o <<>> ELSE <<>>]))

\* the room version table (MatrixBase.tla), once per run
ASSUME PrintT(ToJson([table |-> "versions",
                      enforce |-> [v \in MB!AllVersions |-> MB!EnforcedCanonJSON(v)]]))
=============================================================================
