------------------------------ MODULE FedName ------------------------------
(***************************************************************************)
(* C13 - which X-Matrix origins are server names at all.  The grammar of   *)
(* Matrix server names (appendices, "Server name"), stated declaratively   *)
(* over a token alphabet, written from the specification and RFC 4291      *)
(* section 2.2 - not from the code:                                        *)
(*                                                                         *)
(*   server_name ::= hostname [ ":" port ]          port ::= 1*5DIGIT      *)
(*   hostname    ::= dns-name | IPv4address | "[" IPv6address "]"          *)
(*   IPv6address ::= eight groups of 1-4 hex digits separated by ":";      *)
(*                   one "::" may stand for ONE OR MORE zero groups; the   *)
(*                   last two groups may be written as a dotted quad       *)
(*                                                                         *)
(* Nothing else is an IPv6address: no zone identifier ("%eth0", "%1",      *)
(* "%25eth0" - RFC 4007 scopes are local to a host, never part of a name   *)
(* another server is known by), no group of more than four digits, no      *)
(* second "::", no single ":" at either end, not seven or nine groups.     *)
(*                                                                         *)
(* A name is a sequence of token KINDS (the harness gives each kind a      *)
(* text; the name is the concatenation):                                   *)
(*   lb "["   rb "]"   c ":"   h (1-4 hex digits)   v4 (dotted quad)       *)
(*   h5 (5 or more hex digits)   x (a group with a non-hex character)      *)
(*   zone ("%" and what follows it)   dns (a DNS name)   port (1-5 digits, *)
(*   at most 65535)                                                        *)
(* Two group tokens (h v4 h5 x) are never adjacent (they would be one      *)
(* group), and an unbracketed literal is only written with at least two    *)
(* colons (with one it could be read as dns-name ":" port): the text then  *)
(* determines the tokens.                                                  *)
(***************************************************************************)
EXTENDS Integers, Sequences, FiniteSets

GroupKinds == {"h", "v4", "h5", "x"}

\* ------------------------------------------------------------ IPv6address
IsC(s, i) == s[i].k = "c"
\* the maximal runs of colons: start positions and lengths
RunStarts(s) == {i \in 1..Len(s) : IsC(s, i) /\ (i = 1 \/ ~IsC(s, i - 1))}
RunLen(s, i) == CHOOSE n \in 1..Len(s) :
                    /\ \A j \in i..(i + n - 1) : j <= Len(s) /\ IsC(s, j)
                    /\ (i + n > Len(s) \/ ~IsC(s, i + n))
Count(s, k) == Cardinality({i \in 1..Len(s) : s[i].k = k})
Groups(s) == Count(s, "h") + 2 * Count(s, "v4")
HasEllipsis(s) == \E i \in RunStarts(s) : RunLen(s, i) = 2

ValidV6(s) ==
    /\ Len(s) >= 1
    /\ \A i \in 1..Len(s) : s[i].k \in {"c", "h", "v4"}                  \* hex groups, colons, a dotted quad: nothing else
    /\ \A i \in 1..(Len(s) - 1) : IsC(s, i) \/ IsC(s, i + 1)             \* groups are separated
    /\ \A i \in RunStarts(s) : RunLen(s, i) <= 2                         \* ":" or "::", never ":::"
    /\ Cardinality({i \in RunStarts(s) : RunLen(s, i) = 2}) <= 1         \* at most one "::"
    /\ \A i \in RunStarts(s) : (i = 1 \/ i + RunLen(s, i) - 1 = Len(s)) => RunLen(s, i) = 2   \* no single ":" at an end
    /\ \A i \in 1..Len(s) : s[i].k = "v4" => i = Len(s)                  \* the dotted quad comes last
    /\ IF HasEllipsis(s) THEN Groups(s) <= 7 ELSE Groups(s) = 8          \* "::" stands for at least one group

\* ------------------------------------------------------------ server_name
IsPortPart(s) == s = <<>> \/ (Len(s) = 2 /\ s[1].k = "c" /\ s[2].k = "port")
IsHost(s) == \/ Len(s) = 1 /\ s[1].k \in {"dns", "v4"}
             \/ Len(s) >= 3 /\ s[1].k = "lb" /\ s[Len(s)].k = "rb" /\ ValidV6(SubSeq(s, 2, Len(s) - 1))
ValidName(n) == \E i \in 1..Len(n) : IsHost(SubSeq(n, 1, i)) /\ IsPortPart(SubSeq(n, i + 1, Len(n)))

\* the text determines the tokens (see above)
Unambiguous(n) ==
    /\ \A i \in 1..(Len(n) - 1) : ~(n[i].k \in GroupKinds /\ n[i + 1].k \in GroupKinds)
    /\ (n # <<>> /\ n[1].k \in GroupKinds /\ Len(n) > 1) => Count(n, "c") >= 2
=============================================================================
