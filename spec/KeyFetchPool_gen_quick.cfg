SPECIFICATION GSpec
CONSTANTS
  Servers = {"s1", "s2"}
  NWorkers = 2
  Q = 2
  StartFirst = FALSE
  KeyIds = {"k1", "k2"}
  DirectOutcomes = {"ok", "err", "bad"}
  NotaryOutcomes = {"ok", "err", "missing", "bad"}
  HasLocal = TRUE
  CtxModes = {"live"}
  StopOnDone = FALSE
INVARIANTS TypeOK ExactUnion EachServerOnce NothingEarly QueueBound Emit
CHECK_DEADLOCK FALSE
