------------------------------- MODULE LazyID -------------------------------
(* C19 - the lazily cached event ID of room version 3+ events (eventV2.EventID)  *)
(* with an explicit happens-before relation.                                    *)
(*                                                                              *)
(* One event object is built by a constructor and then published to the readers   *)
(* (publication orders everything the constructor did before everything a reader   *)
(* does: channel send, go statement, mutex ...).  Every reader calls EventID():     *)
(*                                                                              *)
(*   Sync = "none"    the code as it is: plain read of the cache field; if empty    *)
(*                    compute the reference hash and plain-write the field          *)
(*   Sync = "atomic"  the same with an atomic load / atomic store of the field      *)
(*   Sync = "eager"   the constructor computes and writes the field; readers only   *)
(*                    read it                                                      *)
(*                                                                              *)
(* Every memory access of the field is an event [id, p, kind, atomic].  seen[p] is   *)
(* the set of events that happen before p's next event (program order, publication, *)
(* and synchronises-with: an atomic load that reads the value of an atomic store      *)
(* inherits everything that happened before the store).  hb(e1, e2) iff e1 is in the  *)
(* set recorded for e2.  NoDataRace: two accesses by different goroutines, at least    *)
(* one a write, not both atomic, are ordered by happens-before (the Go memory model's  *)
(* definition; it is also what the race detector reports).                            *)
(* With Sync = "none" TLC finds the race (LazyID_none.cfg, an expected violation: it    *)
(* predicts what `go test -race` shows on the real code); the designs "atomic" and      *)
(* "eager" satisfy NoDataRace and every reader returns the same, correct ID.           *)
EXTENDS Integers, FiniteSets, TLC

CONSTANTS Readers, Sync, MaxCalls

Ctor == "ctor"
TheID == "id"

VARIABLES field,     \* the cache field: "" or TheID
          rel,       \* events released by the last atomic store (synchronises-with source)
          events,    \* all accesses so far: [id, p, kind, atomic, before]
          seen,      \* per reader: events that happen before its next event
          pc, tmp, ret, ncalls, published

vars == <<field, rel, events, seen, pc, tmp, ret, ncalls, published>>

NextId == Cardinality(events) + 1
Ev(p, kind, atomic, before) == [id |-> NextId, p |-> p, kind |-> kind, atomic |-> atomic, before |-> before]

Init ==
  /\ field = ""
  /\ rel = {}
  /\ events = {}
  /\ seen = [r \in Readers |-> {}]
  /\ pc = [r \in Readers |-> "idle"]
  /\ tmp = [r \in Readers |-> ""]
  /\ ret = [r \in Readers |-> ""]
  /\ ncalls = [r \in Readers |-> 0]
  /\ published = FALSE

(* The constructor builds the object (writing the field when eager) and publishes it. *)
Construct ==
  /\ ~published
  /\ published' = TRUE
  /\ IF Sync = "eager"
     THEN LET e == Ev(Ctor, "w", FALSE, {}) IN
          /\ field' = TheID
          /\ events' = events \cup {e}
          /\ seen' = [r \in Readers |-> {e.id}]
     ELSE UNCHANGED <<field, events, seen>>
  /\ UNCHANGED <<rel, pc, tmp, ret, ncalls>>

(* if e.EventIDRaw != "" { return e.EventIDRaw } *)
Load(r) ==
  /\ published
  /\ pc[r] = "idle"
  /\ ncalls[r] < MaxCalls
  /\ ncalls' = [ncalls EXCEPT ![r] = @ + 1]
  /\ LET at == (Sync = "atomic")
         e == Ev(r, "r", at, seen[r])
         sync == IF at /\ field # "" THEN rel ELSE {}
     IN /\ events' = events \cup {e}
        /\ seen' = [seen EXCEPT ![r] = @ \cup sync \cup {e.id}]
        /\ tmp' = [tmp EXCEPT ![r] = field]
        /\ IF field # ""
           THEN pc' = [pc EXCEPT ![r] = "idle"] /\ ret' = [ret EXCEPT ![r] = field]
           ELSE pc' = [pc EXCEPT ![r] = "store"] /\ UNCHANGED ret
  /\ UNCHANGED <<field, rel, published>>

(* ref := referenceOfEvent(...); e.EventIDRaw = ref.EventID; return ref.EventID *)
Store(r) ==
  /\ pc[r] = "store"
  /\ Sync # "eager"
  /\ LET at == (Sync = "atomic")
         e == Ev(r, "w", at, seen[r])
     IN /\ events' = events \cup {e}
        /\ seen' = [seen EXCEPT ![r] = @ \cup {e.id}]
        /\ rel' = IF at THEN seen[r] \cup {e.id} ELSE rel
  /\ field' = TheID
  /\ ret' = [ret EXCEPT ![r] = TheID]
  /\ pc' = [pc EXCEPT ![r] = "idle"]
  /\ UNCHANGED <<tmp, ncalls, published>>

Done == (\A r \in Readers : pc[r] = "idle" /\ ncalls[r] = MaxCalls) /\ UNCHANGED vars

Next == Construct \/ (\E r \in Readers : Load(r) \/ Store(r)) \/ Done
Spec == Init /\ [][Next]_vars

Hb(e1, e2) == e1.id \in e2.before
Conflict(e1, e2) == e1.p # e2.p /\ (e1.kind = "w" \/ e2.kind = "w") /\ ~(e1.atomic /\ e2.atomic)

NoDataRace == \A e1, e2 \in events : Conflict(e1, e2) => Hb(e1, e2) \/ Hb(e2, e1)
SameCorrectID == \A r \in Readers : ret[r] \in {"", TheID}
EagerNeverStores == Sync = "eager" => \A r \in Readers : pc[r] # "store"
=============================================================================
