-------------------------------- MODULE Room --------------------------------
(***************************************************************************)
(* A Matrix room as a DAG of events built by honest servers: every event   *)
(* is sent by a user on top of some forward extremities (an antichain of   *)
(* earlier events), cites as auth events the state it needs from the state *)
(* resolved at those extremities (servers resolve with StateRes!Resolve,   *)
(* as real servers do), and is only sent if that state allows it.          *)
(* Concurrent sends on different extremities create forks of any shape.    *)
(*                                                                         *)
(* Used by C10 / C11 (resolution queries at fork points), C08 (histories   *)
(* of accepted power-level events) and C14 (responses built from rooms).   *)
(***************************************************************************)
EXTENDS StateRes

CONSTANTS Start,      \* which creation prefix the room starts from (1..8; 4, 5, 8: the power levels set users_default;
                      \* 6, 7: pl / jr events under a non-empty state key exist)
          Ver,        \* the room version
          MaxFree,    \* number of events after the creation prefix
          ForkFrom,   \* smallest event id that may be used as a prev event of a new event
          TSChoices,  \* timestamp ranks a new event may carry
          IdDesc,     \* TRUE: later events get lexicographically smaller IDs / SHA-1 ranks
          Addl,       \* additional_creators named by the create event (meaningful in privileged-creator versions only)
          MaxBad,     \* with Dishonest: how many such events may be sent
          Dishonest   \* TRUE: servers may also send events their own state does not allow (a joined user of any
                      \* level sends power events); such events sit in branches and auth chains and must lose
                      \* wherever resolution checks them

VARIABLES E,      \* event store: id -> event record
          after,  \* id -> state (set of ids) after the event
          last,   \* id of the event added by the last step (0 initially)
          before, \* history: the state the last event was sent on top of
          nbad    \* number of events sent so far that their sender's own state does not allow (Dishonest only)

vars == <<E, after, last, before, nbad>>

N == Len(E)
IdRank(i) == IF IdDesc THEN 100 - i ELSE i

Ev(type, sender, skey, membership, plu, jr, prev, auth, depth, ts, i) ==
    [type |-> type, sender |-> sender, skey |-> skey, membership |-> membership, plu |-> plu, jr |-> jr,
     prev |-> prev, auth |-> auth, depth |-> depth, ts |-> ts, idr |-> IdRank(i), sha |-> IdRank(i), rejected |-> FALSE,
     addl |-> {}, pud |-> Absent, spell |-> "int"]

\* The spellings the power-levels events of the rooms of a run may use (StateRes.tla: "int" "str" "strpad" "float"
\* "frac").  A plain definition, so that the other models built on Room.tla keep integer-only rooms; Room_gen's
\* configurations override it (Spells <- GenSpells).  Only spellings the room version admits are ever used.
Spells == {"int"}
RoomSpells == {s \in Spells : SpellAdmitted(Ver, s)} \cup (IF \E s \in Spells : SpellAdmitted(Ver, s) THEN {} ELSE {"int"})
\* the creation prefix written in spelling s (one writer: all its power-levels events use it)
Spelled(seq, s) == [i \in DOMAIN seq |-> IF seq[i].type = "pl" THEN [seq[i] EXCEPT !.spell = s] ELSE seq[i]]

InitPL == IF PrivilegedCreators(Ver) THEN NoUsers
          ELSE [u \in Users |-> IF u = "creator" THEN 4 ELSE Absent]

\* creation prefix: create, creator joins, power levels, public join rule, alice and bob join
Prefix ==
    << [Ev("create", "creator", "", "", NoUsers, "", {}, {}, 1, 1, 1) EXCEPT !.addl = Addl],
       Ev("member", "creator", "creator", "join", NoUsers, "", {1}, {1}, 2, 1, 2),
       Ev("pl", "creator", "", "", InitPL, "", {2}, {1, 2}, 3, 1, 3),
       Ev("jr", "creator", "", "", NoUsers, "public", {3}, {1, 2, 3}, 4, 1, 4),
       Ev("member", "alice", "alice", "join", NoUsers, "", {4}, {1, 3, 4}, 5, 1, 5),
       Ev("member", "bob", "bob", "join", NoUsers, "", {5}, {1, 3, 4}, 6, 1, 6) >>

\* a second starting point: bob has been promoted to level 50 and carol has joined
Prefix2 ==
    Prefix \o
    << Ev("pl", "creator", "", "", [InitPL EXCEPT !["bob"] = 3], "", {6}, {1, 2, 3}, 7, 1, 7),
       Ev("member", "carol", "carol", "join", NoUsers, "", {7}, {1, 4, 7}, 8, 1, 8) >>

\* starting points 4 and 5: as the second, but the power-levels event also sets users_default - to 50 (Start 4)
\* or 100 (Start 5).  alice and carol are not listed in `users` and hold their level through users_default only, bob
\* (listed, 50) and - before privileged creators - the creator (listed, 100) hold theirs through an entry: the
\* effective level Eff(users[u], users_default) is what the auth rules and the power ordering (R2) read.  In these
\* rooms users_default is also a free dimension (kind "pld" below).
\* Start 8 is the family of both: one model run contains rooms whose event 7 has different contents (in room
\* versions with sender-chosen event IDs different events may carry one ID; a resolver must not remember across
\* calls what it read under an ID).
Prefix4(pud) ==
    Prefix \o
    << [Ev("pl", "creator", "", "", [InitPL EXCEPT !["bob"] = 3], "", {6}, {1, 2, 3}, 7, 1, 7) EXCEPT !.pud = pud],
       Ev("member", "carol", "carol", "join", NoUsers, "", {7}, {1, 4, 7}, 8, 1, 8) >>
PrefixPuds == CASE Start = 4 -> {R50} [] Start = 5 -> {4} [] OTHER -> {R50, 4}

\* starting point 7: the second, plus a power-levels and a join-rules event under the state key "x" (9, 10).  They
\* have the type of a control event but are ordinary entries of the state map: (pl, "") and (pl, "x") are different
\* keys, every later state holds both, and all state sets of a fork agree on 9 and 10 unless a free event of kind
\* "plx" / "jrx" replaces them.  Starting point 6 is the second with these two kinds enabled and no such event yet.
Prefix7 ==
    Prefix2 \o
    << Ev("pl", "creator", "x", "", [InitPL EXCEPT !["bob"] = 3], "", {8}, {1, 2, 7}, 9, 1, 9),
       Ev("jr", "creator", "x", "", NoUsers, "invite", {9}, {1, 2, 7}, 10, 1, 10) >>

\* a third starting point: a side branch with its own power-levels event (7) and a topic authorised by it (8),
\* a concurrent power-levels event on the main branch (9), and a merge (10).  Rooms that fork after the merge
\* have state sets that agree on the power levels while one topic still cites the side branch's power levels:
\* that event is then in the auth chain of some state sets only.
Prefix3 ==
    LET E9 == Prefix \o
              << Ev("pl", "creator", "", "", [InitPL EXCEPT !["bob"] = 3], "", {5}, {1, 2, 3}, 6, 1, 7),
                 Ev("topic", "creator", "", "", NoUsers, "", {7}, {1, 2, 7}, 7, 1, 8),
                 Ev("pl", "creator", "", "", [InitPL EXCEPT !["alice"] = 3], "", {6}, {1, 2, 3}, 7, 1, 9) >>
        a8 == {1, 2, 4, 5, 7, 8}
        a9 == {1, 2, 4, 5, 6, 9}
        S == Resolve(E9, Ver, <<a8, a9>>)
        E10 == Append(E9, Ev("jr", "creator", "", "", NoUsers, "invite", {8, 9},
                             {1, 2} \cup {p \in S : E9[p].type = "pl"}, 8, 1, 10))
    IN [E |-> E10,
        after |-> [i \in 1..10 |-> CASE i <= 6 -> 1..i [] i = 7 -> {1, 2, 4, 5, 7} [] i = 8 -> a8 [] i = 9 -> a9
                                     [] OTHER -> ApplyTo(E10, S, 10)]]

InitRoomS(s0) ==
        \/ /\ Start = 1 /\ E = Spelled(Prefix, s0) /\ after = [i \in 1..6 |-> 1..i] /\ last = 0
        \/ /\ Start = 2 /\ E = Spelled(Prefix2, s0)
           /\ after = [i \in 1..8 |-> IF i <= 6 THEN 1..i ELSE IF i = 7 THEN {1, 2, 4, 5, 6, 7} ELSE {1, 2, 4, 5, 6, 7, 8}]
           /\ last = 0
        \/ /\ Start = 3 /\ E = Spelled(Prefix3.E, s0) /\ after = Prefix3.after /\ last = 0
        \/ /\ Start \in {4, 5, 8} /\ \E pud \in PrefixPuds : E = Spelled(Prefix4(pud), s0)
           /\ after = [i \in 1..8 |-> IF i <= 6 THEN 1..i ELSE IF i = 7 THEN {1, 2, 4, 5, 6, 7} ELSE {1, 2, 4, 5, 6, 7, 8}]
           /\ last = 0
        \/ /\ Start = 6 /\ E = Spelled(Prefix2, s0)
           /\ after = [i \in 1..8 |-> IF i <= 6 THEN 1..i ELSE IF i = 7 THEN {1, 2, 4, 5, 6, 7} ELSE {1, 2, 4, 5, 6, 7, 8}]
           /\ last = 0
        \/ /\ Start = 7 /\ E = Spelled(Prefix7, s0)
           /\ after = [i \in 1..10 |-> IF i <= 6 THEN 1..i ELSE {1, 2, 4, 5, 6} \cup 7..i]
           /\ last = 0

\* the creation prefix in every spelling of the run (the state sets are sets of ids: nothing else changes; the
\* resolution inside Prefix3 does not read the spelling - StateRes!LevelsSpellingFree)
InitRoom == \E s0 \in RoomSpells : InitRoomS(s0)

Init == /\ before = {}
        /\ nbad = 0
        /\ InitRoom


Base == CASE Start = 1 -> 6 [] Start \in {2, 4, 5, 6, 8} -> 8 [] OTHER -> 10

\* ancestors through prev_events
RECURSIVE PrevReach(_, _, _)
PrevReach(EE, frontier, seen) ==
    LET nxt == (UNION {EE[e].prev : e \in frontier}) \ seen IN
    IF nxt = {} THEN seen ELSE PrevReach(EE, nxt, seen \cup nxt)
Ancestors(EE, e) == PrevReach(EE, {e}, {})
Incomparable(EE, a, b) == a # b /\ a \notin Ancestors(EE, b) /\ b \notin Ancestors(EE, a)

MaxOf(S) == CHOOSE x \in S : \A y \in S : y <= x

\* the state a server sees at a set of forward extremities
StateAt(prevs) ==
    IF Cardinality(prevs) = 1 THEN after[CHOOSE p \in prevs : TRUE]
    ELSE Resolve(E, Ver, SetToSortSeq({after[p] : p \in prevs}, LAMBDA a, b : MaxOf(a) < MaxOf(b)))

\* current power-levels content in a state
PLIn(S) == LET pl == ForKey(E, S, <<"pl", "">>) IN IF pl = {} THEN EmptyPL ELSE PLCOf(E, CHOOSE p \in pl : TRUE)

\* "pl" changes one entry of the users map (users_default is kept), "pld" changes users_default (the users map is
\* kept); "pld" exists in the rooms whose creation prefix sets users_default (rooms of the other prefixes are shared
\* with models whose concretisers have no such dimension)
\* "plx" / "jrx" send a power-levels / join-rules event under the state key "x" (the power-levels content: the current
\* one, or the current one with alice at 50 - the auth rules judge it like any power-levels event); they exist in
\* the rooms of prefixes 6 and 7
Kinds == {"join", "leave", "ban", "kick", "invite", "pl", "jr", "topic"} \cup (IF Start \in {4, 5, 8} THEN {"pld"} ELSE {})
           \cup (IF Start \in {6, 7} THEN {"plx", "jrx"} ELSE {})
PLTargets == {"alice", "bob", "carol"}
PLLevels == {1, 3, 4}
PudLevels == {Absent, R50, 4}

\* Send: user u adds one event on top of the antichain prevs, S being the state resolved there
MemIn(S, u) == LET m == ForKey(E, S, <<"member", u>>) IN IF m = {} THEN "absent" ELSE E[CHOOSE x \in m : TRUE].membership
LevelIn(S, u) == IF PrivilegedCreators(Ver) /\ u \in ({"creator"} \cup Addl) THEN Inf
                 ELSE Eff(PLIn(S).users[u], Thr(PLIn(S), "users_default"))

\* cheap necessary conditions of the auth rules (all thresholds but users_default keep their defaults in this model:
\* a power event needs the effective level 50, from an entry or from users_default); they only
\* prune the enumeration - the real guard is AllowedAt below
Plausible(S, u, kind) ==
    CASE kind = "join" -> MemIn(S, u) # "ban"
      [] kind = "leave" -> MemIn(S, u) \in {"join", "invite"}
      [] kind = "invite" -> MemIn(S, u) = "join"
      [] OTHER -> MemIn(S, u) = "join" /\ (Dishonest \/ LevelIn(S, u) >= R50)

\* sp: the spelling a power-levels event is written in ("int" for every other kind)
SendSp(u, kind, t, lvl, rule, sp, prevs, ts, S) ==
    /\ LET i == N + 1
           depth == 1 + MaxOf({E[p].depth : p \in prevs})
           draft ==
             CASE kind = "join" -> Ev("member", u, u, "join", NoUsers, "", prevs, {}, depth, ts, i)
               [] kind = "leave" -> Ev("member", u, u, "leave", NoUsers, "", prevs, {}, depth, ts, i)
               [] kind = "ban" -> Ev("member", u, t, "ban", NoUsers, "", prevs, {}, depth, ts, i)
               [] kind = "kick" -> Ev("member", u, t, "leave", NoUsers, "", prevs, {}, depth, ts, i)
               [] kind = "invite" -> Ev("member", u, t, "invite", NoUsers, "", prevs, {}, depth, ts, i)
               [] kind = "pl" -> [Ev("pl", u, "", "", [PLIn(S).users EXCEPT ![t] = lvl], "", prevs, {}, depth, ts, i)
                                    EXCEPT !.pud = PLIn(S).users_default, !.spell = sp]
               [] kind = "pld" -> [Ev("pl", u, "", "", PLIn(S).users, "", prevs, {}, depth, ts, i) EXCEPT !.pud = lvl, !.spell = sp]
               [] kind = "plx" -> [Ev("pl", u, "x", "", [PLIn(S).users EXCEPT ![t] = lvl], "", prevs, {}, depth, ts, i)
                                     EXCEPT !.pud = PLIn(S).users_default, !.spell = sp]
               [] kind = "jr" -> Ev("jr", u, "", "", NoUsers, rule, prevs, {}, depth, ts, i)
               [] kind = "jrx" -> Ev("jr", u, "x", "", NoUsers, rule, prevs, {}, depth, ts, i)
               [] OTHER -> Ev("topic", u, "", "", NoUsers, "", prevs, {}, depth, ts, i)
           E1 == Append(E, draft)
           auth == {p \in S : KeyOf(E, p) \in NeededKeys(E1, i)}
           E2 == [E1 EXCEPT ![i].auth = auth]
       IN /\ (kind \in {"ban", "kick", "invite"} => t # u)
          /\ (kind \notin {"pl", "pld", "plx"} => sp = "int")
          /\ (kind = "pl" => PLIn(S).users[t] # lvl)                  \* a real change
          /\ (kind = "pld" => PLIn(S).users_default # lvl)
          /\ (kind = "jr" => ForKey(E, S, <<"jr", "">>) = {} \/ E[CHOOSE j \in ForKey(E, S, <<"jr", "">>) : TRUE].jr # rule)
          \* honest servers only send what their state allows ("= TRUE": evaluate as a value; left as an action
          \* formula TLC would branch on every disjunction inside Allowed)
          \* a dishonest server slips in at most MaxBad such events; what is sent on top of one is again allowed
          \* by the (tainted) state it is sent on
          /\ LET ok == AllowedAt(E2, Ver, auth, i) = TRUE IN
                /\ ok \/ (Dishonest /\ nbad < MaxBad)
                /\ nbad' = IF ok THEN nbad ELSE nbad + 1
          /\ E' = E2
          /\ after' = Append(after, ApplyTo(E2, S, i))
          /\ last' = i
          /\ before' = S

Send(u, kind, t, lvl, rule, prevs, ts, S) == SendSp(u, kind, t, lvl, rule, "int", prevs, ts, S)

\* the spellings a new power-levels event may be written in: as the room's current power levels are written (a
\* client that re-sends what it read), or plain integers (one that normalises); with nothing but integers in the
\* run this is {"int"}
SpellIn(S) == LET pl == ForKey(E, S, <<"pl", "">>) IN IF pl = {} THEN "int" ELSE E[CHOOSE p \in pl : TRUE].spell
NewSpells(S, kind) == IF kind \in {"pl", "pld", "plx"} THEN {SpellIn(S)} \cup (RoomSpells \cap {"int"}) ELSE {"int"}

Antichains ==
    LET ids == {x \in DOMAIN E : x >= ForkFrom} IN
    {{a} : a \in ids} \cup UNION {{{a, b} : b \in {y \in ids : Incomparable(E, a, y)}} : a \in ids}

Next ==
    /\ N < Base + MaxFree
    /\ \E prevs \in Antichains :
         LET S == StateAt(prevs) IN
         \E u \in Users, kind \in Kinds :
            /\ Plausible(S, u, kind) = TRUE
            /\ \E ts \in TSChoices,
                  t \in (IF kind \in {"ban", "kick", "invite"} THEN Users ELSE IF kind = "pl" THEN PLTargets
                         ELSE IF kind = "plx" THEN {"alice"} ELSE {u}),
                  lvl \in (IF kind = "pl" THEN PLLevels ELSE IF kind = "pld" THEN PudLevels
                           ELSE IF kind = "plx" THEN {PLIn(S).users["alice"], R50} ELSE {0}),
                  rule \in (IF kind \in {"jr", "jrx"} THEN {"public", "invite"} ELSE {""}),
                  sp \in NewSpells(S, kind) :
                  SendSp(u, kind, t, lvl, rule, sp, prevs, ts, S)

Spec == Init /\ [][Next]_vars

(***************************************************************************)
(* Properties of the definition, for every reachable room and every pair   *)
(* of incomparable events (fork tips)                                      *)
(***************************************************************************)
ForkPairs == {<<a, b>> \in (DOMAIN E) \X (DOMAIN E) : a < b /\ b = last /\ Incomparable(E, a, b)}

\* for a fork pair and its resolved state R: well-formedness (C11's structural clauses) and room-level sanity
\* (the create event always survives; a user banned in both branches is not joined in the result).
\* Order independence needs no check on the definition: Resolve only reads Sets through DOMAIN-quantified
\* set expressions, so it is a function of the set of state sets by construction.
PairOK(a, b, R) ==
    /\ WellFormedR(E, <<after[a], after[b]>>, R)
    /\ 1 \in R
    /\ \A u \in Users :
         ((\E x \in after[a] : KeyOf(E, x) = <<"member", u>> /\ E[x].membership = "ban")
            /\ (\E y \in after[b] : KeyOf(E, y) = <<"member", u>> /\ E[y].membership = "ban"))
         => ~(\E r \in R : KeyOf(E, r) = <<"member", u>> /\ E[r].membership = "join")

\* C08 along room histories: every power-levels event an honest server sends (i.e. that the rules accept on
\* top of the state it was sent on) satisfies the no-escalation invariant
HistoryNoEsc == (last # 0 /\ E[last].type = "pl" /\ AllowedAt(E, Ver, E[last].auth, last))
                   => NoEsc(Ver, StOf(E, before), EvOf(E, last))

\* R2 on honest events: the power the ordering reads from a power event's own auth events is the effective level its
\* sender had in the state the event was sent on (an entry of `users`, or users_default), and with the thresholds at
\* their defaults that is at least 50
PowerSenderOK == (last # 0 /\ IsControl(E, last) /\ AllowedAt(E, Ver, E[last].auth, last))
                    => /\ SenderPower(E, Ver, last) = LevelIn(before, E[last].sender)
                       /\ SenderPower(E, Ver, last) >= R50

ResolutionOK == \A p \in ForkPairs : PairOK(p[1], p[2], Resolve(E, Ver, <<after[p[1]], after[p[2]]>>))
=============================================================================
