------------------------------ MODULE FedVerify ------------------------------
(***************************************************************************)
(* C14 - only events that pass signature and auth checks leave federation  *)
(* verification.                                                           *)
(*                                                                         *)
(* A scenario is a room history built by honest servers (Room.tla: the     *)
(* auth relations are real), a response taken from it (auth-event list +   *)
(* state-event list), a fault per event and a behaviour of the caller's    *)
(* event provider per event ID.  The operators below give, from the        *)
(* property sentence and independently of how the library goes about it,   *)
(* the exact outcome of                                                    *)
(*    CheckState     - CheckStateResponse                                  *)
(*    CheckSendJoin  - CheckSendJoinResponse                               *)
(*    AuthChainOK    - VerifyEventAuthChain                                *)
(*    AuthAtState    - VerifyAuthRulesAtState                              *)
(*    LoadClass      - EventsLoader.LoadAndVerify (class of one input)     *)
(*                                                                         *)
(* Vocabulary (all operators are pure functions of their arguments):       *)
(*    EM - the event store (Room.tla records) AS SEEN ON THE WIRE: events  *)
(*         with the fault "disallowed" have been replaced by Mutated       *)
(*    F  - fault per event id                                              *)
(*    P  - behaviour of the event provider per event id                    *)
(***************************************************************************)
EXTENDS Room

NoFault == "none"
\* badsig     - the signature bytes are corrupted (the event ID is unchanged: signatures are not hashed)
\* disallowed - the event was built and signed normally by a user whom the auth rules do not let send it
\* missing    - the event is left out of the response although other events cite it
\* wrongroom  - the event carries another room's ID
\* nonstate   - the event has no state_key
\* dup        - the state list carries a second event with the same (type, state_key)
\* malformed  - the bytes in the response are not a parsable event
\* create_prevs / create_domain - the create event itself breaks the create rules (it has prev_events / its room
\*              ID is not of its sender's domain; the whole room then carries that room ID), everything built on
\*              it being consistent.  A create event is allowed by the create rules alone.
CreateFaults == {"create_prevs", "create_domain"}
\* sigcopy    - (load) the input list carries the event twice, one of the two copies with a destroyed signature
\* statedrop  - (send_join) the event is left out of the STATE list only: the auth chain still carries it, the
\*              returned state lacks its (type, state_key)
FaultKinds == {"badsig", "disallowed", "missing", "wrongroom", "nonstate", "dup", "malformed", "statedrop", "sigcopy"} \cup CreateFaults
ProvKinds == {"returns", "nothing", "errors"}

(***************************************************************************)
(* The "disallowed" fault: user y (not the real sender) sends the event,   *)
(* citing honestly the auth events the state before the event offers them; *)
(* it is a fault only if those auth events do not allow it.                *)
(***************************************************************************)
ImpostorStore(e, y) ==
    LET S == StateAt(E[e].prev)
        E1 == [E EXCEPT ![e].sender = y]
        auth == {p \in S : KeyOf(E, p) \in NeededKeys(E1, e)}
    IN [E1 EXCEPT ![e].auth = auth]

Impostors(e) ==
    IF E[e].type = "create" THEN {}
    ELSE {y \in Users \ {E[e].sender} : LET m == ImpostorStore(e, y) IN ~AllowedAt(m, Ver, m[e].auth, e)}

CanDisallow(e) == Impostors(e) # {}

\* the store as seen on the wire.  Where room IDs are the create event's ID (v12) an event of another room
\* implies another create event: it does not cite ours.
Mutated(F) ==
    [i \in DOMAIN E |->
        IF F[i] = "disallowed" THEN ImpostorStore(i, CHOOSE y \in Impostors(i) : TRUE)[i]
        ELSE IF F[i] = "wrongroom" /\ DomainlessRoomIDs(Ver) THEN [E[i] EXCEPT !.auth = @ \ {CreateId(E)}]
        ELSE E[i]]

(***************************************************************************)
(* "event e is allowed by the auth events A" (A: a set of ids), with the   *)
(* room of every event taken into account: the create event must be of the *)
(* event's room and the auth events must all be of one room.               *)
(***************************************************************************)
RoomOf(F, x) == IF F[x] = "wrongroom" THEN "other" ELSE "same"

StIn(EM, F, A, e) ==
    LET cr == ForKey(EM, A, <<"create", "">>) IN
    [StOf(EM, A) EXCEPT !.create.room = IF cr # {} /\ RoomOf(F, CHOOSE c \in cr : TRUE) = RoomOf(F, e) THEN "same" ELSE "other",
                        !.mixedrooms = Cardinality({RoomOf(F, a) : a \in A}) > 1]

\* the event as the rules see it
EvIn(EM, F, e) ==
    CASE F[e] = "create_prevs" -> [EvOf(EM, e) EXCEPT !.c_prevs = TRUE]
      [] F[e] = "create_domain" -> [EvOf(EM, e) EXCEPT !.c_domain = "mismatch"]
      [] OTHER -> EvOf(EM, e)

Allow(EM, F, A, e) == Allowed(Ver, StIn(EM, F, A, e), EvIn(EM, F, e))

(***************************************************************************)
(* CheckStateResponse(auth list AL, state list SL)                         *)
(*  - events that do not parse never arrive;                               *)
(*  - the whole response fails on a non-state event or a duplicate         *)
(*    (type, state_key) in the state list;                                 *)
(*  - kept: exactly the events with verified signatures that are allowed   *)
(*    by those of their auth events that arrived with verified signatures  *)
(*    or were obtained from the provider.                                  *)
(* askmin / askmax: what the provider must have been / may be asked for    *)
(* (an auth event can only be "obtained from the provider" by asking).     *)
(***************************************************************************)
Parsed(F, X) == {e \in X : F[e] \notin {"missing", "malformed"}}
CitedBy(EM, X) == UNION {EM[e].auth : e \in X}

NoState == [fail |-> TRUE, auth |-> {}, state |-> {}, askmin |-> {}, askmax |-> {}]

CheckState(EM, F, P, AL, SL) ==
    LET arr == Parsed(F, AL \cup SL)
        fail == (\E e \in arr : F[e] = "nonstate") \/ (\E e \in Parsed(F, SL) : F[e] = "dup")
        ver == {e \in arr : F[e] # "badsig"}
        avail(e) == {a \in EM[e].auth : a \in ver \/ P[a] = "returns"}
        kept == {e \in ver : Allow(EM, F, avail(e), e)}
    IN IF fail THEN [NoState EXCEPT !.askmax = CitedBy(EM, arr) \ ver]
       ELSE [fail |-> FALSE, auth |-> kept \cap AL, state |-> kept \cap SL,
             askmin |-> CitedBy(EM, kept) \ ver, askmax |-> CitedBy(EM, arr) \ ver]

(***************************************************************************)
(* CheckSendJoinResponse: the checks of a state response, and the join     *)
(* event j allowed both by its auth events (those among the events that    *)
(* were kept, or obtained from the provider) and by the returned state.    *)
(***************************************************************************)
CheckSendJoin(EM, F, P, AL, SL, j) ==
    LET cs == CheckState(EM, F, P, AL, SL)
        kept == cs.auth \cup cs.state
        availJ == {a \in EM[j].auth : a \in kept \/ P[a] = "returns"}
        ok == IF cs.fail THEN FALSE ELSE Allow(EM, F, availJ, j) /\ Allow(EM, F, cs.state, j)
    IN [ok |-> ok, auth |-> IF ok THEN cs.auth ELSE {}, state |-> IF ok THEN cs.state ELSE {},
        askmin |-> cs.askmin \cup (IF ok THEN EM[j].auth \ kept ELSE {}),
        askmax |-> cs.askmax \cup (EM[j].auth \ kept)]

(***************************************************************************)
(* VerifyEventAuthChain(e): every auth event is fetched from the provider; *)
(* accepts exactly when e and, recursively, every fetched auth event is    *)
(* allowed by its (fetched) auth events.  A provider error is a failure.   *)
(***************************************************************************)
RECURSIVE ReachProv(_, _, _, _)
ReachProv(EM, P, frontier, seen) ==
    LET nxt == {a \in CitedBy(EM, frontier) : P[a] = "returns"} \ seen IN
    IF nxt = {} THEN seen ELSE ReachProv(EM, P, nxt, seen \cup nxt)

ChainReach(EM, P, e) == ReachProv(EM, P, {e}, {e})

\* loc[x]: event x is allowed by those of its auth events the provider returns
LocalOK(EM, F, P) == [x \in DOMAIN EM |-> Allow(EM, F, {a \in EM[x].auth : P[a] = "returns"}, x)]

AuthChainOKWith(EM, P, loc, e) ==
    LET R == ChainReach(EM, P, e) IN
    /\ \A a \in CitedBy(EM, R) : P[a] # "errors"
    /\ \A x \in R : loc[x]

AuthChainOK(EM, F, P, e) == AuthChainOKWith(EM, P, LocalOK(EM, F, P), e)

(***************************************************************************)
(* How the provider answers ONE call (C14-w10): "exact" - the events asked *)
(* for that it returns; "over" - those and, in the same answer, everything *)
(* they cite that it returns, recursively (a store backed by auth chains   *)
(* hands back the whole chain).  Fetched: the events obtained by asking,   *)
(* again and again, for what the events at hand cite and is not at hand.   *)
(* The sentence says "every fetched auth event": whichever call brought an *)
(* event, it is fetched - the outcome does not depend on the mode          *)
(* (FetchedWhicheverCall in FedVerify_gen).                                *)
(***************************************************************************)
ProvModes == {"exact", "over"}
Answer(EM, P, mode, ids) ==
    LET d == {a \in ids : P[a] = "returns"} IN
    IF mode = "exact" THEN d ELSE ReachProv(EM, P, d, d)

RECURSIVE Fetched(_, _, _, _, _)
Fetched(EM, P, mode, frontier, seen) ==
    LET nxt == Answer(EM, P, mode, CitedBy(EM, frontier) \ seen) \ seen IN
    IF nxt = {} THEN seen ELSE Fetched(EM, P, mode, nxt, seen \cup nxt)

\* what the provider must have been asked for when the chain of e verifies: in mode "over" events that came
\* unasked need not be asked for
ChainAskMin(EM, P, mode, e) ==
    IF mode = "exact" THEN CitedBy(EM, ChainReach(EM, P, e)) ELSE EM[e].auth

(***************************************************************************)
(* VerifyAuthRulesAtState(e) with S the state before e as the state        *)
(* provider reports it: accepts exactly when e is allowed by S, or - if    *)
(* permitted (av) - when all auth events of e belong to S.                 *)
(* pm: the state provider works ("ok"), fails to list the state IDs        *)
(* ("ids_error") or fails to return the state events ("state_error").      *)
(***************************************************************************)
\* "all auth events of e belong to S".  Where room IDs are create event IDs an event of another room cites, by its
\* room ID, a create event that no state of this room contains.
AuthEventsIn(EM, F, e, S) ==
    EM[e].auth \subseteq S /\ ~(F[e] = "wrongroom" /\ DomainlessRoomIDs(Ver) /\ EM[e].type # "create")

\* the part of the state S the auth rules read for event e (an event of the state that the rules do not read
\* for e - somebody else's membership, say - has no say, whatever room it claims to be of)
StateFor(EM, S, e) == {p \in S : KeyOf(EM, p) \in NeededKeys(EM, e)}

AuthAtState(EM, F, e, S, av, pm) ==
    IF pm = "ids_error" THEN FALSE
    ELSE IF av /\ AuthEventsIn(EM, F, e, S) THEN TRUE
    ELSE IF pm = "state_error" THEN FALSE
    ELSE Allow(EM, F, StateFor(EM, S, e), e)

\* Diagnosis only (never a verdict): the answer if e were judged against those of its OWN auth events that belong
\* to S instead of against S; lets the harness name a disagreement of that origin.
AuthAtStateCited(EM, F, e, S, av, pm) ==
    IF pm = "ids_error" THEN FALSE
    ELSE IF av /\ AuthEventsIn(EM, F, e, S) THEN TRUE
    ELSE IF pm = "state_error" THEN FALSE
    ELSE Allow(EM, F, EM[e].auth \cap S, e)

(***************************************************************************)
(* LoadAndVerify: one result per input, the class being the first check    *)
(* the event fails: valid event, signatures, auth chain, auth rules at the *)
(* state before the event (validation permitted).                          *)
(***************************************************************************)
LoadClass(EM, F, P, loc, e, S) ==      \* loc = LocalOK(EM, F, P), evaluated once for all inputs
    IF F[e] = "malformed" THEN "invalid"
    ELSE IF F[e] = "badsig" THEN "sig"
    ELSE IF ~AuthChainOKWith(EM, P, loc, e) THEN "chain"
    ELSE IF ~AuthAtState(EM, F, e, S, TRUE, "ok") THEN "rules"
    ELSE "ok"

LoadClassCited(EM, F, P, loc, e, S) ==     \* diagnosis only, see AuthAtStateCited
    IF F[e] = "malformed" THEN "invalid"
    ELSE IF F[e] = "badsig" THEN "sig"
    ELSE IF ~AuthChainOKWith(EM, P, loc, e) THEN "chain"
    ELSE IF ~AuthAtStateCited(EM, F, e, S, TRUE, "ok") THEN "rules"
    ELSE "ok"

(***************************************************************************)
(* RequestBackfill over several servers (C14-w10): every server's answer   *)
(* is loaded and verified on its own (a round); C = the sequence of the    *)
(* per-round classes.  An event that passes every check in SOME round is   *)
(* returned (a transient fault of the caller's providers while another     *)
(* server's copy was verified does not lose it), an event that in no round *)
(* gets further than an auth check is not, and nothing is returned twice.  *)
(* (Events failing only the signature check: the sentence is silent.)      *)
(***************************************************************************)
BackfillMust(C) == {e \in DOMAIN E : \E k \in DOMAIN C : C[k][e] = "ok"}
BackfillMay(C) == {e \in DOMAIN E : \E k \in DOMAIN C : C[k][e] \in {"ok", "sig"}}

(***************************************************************************)
(* The property, stated on inputs and outputs only.                        *)
(***************************************************************************)
\* an event carries a signature / auth fault: it must never be passed on
\* (an event of another room is at fault unless the create event it cites is of that room too: the sentence does
\* not ask for the room of a response to be checked, only for events to be allowed by their auth events)
BadEvent(F, e) == \/ F[e] \in {"badsig", "disallowed"} \cup CreateFaults
                  \/ E[e].type # "create" /\ RoomOf(F, e) # RoomOf(F, CreateId(E))
\* an event and all events it cites are fault free: it must not be lost
CleanEvent(F, e) == F[e] = NoFault /\ \A a \in E[e].auth : F[a] = NoFault

StateSafe(F, AL, SL, out) ==
    /\ out.auth \subseteq AL /\ out.state \subseteq SL
    /\ \A e \in out.auth \cup out.state : ~BadEvent(F, e) /\ F[e] \notin {"missing", "malformed"}
StateComplete(F, AL, SL, out) ==
    ~out.fail => /\ \A e \in AL : CleanEvent(F, e) => e \in out.auth
                 /\ \A e \in SL : CleanEvent(F, e) => e \in out.state
StateFailsOn(F, AL, SL, out) ==
    out.fail <=> \/ \E e \in AL \cup SL : F[e] = "nonstate"
                 \/ \E e \in SL : F[e] = "dup"
=============================================================================
