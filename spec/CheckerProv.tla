---------------------------- MODULE CheckerProv ----------------------------
(***************************************************************************)
(* C09 - the auth event provider (AuthEvents) as a HISTORY of its public   *)
(* operations: NewAuthEvents(list) / AddEvent(e) / Clear().  Every auth    *)
(* check starts from what the provider answers to Create(), JoinRules(),   *)
(* PowerLevels(), Member(u), ThirdPartyInvite(t) and Valid(), so "the      *)
(* verdict is a function of the event and of the auth events for exactly   *)
(* the (type, state_key) pairs the event needs" demands of the provider:   *)
(*                                                                         *)
(*   ReadsLastAdd : an accessor for the pair (t, k) answers with the LAST  *)
(*                  event added under exactly that type AND exactly that   *)
(*                  state key since the last Clear, or with nothing;       *)
(*   ValidHeld    : Valid() says whether the events HELD NOW are of one    *)
(*                  room.                                                  *)
(*                                                                         *)
(* Nothing else of the history may show: not an event of the same type     *)
(* under another state key (a state event of type m.room.power_levels with *)
(* state key "draft" is ordinary room state, it is not the room's power    *)
(* levels), not an event of another type under the same state key (kinds   *)
(* do not cross: m.room.third_party_invite keyed by a user ID, a member    *)
(* event keyed by a token or by ""), not an event that was replaced or     *)
(* cleared, not the order of the operations otherwise.                     *)
(*                                                                         *)
(* Lookup selects the modelled mechanics: "tuple" is the design (one map   *)
(* keyed by (type, state key)); with "type" the three events every check   *)
(* starts from are kept to hand by TYPE alone and TLC refutes ReadsLastAdd;*)
(* Rooms = "ever" remembers every room ever seen (refutes ValidHeld).      *)
(***************************************************************************)
EXTENDS Integers, Sequences, FiniteSets, TLC

CONSTANTS MaxOps, Lookup, Rooms

\* ---- the event universe ----------------------------------------------------------------------
\* t: event type, k: state key class, room: the room of the event; two entries with the same (t, k) are two
\* different event objects (other ID, other content): the later one replaces the earlier
E(t, k, room) == [t |-> t, k |-> k, room |-> room]
Universe == <<
    E("create", "empty", "same"),   \*  1 the room's create event
    E("pl", "empty", "same"),       \*  2 the room's power levels: u1 may send state
    E("pl", "empty", "same"),       \*  3 ... another power-levels event: u1 may not
    E("jr", "empty", "same"),       \*  4 the room's join rules: invite
    E("member", "u1", "same"),      \*  5 u1 joined
    E("member", "u1", "same"),      \*  6 u1 left
    E("member", "u2", "same"),      \*  7 u2 is invited
    E("member", "u2", "other"),     \*  8 u2 is invited - the event of ANOTHER room
    E("tpi", "tok", "same"),        \*  9 the third-party invite under the token
    \* ---- same type, another state key: ordinary room state
    E("pl", "odd", "same"),         \* 10 type m.room.power_levels, state key "draft": everybody is an admin
    E("jr", "odd", "same"),         \* 11 type m.room.join_rules, state key "proposal": public
    E("create", "odd", "same"),     \* 12 type m.room.create, state key "again": other creator, no federation
    E("member", "empty", "same"),   \* 13 a member event with state key ""
    \* ---- another type under a state key that an accessor uses: kinds do not cross
    E("tpi", "u1", "same"),         \* 14 third-party invite keyed by u1's user ID
    E("member", "tok", "same"),     \* 15 member event keyed by the token
    E("other", "empty", "same"),    \* 16 m.room.topic
    E("other", "u2", "same")        \* 17 some state keyed by u2's user ID
  >>
NU == 17
ClearOp == 0
Ops == 0..NU

\* what the accessors can be asked for
Pairs == {<<"create", "empty">>, <<"pl", "empty">>, <<"jr", "empty">>, <<"member", "u1">>, <<"member", "u2">>,
          <<"tpi", "tok">>}
PairOf(i) == <<Universe[i].t, Universe[i].k>>

VARIABLES hist,    \* history variable: the operations so far
          held,    \* mechanics: map slot -> index of the event held (0: none)
          rooms,   \* mechanics: what Valid() is computed from
          views    \* what the accessors answered after each operation
vars == <<hist, held, rooms, views>>

\* the slot an added event lands in
Slot(i) == IF Lookup = "type" /\ Universe[i].t \in {"create", "pl", "jr"} THEN <<Universe[i].t, "empty">> ELSE PairOf(i)
Slots == {PairOf(i) : i \in 1..NU}

HeldRooms(h) == {Universe[h[s]].room : s \in {x \in Slots : h[x] # 0}}

View(h, rs) == [create |-> h[<<"create", "empty">>], pl |-> h[<<"pl", "empty">>], jr |-> h[<<"jr", "empty">>],
                m1 |-> h[<<"member", "u1">>], m2 |-> h[<<"member", "u2">>], tpi |-> h[<<"tpi", "tok">>],
                valid |-> Cardinality(rs) <= 1]

Init == hist = <<>> /\ held = [s \in Slots |-> 0] /\ rooms = {} /\ views = <<>>

Add(i) ==
    /\ Len(hist) < MaxOps
    /\ hist' = Append(hist, i)
    /\ held' = [held EXCEPT ![Slot(i)] = i]
    /\ rooms' = IF Rooms = "ever" THEN rooms \cup {Universe[i].room} ELSE HeldRooms(held')
    /\ views' = Append(views, View(held', rooms'))

Clear ==
    /\ Len(hist) < MaxOps
    /\ hist' = Append(hist, ClearOp)
    /\ held' = [s \in Slots |-> 0]
    /\ rooms' = IF Rooms = "ever" THEN rooms ELSE {}
    /\ views' = Append(views, View(held', rooms'))

Next == Clear \/ \E i \in 1..NU : Add(i)
Spec == Init /\ [][Next]_vars

\* ---- the property, over the history alone ---------------------------------------------------
\* the operations since the last Clear among the first n
Since(n) == LET cs == {j \in 1..n : hist[j] = ClearOp}
                from == IF cs = {} THEN 1 ELSE (CHOOSE j \in cs : \A x \in cs : x <= j) + 1
            IN from..n
\* the last event added under exactly the pair p among the first n operations (0: none)
LastAdd(n, p) == LET js == {j \in Since(n) : PairOf(hist[j]) = p}
                 IN IF js = {} THEN 0 ELSE hist[CHOOSE j \in js : \A x \in js : x <= j]
AllPairs == {PairOf(i) : i \in 1..NU}

ReadsLastAdd == \A n \in 1..Len(views) :
    /\ views[n].create = LastAdd(n, <<"create", "empty">>)
    /\ views[n].pl = LastAdd(n, <<"pl", "empty">>)
    /\ views[n].jr = LastAdd(n, <<"jr", "empty">>)
    /\ views[n].m1 = LastAdd(n, <<"member", "u1">>)
    /\ views[n].m2 = LastAdd(n, <<"member", "u2">>)
    /\ views[n].tpi = LastAdd(n, <<"tpi", "tok">>)

ValidHeld == \A n \in 1..Len(views) :
    views[n].valid = (Cardinality({Universe[LastAdd(n, p)].room : p \in {q \in AllPairs : LastAdd(n, q) # 0}}) <= 1)

\* an accessor never answers with an event of another pair
OwnPair == \A n \in 1..Len(views) :
    /\ views[n].pl # 0 => PairOf(views[n].pl) = <<"pl", "empty">>
    /\ views[n].jr # 0 => PairOf(views[n].jr) = <<"jr", "empty">>
    /\ views[n].create # 0 => PairOf(views[n].create) = <<"create", "empty">>
=============================================================================
