---------------------------- MODULE KeyResponse ----------------------------
(***************************************************************************)
(* C12 - acceptance of server-key responses (keys.go: CheckKeys,           *)
(* checkVerifyKeys, ServerKeys.PublicKey; keyring.go: DirectKeyFetcher,    *)
(* PerspectiveKeyFetcher, mapServerKeysToPublicKeyLookupResult).           *)
(*                                                                         *)
(* A response is the record                                                *)
(*   [name,   server named in the body                                     *)
(*    vu,     valid_until_ts (hours relative to now)                       *)
(*    vkeys,  set of [kid, alg, key, size, sig]: verify_keys; sig says     *)
(*            whether signatures[name][kid] is a signature by `key`:       *)
(*            "good" | "bad" (entry made with another key) | "none"        *)
(*    old,    set of [kid, key, exp]: old_verify_keys                      *)
(*    nsig]   signature of the notary on the response: "good" | "bad"      *)
(*            (known key ID, wrong key) | "unknown" (key ID the client     *)
(*            does not know) | "none"                                      *)
(*    dup]    a top-level member of the JSON object written a second time  *)
(*            by whoever relays the response: [m, pos, c] (see "A member   *)
(*            written twice" below); NoDup for a response as it was signed *)
(* Symbolic cryptography as in KeyRing.tla.                                *)
(*                                                                         *)
(* A response is accepted for server S at instant `now` iff it names S,    *)
(* its valid_until_ts lies in the future, it has at least one ed25519 key  *)
(* and every ed25519 key is well formed and has signed the response; via   *)
(* a notary additionally the notary must have signed it with a known key.  *)
(* All of this is said of ONE reading of the response: the one its         *)
(* signatures cover (Reading below).                                       *)
(***************************************************************************)
EXTENDS Integers, Sequences, FiniteSets

NoTS == -9999
NoDup == [m |-> "none", pos |-> "before", c |-> "-"]

EdKeys(r) == {k \in r.vkeys : k.alg = "ed25519"}
KeyValid(k) == k.size = "ok"
KeyMatch(k) == k.size = "ok" /\ k.sig = "good"

\* the KeyChecks structure
Checks(expected, now, r) ==
    LET name == r.name = expected
        future == r.vu > now
        hased == EdKeys(r) # {}
        edok == \A k \in EdKeys(r) : KeyMatch(k)
        once == r.dup.m = "none"     \* a reading (see Reading): no member is left written twice
    IN [name |-> name, future |-> future, hased |-> hased, edok |-> edok,
        all |-> name /\ future /\ hased /\ edok /\ once,
        ed |-> {[kid |-> k.kid, valid |-> KeyValid(k), match |-> KeyMatch(k)] : k \in EdKeys(r)}]

Accepts(expected, now, r) == Checks(expected, now, r).all

\* the ed25519 keys CheckKeys hands back
CheckedKeys(expected, now, r) ==
    IF Accepts(expected, now, r) THEN {[kid |-> k.kid, key |-> k.key] : k \in EdKeys(r)} ELSE {}

\* lookup results an accepted response yields: verify_keys are current keys valid until the response's
\* valid_until_ts; old_verify_keys are keys "now only valid for checking historic events", expired at
\* their expired_ts (an ID listed in both is an old key)
Kids(S) == {k.kid : k \in S}
KeysOf(r) ==
    [kid \in Kids(r.vkeys) \cup Kids(r.old) |->
        IF kid \in Kids(r.old)
        THEN LET o == CHOOSE o \in r.old : o.kid = kid IN [key |-> o.key, vu |-> NoTS, exp |-> o.exp]
        ELSE LET v == CHOOSE v \in r.vkeys : v.kid = kid IN [key |-> v.key, vu |-> r.vu, exp |-> NoTS]]

\* ServerKeys.PublicKey(kid, ts): the key with that ID valid at ts: a current key up to and including
\* valid_until_ts, an old key strictly before the instant it "stopped being valid" (expired_ts)
PublicKeyAt(r, kid, ts) ==
    IF kid \in Kids(r.vkeys) /\ ts <= r.vu THEN (CHOOSE v \in r.vkeys : v.kid = kid).key
    ELSE IF kid \in Kids(r.old) /\ ts < (CHOOSE o \in r.old : o.kid = kid).exp
         THEN (CHOOSE o \in r.old : o.kid = kid).key
    ELSE "-"

KN(s, k) == s \o "/" \o k
Named(s, t) == [kn \in {KN(s, k) : k \in DOMAIN t} |-> t[CHOOSE k \in DOMAIN t : KN(s, k) = kn]]
Merge(t, u) == [k \in (DOMAIN t) \cup (DOMAIN u) |-> IF k \in DOMAIN u THEN u[k] ELSE t[k]]
MinOf(S) == CHOOSE x \in S : \A y \in S : x <= y

\* DirectKeyFetcher for one server: the server's own /key/v2/server answer if accepted, otherwise the
\* first entry naming the server in its answer to a /key/v2/query for itself, if accepted.
\* d = [kind "error"|"resp", r]    n = [kind "error"|"list", rs]
DirectOne(server, now, d, n) ==
    IF d.kind = "resp" /\ Accepts(server, now, d.r) THEN Named(server, KeysOf(d.r))
    ELSE IF n.kind = "list"
         THEN LET m == {i \in DOMAIN n.rs : n.rs[i].name = server} IN
              IF m # {} /\ Accepts(server, now, n.rs[MinOf(m)]) THEN Named(server, KeysOf(n.rs[MinOf(m)]))
              ELSE <<>>
         ELSE <<>>
DirectAsksNotary(server, now, d) == ~(d.kind = "resp" /\ Accepts(server, now, d.r))

\* PerspectiveKeyFetcher: every response must be signed by the notary with a known key and be accepted
\* for the server it names; one bad response spoils the whole answer.
ViaNotaryOK(now, r) == r.nsig = "good" /\ Accepts(r.name, now, r)
RECURSIVE MergeAll(_)
MergeAll(rs) == IF rs = <<>> THEN <<>>
                ELSE Merge(MergeAll(SubSeq(rs, 1, Len(rs) - 1)), Named(rs[Len(rs)].name, KeysOf(rs[Len(rs)])))
Perspective(now, p) ==
    IF p.kind = "list" /\ \A i \in DOMAIN p.rs : ViaNotaryOK(now, p.rs[i]) THEN MergeAll(p.rs) ELSE <<>>

\* ----------------------------------------------------------------- a member written twice
\* A key response travels as a JSON object.  Whoever relays it (a notary, a perspective server, anything
\* between them and us) can write one of its top-level members a second time without touching a byte of
\* what was signed.  Canonical JSON - what the origin's and the notary's signatures are made and verified
\* over - reads the LAST copy of a member.  So a response has exactly one reading its signatures cover:
\* every member as its last copy says.  The property ("accepted only if signed by the server it names, and
\* via a notary by the notary") speaks of that reading: nothing that stands only in an earlier copy may
\* reach the caller, whatever kind of value the member holds.
\*
\* dup = [m    which member: "verify_keys" | "old_verify_keys" | "server_name" | "valid_until_ts" |
\*             "signatures"   ("none": nothing is written twice)
\*        pos  the smuggled copy stands "before" or "after" the genuine one
\*        c    what the smuggled copy holds
\*             verify_keys      "evil"      an ID of its own (kx) with the relay's key X; the relay's own
\*                                          signature under that ID is put into the last signatures member
\*                              "evilnosig" the same without that signature
\*                              "sameid"    the ID of the genuine current key k1 with the relay's key X (what
\*                                          stands under signatures[name][k1] is not a signature by X)
\*                              "empty"     {}
\*             old_verify_keys  "evil"      kx -> X with an expired_ts far in the future
\*                              "sameid"    the same under the ID k0 | "empty" {}
\*             server_name      "other"     the other server
\*             valid_until_ts   "future" | "past"
\*             signatures       "attacker"  an object that holds only a signature of the relay (ID kx)]
\* name / vu / vkeys / old describe the response as the origin signed it; sig / nsig say what the
\* signatures are worth over THAT content.
FarTS == 9000
XKey(kid, sig) == [kid |-> kid, alg |-> "ed25519", key |-> "X", size |-> "ok", sig |-> sig]
SmugV(r) == CASE r.dup.c = "evil"      -> {XKey("kx", "good")}
              [] r.dup.c = "evilnosig" -> {XKey("kx", "none")}
              [] r.dup.c = "sameid"    -> {XKey("k1", "bad")}
              [] OTHER                 -> {}
SmugO(r) == CASE r.dup.c = "evil"   -> {[kid |-> "kx", key |-> "X", exp |-> FarTS]}
              [] r.dup.c = "sameid" -> {[kid |-> "k0", key |-> "X", exp |-> FarTS]}
              [] OTHER              -> {}
SmugName(r) == IF r.name = "s1" THEN "s2" ELSE "s1"
SmugVU(r) == IF r.dup.c = "future" THEN 48 ELSE -24

\* the response with the smuggled copy in the place of the genuine one
Replaced(r) ==
    CASE r.dup.m = "verify_keys"     -> [r EXCEPT !.vkeys = SmugV(r)]
      [] r.dup.m = "old_verify_keys" -> [r EXCEPT !.old = SmugO(r)]
      [] r.dup.m = "server_name"     -> [r EXCEPT !.name = SmugName(r)]
      [] r.dup.m = "valid_until_ts"  -> [r EXCEPT !.vu = SmugVU(r)]
      [] OTHER                       -> r
\* what the signatures are made over
Content(r) == [name |-> r.name, vu |-> r.vu, old |-> r.old,
               vkeys |-> {[kid |-> k.kid, key |-> k.key, size |-> k.size] : k \in r.vkeys}]
\* a signature made over other content is a bad signature
Stale(s) == IF s = "good" THEN "bad" ELSE s

\* THE reading of a response: every member as its last copy says, the signatures valued over it.  The
\* relay's key signs whatever the relay made of the response; everybody else signed the genuine content.
Reading(r) ==
    IF r.dup.m = "none" THEN r
    ELSE IF r.dup.pos = "before" THEN [r EXCEPT !.dup = NoDup]
    ELSE IF r.dup.m = "signatures"
         THEN [r EXCEPT !.vkeys = {[k EXCEPT !.sig = "none"] : k \in r.vkeys}, !.nsig = "none", !.dup = NoDup]
    ELSE LET q == Replaced(r) IN
         IF Content(q) = Content(r) THEN [r EXCEPT !.dup = NoDup]
         ELSE [q EXCEPT !.vkeys = {[k EXCEPT !.sig = IF k.key = "X" THEN k.sig ELSE Stale(k.sig)] : k \in q.vkeys},
                        !.nsig = Stale(q.nsig), !.dup = NoDup]

\* NOT a reading (kept to show that the scenarios tell it apart, see DupTeeth in the _gen module): a decoder
\* that unites the copies of an object-valued member, per key ID the later copy.  The keys of the earlier
\* copy then ride on signatures that do not cover them.
Override(A, B) == B \cup {a \in A : a.kid \notin {b.kid : b \in B}}
Merged(r) ==
    LET c == Reading(r)
        gv == IF r.dup.pos = "after" /\ Content(Replaced(r)) # Content(r)
              THEN {[k EXCEPT !.sig = Stale(k.sig)] : k \in r.vkeys} ELSE r.vkeys
    IN  CASE r.dup.m = "verify_keys" ->
                [c EXCEPT !.vkeys = IF r.dup.pos = "before" THEN Override(SmugV(r), gv) ELSE Override(gv, SmugV(r))]
          [] r.dup.m = "old_verify_keys" ->
                [c EXCEPT !.old = IF r.dup.pos = "before" THEN Override(SmugO(r), r.old) ELSE Override(r.old, SmugO(r))]
          [] OTHER -> c

\* What an implementation may do with a response that writes a member twice (the property leaves it open):
\*   "lastwins"  read it as its signatures do
\*   "refuse"    let it fail the checks (it stays in the answer it came in: a notary's answer is spoilt)
\*   "drop"      fail to decode it: a single response is an error of the client; an entry of a notary's list
\*               is left out (fclient.LookupServerKeys leaves out the entries it cannot decode)
Policies == {"lastwins", "refuse", "drop"}
View(pol, r) == IF r.dup.m = "none" THEN r
                ELSE IF pol = "lastwins" THEN Reading(r)
                ELSE [Reading(r) EXCEPT !.dup = r.dup]        \* still written twice: fails Checks(..).all
ViewD(pol, d) == IF d.kind # "resp" THEN d
                 ELSE IF pol = "drop" /\ d.r.dup.m # "none" THEN [d EXCEPT !.kind = "error"]
                 ELSE [d EXCEPT !.r = View(pol, d.r)]
ViewL(pol, n) == IF n.kind # "list" THEN n
                 ELSE LET kept == IF pol = "drop" THEN SelectSeq(n.rs, LAMBDA r : r.dup.m = "none") ELSE n.rs
                      IN  [n EXCEPT !.rs = [i \in DOMAIN kept |-> View(pol, kept[i])]]

\* the property: a key (with its validity) reaches the caller only as the reading of some response says,
\* and only if the response is acceptable in that reading (for `expected`, or via a notary for the server
\* it names and with the notary's signature)
Yield(expected, now, r, viaNotary) ==
    LET c == Reading(r)
        ok == IF viaNotary THEN ViaNotaryOK(now, c) ELSE Accepts(expected, now, c)
    IN  IF ok THEN Named(c.name, KeysOf(c)) ELSE <<>>
OnlyWhatIsSigned(tab, expected, now, resps, viaNotary) ==
    \A kn \in DOMAIN tab : \E r \in resps :
        LET y == Yield(expected, now, r, viaNotary) IN kn \in DOMAIN y /\ y[kn] = tab[kn]

\* ----- consequences that must hold of the oracle (checked by the _gen module over its scenarios)
\* a key reaches the caller only out of a response that names the right server, is signed by every
\* ed25519 key it lists, and is not past its valid_until_ts
OnlyFromAccepted(server, now, d, n) ==
    DirectOne(server, now, d, n) # <<>> =>
        \/ (d.kind = "resp" /\ Accepts(server, now, d.r))
        \/ (n.kind = "list" /\ \E i \in DOMAIN n.rs : Accepts(server, now, n.rs[i]))
=============================================================================
