---------------------------- MODULE KeyResponse ----------------------------
(***************************************************************************)
(* C12 - acceptance of server-key responses (keys.go: CheckKeys,           *)
(* checkVerifyKeys, ServerKeys.PublicKey; keyring.go: DirectKeyFetcher,    *)
(* PerspectiveKeyFetcher, mapServerKeysToPublicKeyLookupResult).           *)
(*                                                                         *)
(* A response is the record                                                *)
(*   [name,   server named in the body                                     *)
(*    vu,     valid_until_ts (hours relative to now)                       *)
(*    vkeys,  set of [kid, alg, key, size, sig]: verify_keys; sig says     *)
(*            whether signatures[name][kid] is a signature by `key`:       *)
(*            "good" | "bad" (entry made with another key) | "none"        *)
(*    old,    set of [kid, key, exp]: old_verify_keys                      *)
(*    nsig]   signature of the notary on the response: "good" | "bad"      *)
(*            (known key ID, wrong key) | "unknown" (key ID the client     *)
(*            does not know) | "none"                                      *)
(* Symbolic cryptography as in KeyRing.tla.                                *)
(*                                                                         *)
(* A response is accepted for server S at instant `now` iff it names S,    *)
(* its valid_until_ts lies in the future, it has at least one ed25519 key  *)
(* and every ed25519 key is well formed and has signed the response; via   *)
(* a notary additionally the notary must have signed it with a known key.  *)
(***************************************************************************)
EXTENDS Integers, Sequences, FiniteSets

NoTS == -9999

EdKeys(r) == {k \in r.vkeys : k.alg = "ed25519"}
KeyValid(k) == k.size = "ok"
KeyMatch(k) == k.size = "ok" /\ k.sig = "good"

\* the KeyChecks structure
Checks(expected, now, r) ==
    LET name == r.name = expected
        future == r.vu > now
        hased == EdKeys(r) # {}
        edok == \A k \in EdKeys(r) : KeyMatch(k)
    IN [name |-> name, future |-> future, hased |-> hased, edok |-> edok,
        all |-> name /\ future /\ hased /\ edok,
        ed |-> {[kid |-> k.kid, valid |-> KeyValid(k), match |-> KeyMatch(k)] : k \in EdKeys(r)}]

Accepts(expected, now, r) == Checks(expected, now, r).all

\* the ed25519 keys CheckKeys hands back
CheckedKeys(expected, now, r) ==
    IF Accepts(expected, now, r) THEN {[kid |-> k.kid, key |-> k.key] : k \in EdKeys(r)} ELSE {}

\* lookup results an accepted response yields: verify_keys are current keys valid until the response's
\* valid_until_ts; old_verify_keys are keys "now only valid for checking historic events", expired at
\* their expired_ts (an ID listed in both is an old key)
Kids(S) == {k.kid : k \in S}
KeysOf(r) ==
    [kid \in Kids(r.vkeys) \cup Kids(r.old) |->
        IF kid \in Kids(r.old)
        THEN LET o == CHOOSE o \in r.old : o.kid = kid IN [key |-> o.key, vu |-> NoTS, exp |-> o.exp]
        ELSE LET v == CHOOSE v \in r.vkeys : v.kid = kid IN [key |-> v.key, vu |-> r.vu, exp |-> NoTS]]

\* ServerKeys.PublicKey(kid, ts): the key with that ID valid at ts: a current key up to and including
\* valid_until_ts, an old key strictly before the instant it "stopped being valid" (expired_ts)
PublicKeyAt(r, kid, ts) ==
    IF kid \in Kids(r.vkeys) /\ ts <= r.vu THEN (CHOOSE v \in r.vkeys : v.kid = kid).key
    ELSE IF kid \in Kids(r.old) /\ ts < (CHOOSE o \in r.old : o.kid = kid).exp
         THEN (CHOOSE o \in r.old : o.kid = kid).key
    ELSE "-"

KN(s, k) == s \o "/" \o k
Named(s, t) == [kn \in {KN(s, k) : k \in DOMAIN t} |-> t[CHOOSE k \in DOMAIN t : KN(s, k) = kn]]
Merge(t, u) == [k \in (DOMAIN t) \cup (DOMAIN u) |-> IF k \in DOMAIN u THEN u[k] ELSE t[k]]
MinOf(S) == CHOOSE x \in S : \A y \in S : x <= y

\* DirectKeyFetcher for one server: the server's own /key/v2/server answer if accepted, otherwise the
\* first entry naming the server in its answer to a /key/v2/query for itself, if accepted.
\* d = [kind "error"|"resp", r]    n = [kind "error"|"list", rs]
DirectOne(server, now, d, n) ==
    IF d.kind = "resp" /\ Accepts(server, now, d.r) THEN Named(server, KeysOf(d.r))
    ELSE IF n.kind = "list"
         THEN LET m == {i \in DOMAIN n.rs : n.rs[i].name = server} IN
              IF m # {} /\ Accepts(server, now, n.rs[MinOf(m)]) THEN Named(server, KeysOf(n.rs[MinOf(m)]))
              ELSE <<>>
         ELSE <<>>
DirectAsksNotary(server, now, d) == ~(d.kind = "resp" /\ Accepts(server, now, d.r))

\* PerspectiveKeyFetcher: every response must be signed by the notary with a known key and be accepted
\* for the server it names; one bad response spoils the whole answer.
ViaNotaryOK(now, r) == r.nsig = "good" /\ Accepts(r.name, now, r)
RECURSIVE MergeAll(_)
MergeAll(rs) == IF rs = <<>> THEN <<>>
                ELSE Merge(MergeAll(SubSeq(rs, 1, Len(rs) - 1)), Named(rs[Len(rs)].name, KeysOf(rs[Len(rs)])))
Perspective(now, p) ==
    IF p.kind = "list" /\ \A i \in DOMAIN p.rs : ViaNotaryOK(now, p.rs[i]) THEN MergeAll(p.rs) ELSE <<>>

\* ----- consequences that must hold of the oracle (checked by the _gen module over its scenarios)
\* a key reaches the caller only out of a response that names the right server, is signed by every
\* ed25519 key it lists, and is not past its valid_until_ts
OnlyFromAccepted(server, now, d, n) ==
    DirectOne(server, now, d, n) # <<>> =>
        \/ (d.kind = "resp" /\ Accepts(server, now, d.r))
        \/ (n.kind = "list" /\ \E i \in DOMAIN n.rs : Accepts(server, now, n.rs[i]))
=============================================================================
