SPECIFICATION Spec
CONSTANTS
  Versions <- VersionsPairs
  FullVersions <- VersionsPairs
  Families <- FamBoth
  Kinds <- KindsExtra
  ChunkSize = 6
  MaxHist = 1
  FullOffsets <- OffNone
  LiteOffsets <- OffNone
  AllOnlyOffsets <- OffNone
INVARIANTS TypeOK PExact PIdempotent PHistory PCore PIdentity PModule PSanity Emit
CHECK_DEADLOCK FALSE
