---------------------------- MODULE JSONSign_gen ----------------------------
(***************************************************************************)
(* Generation wrapper for JSONSign.tla (spec -> code).  Every reachable    *)
(* state of the bounded model carries its whole history, so every state is *)
(* one behaviour; each is printed as one JSON record                       *)
(*   start (object, presentation, spelling of the empty signature map),    *)
(*   hist  (the actions), ver (the triples <<entity, key ID, key>> that    *)
(*   verify in the final state), kids (ListKeyIDs per entity)              *)
(* and replayed against the real library by harness/cmd/c02.               *)
(*                                                                         *)
(* GenNext is Next with symmetry pruning.  Entities, key IDs and keys are  *)
(* interchangeable in the specification and the harness assigns concrete   *)
(* names / key pairs to the labels by a seeded permutation, so:            *)
(*   - the first action is a signature by <<E1, K1, P1>>;                  *)
(*   - key P3 is only used once P2 has been used;                          *)
(*   - after the first action ForeignSign is only taken by the entity that *)
(*     did not sign first ("another entity adds its signature"); it may    *)
(*     also add an entry that is no signature at all (key Junk).           *)
(* Starts whose distinguishing feature can only matter to the first        *)
(* signature carry a small depth budget (start.depth); the one start that  *)
(* is explored five actions deep allows two signatures (start.signs).      *)
(*                                                                         *)
(* FormSpec is a second family for the dimension "form of the entries      *)
(* next to a genuine signature" (ForeignEntry): E1 signs with SignJSON,    *)
(* then entries of every form of ForeignForms are left in every place      *)
(* relative to that signature - another entity's, the signer's under       *)
(* another key ID, either under a key ID of another algorithm (KA), and    *)
(* the signer's own place - interleaved with a second SignJSON signer, an  *)
(* external signer, one tamper, an edit of unsigned and re-serialisations. *)
(* One level up (ForeignEntity) signatures[E2], or signatures[E1] itself,  *)
(* is left as something that is no object, in every form of EntityForms.   *)
(***************************************************************************)
EXTENDS JSONSign, Json

GenEntities == {"E1", "E2"}
GenKeyIDs   == {"K1", "K2"}
GenKeys     == {"P1", "P2", "P3"}
GenPlain    == {"a", "b"}
GenNested   == {"c"}
GenVals     == {"v1", "v2"}
GenNVals    == {"d0", "d1", "d2"}      \* c without d / c.d = first value / c.d = second value
GenUVals    == {"u1", "u2"}
GenPres     == {"canon", "ws", "order", "esc", "all"}
\* how a document without any signature writes that down: no member, {}, null, {E1: null}, {E1: {}}
SigTags     == {"absent", "empty", "null", "entnull", "entempty"}

MainObj  == [a |-> "v1",   b |-> Absent, c |-> "d1",   unsigned |-> "u1"]
BareObj  == [a |-> Absent, b |-> Absent, c |-> Absent, unsigned |-> Absent]
FullObj  == [a |-> "v2",   b |-> "v1",   c |-> "d0",   unsigned |-> Absent]

St(o, p, t, d) == [obj |-> o, pres |-> p, sigs |-> t, depth |-> d, signs |-> 3]
St2(o, p, t, d) == [St(o, p, t, d) EXCEPT !.signs = 2]

StartsQuick ==
    \* (after a first Sign the document is canonical whatever it was: the canonical start only differs from
    \*  the "all" start in what the first action is given, so three actions are enough for it)
    {St(MainObj, "all", "absent", 4), St(MainObj, "canon", "absent", 3)}
    \cup {St(MainObj, "ws", t, 2) : t \in SigTags \ {"absent"}}
    \cup {St(BareObj, p, "absent", 3) : p \in {"canon", "ws"}}
    \cup {St(FullObj, p, "absent", 3) : p \in {"order", "esc"}}

StartsThorough ==
    {St2(MainObj, "all", "absent", 5)}                  \* five actions, at most two of them signatures
    \cup {St(MainObj, p, "absent", 4) : p \in {"canon", "ws", "order", "esc"}}
    \cup {St(MainObj, p, t, 3) : p \in {"ws", "all"}, t \in SigTags \ {"absent"}}
    \cup {St(BareObj, "canon", "absent", 4), St(BareObj, "all", "null", 4)}
    \cup {St(FullObj, p, "absent", 4) : p \in {"order", "esc"}}

\* forms of entries that are no signatures; the unrestricted specification is model-checked with one form that a
\* signer cannot carry over (at the level of an entry) and one that it can (at the level of an entity): nothing in
\* JSONSign.tla distinguishes forms any further, and FormSpec checks every invariant with all of them
GenForms     == {"padded", "text", "scalar", "object", "list", "blank"}
BaseForms    == {"padded"}
NoForms      == {}
\* forms of a signatures[entity] that is no object (blank: null)
GenEntForms  == {"blank"}   \* text / scalar / list under another entity's name: not demanded by the property (DESIGN.md 11.2)
BaseEntForms == {"blank"}
\* FormSpec: K1, K2 are ed25519 key IDs, KA is a key ID of another algorithm (nobody signs with it)
FormKeyIDs   == {"K1", "K2", "KA"}
StF(o, p, d) == [obj |-> o, pres |-> p, sigs |-> "absent", depth |-> d, signs |-> d]
StartsFormQuick    == {StF(MainObj, "ws", 3)}
StartsFormThorough == {StF(MainObj, "ws", 4), StF(FullObj, "canon", 3)}

\* the unrestricted specification (Spec, every action with every parameter) is model-checked from these
StartsBase == {St(MainObj, "ws", "absent", 3)}

UsedKeys == {slog[i].key : i \in 1..Len(slog)}
\* (IF, not a disjunction: TLC would enumerate both disjuncts as separate sub-actions)
KeyOK(k) == IF k = "P3" THEN "P2" \in UsedKeys ELSE TRUE

GenNext ==
    \/ /\ hist = <<>>
       /\ Sign("E1", "K1", "P1") \/ ForeignSign("E1", "K1", "P1")
    \/ /\ hist # <<>>
       /\ \/ \E e \in Entities, kid \in KeyIDs, k \in Keys : KeyOK(k) /\ Sign(e, kid, k)
          \/ \E kid \in KeyIDs, k \in Keys : KeyOK(k) /\ ForeignSign("E2", kid, k)
          \/ \E kid \in KeyIDs : ForeignSign("E2", kid, Junk)
          \/ \E m \in PlainMembers, v \in Vals : Mutate(m, v) \/ Insert(m, v)
          \/ \E m \in NestedMembers, v \in NVals : NestedEdit(m, v) \/ Insert(m, v)
          \/ \E m \in PlainMembers \cup NestedMembers : Delete(m)
          \/ \E u \in UVals \cup {Absent} : EditUnsigned(u)
          \/ \E p \in Presentations : Reserialise(p)

GenSpec == Init /\ [][GenNext]_vars

\* places relative to the genuine signature <<E1, K1>>: another entity's (ed25519 / other algorithm's key ID),
\* the signer's under another key ID (ed25519 / other algorithm), the signer's own
FormSlots == {<<"E2", "K1">>, <<"E2", "KA">>, <<"E1", "K2">>, <<"E1", "KA">>, <<"E1", "K1">>}

FormNext ==
    \/ /\ hist = <<>>
       /\ Sign("E1", "K1", "P1")
    \/ /\ hist # <<>>
       /\ \/ \E x \in FormSlots, f \in ForeignForms : ForeignEntry(x[1], x[2], f)
          \/ \E e \in Entities, f \in EntityForms : ForeignEntity(e, f)
          \* a second entity signs with SignJSON (which may decline once an entry it cannot carry over is there:
          \* that is the recorder's business, see SignRefused)
          \/ ~Unreadable(sigs) /\ Sign("E2", "K1", "P2")
          \/ ForeignSign("E2", "K2", "P2")
          \/ \E m \in PlainMembers : obj[m] = "v1" /\ Mutate(m, "v2")
          \/ EditUnsigned("u2")
          \/ \E p \in {"canon", "all"} : Reserialise(p)

FormSpec == Init /\ [][FormNext]_vars

Emit == (hist # <<>>) =>
          PrintT(ToJson([start |-> [obj |-> start.obj, pres |-> start.pres, sigs |-> start.sigs],
                         hist  |-> hist,
                         ver   |-> Ver,
                         kids  |-> [e \in Entities |-> KeyIDsOf(sigs, e)]]))
=============================================================================
