-------------------------------- MODULE Auth --------------------------------
(***************************************************************************)
(* C07 / C08 / C09 - event authorisation.                                  *)
(*                                                                         *)
(* Allowed(v, st, ev) is an independent transcription of the Matrix        *)
(* specification's "Authorization rules" of every room version (rule       *)
(* numbers of the v11 text are kept in the operator names), parameterised  *)
(* by the trait table of MatrixBase, plus one named switch per accepted    *)
(* departure of DESIGN.md section 5.1 (the Dep_ operators).  With every switch FALSE    *)
(* the operator is the pure specification text.                            *)
(*                                                                         *)
(*   st - the abstract auth state (what the AuthEventProvider holds)       *)
(*   ev - the abstract event being judged                                  *)
(***************************************************************************)
EXTENDS MatrixBase

\* --- departures (DESIGN.md 5.1); the verdict configuration has all of them on ----
Dep_LeaveToLeave       == TRUE   \* A1
Dep_NoPLCreatorLevel   == TRUE   \* A2
Dep_EffectiveLevels    == TRUE   \* A3
Dep_AliasesAllVersions == TRUE   \* A4
Dep_InvitedJoinsAnyRule == TRUE  \* A5
Dep_UnbanNeedsBanOnly  == TRUE   \* A6
Dep_KnockRestrictedEverywhere == TRUE \* A7
Dep_FirstJoinCreateSender == TRUE \* A8 (content.creator is always the create sender in the model)
Dep_RestrictedUnsupportedRejects == TRUE \* A14

EvKeys == {"pl", "jr", "topic", "msg", "redaction", "tpi", "custom"}
NKeys == {"room", "here"}

Memberships == {"join", "invite", "leave", "ban", "knock"}

Eff(x, d) == IF x = Absent THEN d ELSE x

ScalarKeys == {"ban", "kick", "invite", "redact", "events_default", "state_default", "users_default"}
DefaultOf(k) == IF k \in {"ban", "kick", "redact", "state_default"} THEN R50 ELSE R0

EmptyPL == [ban |-> Absent, kick |-> Absent, invite |-> Absent, redact |-> Absent,
            events_default |-> Absent, state_default |-> Absent, users_default |-> Absent,
            users |-> [u \in Users |-> Absent], events |-> [k \in EvKeys |-> Absent],
            notif |-> [k \in NKeys |-> Absent],
            spk |-> "", spkind |-> "int", baduser |-> FALSE]

Thr(c, k) == Eff(c[k], DefaultOf(k))

CreateSender == "creator"
Creators(st) == {CreateSender} \cup st.create.addl

FederateOK(st, u) == st.create.federate # "false" \/ Dom(u) = Dom(CreateSender)     \* rule 3

MemOf(st, u) == IF st.mem[u] = "absent" THEN "leave" ELSE st.mem[u]

\* the content the rules read: the power_levels event's, or all defaults when there is none
PLOf(st) == IF st.pl.present THEN st.pl.c ELSE EmptyPL

UserLevel(v, st, u) ==
    IF PrivilegedCreators(v) /\ u \in Creators(st) THEN Inf
    ELSE IF ~st.pl.present
         THEN (IF u = CreateSender THEN (IF Dep_NoPLCreatorLevel THEN NoPLCreator ELSE 4) ELSE R0)
         ELSE Eff(st.pl.c.users[u], Thr(st.pl.c, "users_default"))

Required(c, evkey, isState) ==
    IF evkey = "tpi" THEN Thr(c, "invite")
    ELSE IF c.events[evkey] # Absent THEN c.events[evkey]
    ELSE IF isState THEN Thr(c, "state_default") ELSE Thr(c, "events_default")

(***************************************************************************)
(* Scenario constructors shared by the generation wrappers                 *)
(***************************************************************************)
BaseSt == [create |-> [present |-> TRUE, room |-> "same", federate |-> "absent", addl |-> {}],
           pl |-> [present |-> FALSE, c |-> EmptyPL],
           jr |-> "absent", mem |-> [u \in Users |-> "absent"],
           tpi |-> "absent", tpisender |-> "creator", mixedrooms |-> FALSE]

BaseEv == [type |-> "msg", sender |-> "alice", target |-> "alice", membership |-> "join",
           prev |-> "other", authvia |-> "none", tpi |-> "none", skey |-> "none",
           redacts |-> "own_domain", newpl |-> EmptyPL,
           c_prevs |-> FALSE, c_domain |-> "match", c_roomid |-> FALSE, c_rv |-> "own",
           c_creator |-> TRUE, c_addl |-> "none"]

WithMem(s, u, m) == [s EXCEPT !.mem[u] = m]
WithPL(s, c) == [s EXCEPT !.pl = [present |-> TRUE, c |-> c]]

MemberEv(sender, target, m) == [BaseEv EXCEPT !.type = "member", !.sender = sender, !.target = target,
                                               !.membership = m, !.skey = "self"]

(***************************************************************************)
(* Rule 1 - m.room.create                                                  *)
(***************************************************************************)
R1_Create(v, ev) ==
    /\ ev.skey = "empty"
    /\ ~ev.c_prevs                                               \* 1.1
    /\ IF DomainlessRoomIDs(v)
       THEN ~ev.c_roomid                                         \* v12 1.2: no room_id
       ELSE ev.c_domain = "match"                                \* 1.2 room ID domain = sender domain
    /\ ev.c_rv # "unknown"                                       \* 1.3
    /\ (CreatorFieldRequired(v) => ev.c_creator)                 \* 1.4 (v1-v10)
    /\ (DomainlessRoomIDs(v) => ev.c_addl # "invalid")           \* v12 1.5

(***************************************************************************)
(* Rules 6, 8, 9 (and 7 through Required) - every ordinary event           *)
(***************************************************************************)
AtKeyOK(ev) == ev.skey # "other_user"                                   \* rule 9

Common(v, st, ev, evkey, isState) ==
    /\ st.create.present /\ st.create.room = "same"                      \* rule 2 (create event, same room)
    /\ FederateOK(st, ev.sender)                                         \* rule 3
    /\ MemOf(st, ev.sender) = "join"                                     \* rule 6
    /\ UserLevel(v, st, ev.sender) >= Required(PLOf(st), evkey, isState) \* rules 7, 8
    /\ AtKeyOK(ev)                                                       \* rule 9

(***************************************************************************)
(* Rule 4 - m.room.aliases                                                 *)
(***************************************************************************)
R4_Aliases(v, st, ev) ==
    /\ st.create.present /\ st.create.room = "same"
    /\ FederateOK(st, ev.sender)
    /\ IF PseudoIDs(v) THEN ev.skey = "self" ELSE ev.skey = "server_self"

(***************************************************************************)
(* Rule 5 - m.room.member                                                  *)
(***************************************************************************)
FirstJoin(st, ev) ==                                                     \* 5.3.1
    /\ ev.membership = "join" /\ ev.sender = ev.target
    /\ ev.target = CreateSender /\ ev.prev = "create_only"

R5_TPI(v, st, ev) ==                                                     \* 5.4.1
    /\ MemOf(st, ev.target) # "ban"                                      \* 5.4.1.1
    /\ ev.tpi = "ok"                                                     \* .2-.4 signed block well formed, mxid = state_key
    /\ st.tpi = "match"                                                  \* .5, .7 event present and a key verifies a signature
    /\ st.tpisender = ev.sender                                          \* .6

JoinRuleOf(st) == IF st.jr \in {"absent", "nokey"} THEN "invite" ELSE st.jr

KnockRule(v, jr) == jr = "knock" \/ (jr = "knock_restricted" /\ (Dep_KnockRestrictedEverywhere \/ KnockRestrictedInSpec(v)))
RestrictedRule(v, jr) == jr = "restricted" \/ (jr = "knock_restricted" /\ (Dep_KnockRestrictedEverywhere \/ KnockRestrictedInSpec(v)))

AuthoriserOK(v, st, ev) ==                                               \* 5.3.5.2
    /\ ev.authvia \in Users
    /\ MemOf(st, ev.authvia) = "join"
    /\ UserLevel(v, st, ev.authvia) >= Thr(PLOf(st), "invite")

R5_Self(v, st, ev) ==
    LET old == MemOf(st, ev.target)
        jr == JoinRuleOf(st)
        m == ev.membership
    IN  IF Dep_LeaveToLeave /\ old = "leave" /\ m = "leave" THEN TRUE     \* A1
        ELSE IF old = "ban" THEN FALSE                                    \* 5.3.3 (and nobody lifts their own ban)
        ELSE CASE m = "join" ->
                    IF jr \in {"restricted", "knock_restricted"} /\ ~RestrictedSupported(v) /\ Dep_RestrictedUnsupportedRejects
                    THEN FALSE                                            \* A14
                    ELSE \/ old \in {"invite", "join"} /\ (Dep_InvitedJoinsAnyRule \/ jr \in {"invite", "knock", "restricted", "knock_restricted", "public"})  \* 5.3.4, 5.3.5.1, A5
                         \/ RestrictedSupported(v) /\ RestrictedRule(v, jr) /\ AuthoriserOK(v, st, ev)   \* 5.3.5
                         \/ jr = "public"                                 \* 5.3.6
               [] m = "leave" -> old \in {"invite", "join"} \/ (old = "knock" /\ KnockSupported(v))      \* 5.5.1
               [] m = "knock" -> KnockSupported(v) /\ KnockRule(v, jr) /\ old \notin {"ban", "invite", "join"}  \* 5.7
               [] OTHER -> FALSE                                          \* invite / ban of oneself, unknown membership

R5_Other(v, st, ev) ==
    LET old == MemOf(st, ev.target)
        sl == UserLevel(v, st, ev.sender)
        tl == UserLevel(v, st, ev.target)
        c == PLOf(st)
        m == ev.membership
    IN  /\ MemOf(st, ev.sender) = "join"                                  \* 5.4.2, 5.5.2, 5.6.1
        /\ CASE m = "invite" -> old \notin {"join", "ban"} /\ sl >= Thr(c, "invite")        \* 5.4.3-5.4.4
             [] m = "leave" -> IF old = "ban"
                               THEN /\ sl >= Thr(c, "ban")                                  \* 5.5.3
                                    /\ (Dep_UnbanNeedsBanOnly \/ (sl >= Thr(c, "kick") /\ tl < sl))
                               ELSE sl >= Thr(c, "kick") /\ tl < sl                         \* 5.5.4
             [] m = "ban" -> sl >= Thr(c, "ban") /\ tl < sl                                 \* 5.6.2
             [] OTHER -> FALSE                                                              \* join / knock of somebody else, unknown

R5_Member(v, st, ev) ==
    /\ st.create.present /\ st.create.room = "same"
    /\ ev.skey # "none"                                                   \* 5.1
    /\ ev.membership \in Memberships                                      \* 5.1, 5.8
    /\ FederateOK(st, ev.sender)                                          \* rule 3
    /\ \/ FirstJoin(st, ev)
       \/ /\ ~FirstJoin(st, ev)
          /\ IF ev.membership = "invite" /\ ev.tpi # "none" THEN R5_TPI(v, st, ev)
             ELSE IF ev.sender = ev.target THEN R5_Self(v, st, ev)
             ELSE R5_Other(v, st, ev)

(***************************************************************************)
(* Rule 10 - m.room.power_levels                                           *)
(***************************************************************************)
ParseOK(v, c) ==                                                          \* 10.1, 10.2 / A11
    \/ c.spkind = "int"
    \/ ~IntegerPowerLevels(v) /\ c.spkind \in {"str", "strpad", "float", "frac"}

ChangeOK(eo, en, s) == eo = en \/ (en <= s /\ eo <= s)

ScalarsOK(old, new, s) == \A k \in ScalarKeys : ChangeOK(Thr(old, k), Thr(new, k), s)     \* 10.6

EventsOK(old, new, s) ==
    \A k \in EvKeys :
       LET ro == old.events[k]  rn == new.events[k] IN
       (ro # Absent \/ rn # Absent) =>
          /\ (Dep_EffectiveLevels =>                                      \* A3: judged on effective (non-state) requirements;
                ChangeOK(Required(old, k, FALSE), Required(new, k, FALSE), s)) \* an entry for third_party_invite never takes effect (rule 7)
          /\ (ro # Absent /\ rn # ro => ro <= s)                          \* 10.7
          /\ (rn # Absent /\ rn # ro => rn <= s)                          \* 10.8

NotifOK(v, old, new, s) ==
    NotificationsChecked(v) =>
      \A k \in NKeys :
         LET ro == old.notif[k]  rn == new.notif[k] IN
         (ro # Absent \/ rn # Absent) => ChangeOK(Eff(ro, R50), Eff(rn, R50), s)   \* 10.7, 10.8 on effective values (A3)

UsersOK(old, new, s, sender, oldLevel(_), oldHas(_)) ==
    \A u \in Users :
       (oldHas(u) \/ new.users[u] # Absent) =>
          LET eo == oldLevel(u)
              en == Eff(new.users[u], Thr(new, "users_default")) IN
          eo = en \/ (en <= s /\ (u = sender \/ eo < s))                  \* 10.9, 10.10

R10_PowerLevels(v, st, ev) ==
    LET old == PLOf(st)
        new == ev.newpl
        s == UserLevel(v, st, ev.sender)
        \* the level the old content gives a user (what a removal or change is compared with)
        oldLevel(u) == IF ~st.pl.present THEN (IF u = CreateSender THEN NoPLCreator ELSE R0)
                       ELSE Eff(old.users[u], Thr(old, "users_default"))
        \* A2: without a power_levels event the create sender holds an implicit entry (2^53-1), so a first
        \* power_levels event that does not list them is judged as removing it
        oldHas(u) == IF ~st.pl.present THEN u = CreateSender ELSE old.users[u] # Absent
    IN  /\ Common(v, st, ev, "pl", ev.skey # "none")
        /\ ParseOK(v, new)
        /\ ~new.baduser                                                   \* 10.3 / A10
        /\ (PrivilegedCreators(v) => \A u \in Creators(st) : new.users[u] = Absent)   \* v12 10.4
        /\ ScalarsOK(old, new, s)
        /\ EventsOK(old, new, s)
        /\ NotifOK(v, old, new, s)
        /\ UsersOK(old, new, s, ev.sender, oldLevel, oldHas)

(***************************************************************************)
(* Rule 11 - m.room.redaction in room versions 1 and 2                     *)
(***************************************************************************)
R11_Redaction(v, st, ev) ==
    /\ Common(v, st, ev, "redaction", FALSE)
    /\ (RedactionAuthRule(v) =>
          \/ ev.redacts = "own_domain"
          \/ ev.redacts = "other_domain" /\ UserLevel(v, st, ev.sender) >= Thr(PLOf(st), "redact"))

(***************************************************************************)
(* The verdict                                                             *)
(***************************************************************************)
EvKeyOf(t) == CASE t = "jr" -> "jr" [] t = "topic" -> "topic" [] t = "msg" -> "msg"
                [] t = "tpi" -> "tpi" [] t = "at_state" -> "custom" [] OTHER -> "custom"

IsStateType(ev) == ev.skey # "none"

Allowed(v, st, ev) ==
    /\ ~st.mixedrooms                                                     \* auth events from one room only
    /\ CASE ev.type = "create" -> R1_Create(v, ev)
         [] ev.type = "aliases" /\ (Dep_AliasesAllVersions \/ BaseOf(v) <= 5) -> R4_Aliases(v, st, ev)
         [] ev.type = "member" -> R5_Member(v, st, ev)
         [] ev.type = "pl" -> R10_PowerLevels(v, st, ev)
         [] ev.type = "redaction" -> R11_Redaction(v, st, ev)
         [] OTHER -> Common(v, st, ev, EvKeyOf(ev.type), IsStateType(ev))          \* rule 12

(***************************************************************************)
(* C08 - the no-escalation invariant, written from the property statement  *)
(* (independent of R10 and of the departures).  Evaluated whenever a       *)
(* power_levels event is accepted.                                         *)
(***************************************************************************)
NoEsc(v, st, ev) ==
    LET old == PLOf(st)
        new == ev.newpl
        s == UserLevel(v, st, ev.sender)
        oldLevel(u) == IF ~st.pl.present THEN (IF u = CreateSender THEN NoPLCreator ELSE R0)
                       ELSE Eff(old.users[u], Thr(old, "users_default"))
        newLevel(u) == Eff(new.users[u], Thr(new, "users_default"))
        \* requirement a per-type entry imposes on state / non-state events of that type
        \* (an entry for m.room.third_party_invite never takes effect: that type is sent at the invite level, rule 7)
        effS(c, k) == IF k = "tpi" THEN Thr(c, "invite") ELSE Eff(c.events[k], Thr(c, "state_default"))
        effM(c, k) == IF k = "tpi" THEN Thr(c, "invite") ELSE Eff(c.events[k], Thr(c, "events_default"))
    IN
    \* no threshold set above the sender's level / nothing above the sender's level changed
    /\ \A k \in ScalarKeys : Thr(old, k) # Thr(new, k) => (Thr(new, k) <= s /\ Thr(old, k) <= s)
    /\ \A k \in EvKeys :
         LET ro == old.events[k]  rn == new.events[k]
             realChange == IF k = "tpi" THEN ro # rn ELSE effS(old, k) # effS(new, k) \/ effM(old, k) # effM(new, k) IN
         /\ (rn # Absent /\ rn # ro /\ realChange => rn <= s)
         /\ (ro # Absent /\ rn # ro /\ realChange => ro <= s)
         \* the level needed to send the type as a message event: an entry that is added, changed or removed must
         \* neither move it above the sender's level nor move it at all if it is above the sender's level
         /\ ((ro # Absent \/ rn # Absent) /\ effM(old, k) # effM(new, k) => (effM(new, k) <= s /\ effM(old, k) <= s))
    /\ (NotificationsChecked(v) =>
          \A k \in NKeys : Eff(old.notif[k], R50) # Eff(new.notif[k], R50)
                              => (Eff(new.notif[k], R50) <= s /\ Eff(old.notif[k], R50) <= s))
    \* no user raised above the sender; no other user at or above the sender changed or removed
    /\ \A u \in Users : (old.users[u] # Absent \/ new.users[u] # Absent \/ (~st.pl.present /\ u = CreateSender)) /\ oldLevel(u) # newLevel(u)
                           => (newLevel(u) <= s /\ (u = ev.sender \/ oldLevel(u) < s))
    /\ (PrivilegedCreators(v) => \A u \in Creators(st) : new.users[u] = Absent)
    /\ (IntegerPowerLevels(v) => new.spkind = "int")

(***************************************************************************)
(* C09 - the state an event needs (StateNeededForAuth)                     *)
(***************************************************************************)
Needed(ev) ==
    CASE ev.type = "create" -> [create |-> FALSE, pl |-> FALSE, jr |-> FALSE, members |-> {}, tpi |-> FALSE]
      [] ev.type = "aliases" -> [create |-> TRUE, pl |-> FALSE, jr |-> FALSE, members |-> {}, tpi |-> FALSE]
      [] ev.type = "member" ->
            [create |-> TRUE, pl |-> TRUE,
             jr |-> ev.membership \in {"join", "knock", "invite"},
             members |-> {ev.sender} \cup (IF ev.skey = "none" THEN {} ELSE {ev.target})
                         \cup (IF ev.authvia \in Users THEN {ev.authvia} ELSE {}),
             tpi |-> ev.tpi # "none"]
      [] OTHER -> [create |-> TRUE, pl |-> TRUE, jr |-> FALSE, members |-> {ev.sender}, tpi |-> FALSE]

\* the auth state restricted to what the event needs
RestrictTo(st, n) ==
    [st EXCEPT !.create.present = st.create.present /\ n.create,
               !.pl.present = st.pl.present /\ n.pl,
               !.jr = IF n.jr THEN st.jr ELSE "absent",
               !.mem = [u \in Users |-> IF u \in n.members THEN st.mem[u] ELSE "absent"],
               !.tpi = IF n.tpi THEN st.tpi ELSE "absent"]
=============================================================================
