SPECIFICATION Spec
CONSTANTS
  Family = "event1"
  Versions <- VersionsAll
  TypesC <- TypesAll
  Depth = "edge"
  FieldSet = "edge"
  Entries <- EntriesUntrusted
  MaxOps = 2
  Heavy <- HeavyEdge
  HeavyAfter <- NoOps
  Muts <- NoOps
INVARIANTS TypeOK NoPanic WellOrdered Emit
CHECK_DEADLOCK FALSE
