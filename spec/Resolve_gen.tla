---------------------------- MODULE Resolve_gen ----------------------------
(***************************************************************************)
(* Scenario generator for Resolve.tla.  Init picks a scenario (server name *)
(* x well-known outcome x SRV outcomes x latitude) with relevance pruning: *)
(* a dimension the algorithm cannot read in that scenario is fixed - to a  *)
(* DISTINCTIVE value, so that an implementation that does read it shows.   *)
(* The steps of Resolve.tla compute the outcome; Emit prints one record    *)
(* per finished behaviour.  checks/c16.py groups the records of a scenario *)
(* over the latitudes into the list of permitted outcomes.                 *)
(* Family "cache": the well-known cache lifetime table (CacheLifetime).    *)
(***************************************************************************)
EXTENDS Resolve, Json

CONSTANTS Family,     \* "resolve" | "cache"
          Depth       \* "quick" | "thorough"

VARIABLE cache
gvars == <<vars, cache>>

\* ---- names ----------------------------------------------------------------
OriginPort == 4430
DelegPort == 4431

\* Invalid server names.  The grammar of server names lives in Ident.tla (C17); it is instanced
\* here only to JUDGE the spellings below (NamesPerIdent, asserted in Init): every spelling this generator
\* calls invalid is refused by Ident's grammar even in its lax reading, every valid shape is
\* accepted in the strict one.  A spelling is a sequence of Ident characters ("sp" "nul" "u2" "PAD"
\* as there) plus three placeholders the concretiser fills with the scenario's own host:
\*    "<dns>" a DNS name     "<v4>" an IPv4 literal     "<v6>" the body of an IPv6 literal
\* An invalid name = host spelling x port spelling, one of them (or both) at fault, so that every
\* port fault is driven on every host shape and every host fault with and without a port.
Id == INSTANCE Ident WITH Mode <- "free", FreeLen <- 0, MaxDev <- 0, atoms <- <<>>, pos <- "", n <- 0,
                          dev <- 0, phase <- "", padlen <- 252, out <- ""

GoodHostKinds == {"dns", "v4", "v6"}
V6NoKinds == Id!V6NoAtoms \ {"v6no1", "v6no9"}        \* = br_empty, br_ipv4 below
BadHostKinds == {"empty", "underscore", "space_in", "space_lead", "space_trail", "nonascii", "fourbyte", "nul",
                 "slash", "at", "percent", "dns256",
                 "br_ipv4", "br_name", "br_empty", "br_trailing", "br_nested", "unclosed", "unopened", "barev6"}
                \cup V6NoKinds
HostChars(k) ==
    CASE k = "dns" -> <<"<dns>">>
      [] k = "v4" -> <<"<v4>">>
      [] k = "v6" -> <<"[", "<v6>", "]">>
      [] k = "empty" -> <<>>
      [] k = "underscore" -> <<"a", "_", "<dns>">>
      [] k = "space_in" -> <<"a", "sp", "<dns>">>
      [] k = "space_lead" -> <<"sp", "<dns>">>
      [] k = "space_trail" -> <<"<dns>", "sp">>
      [] k = "nonascii" -> <<"u2", "<dns>">>
      [] k = "fourbyte" -> <<"<dns>", "u4">>
      [] k = "nul" -> <<"<dns>", "nul">>
      [] k = "slash" -> <<"<dns>", "/">>
      [] k = "at" -> <<"a", "@", "<dns>">>
      [] k = "percent" -> <<"%", "<dns>">>
      [] k = "dns256" -> <<"PAD", ".", "<dns>">>            \* 256 characters, all of them DNS characters
      [] k = "br_ipv4" -> <<"[", "<v4>", "]">>
      [] k = "br_name" -> <<"[", "<dns>", "]">>
      [] k = "br_empty" -> <<"[", "]">>
      [] k = "br_trailing" -> <<"[", "<v6>", "]", "z">>
      [] k = "br_nested" -> <<"[", "[", "<v6>", "]", "]">>
      [] k = "unclosed" -> <<"[", "<v6>">>
      [] k = "unopened" -> <<"<v6>", "]">>
      [] k = "barev6" -> <<"<v6>">>
      [] OTHER -> <<"[">> \o Id!Chars(k) \o <<"]">>         \* Ident's table of invalid IPv6 bodies

GoodPortKinds == {"none", "ok"}
BadPortKinds == {"empty", "plus", "minus", "minus1", "pluszero", "alpha", "word", "space_lead", "space_trail",
                 "hex", "6digits", "6digits_lead0", "gt65535", "99999", "twoports", "dot", "underscore",
                 "nonascii", "exp", "nul"}
PortChars(k) ==      \* what follows the ":" ("none": there is no ":")
    CASE k = "ok" -> <<"8", "4", "4", "8">>
      [] k = "empty" -> <<>>
      [] k = "plus" -> <<"+", "8", "4", "4", "8">>
      [] k = "minus" -> <<"-", "8", "4", "4", "8">>
      [] k = "minus1" -> <<"-", "1">>
      [] k = "pluszero" -> <<"+", "0">>
      [] k = "alpha" -> <<"8", "0", "a">>
      [] k = "word" -> <<"a", "b", "c">>
      [] k = "space_lead" -> <<"sp", "8", "0">>
      [] k = "space_trail" -> <<"8", "0", "sp">>
      [] k = "hex" -> <<"f", "f">>
      [] k = "6digits" -> <<"1", "2", "3", "4", "5", "6">>
      [] k = "6digits_lead0" -> Id!Chars("p000080")
      [] k = "gt65535" -> Id!Chars("p65536")
      [] k = "99999" -> Id!Chars("p99999")
      [] k = "twoports" -> <<"8", "0", ":", "8", "0">>
      [] k = "dot" -> <<"8", ".", "0">>
      [] k = "underscore" -> <<"8", "_", "0">>
      [] k = "nonascii" -> <<"8", "u2">>
      [] k = "exp" -> <<"1", "e", "3">>
      [] k = "nul" -> <<"8", "0", "nul">>

NameChars(hk, pk) == HostChars(hk) \o (IF pk = "none" THEN <<>> ELSE <<":">> \o PortChars(pk))
InvKinds == (GoodHostKinds \X BadPortKinds) \cup (BadHostKinds \X GoodPortKinds)
InvTok(hp) == "INV:" \o hp[1] \o "/" \o hp[2]
Inv(hp) == MkName(InvTok(hp), "no", NoPort, FALSE)
\* the spelling of a name (<<>> for the valid shapes, which the concretiser spells from the tokens)
TxtOf(nm) == IF \E hp \in InvKinds : InvTok(hp) = nm.host
             THEN LET hp == CHOOSE hp \in InvKinds : InvTok(hp) = nm.host IN NameChars(hp[1], hp[2])
             ELSE <<>>

RECURSIVE ToIdent(_)
ToIdent(cs) == IF cs = <<>> THEN <<>>
               ELSE (CASE Head(cs) = "<dns>" -> <<"a", ".", "z">>
                       [] Head(cs) = "<v4>" -> Id!Chars("ipv4")
                       [] Head(cs) = "<v6>" -> Id!Chars("v6ok4")
                       [] OTHER -> <<Head(cs)>>) \o ToIdent(Tail(cs))
NamesPerIdent ==
    /\ \A hp \in InvKinds : ~Id!ServerNameOK(ToIdent(NameChars(hp[1], hp[2])), TRUE)
    /\ \A hk \in GoodHostKinds, pk \in GoodPortKinds : Id!ServerNameOK(ToIdent(NameChars(hk, pk)), FALSE)
    /\ \A hp \in InvKinds : \A i \in DOMAIN ToIdent(NameChars(hp[1], hp[2])) :
            ToIdent(NameChars(hp[1], hp[2]))[i] \in Id!KnownChars
\* (checked once, as the first conjunct of Init: SANY gives instanced operators that mention a
\* substituted variable level 1, so it cannot be an ASSUME)

Origins == {MkName("S", "no", p, TRUE) : p \in {NoPort, OriginPort}}
      \cup {MkName("L4", "v4", p, TRUE) : p \in {NoPort, OriginPort}}
      \cup {MkName("L6", "v6", p, TRUE) : p \in {NoPort, OriginPort}}
      \cup {Inv(hp) : hp \in InvKinds}

DName == MkName("D", "no", NoPort, TRUE)
InvDelegKinds == InvKinds \ {<<"empty", "none">>}      \* the empty string is "no m.server"
\* invalid delegations that get the full SRV product also in the quick tier
CoreInvDeleg == {<<"underscore", "none">>, <<"dns", "plus">>, <<"dns", "empty">>, <<"br_ipv4", "none">>, <<"barev6", "none">>}
DelegTargets == {DName, MkName("D", "no", DelegPort, TRUE)}
      \cup {MkName("DL4", "v4", p, TRUE) : p \in {NoPort, DelegPort}}
      \cup {MkName("DL6", "v6", p, TRUE) : p \in {NoPort, DelegPort}}
      \cup {Inv(hp) : hp \in InvDelegKinds}

\* ---- well-known outcomes --------------------------------------------------
WKrec(st, size, cl, pad, body, tgt) ==
    [status |-> st, size |-> size, cl |-> cl, pad |-> pad, body |-> body, target |-> tgt]

BadStatus == IF Depth = "quick" THEN {0, 404, 500, 206} ELSE {0, 404, 500, 206, 204, 301, 403, 503}
BadBodies == {"malformed", "no_mserver", "empty_mserver", "wrongtype"}

WKs ==
    \* no reply / error status: the body is a perfectly good delegation, which must not be followed
         {WKrec(st, "small", TRUE, "none", "ok", DName) : st \in BadStatus}
    \cup {WKrec(200, "small", cl, "none", b, NoName) :
              b \in BadBodies, cl \in (IF Depth = "quick" THEN {TRUE} ELSE BOOLEAN)}
    \cup {WKrec(200, "small", TRUE, "none", "ok", t) : t \in DelegTargets}
    \cup {WKrec(200, "small", FALSE, "none", "ok", t) :
              t \in (IF Depth = "quick" THEN {DName} ELSE DelegTargets)}
    \* size edge: exactly 50 KiB is fine, one byte more is not - with or without a Content-Length,
    \* padding after the JSON value ("tail") or inside it ("inside")
    \cup {WKrec(200, sz, cl, pad, "ok", DName) :
              sz \in {"eq50k", "over50k"}, cl \in BOOLEAN, pad \in {"tail", "inside"}}

\* what a name that must not be looked up would answer (a followable delegation)
WKDistinct == WKrec(200, "small", TRUE, "none", "ok", DName)

\* ---- SRV outcomes ---------------------------------------------------------
SrvKinds == {"nx", "nodata", "one", "many", "err"}
SrvPort(rl, svc, k) == 4000 + (IF rl = "deleg" THEN 100 ELSE 0) + (IF svc = "legacy" THEN 10 ELSE 0) + k
Rec(rl, svc, k) == [t |-> "T_" \o rl \o "_" \o svc \o "_" \o ToString(k),
                    port |-> SrvPort(rl, svc, k), prio |-> 10 * k]
Ans(rl, svc, kind) ==
    CASE kind = "one"  -> [rc |-> "ok", recs |-> <<Rec(rl, svc, 1)>>]
      [] kind = "many" -> [rc |-> "ok", recs |-> <<Rec(rl, svc, 2), Rec(rl, svc, 1), Rec(rl, svc, 3)>>]  \* wire order is not priority order
      [] OTHER         -> [rc |-> kind, recs |-> <<>>]

InitResolve ==
    \E o \in Origins :
    \E w \in (IF Plain(o) THEN WKs ELSE {WKDistinct}) :
    LET readsO == Plain(o) /\ ~(Honoured(w) /\ w.target.valid)
        readsD == Plain(o) /\ Honoured(w) /\ Plain(w.target)
        full == Depth = "thorough" /\ Plain(o) /\ w.size = "small" /\ ~(Honoured(w) /\ ~w.target.valid)
        slim == Depth = "quick" /\ Honoured(w) /\ ~w.target.valid /\ w.target \notin {Inv(hp) : hp \in CoreInvDeleg}
    IN
    \E of \in (IF slim THEN {"nx", "one", "err"} ELSE IF readsO \/ full THEN SrvKinds ELSE {"one"}),
       ol \in (IF slim THEN {"nx", "one"} ELSE IF readsO \/ full THEN SrvKinds ELSE {"one"}),
       df \in (IF readsD \/ full THEN SrvKinds ELSE {"one"}),
       dl \in (IF readsD \/ full THEN SrvKinds ELSE {"one"}) :
    \E se \in {"next", "default", "refuse"}, bd \in {"refuse", "step4"} :
       /\ origin = o /\ wk = w
       /\ srv = [origin |-> [fed |-> Ans("origin", "fed", of), legacy |-> Ans("origin", "legacy", ol)],
                 deleg  |-> [fed |-> Ans("deleg", "fed", df), legacy |-> Ans("deleg", "legacy", dl)]]
       /\ lat = [srverr |-> se, baddeleg |-> bd]
       /\ Start
       /\ cache = [cc |-> "", n |-> 0, ex |-> "", off |-> 0]

\* ---- cache lifetime -------------------------------------------------------
\* Cache-Control presentations: absent | "max-age=N" | "MAX-AGE=N" | "public, max-age=N, must-revalidate"
\*                              | "max-age=abc" | "no-cache, s-maxage=N"
CCKinds == {"absent", "plain", "upper", "among", "bad", "other"}
ExKinds == {"absent", "valid", "garbage"}        \* Expires: absent | IMF-fixdate now+off | not a date
MaxAgeOf(cc, n) == IF cc \in {"plain", "upper", "among"} THEN n ELSE -1
ExpiresOf(ex, off) == IF ex = "valid" THEN off ELSE -1

InitCache ==
    \E cc \in CCKinds, n \in {0, 60, 86400}, ex \in ExKinds, off \in {3600, 200000} :
       /\ cache = [cc |-> cc, n |-> n, ex |-> ex, off |-> off]
       /\ origin = MkName("S", "no", NoPort, TRUE) /\ wk = WKDistinct
       /\ srv = [origin |-> [fed |-> Ans("origin", "fed", "nx"), legacy |-> Ans("origin", "legacy", "nx")],
                 deleg  |-> [fed |-> Ans("deleg", "fed", "nx"), legacy |-> Ans("deleg", "legacy", "nx")]]
       /\ lat = [srverr |-> "next", baddeleg |-> "refuse"]
       /\ pc = "done" /\ cur = origin /\ role = "origin" /\ result = <<>> /\ refused = FALSE
       /\ wkreqs = <<>> /\ srvq = <<>> /\ steps = <<>>

Init == /\ Assert(NamesPerIdent, "an invalid-name spelling is accepted by Ident.tla (or a valid shape refused)")
        /\ IF Family = "cache" THEN InitCache ELSE InitResolve
GNext == Next /\ UNCHANGED cache
Spec == Init /\ [][GNext]_gvars

\* ---- oracle sanity (consequences that must hold; they catch spec mistakes) ----
CacheSane ==
    /\ CacheLifetime(60, 3600) = [kind |-> "relative", secs |-> 60]      \* max-age beats Expires
    /\ CacheLifetime(0, 3600).kind = "relative"
    /\ CacheLifetime(-1, 3600) = [kind |-> "absolute", secs |-> 3600]
    /\ CacheLifetime(-1, -1).kind = "none"
Terminates == Len(steps) <= 10
ResolveInvs == Family = "resolve" =>
    /\ HostSNI /\ DestOK /\ NoSecondWellKnown /\ InvalidRefused /\ RefusedOnlyIf
    /\ InvalidDelegationNeverFollowed /\ NotHonouredNotFollowed /\ StepOrder /\ FedBeforeLegacy /\ SrvOnlyPlain

Emit == Done =>
    IF Family = "cache"
    THEN PrintT(ToJson([fam |-> "cache", cache |-> cache,
                        expect |-> CacheLifetime(MaxAgeOf(cache.cc, cache.n), ExpiresOf(cache.ex, cache.off))]))
    ELSE PrintT(ToJson([fam |-> "resolve", origin |-> origin, wk |-> wk, srv |-> srv, lat |-> lat,
                        refused |-> refused, result |-> result, wkreqs |-> wkreqs, nsrvq |-> Len(srvq),
                        spell |-> [o |-> TxtOf(origin), d |-> TxtOf(wk.target)],
                        lwk |-> [ok |-> Honoured(wk), addr |-> wk.target]]))
=============================================================================
