---------------------------- MODULE Resolve_gen ----------------------------
(***************************************************************************)
(* Scenario generator for Resolve.tla.  Init picks a scenario (server name *)
(* x well-known outcome x SRV outcomes x latitude) with relevance pruning: *)
(* a dimension the algorithm cannot read in that scenario is fixed - to a  *)
(* DISTINCTIVE value, so that an implementation that does read it shows.   *)
(* The steps of Resolve.tla compute the outcome; Emit prints one record    *)
(* per finished behaviour.  checks/c16.py groups the records of a scenario *)
(* over the latitudes into the list of permitted outcomes.                 *)
(* Family "cache": the well-known cache lifetime table (CacheLifetime).    *)
(***************************************************************************)
EXTENDS Resolve, Json

CONSTANTS Family,     \* "resolve" | "cache"
          Depth       \* "quick" | "thorough"

VARIABLE cache
gvars == <<vars, cache>>

\* ---- names ----------------------------------------------------------------
OriginPort == 4430
DelegPort == 4431
InvalidKinds == {"empty", "underscore", "space", "barev6", "unclosed", "nohost", "port6digits",
                 "portalpha", "portempty", "bracketname", "twoports", "nonascii"}
Inv(k) == MkName("INV:" \o k, "no", NoPort, FALSE)

Origins == {MkName("S", "no", p, TRUE) : p \in {NoPort, OriginPort}}
      \cup {MkName("L4", "v4", p, TRUE) : p \in {NoPort, OriginPort}}
      \cup {MkName("L6", "v6", p, TRUE) : p \in {NoPort, OriginPort}}
      \cup {Inv(k) : k \in InvalidKinds}

DName == MkName("D", "no", NoPort, TRUE)
DelegTargets == {DName, MkName("D", "no", DelegPort, TRUE)}
      \cup {MkName("DL4", "v4", p, TRUE) : p \in {NoPort, DelegPort}}
      \cup {MkName("DL6", "v6", p, TRUE) : p \in {NoPort, DelegPort}}
      \cup {Inv(k) : k \in InvalidKinds \ {"empty"}}

\* ---- well-known outcomes --------------------------------------------------
WKrec(st, size, cl, pad, body, tgt) ==
    [status |-> st, size |-> size, cl |-> cl, pad |-> pad, body |-> body, target |-> tgt]

BadStatus == IF Depth = "quick" THEN {0, 404, 500, 206} ELSE {0, 404, 500, 206, 204, 301, 403, 503}
BadBodies == {"malformed", "no_mserver", "empty_mserver", "wrongtype"}

WKs ==
    \* no reply / error status: the body is a perfectly good delegation, which must not be followed
         {WKrec(st, "small", TRUE, "none", "ok", DName) : st \in BadStatus}
    \cup {WKrec(200, "small", cl, "none", b, NoName) :
              b \in BadBodies, cl \in (IF Depth = "quick" THEN {TRUE} ELSE BOOLEAN)}
    \cup {WKrec(200, "small", TRUE, "none", "ok", t) : t \in DelegTargets}
    \cup {WKrec(200, "small", FALSE, "none", "ok", t) :
              t \in (IF Depth = "quick" THEN {DName} ELSE DelegTargets)}
    \* size edge: exactly 50 KiB is fine, one byte more is not - with or without a Content-Length,
    \* padding after the JSON value ("tail") or inside it ("inside")
    \cup {WKrec(200, sz, cl, pad, "ok", DName) :
              sz \in {"eq50k", "over50k"}, cl \in BOOLEAN, pad \in {"tail", "inside"}}

\* what a name that must not be looked up would answer (a followable delegation)
WKDistinct == WKrec(200, "small", TRUE, "none", "ok", DName)

\* ---- SRV outcomes ---------------------------------------------------------
SrvKinds == {"nx", "nodata", "one", "many", "err"}
SrvPort(rl, svc, k) == 4000 + (IF rl = "deleg" THEN 100 ELSE 0) + (IF svc = "legacy" THEN 10 ELSE 0) + k
Rec(rl, svc, k) == [t |-> "T_" \o rl \o "_" \o svc \o "_" \o ToString(k),
                    port |-> SrvPort(rl, svc, k), prio |-> 10 * k]
Ans(rl, svc, kind) ==
    CASE kind = "one"  -> [rc |-> "ok", recs |-> <<Rec(rl, svc, 1)>>]
      [] kind = "many" -> [rc |-> "ok", recs |-> <<Rec(rl, svc, 2), Rec(rl, svc, 1), Rec(rl, svc, 3)>>]  \* wire order is not priority order
      [] OTHER         -> [rc |-> kind, recs |-> <<>>]

InitResolve ==
    \E o \in Origins :
    \E w \in (IF Plain(o) THEN WKs ELSE {WKDistinct}) :
    LET readsO == Plain(o) /\ ~(Honoured(w) /\ w.target.valid)
        readsD == Plain(o) /\ Honoured(w) /\ Plain(w.target)
        full == Depth = "thorough" /\ Plain(o) /\ w.size = "small"
    IN
    \E of \in (IF readsO \/ full THEN SrvKinds ELSE {"one"}),
       ol \in (IF readsO \/ full THEN SrvKinds ELSE {"one"}),
       df \in (IF readsD \/ full THEN SrvKinds ELSE {"one"}),
       dl \in (IF readsD \/ full THEN SrvKinds ELSE {"one"}) :
    \E se \in {"next", "default", "refuse"}, bd \in {"refuse", "step4"} :
       /\ origin = o /\ wk = w
       /\ srv = [origin |-> [fed |-> Ans("origin", "fed", of), legacy |-> Ans("origin", "legacy", ol)],
                 deleg  |-> [fed |-> Ans("deleg", "fed", df), legacy |-> Ans("deleg", "legacy", dl)]]
       /\ lat = [srverr |-> se, baddeleg |-> bd]
       /\ Start
       /\ cache = [cc |-> "", n |-> 0, ex |-> "", off |-> 0]

\* ---- cache lifetime -------------------------------------------------------
\* Cache-Control presentations: absent | "max-age=N" | "MAX-AGE=N" | "public, max-age=N, must-revalidate"
\*                              | "max-age=abc" | "no-cache, s-maxage=N"
CCKinds == {"absent", "plain", "upper", "among", "bad", "other"}
ExKinds == {"absent", "valid", "garbage"}        \* Expires: absent | IMF-fixdate now+off | not a date
MaxAgeOf(cc, n) == IF cc \in {"plain", "upper", "among"} THEN n ELSE -1
ExpiresOf(ex, off) == IF ex = "valid" THEN off ELSE -1

InitCache ==
    \E cc \in CCKinds, n \in {0, 60, 86400}, ex \in ExKinds, off \in {3600, 200000} :
       /\ cache = [cc |-> cc, n |-> n, ex |-> ex, off |-> off]
       /\ origin = MkName("S", "no", NoPort, TRUE) /\ wk = WKDistinct
       /\ srv = [origin |-> [fed |-> Ans("origin", "fed", "nx"), legacy |-> Ans("origin", "legacy", "nx")],
                 deleg  |-> [fed |-> Ans("deleg", "fed", "nx"), legacy |-> Ans("deleg", "legacy", "nx")]]
       /\ lat = [srverr |-> "next", baddeleg |-> "refuse"]
       /\ pc = "done" /\ cur = origin /\ role = "origin" /\ result = <<>> /\ refused = FALSE
       /\ wkreqs = <<>> /\ srvq = <<>> /\ steps = <<>>

Init == IF Family = "cache" THEN InitCache ELSE InitResolve
GNext == Next /\ UNCHANGED cache
Spec == Init /\ [][GNext]_gvars

\* ---- oracle sanity (consequences that must hold; they catch spec mistakes) ----
CacheSane ==
    /\ CacheLifetime(60, 3600) = [kind |-> "relative", secs |-> 60]      \* max-age beats Expires
    /\ CacheLifetime(0, 3600).kind = "relative"
    /\ CacheLifetime(-1, 3600) = [kind |-> "absolute", secs |-> 3600]
    /\ CacheLifetime(-1, -1).kind = "none"
Terminates == Len(steps) <= 10
ResolveInvs == Family = "resolve" =>
    /\ HostSNI /\ DestOK /\ NoSecondWellKnown /\ InvalidRefused /\ RefusedOnlyIf
    /\ InvalidDelegationNeverFollowed /\ NotHonouredNotFollowed /\ StepOrder /\ FedBeforeLegacy /\ SrvOnlyPlain

Emit == Done =>
    IF Family = "cache"
    THEN PrintT(ToJson([fam |-> "cache", cache |-> cache,
                        expect |-> CacheLifetime(MaxAgeOf(cache.cc, cache.n), ExpiresOf(cache.ex, cache.off))]))
    ELSE PrintT(ToJson([fam |-> "resolve", origin |-> origin, wk |-> wk, srv |-> srv, lat |-> lat,
                        refused |-> refused, result |-> result, wkreqs |-> wkreqs,
                        lwk |-> [ok |-> Honoured(wk), addr |-> wk.target]]))
=============================================================================
