---------------------------- MODULE Resolve_gen ----------------------------
(***************************************************************************)
(* Scenario generator for Resolve.tla.  Init picks a scenario (server name *)
(* x well-known outcome x SRV outcomes x latitude) with relevance pruning: *)
(* a dimension the algorithm cannot read in that scenario is fixed - to a  *)
(* DISTINCTIVE value, so that an implementation that does read it shows.   *)
(* The steps of Resolve.tla compute the outcome; Emit prints one record    *)
(* per finished behaviour.  checks/c16.py groups the records of a scenario *)
(* over the latitudes into the list of permitted outcomes.                 *)
(* Family "cache": the well-known cache lifetime table (CacheLifetime).    *)
(***************************************************************************)
EXTENDS Resolve, Json

CONSTANTS Family,     \* "resolve" | "cache"
          Depth       \* "quick" | "thorough"

VARIABLE cache
gvars == <<vars, cache>>

\* ---- names ----------------------------------------------------------------
OriginPort == 4430
DelegPort == 4431

\* Invalid server names.  The grammar of server names lives in Ident.tla (C17); it is instanced
\* here only to JUDGE the spellings below (NamesPerIdent, asserted in Init): every spelling this generator
\* calls invalid is refused by Ident's grammar even in its lax reading, every valid shape is
\* accepted in the strict one.  A spelling is a sequence of Ident characters ("sp" "nul" "u2" "PAD"
\* as there) plus three placeholders the concretiser fills with the scenario's own host:
\*    "<dns>" a DNS name     "<v4>" an IPv4 literal     "<v6>" the body of an IPv6 literal
\* An invalid name = host spelling x port spelling, one of them (or both) at fault, so that every
\* port fault is driven on every host shape and every host fault with and without a port.
Id == INSTANCE Ident WITH Mode <- "free", FreeLen <- 0, MaxDev <- 0, atoms <- <<>>, pos <- "", n <- 0,
                          dev <- 0, phase <- "", padlen <- 252, out <- ""

GoodHostKinds == {"dns", "v4", "v6"}
V6NoKinds == Id!V6NoAtoms \ {"v6no1", "v6no9"}        \* = br_empty, br_ipv4 below
BadHostKinds == {"empty", "underscore", "space_in", "space_lead", "space_trail", "nonascii", "fourbyte", "nul",
                 "slash", "at", "percent", "dns256",
                 "br_ipv4", "br_name", "br_empty", "br_trailing", "br_nested", "unclosed", "unopened", "barev6",
                 "mapped_bare"}
                \cup V6NoKinds
HostChars(k) ==
    CASE k = "dns" -> <<"<dns>">>
      [] k = "v4" -> <<"<v4>">>
      [] k = "v6" -> <<"[", "<v6>", "]">>
      [] k = "empty" -> <<>>
      [] k = "underscore" -> <<"a", "_", "<dns>">>
      [] k = "space_in" -> <<"a", "sp", "<dns>">>
      [] k = "space_lead" -> <<"sp", "<dns>">>
      [] k = "space_trail" -> <<"<dns>", "sp">>
      [] k = "nonascii" -> <<"u2", "<dns>">>
      [] k = "fourbyte" -> <<"<dns>", "u4">>
      [] k = "nul" -> <<"<dns>", "nul">>
      [] k = "slash" -> <<"<dns>", "/">>
      [] k = "at" -> <<"a", "@", "<dns>">>
      [] k = "percent" -> <<"%", "<dns>">>
      [] k = "dns256" -> <<"PAD", ".", "<dns>">>            \* 256 characters, all of them DNS characters
      [] k = "br_ipv4" -> <<"[", "<v4>", "]">>
      [] k = "br_name" -> <<"[", "<dns>", "]">>
      [] k = "br_empty" -> <<"[", "]">>
      [] k = "br_trailing" -> <<"[", "<v6>", "]", "z">>
      [] k = "br_nested" -> <<"[", "[", "<v6>", "]", "]">>
      [] k = "unclosed" -> <<"[", "<v6>">>
      [] k = "unopened" -> <<"<v6>", "]">>
      [] k = "barev6" -> <<"<v6>">>
      [] k = "mapped_bare" -> <<":", ":", "f", "f", "f", "f", ":", "<v4>">>     \* ::ffff:1.2.3.4 (b894d2f)
      [] OTHER -> <<"[">> \o Id!Chars(k) \o <<"]">>         \* Ident's table of invalid IPv6 bodies

GoodPortKinds == {"none", "ok"}
BadPortKinds == {"empty", "plus", "minus", "minus1", "pluszero", "alpha", "word", "space_lead", "space_trail",
                 "hex", "6digits", "6digits_lead0", "gt65535", "99999", "twoports", "dot", "underscore",
                 "nonascii", "exp", "nul"}
PortChars(k) ==      \* what follows the ":" ("none": there is no ":")
    CASE k = "ok" -> <<"8", "4", "4", "8">>
      [] k = "empty" -> <<>>
      [] k = "plus" -> <<"+", "8", "4", "4", "8">>
      [] k = "minus" -> <<"-", "8", "4", "4", "8">>
      [] k = "minus1" -> <<"-", "1">>
      [] k = "pluszero" -> <<"+", "0">>
      [] k = "alpha" -> <<"8", "0", "a">>
      [] k = "word" -> <<"a", "b", "c">>
      [] k = "space_lead" -> <<"sp", "8", "0">>
      [] k = "space_trail" -> <<"8", "0", "sp">>
      [] k = "hex" -> <<"f", "f">>
      [] k = "6digits" -> <<"1", "2", "3", "4", "5", "6">>
      [] k = "6digits_lead0" -> Id!Chars("p000080")
      [] k = "gt65535" -> Id!Chars("p65536")
      [] k = "99999" -> Id!Chars("p99999")
      [] k = "twoports" -> <<"8", "0", ":", "8", "0">>
      [] k = "dot" -> <<"8", ".", "0">>
      [] k = "underscore" -> <<"8", "_", "0">>
      [] k = "nonascii" -> <<"8", "u2">>
      [] k = "exp" -> <<"1", "e", "3">>
      [] k = "nul" -> <<"8", "0", "nul">>

NameChars(hk, pk) == HostChars(hk) \o (IF pk = "none" THEN <<>> ELSE <<":">> \o PortChars(pk))
InvKinds == (GoodHostKinds \X BadPortKinds) \cup (BadHostKinds \X GoodPortKinds)
InvTok(hp) == "INV:" \o hp[1] \o "/" \o hp[2]
Inv(hp) == MkName(InvTok(hp), "no", NoPort, FALSE)
\* the spelling of a name (<<>> for the valid shapes, which the concretiser spells from the tokens)
TxtOf(nm) == IF \E hp \in InvKinds : InvTok(hp) = nm.host
             THEN LET hp == CHOOSE hp \in InvKinds : InvTok(hp) = nm.host IN NameChars(hp[1], hp[2])
             ELSE <<>>

RECURSIVE ToIdent(_)
ToIdent(cs) == IF cs = <<>> THEN <<>>
               ELSE (CASE Head(cs) = "<dns>" -> <<"a", ".", "z">>
                       [] Head(cs) = "<v4>" -> Id!Chars("ipv4")
                       [] Head(cs) = "<v6>" -> Id!Chars("v6ok4")
                       [] OTHER -> <<Head(cs)>>) \o ToIdent(Tail(cs))
NamesPerIdent ==
    /\ \A hp \in InvKinds : ~Id!ServerNameOK(ToIdent(NameChars(hp[1], hp[2])), TRUE)
    /\ \A hk \in GoodHostKinds, pk \in GoodPortKinds : Id!ServerNameOK(ToIdent(NameChars(hk, pk)), FALSE)
    /\ \A hp \in InvKinds : \A i \in DOMAIN ToIdent(NameChars(hp[1], hp[2])) :
            ToIdent(NameChars(hp[1], hp[2]))[i] \in Id!KnownChars
\* (checked once, as the first conjunct of Init: SANY gives instanced operators that mention a
\* substituted variable level 1, so it cannot be an ASSUME)

\* valid shapes.  Ports at the edges of the grammar (0, 65535) besides an ordinary one; L6M is a
\* bracketed IPv4-mapped IPv6 literal (valid, unlike its unbracketed spelling).
OriginPorts == {OriginPort, 0, 65535}
DelegPorts == {DelegPort, 0, 65535}
Origins == {MkName("S", "no", p, TRUE) : p \in {NoPort} \cup OriginPorts}
      \cup {MkName("L4", "v4", p, TRUE) : p \in {NoPort, OriginPort}}
      \cup {MkName("L6", "v6", p, TRUE) : p \in {NoPort, OriginPort}}
      \cup {MkName("L6M", "v6", p, TRUE) : p \in {NoPort, OriginPort}}
      \cup {Inv(hp) : hp \in InvKinds}

DName == MkName("D", "no", NoPort, TRUE)
InvDelegKinds == InvKinds \ {<<"empty", "none">>}      \* the empty string is "no m.server"
\* invalid delegations that get the full SRV product also in the quick tier
CoreInvDeleg == {<<"underscore", "none">>, <<"dns", "plus">>, <<"dns", "empty">>, <<"br_ipv4", "none">>, <<"barev6", "none">>}
\* valid delegation targets: another name (also spelled in upper case: DU, with a trailing dot: Ddot),
\* literals, and coincidences - the origin itself (S: "well-known pointing at itself") and the origin in
\* upper case (SU: differs from it only in letter case)
ValidDelegTargets == {MkName(h, "no", NoPort, TRUE) : h \in {"D", "DU", "Ddot", "S", "SU"}}
      \cup {MkName("D", "no", p, TRUE) : p \in DelegPorts}
      \cup {MkName("S", "no", DelegPort, TRUE)}
      \cup {MkName("DL4", "v4", p, TRUE) : p \in {NoPort, DelegPort}}
      \cup {MkName("DL6", "v6", p, TRUE) : p \in {NoPort, DelegPort}}
      \cup {MkName("DL6M", "v6", p, TRUE) : p \in {NoPort, DelegPort}}
DelegTargets == ValidDelegTargets \cup {Inv(hp) : hp \in InvDelegKinds}

\* ---- well-known outcomes --------------------------------------------------
WKrec(st, size, cl, pad, body, tgt) ==
    [status |-> st, size |-> size, cl |-> cl, pad |-> pad, body |-> body, target |-> tgt, redir |-> "none"]

BadStatus == IF Depth = "quick" THEN {0, 404, 500, 206} ELSE {0, 404, 500, 206, 201, 203, 204, 301, 403, 503}
BadBodies == {"malformed", "no_mserver", "empty_mserver", "wrongtype"}

WKs ==
    \* no reply / error status: the body is a perfectly good delegation, which must not be followed
         {WKrec(st, "small", TRUE, "none", "ok", DName) : st \in BadStatus}
    \cup {WKrec(200, "small", cl, "none", b, NoName) :
              b \in BadBodies, cl \in (IF Depth = "quick" THEN {TRUE} ELSE BOOLEAN)}
    \cup {WKrec(200, "small", TRUE, "none", "ok", t) : t \in DelegTargets}
    \cup {WKrec(200, "small", FALSE, "none", "ok", t) :
              t \in (IF Depth = "quick" THEN {DName} ELSE DelegTargets)}
    \* size edge: exactly 50 KiB is fine, one byte more is not - with or without a Content-Length,
    \* padding after the JSON value ("tail") or inside it ("inside")
    \cup {WKrec(200, sz, cl, pad, "ok", DName) :
              sz \in {"eq50k", "over50k"}, cl \in BOOLEAN, pad \in {"tail", "inside"}}
    \* redirects: for ever to itself (there never is a reply) | once, to a good / an oversized / a malformed document
    \cup {[WKrec(302, "small", TRUE, "none", "ok", DName) EXCEPT !.redir = "loop"]}
    \cup {[WKrec(st, "small", TRUE, "none", "ok", DName) EXCEPT !.redir = "ok"] :
              st \in (IF Depth = "quick" THEN {302} ELSE {301, 302, 307, 308})}
    \cup {[WKrec(302, "over50k", FALSE, "tail", "ok", DName) EXCEPT !.redir = "ok"],
          [WKrec(302, "small", TRUE, "none", "malformed", NoName) EXCEPT !.redir = "ok"]}

\* what a name that must not be looked up would answer (a followable delegation)
WKDistinct == WKrec(200, "small", TRUE, "none", "ok", DName)

\* ---- SRV outcomes ---------------------------------------------------------
\*  one | many (three priorities, wire order is not priority order) | tie (two records of equal priority, then
\*  a third) | self (the target is the queried name itself) | edge (priority 0 / 65535, port 65535 / 1)
SrvKinds == {"nx", "nodata", "one", "many", "tie", "self", "edge", "err"}
SrvKindsSlim == {"nx", "one", "err"}
SrvPort(rl, svc, k) == 4000 + (IF rl = "D" THEN 100 ELSE 0) + (IF svc = "legacy" THEN 10 ELSE 0) + k
Rec(rl, svc, k) == [t |-> "T_" \o rl \o "_" \o svc \o "_" \o ToString(k),
                    port |-> SrvPort(rl, svc, k), prio |-> 10 * k, tb |-> 0]
Ans(rl, svc, kind) ==
    CASE kind = "one"  -> [rc |-> "ok", recs |-> <<Rec(rl, svc, 1)>>]
      [] kind = "many" -> [rc |-> "ok", recs |-> <<Rec(rl, svc, 2), Rec(rl, svc, 1), Rec(rl, svc, 3)>>]
      [] kind = "tie"  -> [rc |-> "ok", recs |-> <<Rec(rl, svc, 3), [Rec(rl, svc, 1) EXCEPT !.tb = 1],
                                                   [Rec(rl, svc, 2) EXCEPT !.prio = 10, !.tb = 2]>>]
      [] kind = "self" -> [rc |-> "ok", recs |-> <<[Rec(rl, svc, 1) EXCEPT !.t = rl]>>]
      [] kind = "edge" -> [rc |-> "ok", recs |-> <<[Rec(rl, svc, 2) EXCEPT !.prio = 65535, !.port = 1],
                                                   [Rec(rl, svc, 1) EXCEPT !.prio = 0, !.port = 65535]>>]
      [] OTHER         -> [rc |-> kind, recs |-> <<>>]

InitResolve ==
    \E o \in Origins :
    \E w \in (IF Plain(o) THEN WKs ELSE {WKDistinct}) :
    LET maybe == GoodDoc(w) /\ (w.status = 200 \/ w.redir = "ok")       \* honoured under some latitude
        surely == GoodDoc(w) /\ w.status = 200
        key == DnsKey(w.target.host)
        readsS == Plain(o) /\ (~(surely /\ w.target.valid) \/ (Plain(w.target) /\ key = "S"))
        readsD == Plain(o) /\ maybe /\ Plain(w.target) /\ key = "D"
        full == Depth = "thorough" /\ Plain(o) /\ w.size = "small" /\ w.redir = "none" /\ ~(maybe /\ ~w.target.valid)
        slim == \/ Depth = "quick" /\ maybe /\ ~w.target.valid /\ w.target \notin {Inv(hp) : hp \in CoreInvDeleg}
                \/ w.redir = "ok" /\ maybe        \* both tables are read (latitude): keep their product small
        \* thorough: the table the algorithm must NOT read is varied too, over a smaller set
        ks(reads) == IF slim /\ reads THEN SrvKindsSlim ELSE IF reads THEN SrvKinds
                     ELSE IF full THEN {"nx", "one", "tie", "err"} ELSE {"one"}
    IN
    \E sf \in ks(readsS), sl \in (IF slim /\ readsS THEN {"nx", "one"} ELSE ks(readsS)),
       df \in ks(readsD), dl \in (IF slim /\ readsD THEN {"nx", "one"} ELSE ks(readsD)) :
    LET anyErr == "err" \in {sf, sl, df, dl}
        anyTie == "tie" \in {sf, sl, df, dl}
    IN
    \* latitude dimensions are enumerated only where the scenario can read them
    \E se \in (IF anyErr THEN {"next", "default", "refuse"} ELSE {"next"}),
       bd \in (IF maybe /\ ~w.target.valid THEN {"refuse", "step4"} ELSE {"refuse"}),
       rd \in (IF w.redir = "ok" THEN {"follow", "ignore"} ELSE {"follow"}),
       ti \in (IF anyTie THEN {"ab", "ba"} ELSE {"ab"}) :
       /\ origin = o /\ wk = w
       /\ srv = [S |-> [fed |-> Ans("S", "fed", sf), legacy |-> Ans("S", "legacy", sl)],
                 D |-> [fed |-> Ans("D", "fed", df), legacy |-> Ans("D", "legacy", dl)]]
       /\ lat = [srverr |-> se, baddeleg |-> bd, redirect |-> rd, tie |-> ti]
       /\ Start
       /\ cache = [cc |-> "", n |-> 0, ex |-> "", off |-> 0]

\* ---- cache lifetime -------------------------------------------------------
\* Cache-Control presentations: absent | "max-age=N" | "MAX-AGE=N" | "public, max-age=N, must-revalidate"
\*       | "max-age=abc" | "no-cache, s-maxage=N" | "max-age=-N" (negative: not a delta-seconds value; the
\*       property does not say whether that is "no max-age" or "stale at once": both readings are emitted)
CCKinds == {"absent", "plain", "upper", "among", "bad", "other", "negative"}
ExKinds == {"absent", "valid", "past", "garbage"}   \* Expires: absent | IMF-fixdate now+off | now-off | not a date
Ages == {0, 60, 86400, 2000000000}                  \* 0: stale at once; 2*10^9 s: expiry beyond 2^31
Some(v) == [has |-> TRUE, v |-> v]
None == [has |-> FALSE, v |-> 0]
MaxAgeOf(cc, n) == IF cc \in {"plain", "upper", "among"} THEN Some(n) ELSE None
ExpiresOf(ex, off) == IF ex = "valid" THEN Some(off) ELSE IF ex = "past" THEN Some(0 - off) ELSE None
CacheExpect(c) ==
    IF c.cc = "negative"
    THEN <<CacheLifetime(Some(0 - c.n), ExpiresOf(c.ex, c.off)), CacheLifetime(None, ExpiresOf(c.ex, c.off))>>
    ELSE <<CacheLifetime(MaxAgeOf(c.cc, c.n), ExpiresOf(c.ex, c.off))>>

InitCache ==
    \E cc \in CCKinds, n \in Ages, ex \in ExKinds, off \in {3600, 200000} :
       /\ (cc = "negative" => n \in {60, 86400})
       /\ cache = [cc |-> cc, n |-> n, ex |-> ex, off |-> off]
       /\ origin = MkName("S", "no", NoPort, TRUE) /\ wk = WKDistinct
       /\ srv = [S |-> [fed |-> Ans("S", "fed", "nx"), legacy |-> Ans("S", "legacy", "nx")],
                 D |-> [fed |-> Ans("D", "fed", "nx"), legacy |-> Ans("D", "legacy", "nx")]]
       /\ lat = [srverr |-> "next", baddeleg |-> "refuse", redirect |-> "follow", tie |-> "ab"]
       /\ pc = "done" /\ cur = origin /\ role = "origin" /\ result = <<>> /\ refused = FALSE
       /\ wkreqs = <<>> /\ srvq = <<>> /\ steps = <<>>

Init == /\ Assert(NamesPerIdent, "an invalid-name spelling is accepted by Ident.tla (or a valid shape refused)")
        /\ IF Family = "cache" THEN InitCache ELSE InitResolve
GNext == Next /\ UNCHANGED cache
Spec == Init /\ [][GNext]_gvars

\* ---- oracle sanity (consequences that must hold; they catch spec mistakes) ----
CacheSane ==
    /\ CacheLifetime(Some(60), Some(3600)) = [kind |-> "relative", secs |-> 60]      \* max-age beats Expires
    /\ CacheLifetime(Some(0), Some(3600)) = [kind |-> "relative", secs |-> 0]        \* also max-age=0
    /\ CacheLifetime(None, Some(3600)) = [kind |-> "absolute", secs |-> 3600]
    /\ CacheLifetime(None, Some(0 - 3600)) = [kind |-> "absolute", secs |-> 0 - 3600] \* a past Expires is a value
    /\ CacheLifetime(None, None).kind = "none"
Terminates == Len(steps) <= 10
ResolveInvs == Family = "resolve" =>
    /\ HostSNI /\ DestOK /\ NoSecondWellKnown /\ InvalidRefused /\ RefusedOnlyIf
    /\ InvalidDelegationNeverFollowed /\ NotHonouredNotFollowed /\ StepOrder /\ FedBeforeLegacy /\ SrvOnlyPlain

\* the algorithm as a function (ResolveFn.tla, the oracle of ResolveSeq.tla) is the step machine
Fn == INSTANCE ResolveFn
FnWorld == [wk |-> [h \in {"S"} |-> [hon |-> Honoured(wk), target |-> wk.target]],
            srv |-> [h \in {"S", "SU", "D", "DU", "Ddot"} |-> srv[DnsKey(h)]]]
FnAgrees == Family = "resolve" /\ Done =>
    /\ Fn!ResolveName(origin, FnWorld, lat) = [refused |-> refused, result |-> result]
    /\ (Fn!AsksWellKnown(origin) <=> wkreqs # <<>>)

Emit == Done =>
    IF Family = "cache"
    THEN PrintT(ToJson([fam |-> "cache", cache |-> cache,
                        expect |-> CacheExpect(cache)]))
    ELSE PrintT(ToJson([fam |-> "resolve", origin |-> origin, wk |-> wk, srv |-> srv, lat |-> lat,
                        refused |-> refused, result |-> result, wkreqs |-> wkreqs, nsrvq |-> Len(srvq),
                        spell |-> [o |-> TxtOf(origin), d |-> TxtOf(wk.target)],
                        lwk |-> [ok |-> Honoured(wk), addr |-> wk.target]]))
=============================================================================
