SPECIFICATION GSpec
CONSTANTS
  Procs = {"c1"}
  Hosts = {"a", "b"}
  Size = 1
  MaxCalls = 3
  MaxExpire = 1
  Kinds = {"lookup", "dial"}
  ZeroDuration = FALSE
  Faults = TRUE
INVARIANTS TypeOK SizeBound ServedFreshAndSequential NoCrossHost RefinesSequential MissReturnsOwnAnswer Emit
CHECK_DEADLOCK FALSE
