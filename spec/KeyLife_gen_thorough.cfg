\* KeyLife_gen_thorough.cfg: every transition: 3 key IDs (2 rotations), ticks 0..3, both fetcher orders
SPECIFICATION GSpec
CONSTANTS
  Mode = "cover"
  NK = 3
  MaxT = 3
  MaxRot = 2
  MaxReq = 3
  V = 2
  Orders <- BothOrders
  NModes <- NAny
  Sigs <- SGood
  ReqTS <- TS03
  Rules <- RBoth
  StoreRule = "monotone"
VIEW View
INVARIANTS TypeOK Sound Complete NoNeedlessContact InOrder ExpiredDecides KnownExpiry OldKeyStillVerifies DBMonotone ExpiredIsFinal NothingInvented StoredFetched Continuity LastDB OutageHarmless OutageInHistory Again RetiredForGood Sanity Emit
PROPERTIES EnvLeavesDB EveryCallOK
CHECK_DEADLOCK FALSE
