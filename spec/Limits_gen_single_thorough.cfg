SPECIFICATION Spec
CONSTANTS
  Versions <- VersionsAll
  Family = "single"
INVARIANTS RefusedWhenOver PersistableOnlyBytes OkWithin ShapesWellFormed Emit
CHECK_DEADLOCK FALSE
