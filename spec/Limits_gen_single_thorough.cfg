SPECIFICATION Spec
CONSTANTS
  Versions <- VersionsAll
  Family = "single"
INVARIANTS RefusedWhenOver PersistableOnlyBytes OkWithin HashIndependent ShapesWellFormed Emit
CHECK_DEADLOCK FALSE
