SPECIFICATION Spec
CONSTANTS
  Modes = {"check", "pubkey", "direct", "persp", "dup"}
  Tier = "quick"
INVARIANTS SaneDirect SanePersp SaneCheck SanePubKey DupOnlySigned DupCheckOnlySigned DupSane Emit
CHECK_DEADLOCK FALSE
