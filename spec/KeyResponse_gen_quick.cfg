SPECIFICATION Spec
CONSTANTS
  Modes = {"check", "pubkey", "direct", "persp"}
  Tier = "quick"
INVARIANTS SaneDirect SanePersp SaneCheck SanePubKey Emit
CHECK_DEADLOCK FALSE
