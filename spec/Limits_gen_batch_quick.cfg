SPECIFICATION Spec
CONSTANTS
  Versions <- VersionsAll
  Family = "batch2"
INVARIANTS BatchFilter BatchItemsJudged Accounting BatchEmit
CHECK_DEADLOCK FALSE
