SPECIFICATION Spec
CONSTANTS
  Family = "event1"
  Versions <- VersionsSix
  TypesC <- TypesAll
  Depth = "core"
  FieldSet = "core"
  MaxOps = 2
  Heavy <- HeavyMid
  HeavyAfter <- HeavyLiteSet
  Muts <- MutsAll
INVARIANTS TypeOK NoPanic WellOrdered Emit
CHECK_DEADLOCK FALSE
