SPECIFICATION Spec
CONSTANTS
  Family = "event1"
  Versions <- VersionsFourQ
  TypesC <- TypesAll
  Depth = "core"
  FieldSet = "core"
  Entries <- EntriesUntrusted
  MaxOps = 2
  Heavy <- Heavy8
  HeavyAfter <- HeavyLiteSet
  Muts <- MutsAll
INVARIANTS TypeOK NoPanic WellOrdered Emit
CHECK_DEADLOCK FALSE
