---------------------------- MODULE FedAPI_gen ----------------------------
(* Generation wrapper of FedAPI.tla (X03): every completed call within the  *)
(* configured bounds is printed as one scenario record for the Go harness   *)
(* (harness/cmd/x03): the call, the identifier class of every slot, the     *)
(* origin / resolution / answer dimensions, and what the specification      *)
(* derives - the requests the receiver must see (route, method, path        *)
(* template, query template, body, signed), where they must arrive, and the *)
(* caller's outcome.                                                        *)
EXTENDS FedAPI, Json

CallsAll   == CallNames
ClassesAll == AllClasses
RespAll    == {"ok", "trunc", "notjson", "wrongtop", "emptybody", "e403", "e404", "e500", "refused"}
RespQuick  == {"ok", "trunc", "wrongtop", "e403", "e404", "e500", "refused"}
Resp2All   == {"ok", "trunc", "wrongtop", "e403", "e404", "e500"}
Resp2Quick == {"ok", "wrongtop", "e403"}
OrigAll    == {"A", "B", "U"}
ResAll     == {"port", "ip", "wk", "srv"}

ReqRec(n) == LET row == RowNow(n) IN
             [route |-> RouteNow(n), m |-> row.m, path |-> row.path, q |-> row.q, body |-> row.body,
              signed |-> row.signed, resp |-> row.resp, answer |-> AnswerNow(n)]

Emit == Done =>
    PrintT(ToJson([call |-> scen.call, cls |-> scen.cls, flag |-> scen.flag, orig |-> scen.orig, res |-> scen.res,
                   resp |-> scen.resp, resp2 |-> scen.resp2,
                   slots |-> Table[scen.call].slots,
                   reqs |-> [n \in 1..Len(wire) |-> ReqRec(n)],
                   to |-> Resolve(scen.res),
                   out |-> out]))
=============================================================================
