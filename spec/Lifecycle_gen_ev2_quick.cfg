SPECIFICATION Spec
CONSTANTS
  Family = "event2"
  Versions <- VersionsPair
  TypesC <- TypesThree
  Depth = "core"
  FieldSet = "core"
  MaxOps = 2
  Heavy <- Heavy3
  HeavyAfter <- NoOps
  Muts <- NoOps
INVARIANTS TypeOK NoPanic WellOrdered Emit
CHECK_DEADLOCK FALSE
