SPECIFICATION Spec
CONSTANTS
  Versions <- VersionsAll
  MaxFaults = 2
  SourceVersions <- VersionsAll
INVARIANTS TypeOK PCovers PExact PFail PSources POneBad POthers PRequired PStrict Emit
CHECK_DEADLOCK FALSE
