SPECIFICATION Spec
CONSTANTS
  Versions <- VersionsAll
  MaxFaults = 2
INVARIANTS TypeOK PExact POneBad POthers PRequired PStrict Emit
CHECK_DEADLOCK FALSE
