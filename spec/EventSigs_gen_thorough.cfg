SPECIFICATION Spec
CONSTANTS
  Versions <- VersionsAll
  MaxFaults = 2
  SourceVersions <- VersionsAll
INVARIANTS TypeOK PExact PSources POneBad POthers PRequired PStrict Emit
CHECK_DEADLOCK FALSE
