SPECIFICATION Spec
CONSTANTS
  Versions <- VersionsAll
  MaxFaults = 2
  SourceVersions <- VersionsAll
  BatchVersions <- VersionsAll
  BatchLens <- BatchLensThorough
  FullRange = TRUE
INVARIANTS TypeOK PCovers PExact PFail PSources POneBad POthers PRequired PStrict PInstants PBatchAlone PBatchAsk PBatchSane Emit
CHECK_DEADLOCK FALSE
