\* strict search, cache size 2, non-zero lifetime.  checks/c19_trace.py writes the sibling cfgs
\* (Size, ZeroDuration, Relax) at run time from this file.
SPECIFICATION TSpec
CONSTANTS
  Procs = {"g1", "g2", "g3", "g4", "g5", "g6", "g7", "g8"}
  Hosts = {"a", "b", "c", "d", "e"}
  Size = 2
  MaxCalls = 100000
  MaxExpire = 100000
  Kinds = {"lookup", "dial"}
  ZeroDuration = FALSE
  Faults = TRUE
  Relax = "none"
INVARIANTS Mark TypeOK SizeBound ServedFreshAndSequential NoCrossHost RefinesSequential MissReturnsOwnAnswer MutexDiscipline ViolConsistent
POSTCONDITION Report
CHECK_DEADLOCK FALSE
