--------------------------- MODULE TransportCache ---------------------------
(* C19 - fclient/client.go: destinationTripper.getTransport / reaper / RoundTrip   *)
(* (without well-known/SRV resolution: the resolution cache is then not used).     *)
(*                                                                              *)
(*   Get(p)      one critical section (transportsMutex): look the TLS name up,    *)
(*               create-and-insert a fully built transport if absent, store       *)
(*               lastUsed := now; the caller holds the returned transport         *)
(*   SendOk/SendFail(p)  no lock: the request on the held transport succeeds or    *)
(*               fails.  RoundTrip walks its list of resolution results; when all   *)
(*               failed it goes round once more.  Without well-known/SRV lookups    *)
(*               the single result is APPENDED again on the second round (the list  *)
(*               is not reset at retryResolution), so the second round makes up to  *)
(*               two attempts: at most three Get+send per call (as the code is)     *)
(*   Reaper      one critical section: delete every transport whose lastUsed is    *)
(*               older than the lifetime                                          *)
(*   Age(n)      environment: time passes beyond the lifetime of n's last use      *)
(*                                                                              *)
(* The reaper is an action of its own (in the code: a timer goroutine): it can run  *)
(* between ANY two steps of any round trip - before the insert, between the insert  *)
(* and the first use of a brand-new transport, between two uses, after the entry    *)
(* has aged.  It reads lastUsed of EVERY transport in the map (an unstamped one      *)
(* makes it panic: the load of the nil atomic value), so the design requirement is   *)
(* that a transport becomes visible in the map only together with its first         *)
(* lastUsed stamp.  TouchOutside = FALSE is the code (insert and lastUsed.Store in    *)
(* ONE critical section).  TouchOutside = TRUE is the design that leaves the critical *)
(* section after the insert and stamps lastUsed afterwards (pc "touch"):              *)
(* TransportCache_touchoutside.cfg shows the reaper meeting the unstamped transport   *)
(* (ReaperNeverMeetsAnUnstampedTransport is refuted) - insert ; Reaper ; Touch.       *)
(*                                                                              *)
(* The map is modelled as a SET of transports [name, id, aged, init, used] so      *)
(* that "one transport per TLS name" is a property and not an artefact of the      *)
(* representation.  `init`: the embedded http.Transport with its TLS server name    *)
(* is built; `used`: lastUsed has been stored (reaper would panic on a nil load).  *)
EXTENDS Integers, FiniteSets, TLC

CONSTANTS Procs, Names, MaxCalls, MaxAge, MaxReap, Faults, SplitGet, TouchOutside

VARIABLES cache,    \* set of transports in the map
          nid,      \* transport identities handed out so far
          nage, nreap,
          loc,      \* per process: pc, name, held (id of the transport in use, 0 = none), retried, left, status
          ncalls,
          gets,     \* history: number of Get steps of the current call of each process
          reaped,   \* history: the transports deleted by the reaper, as they were when deleted
          handed,   \* history: per process, the transport record as it was when handed out
          metraw    \* history: the unstamped transports (lastUsed never stored) a reaper pass has come across

mech == <<cache, nid, nage, nreap, loc, ncalls>>
vars == <<cache, nid, nage, nreap, loc, ncalls, gets, reaped, handed, metraw>>

NoTr == [name |-> "", id |-> 0, aged |-> FALSE, init |-> FALSE, used |-> FALSE]
IdleLoc == [pc |-> "idle", name |-> "", held |-> 0, retried |-> FALSE, left |-> 1, status |-> ""]

Init ==
  /\ cache = {}
  /\ nid = 0 /\ nage = 0 /\ nreap = 0
  /\ loc = [p \in Procs |-> IdleLoc]
  /\ ncalls = [p \in Procs |-> 0]
  /\ gets = [p \in Procs |-> 0]
  /\ reaped = {}
  /\ handed = [p \in Procs |-> NoTr]
  /\ metraw = {}

(* SplitGet = FALSE is the code: lookup, creation on a miss and lastUsed.Store are ONE critical section.     *)
(* SplitGet = TRUE is the design that looks the name up under a read lock and, on a miss, creates and      *)
(* stores the transport in a second (write-locked) critical section without looking again: pc "create".    *)
(* TransportCache_split.cfg shows that it breaks CallersShareTheCachedTransport for the interleaving        *)
(* miss(c1) miss(c2) create(c1) create(c2) - the reason the single critical section is required.            *)
GetBody(p, l) ==
  IF \E t \in cache : t.name = l.name
  THEN LET t == CHOOSE t \in cache : t.name = l.name
           u == [t EXCEPT !.aged = FALSE, !.used = TRUE]
       IN IF TouchOutside
          THEN /\ loc' = [loc EXCEPT ![p] = [l EXCEPT !.pc = "touch", !.held = t.id, !.status = "run"]]
               /\ UNCHANGED <<cache, nid, handed>>
          ELSE /\ cache' = (cache \ {t}) \cup {u}
               /\ loc' = [loc EXCEPT ![p] = [l EXCEPT !.pc = "send", !.held = t.id, !.status = "run"]]
               /\ handed' = [handed EXCEPT ![p] = u]
               /\ UNCHANGED nid
  ELSE IF SplitGet
       THEN /\ loc' = [loc EXCEPT ![p] = [l EXCEPT !.pc = "create", !.status = "run"]]
            /\ UNCHANGED <<cache, nid, handed>>
       ELSE LET u == [name |-> l.name, id |-> nid + 1, aged |-> FALSE, init |-> TRUE, used |-> ~TouchOutside]
            IN /\ cache' = cache \cup {u}
               /\ nid' = nid + 1
               /\ IF TouchOutside
                  THEN /\ loc' = [loc EXCEPT ![p] = [l EXCEPT !.pc = "touch", !.held = nid + 1, !.status = "run"]]
                       /\ UNCHANGED handed
                  ELSE /\ loc' = [loc EXCEPT ![p] = [l EXCEPT !.pc = "send", !.held = nid + 1, !.status = "run"]]
                       /\ handed' = [handed EXCEPT ![p] = u]

(* only with TouchOutside: transport.lastUsed.Store(time.Now()) AFTER the critical section, on the object the  *)
(* caller was handed (which the reaper may have deleted from the map in between: the store then goes to the  *)
(* orphan and the map is unchanged)                                                                        *)
Touch(p) ==
  /\ loc[p].pc = "touch"
  /\ IF \E t \in cache : t.id = loc[p].held
     THEN LET t == CHOOSE t \in cache : t.id = loc[p].held
              u == [t EXCEPT !.aged = FALSE, !.used = TRUE]
          IN /\ cache' = (cache \ {t}) \cup {u}
             /\ handed' = [handed EXCEPT ![p] = u]
     ELSE /\ UNCHANGED cache
          /\ handed' = [handed EXCEPT ![p] = [name |-> loc[p].name, id |-> loc[p].held, aged |-> FALSE, init |-> TRUE, used |-> TRUE]]
  /\ loc' = [loc EXCEPT ![p] = [@ EXCEPT !.pc = "send"]]
  /\ UNCHANGED <<nid, nage, nreap, ncalls, gets, reaped, metraw>>

(* only with SplitGet: the second critical section; the map assignment replaces whatever is stored for the name *)
CreateNoRecheck(p) ==
  /\ loc[p].pc = "create"
  /\ LET u == [name |-> loc[p].name, id |-> nid + 1, aged |-> FALSE, init |-> TRUE, used |-> TRUE]
     IN /\ cache' = {t \in cache : t.name # loc[p].name} \cup {u}
        /\ nid' = nid + 1
        /\ loc' = [loc EXCEPT ![p] = [@ EXCEPT !.pc = "send", !.held = nid + 1]]
        /\ handed' = [handed EXCEPT ![p] = u]
  /\ UNCHANGED <<nage, nreap, ncalls, gets, reaped, metraw>>

Call(p, n) ==
  /\ loc[p].pc = "idle"
  /\ ncalls[p] < MaxCalls
  /\ ncalls' = [ncalls EXCEPT ![p] = @ + 1]
  /\ gets' = [gets EXCEPT ![p] = 1]
  /\ GetBody(p, [IdleLoc EXCEPT !.name = n])
  /\ UNCHANGED <<nage, nreap, reaped, metraw>>

GetAgain(p) ==
  /\ loc[p].pc = "get"
  /\ gets' = [gets EXCEPT ![p] = @ + 1]
  /\ GetBody(p, loc[p])
  /\ UNCHANGED <<nage, nreap, ncalls, reaped, metraw>>

SendOk(p) ==
  /\ loc[p].pc = "send"
  /\ loc' = [loc EXCEPT ![p] = [@ EXCEPT !.pc = "idle", !.status = "ok", !.held = 0]]
  /\ UNCHANGED <<cache, nid, nage, nreap, ncalls, gets, reaped, handed, metraw>>

SendFail(p) ==
  /\ Faults
  /\ loc[p].pc = "send"
  /\ IF loc[p].left > 1
     THEN loc' = [loc EXCEPT ![p] = [@ EXCEPT !.pc = "get", !.left = @ - 1, !.held = 0]]
     ELSE IF ~loc[p].retried
          THEN loc' = [loc EXCEPT ![p] = [@ EXCEPT !.pc = "get", !.retried = TRUE, !.left = 2, !.held = 0]]
          ELSE loc' = [loc EXCEPT ![p] = [@ EXCEPT !.pc = "idle", !.status = "err", !.held = 0]]
  /\ UNCHANGED <<cache, nid, nage, nreap, ncalls, gets, reaped, handed, metraw>>

Reaper ==
  /\ nreap < MaxReap
  /\ nreap' = nreap + 1
  /\ cache' = {t \in cache : ~t.aged}
  /\ reaped' = reaped \cup {t \in cache : t.aged}
  /\ metraw' = metraw \cup {t \in cache : ~t.used}     \* lastUsed.Load().(time.Time) of each transport in the map
  /\ UNCHANGED <<nid, nage, loc, ncalls, gets, handed>>

Age(n) ==
  /\ nage < MaxAge
  /\ \E t \in cache : t.name = n /\ t.used /\ ~t.aged /\ cache' = (cache \ {t}) \cup {[t EXCEPT !.aged = TRUE]}
  /\ nage' = nage + 1
  /\ UNCHANGED <<nid, nreap, loc, ncalls, gets, reaped, handed, metraw>>

Terminated == \A p \in Procs : loc[p].pc = "idle" /\ ncalls[p] = MaxCalls
Done == Terminated /\ UNCHANGED vars

Step(p) == GetAgain(p) \/ CreateNoRecheck(p) \/ Touch(p) \/ SendOk(p) \/ SendFail(p)
Next == \/ \E p \in Procs : Step(p)
        \/ \E p \in Procs, n \in Names : Call(p, n)
        \/ Reaper
        \/ \E n \in Names : Age(n)
        \/ Done

Spec == Init /\ [][Next]_vars
FairSpec == Spec /\ \A p \in Procs : WF_vars(Step(p))
View == mech

(* ------------------------------ properties ------------------------------ *)
TypeOK == /\ \A t \in cache : t.name \in Names /\ t.id \in 1..nid
          /\ \A p \in Procs : loc[p].pc \in {"idle", "get", "create", "touch", "send"}

OneTransportPerName == \A t1, t2 \in cache : t1.name = t2.name => t1 = t2
IdentitiesNeverReused == \A t1, t2 \in cache \cup reaped : t1.id = t2.id => t1.name = t2.name
NeverHalfInitialised ==
  /\ \A t \in cache : t.init /\ t.used
  /\ \A p \in Procs : handed[p] # NoTr => handed[p].init /\ handed[p].used /\ ~handed[p].aged
  /\ \A p \in Procs : loc[p].pc = "send" => loc[p].held = handed[p].id /\ handed[p].name = loc[p].name
(* The sequential reference: every caller of one TLS name is handed THE transport of that name - the one  *)
(* in the map, unless the reaper has deleted it since (then it is in `reaped`).  No sequential order of    *)
(* getTransport calls hands out a transport that never was, or no longer is, the cached one.               *)
CallersShareTheCachedTransport ==
  \A p \in Procs : loc[p].pc = "send" =>
     \/ \E t \in cache : t.id = loc[p].held /\ t.name = loc[p].name
     \/ \E t \in reaped : t.id = loc[p].held /\ t.name = loc[p].name
SameNameSameTransport ==
  \A p, q \in Procs : (loc[p].pc = "send" /\ loc[q].pc = "send" /\ loc[p].name = loc[q].name
                        /\ loc[p].held # loc[q].held) => \E t \in reaped : t.id \in {loc[p].held, loc[q].held}
(* The reaper loads lastUsed of every transport it finds in the map: whatever the interleaving of reaper    *)
(* passes with the steps of the round trips, it never finds one whose lastUsed was not stored yet (in the   *)
(* code that load panics inside the timer goroutine and takes the process down).                              *)
ReaperNeverMeetsAnUnstampedTransport == metraw = {}
BoundedRetries == \A p \in Procs : gets[p] <= 3
OnlyAgedAreReaped == \A t \in reaped : t.aged
EveryCallReturns == \A p \in Procs : (loc[p].pc # "idle") ~> (loc[p].pc = "idle")
=============================================================================
