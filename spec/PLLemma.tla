------------------------------ MODULE PLLemma ------------------------------
(***************************************************************************)
(* C08 - the design-level lemma "the power-levels rule implies the         *)
(* no-escalation invariant", restated over UNBOUNDED INTEGER levels and    *)
(* discharged symbolically with Apalache (apalache-mc check --length=0).   *)
(*                                                                         *)
(* Auth.tla states the rule (R10_PowerLevels) and the invariant (NoEsc)    *)
(* over five abstract level ranks and TLC checks AcceptedImpliesNoEsc on   *)
(* the scenario families of Auth_gen.tla.  This module restates exactly    *)
(* the same two operators over arbitrary integers:                         *)
(*                                                                         *)
(*   * a power-levels content is a record of (presence, value) function    *)
(*     pairs over the key sets of Auth.tla (ScalarKeys, EvKeys, NKeys,     *)
(*     Users).  Absence is a boolean, NOT the -1 sentinel of MatrixBase:   *)
(*     real levels may be negative.  The value stored under an absent key  *)
(*     is arbitrary and must never be read (the bridge plants junk there). *)
(*   * defaults are the integers the Matrix specification gives:           *)
(*     users_default 0, events_default 0, invite 0, state_default 50,      *)
(*     ban 50, kick 50, redact 50, notifications.* 50.                     *)
(*   * the sender's level is a value of type $lvl: a finite integer, or    *)
(*     "above every integer" (inf) for creators of rooms with privileged   *)
(*     creators (v12).  Without a power-levels event the sender of the     *)
(*     create event holds NoPLCreatorLevel (2^53-1 by departure A2); the   *)
(*     lemma is proved for EVERY value of that constant.                   *)
(*   * room versions appear only through the three switches the rule       *)
(*     reads: notifChecked (v6+), privCreators (v12), intOnly (v10+).      *)
(*                                                                         *)
(* Operator names, parameter order and conjunct order follow Auth.tla so   *)
(* that the two texts can be read side by side; every operator says which  *)
(* Auth.tla / MatrixBase.tla operator it restates.  Everything that is not *)
(* about levels in R10 (create event present, federation flag, sender      *)
(* joined, state key shape = the level-free conjuncts of Common) is left   *)
(* out: it only strengthens the antecedent.  PLLemma_bridge.tla checks     *)
(* with TLC that both pairs of operators agree on every scenario of the    *)
(* rank model, under several monotone realisations of the ranks.           *)
(*                                                                         *)
(* Fault plants weakened rules (historical defects of the library,         *)
(* DESIGN.md 11.1): Apalache must REFUTE the lemma for each of them.       *)
(*                                                                         *)
(* By hand (in a scratch copy; checks/c08_lemma.py runs all of it):        *)
(*   timeout 600 apalache-mc check --init=Init --cinit=CInitAny            *)
(*        --inv=Lemma --length=0 PLLemma.tla              -- must pass      *)
(*   ... --cinit=CInit53 --inv=NotAccepting               -- must fail      *)
(*   ... --cinit=CInit_no_users_default --inv=Lemma_Scalars -- must fail    *)
(*   ... --init=InitPair --cinit=CInitAny                                  *)
(*        --inv=OrderOnly_R10,OrderOnly_NoEsc,OrderOnly_Inf -- must pass    *)
(*   everything at once: --init=Init --cinit=CInitAll --view=View          *)
(*        --max-error=20 --inv=H_Lemma,H_InfIsTwo53,X_...  (H_ hold, X_ fail) *)
(***************************************************************************)
EXTENDS Integers

CONSTANTS
    \* "none" or the name of a planted weakening of the rule (see the Faults set)
    \* @type: Str;
    Fault,
    \* the level of the create event's sender while the room has no power-levels event (A2: 2^53-1)
    \* @type: Int;
    NoPLCreatorLevel

(*
  @typeAlias: content = {
      scalarHas: Str -> Bool, scalar: Str -> Int,
      eventsHas: Str -> Bool, events: Str -> Int,
      notifHas:  Str -> Bool, notif:  Str -> Int,
      usersHas:  Str -> Bool, users:  Str -> Int,
      spkind: Str, baduser: Bool };
  @typeAlias: lvl = { inf: Bool, n: Int };
  @typeAlias: ver = { notifChecked: Bool, privCreators: Bool, intOnly: Bool };
  @typeAlias: st = { plPresent: Bool, c: $content, addl: Set(Str) };
  @typeAlias: ev = { sender: Str, isState: Bool, newpl: $content };
*)
PLLemma_aliases == TRUE

VARIABLES
    \* the version switches                                     (Auth: v)
    \* @type: $ver;
    v,
    \* current power-levels content or none, additional creators (Auth: st.pl, st.create.addl)
    \* @type: $st;
    st,
    \* the proposed power-levels event                          (Auth: ev)
    \* @type: $ev;
    ev,
    \* a FREE sender level (the lemma is proved for it, not only for the one st gives the sender)
    \* @type: $lvl;
    s,
    \* a second, independent scenario: only read by the order-isomorphism lemma
    \* @type: $st;
    st2,
    \* @type: $ev;
    ev2

Faults == {"none",
           "no_users_default",     \* users_default missing from the compared scalars        (C08/C07 11.1)
           "new_side_only",        \* a change only has to END at or below the sender's level
           "no_effective_events",  \* events entries compared raw, not on effective values     (C08 11.1)
           "notif_unchecked",      \* notification levels not compared although the version checks them
           "other_user_le",        \* another user AT the sender's level may be changed (<= for <)
           "no_user_removal",      \* entries of the old users map that the new one drops are not looked at
           "creators_named",       \* v12: creators may appear in the users map
           "parse_any"}            \* integer-only versions accept the lenient spellings

(***************************************************************************)
(* Vocabulary (MatrixBase.tla, Auth.tla)                                   *)
(***************************************************************************)
Users == {"creator", "alice", "bob", "carol"}                                   \* MatrixBase!Users
EvKeys == {"pl", "jr", "topic", "msg", "redaction", "tpi", "custom"}            \* Auth!EvKeys
NKeys == {"room", "here"}                                                        \* Auth!NKeys
ScalarKeys == {"ban", "kick", "invite", "redact", "events_default", "state_default", "users_default"}  \* Auth!ScalarKeys
SpKinds == {"int", "str", "strpad", "float", "frac", "badstr"}                  \* spellings of a level (A11)

CreateSender == "creator"                                                        \* Auth!CreateSender
\* @type: ($st) => Set(Str);
Creators(st_) == {CreateSender} \cup st_.addl                                    \* Auth!Creators

\* Auth!Eff with the sentinel replaced by a presence flag: the value of an entry, or its default
\* @type: (Bool, Int, Int) => Int;
Eff(has, x, d) == IF has THEN x ELSE d

\* Auth!DefaultOf with R50 / R0 replaced by the integers they denote
\* @type: (Str) => Int;
DefaultOf(k) == IF k \in {"ban", "kick", "redact", "state_default"} THEN 50 ELSE 0
NotifDefault == 50                                                               \* the R50 of Auth!NotifOK

\* Auth!Thr
\* @type: ($content, Str) => Int;
Thr(c, k) == Eff(c.scalarHas[k], c.scalar[k], DefaultOf(k))

\* Auth!EmptyPL: every key absent (the stored values are never read)
\* @type: $content;
EmptyPL == [scalarHas |-> [k \in ScalarKeys |-> FALSE], scalar |-> [k \in ScalarKeys |-> 0],
            eventsHas |-> [k \in EvKeys |-> FALSE],     events |-> [k \in EvKeys |-> 0],
            notifHas  |-> [k \in NKeys |-> FALSE],      notif  |-> [k \in NKeys |-> 0],
            usersHas  |-> [u \in Users |-> FALSE],      users  |-> [u \in Users |-> 0],
            spkind |-> "int", baduser |-> FALSE]

\* Auth!PLOf
\* @type: ($st) => $content;
PLOf(st_) == IF st_.plPresent THEN st_.c ELSE EmptyPL

\* --- levels that may be infinite ---------------------------------------------------------
\* @type: (Int) => $lvl;
Fin(n) == [inf |-> FALSE, n |-> n]
\* @type: $lvl;
InfLevel == [inf |-> TRUE, n |-> 0]                                               \* MatrixBase!Inf
\* x <= l, x < l for an integer x and a level l
\* @type: (Int, $lvl) => Bool;
LeL(x, l) == l.inf \/ x <= l.n
\* @type: (Int, $lvl) => Bool;
LtL(x, l) == l.inf \/ x < l.n
\* @type: ($lvl, $lvl) => Bool;
SameLevel(a, b) == a.inf = b.inf /\ (~a.inf => a.n = b.n)

\* Auth!UserLevel (Dep_NoPLCreatorLevel on)
\* @type: ($ver, $st, Str) => $lvl;
UserLevel(v_, st_, u) ==
    IF v_.privCreators /\ u \in Creators(st_) THEN InfLevel
    ELSE IF ~st_.plPresent
         THEN (IF u = CreateSender THEN Fin(NoPLCreatorLevel) ELSE Fin(0))
         ELSE Fin(Eff(st_.c.usersHas[u], st_.c.users[u], Thr(st_.c, "users_default")))

\* Auth!Required
\* @type: ($content, Str, Bool) => Int;
Required(c, evkey, isState) ==
    IF evkey = "tpi" THEN Thr(c, "invite")
    ELSE IF c.eventsHas[evkey] THEN c.events[evkey]
    ELSE IF isState THEN Thr(c, "state_default") ELSE Thr(c, "events_default")

\* two entries (presence, value) are the same entry                      (Auth: ro = rn on LevelOrAbsent)
\* @type: (Bool, Int, Bool, Int) => Bool;
SameEntry(ho, xo, hn, xn) == ho = hn /\ (ho => xo = xn)

(***************************************************************************)
(* Rule 10 - m.room.power_levels                     (Auth.tla, same title) *)
(***************************************************************************)
Dep_EffectiveLevels == Fault # "no_effective_events"                              \* Auth!Dep_EffectiveLevels (A3)

\* Auth!ParseOK
\* @type: ($ver, $content) => Bool;
ParseOK(v_, c) ==
    \/ c.spkind = "int"
    \/ (~v_.intOnly \/ Fault = "parse_any") /\ c.spkind \in {"str", "strpad", "float", "frac"}

\* Auth!ChangeOK
\* @type: (Int, Int, $lvl) => Bool;
ChangeOK(eo, en, s_) == eo = en \/ (LeL(en, s_) /\ (Fault = "new_side_only" \/ LeL(eo, s_)))

\* Auth!ScalarsOK                                                                  10.6
\* @type: ($content, $content, $lvl) => Bool;
ScalarsOK(old, new, s_) ==
    \A k \in (IF Fault = "no_users_default" THEN ScalarKeys \ {"users_default"} ELSE ScalarKeys) :
        ChangeOK(Thr(old, k), Thr(new, k), s_)

\* Auth!EventsOK
\* @type: ($content, $content, $lvl) => Bool;
EventsOK(old, new, s_) ==
    \A k \in EvKeys :
       LET ho == old.eventsHas[k]  ro == old.events[k]
           hn == new.eventsHas[k]  rn == new.events[k] IN
       (ho \/ hn) =>
          /\ (Dep_EffectiveLevels =>                                               \* A3
                ChangeOK(Required(old, k, FALSE), Required(new, k, FALSE), s_))
          /\ (ho /\ ~SameEntry(ho, ro, hn, rn) => LeL(ro, s_))                     \* 10.7
          /\ (hn /\ ~SameEntry(ho, ro, hn, rn) => LeL(rn, s_))                     \* 10.8

\* Auth!NotifOK
\* @type: ($ver, $content, $content, $lvl) => Bool;
NotifOK(v_, old, new, s_) ==
    (v_.notifChecked /\ Fault # "notif_unchecked") =>
      \A k \in NKeys :
         LET ho == old.notifHas[k]  ro == old.notif[k]
             hn == new.notifHas[k]  rn == new.notif[k] IN
         (ho \/ hn) => ChangeOK(Eff(ho, ro, NotifDefault), Eff(hn, rn, NotifDefault), s_)   \* 10.7, 10.8 (A3)

\* Auth!UsersOK
\* @type: ($content, $content, $lvl, Str, (Str) => Int, (Str) => Bool) => Bool;
UsersOK(old, new, s_, sender, oldLevel(_), oldHas(_)) ==
    \A u \in Users :
       ((oldHas(u) /\ Fault # "no_user_removal") \/ new.usersHas[u]) =>
          LET eo == oldLevel(u)
              en == Eff(new.usersHas[u], new.users[u], Thr(new, "users_default")) IN
          eo = en \/ (LeL(en, s_) /\ (u = sender \/ (IF Fault = "other_user_le" THEN LeL(eo, s_) ELSE LtL(eo, s_))))   \* 10.9, 10.10

\* the level-reading part of Auth!Common for a power-levels event: rules 7, 8
\* @type: ($st, $ev, $lvl) => Bool;
CommonLevel(st_, ev_, s_) == LeL(Required(PLOf(st_), "pl", ev_.isState), s_)

\* Auth!R10_PowerLevels with the sender's level as a parameter
\* @type: ($ver, $st, $ev, $lvl) => Bool;
R10_At(v_, st_, ev_, s_) ==
    LET old == PLOf(st_)
        new == ev_.newpl
        \* the level the old content gives a user (what a removal or change is compared with)
        oldLevel(u) == IF ~st_.plPresent THEN (IF u = CreateSender THEN NoPLCreatorLevel ELSE 0)
                       ELSE Eff(old.usersHas[u], old.users[u], Thr(old, "users_default"))
        \* A2: without a power_levels event the create sender holds an implicit entry
        oldHas(u) == IF ~st_.plPresent THEN u = CreateSender ELSE old.usersHas[u]
    IN  /\ CommonLevel(st_, ev_, s_)
        /\ ParseOK(v_, new)
        /\ ~new.baduser                                                            \* 10.3 / A10
        /\ ((v_.privCreators /\ Fault # "creators_named") => \A u \in Creators(st_) : ~new.usersHas[u])   \* v12 10.4
        /\ ScalarsOK(old, new, s_)
        /\ EventsOK(old, new, s_)
        /\ NotifOK(v_, old, new, s_)
        /\ UsersOK(old, new, s_, ev_.sender, oldLevel, oldHas)

\* Auth!R10_PowerLevels
\* @type: ($ver, $st, $ev) => Bool;
R10_PowerLevels(v_, st_, ev_) == R10_At(v_, st_, ev_, UserLevel(v_, st_, ev_.sender))

(***************************************************************************)
(* C08 - the no-escalation invariant, written from the property statement  *)
(* (Auth!NoEsc), one operator per clause so that each can be refuted alone *)
(***************************************************************************)
\* @type: ($st, Str) => Int;
OldLevel(st_, u) == IF ~st_.plPresent THEN (IF u = CreateSender THEN NoPLCreatorLevel ELSE 0)
                    ELSE Eff(st_.c.usersHas[u], st_.c.users[u], Thr(st_.c, "users_default"))
\* @type: ($content, Str) => Int;
NewLevel(new, u) == Eff(new.usersHas[u], new.users[u], Thr(new, "users_default"))
\* requirement a per-type entry imposes on state / non-state events of that type
\* @type: ($content, Str) => Int;
EffS(c, k) == IF k = "tpi" THEN Thr(c, "invite") ELSE Eff(c.eventsHas[k], c.events[k], Thr(c, "state_default"))
\* @type: ($content, Str) => Int;
EffM(c, k) == IF k = "tpi" THEN Thr(c, "invite") ELSE Eff(c.eventsHas[k], c.events[k], Thr(c, "events_default"))

\* no threshold set above the sender's level / nothing above the sender's level changed
\* @type: ($content, $content, $lvl) => Bool;
NoEsc_Scalars(old, new, s_) ==
    \A k \in ScalarKeys : Thr(old, k) # Thr(new, k) => (LeL(Thr(new, k), s_) /\ LeL(Thr(old, k), s_))

\* @type: ($content, $content, $lvl) => Bool;
NoEsc_Events(old, new, s_) ==
    \A k \in EvKeys :
         LET ho == old.eventsHas[k]  ro == old.events[k]
             hn == new.eventsHas[k]  rn == new.events[k]
             same == SameEntry(ho, ro, hn, rn)
             realChange == IF k = "tpi" THEN ~same ELSE EffS(old, k) # EffS(new, k) \/ EffM(old, k) # EffM(new, k) IN
         /\ (hn /\ ~same /\ realChange => LeL(rn, s_))
         /\ (ho /\ ~same /\ realChange => LeL(ro, s_))
         /\ ((ho \/ hn) /\ EffM(old, k) # EffM(new, k) => (LeL(EffM(new, k), s_) /\ LeL(EffM(old, k), s_)))

\* @type: ($ver, $content, $content, $lvl) => Bool;
NoEsc_Notif(v_, old, new, s_) ==
    v_.notifChecked =>
       \A k \in NKeys :
          LET eo == Eff(old.notifHas[k], old.notif[k], NotifDefault)
              en == Eff(new.notifHas[k], new.notif[k], NotifDefault) IN
          eo # en => (LeL(en, s_) /\ LeL(eo, s_))

\* no user raised above the sender; no other user at or above the sender changed or removed
\* @type: ($st, $ev, $lvl) => Bool;
NoEsc_Users(st_, ev_, s_) ==
    LET old == PLOf(st_)  new == ev_.newpl IN
    \A u \in Users :
       (old.usersHas[u] \/ new.usersHas[u] \/ (~st_.plPresent /\ u = CreateSender)) /\ OldLevel(st_, u) # NewLevel(new, u)
          => (LeL(NewLevel(new, u), s_) /\ (u = ev_.sender \/ LtL(OldLevel(st_, u), s_)))

\* @type: ($ver, $st, $ev) => Bool;
NoEsc_Creators(v_, st_, ev_) == v_.privCreators => \A u \in Creators(st_) : ~ev_.newpl.usersHas[u]

\* @type: ($ver, $ev) => Bool;
NoEsc_IntOnly(v_, ev_) == v_.intOnly => ev_.newpl.spkind = "int"

\* Auth!NoEsc with the sender's level as a parameter
\* @type: ($ver, $st, $ev, $lvl) => Bool;
NoEsc_At(v_, st_, ev_, s_) ==
    /\ NoEsc_Scalars(PLOf(st_), ev_.newpl, s_)
    /\ NoEsc_Events(PLOf(st_), ev_.newpl, s_)
    /\ NoEsc_Notif(v_, PLOf(st_), ev_.newpl, s_)
    /\ NoEsc_Users(st_, ev_, s_)
    /\ NoEsc_Creators(v_, st_, ev_)
    /\ NoEsc_IntOnly(v_, ev_)

\* Auth!NoEsc
\* @type: ($ver, $st, $ev) => Bool;
NoEscInt(v_, st_, ev_) == NoEsc_At(v_, st_, ev_, UserLevel(v_, st_, ev_.sender))

(***************************************************************************)
(* The symbolic state space: ALL integer contents                          *)
(***************************************************************************)
Contents == [scalarHas: [ScalarKeys -> BOOLEAN], scalar: [ScalarKeys -> Int],
             eventsHas: [EvKeys -> BOOLEAN],     events: [EvKeys -> Int],
             notifHas:  [NKeys -> BOOLEAN],      notif:  [NKeys -> Int],
             usersHas:  [Users -> BOOLEAN],      users:  [Users -> Int],
             spkind: SpKinds, baduser: BOOLEAN]

States == [plPresent: BOOLEAN, c: Contents, addl: SUBSET (Users \ {CreateSender})]
Events == [sender: Users, isState: BOOLEAN, newpl: Contents]

Init ==
    /\ v \in [notifChecked: BOOLEAN, privCreators: BOOLEAN, intOnly: BOOLEAN]
    /\ st \in States
    /\ ev \in Events
    /\ s \in [inf: BOOLEAN, n: Int]
    /\ st2 = st
    /\ ev2 = ev

\* two independent scenarios (for OrderOnly)
InitPair ==
    /\ v \in [notifChecked: BOOLEAN, privCreators: BOOLEAN, intOnly: BOOLEAN]
    /\ st \in States
    /\ ev \in Events
    /\ s = InfLevel
    /\ st2 \in States
    /\ ev2 \in Events

Next == UNCHANGED <<v, st, ev, s, st2, ev2>>

\* constant initialisers (apalache-mc --cinit): the lemma for EVERY no-power-levels creator level ...
CInitAny == Fault = "none" /\ NoPLCreatorLevel \in Int
\* ... and the concrete one of departure A2, for readable counterexamples
CInit53 == Fault = "none" /\ NoPLCreatorLevel = 2^53 - 1
CInit_no_users_default    == Fault = "no_users_default"    /\ NoPLCreatorLevel = 2^53 - 1
CInit_new_side_only       == Fault = "new_side_only"       /\ NoPLCreatorLevel = 2^53 - 1
CInit_no_effective_events == Fault = "no_effective_events" /\ NoPLCreatorLevel = 2^53 - 1
CInit_notif_unchecked     == Fault = "notif_unchecked"     /\ NoPLCreatorLevel = 2^53 - 1
CInit_other_user_le       == Fault = "other_user_le"       /\ NoPLCreatorLevel = 2^53 - 1
CInit_no_user_removal     == Fault = "no_user_removal"     /\ NoPLCreatorLevel = 2^53 - 1
CInit_creators_named      == Fault = "creators_named"      /\ NoPLCreatorLevel = 2^53 - 1
CInit_parse_any           == Fault = "parse_any"           /\ NoPLCreatorLevel = 2^53 - 1

(***************************************************************************)
(* THE LEMMA                                                               *)
(***************************************************************************)
\* for every sender level whatsoever (s is free): the rule at that level implies no escalation at that level
LemmaFree == R10_At(v, st, ev, s) => NoEsc_At(v, st, ev, s)
\* the instance Auth_gen!AcceptedImpliesNoEsc states: the level is the one the current state gives the sender
LemmaDerived == R10_PowerLevels(v, st, ev) => NoEscInt(v, st, ev)
Lemma == LemmaFree /\ LemmaDerived

\* clause by clause (what the planted weakenings are refuted against)
Lemma_Scalars  == R10_PowerLevels(v, st, ev) => NoEsc_Scalars(PLOf(st), ev.newpl, UserLevel(v, st, ev.sender))
Lemma_Events   == R10_PowerLevels(v, st, ev) => NoEsc_Events(PLOf(st), ev.newpl, UserLevel(v, st, ev.sender))
Lemma_Notif    == R10_PowerLevels(v, st, ev) => NoEsc_Notif(v, PLOf(st), ev.newpl, UserLevel(v, st, ev.sender))
Lemma_Users    == R10_PowerLevels(v, st, ev) => NoEsc_Users(st, ev, UserLevel(v, st, ev.sender))
Lemma_Creators == R10_PowerLevels(v, st, ev) => NoEsc_Creators(v, st, ev)
Lemma_IntOnly  == R10_PowerLevels(v, st, ev) => NoEsc_IntOnly(v, ev)

(***************************************************************************)
(* Non-vacuity: the rule accepts non-trivial changes (these "invariants"   *)
(* must be REFUTED; the counterexample is the witness)                     *)
(***************************************************************************)
\* an ordinary user (finite level, not the create sender) changes a scalar, an events entry, a notification
\* level and two users' levels (raising somebody else, lowering themselves) in one accepted event
NotAccepting ==
    ~( /\ R10_PowerLevels(v, st, ev)
       /\ st.plPresent /\ ev.sender # CreateSender /\ ~UserLevel(v, st, ev.sender).inf
       /\ v.notifChecked
       /\ \E k \in ScalarKeys : Thr(st.c, k) < Thr(ev.newpl, k)
       /\ \E k \in EvKeys : EffM(st.c, k) # EffM(ev.newpl, k) /\ st.c.eventsHas[k] /\ ~ev.newpl.eventsHas[k]
       /\ \E k \in NKeys : Eff(st.c.notifHas[k], st.c.notif[k], NotifDefault) # Eff(ev.newpl.notifHas[k], ev.newpl.notif[k], NotifDefault)
       /\ \E u \in Users : u # ev.sender /\ OldLevel(st, u) < NewLevel(ev.newpl, u)
       /\ NewLevel(ev.newpl, ev.sender) < OldLevel(st, ev.sender)
       /\ \E u \in Users : st.c.usersHas[u] /\ ~ev.newpl.usersHas[u] /\ OldLevel(st, u) # NewLevel(ev.newpl, u) )

\* the first power-levels event of a room, sent by the create sender, that keeps the creator's level ...
NotAcceptingFirst ==
    ~( /\ R10_PowerLevels(v, st, ev)
       /\ ~st.plPresent /\ ev.sender = CreateSender /\ ~v.privCreators
       /\ NewLevel(ev.newpl, CreateSender) = NoPLCreatorLevel
       /\ \E u \in Users : u # CreateSender /\ NewLevel(ev.newpl, u) > 100 )
\* ... and a privileged creator (infinite level) changing levels far above every listed user
NotAcceptingInf ==
    ~( /\ R10_PowerLevels(v, st, ev)
       /\ st.plPresent /\ v.privCreators /\ UserLevel(v, st, ev.sender).inf
       /\ \E k \in ScalarKeys : Thr(st.c, k) > 2^60 /\ Thr(ev.newpl, k) < -(2^60) )
\* the rule also REJECTS (it is not TRUE)
NotRejecting == R10_PowerLevels(v, st, ev)

(***************************************************************************)
(* All of the above in few Apalache runs (the preprocessing passes         *)
(* dominate the run time): --cinit=CInitAll lets the solver choose Fault,  *)
(* every obligation is guarded by the Fault it is about, --max-error keeps *)
(* the checker going after an (expected) violation.  H_ must hold, X_ must *)
(* be violated.  checks/c08_lemma.py passes the H_ list to one run and the *)
(* X_ list to another and reads the verdict of each by position.           *)
(***************************************************************************)
\* Fault values that leave the rule as it is: "none" and one name per non-vacuity witness
Benign == {"none", "w_accepting", "w_first", "w_inf", "w_rejecting", "w_two53"}
CInitAll == Fault \in (Faults \cup Benign) /\ NoPLCreatorLevel \in Int
\* --max-error needs a view that tells counterexamples apart; with Fault as the view every obligation (each is
\* about its own Fault value) yields at most one counterexample
\* @type: Str;
View == Fault

H_Lemma               == Fault \in Benign => Lemma
X_NotAccepting        == Fault = "w_accepting" => NotAccepting
X_NotAcceptingFirst   == Fault = "w_first"     => NotAcceptingFirst
X_NotAcceptingInf     == Fault = "w_inf"       => NotAcceptingInf
X_NotRejecting        == Fault = "w_rejecting" => NotRejecting
X_no_users_default    == Fault = "no_users_default"    => Lemma_Scalars
X_new_side_only       == Fault = "new_side_only"       => Lemma_Scalars
X_no_effective_events == Fault = "no_effective_events" => Lemma_Events
X_notif_unchecked     == Fault = "notif_unchecked"     => Lemma_Notif
X_other_user_le       == Fault = "other_user_le"       => Lemma_Users
X_no_user_removal     == Fault = "no_user_removal"     => Lemma_Users
X_creators_named      == Fault = "creators_named"      => Lemma_Creators
X_parse_any           == Fault = "parse_any"           => Lemma_IntOnly

(***************************************************************************)
(* Only order and equality matter (why ranks are an exact abstraction):    *)
(* two scenarios that agree on everything but the integers, and whose      *)
(* integers - together with the constants 0, 50 and NoPLCreatorLevel the   *)
(* rules compare them with - are ordered the same way, get the same        *)
(* verdicts from the rule and from the invariant.                          *)
(***************************************************************************)
\* every integer a scenario's verdicts can read, as one sequence: the constants the rules compare levels with,
\* then every entry of the old and of the new content (NSlots of them) ...
NSlots == 43
\* @type: ($st, $ev) => Seq(Int);
SlotVals(st_, ev_) ==
    <<0, 50, NoPLCreatorLevel, st_.c.scalar["ban"], st_.c.scalar["kick"], st_.c.scalar["invite"],
       st_.c.scalar["redact"], st_.c.scalar["events_default"], st_.c.scalar["state_default"],
       st_.c.scalar["users_default"], st_.c.events["pl"], st_.c.events["jr"], st_.c.events["topic"],
       st_.c.events["msg"], st_.c.events["redaction"], st_.c.events["tpi"], st_.c.events["custom"],
       st_.c.notif["room"], st_.c.notif["here"], st_.c.users["creator"], st_.c.users["alice"], st_.c.users["bob"],
       st_.c.users["carol"], ev_.newpl.scalar["ban"], ev_.newpl.scalar["kick"], ev_.newpl.scalar["invite"],
       ev_.newpl.scalar["redact"], ev_.newpl.scalar["events_default"], ev_.newpl.scalar["state_default"],
       ev_.newpl.scalar["users_default"], ev_.newpl.events["pl"], ev_.newpl.events["jr"], ev_.newpl.events["topic"],
       ev_.newpl.events["msg"], ev_.newpl.events["redaction"], ev_.newpl.events["tpi"], ev_.newpl.events["custom"],
       ev_.newpl.notif["room"], ev_.newpl.notif["here"], ev_.newpl.users["creator"], ev_.newpl.users["alice"],
       ev_.newpl.users["bob"], ev_.newpl.users["carol"] >>
\* ... and whether the entry is there at all (the value of an absent entry is never read: left unconstrained)
\* @type: ($st, $ev) => Seq(Bool);
SlotLives(st_, ev_) ==
    <<TRUE, TRUE, TRUE, st_.plPresent /\ st_.c.scalarHas["ban"], st_.plPresent /\ st_.c.scalarHas["kick"],
       st_.plPresent /\ st_.c.scalarHas["invite"], st_.plPresent /\ st_.c.scalarHas["redact"],
       st_.plPresent /\ st_.c.scalarHas["events_default"], st_.plPresent /\ st_.c.scalarHas["state_default"],
       st_.plPresent /\ st_.c.scalarHas["users_default"], st_.plPresent /\ st_.c.eventsHas["pl"],
       st_.plPresent /\ st_.c.eventsHas["jr"], st_.plPresent /\ st_.c.eventsHas["topic"],
       st_.plPresent /\ st_.c.eventsHas["msg"], st_.plPresent /\ st_.c.eventsHas["redaction"],
       st_.plPresent /\ st_.c.eventsHas["tpi"], st_.plPresent /\ st_.c.eventsHas["custom"],
       st_.plPresent /\ st_.c.notifHas["room"], st_.plPresent /\ st_.c.notifHas["here"],
       st_.plPresent /\ st_.c.usersHas["creator"], st_.plPresent /\ st_.c.usersHas["alice"],
       st_.plPresent /\ st_.c.usersHas["bob"], st_.plPresent /\ st_.c.usersHas["carol"], ev_.newpl.scalarHas["ban"],
       ev_.newpl.scalarHas["kick"], ev_.newpl.scalarHas["invite"], ev_.newpl.scalarHas["redact"],
       ev_.newpl.scalarHas["events_default"], ev_.newpl.scalarHas["state_default"],
       ev_.newpl.scalarHas["users_default"], ev_.newpl.eventsHas["pl"], ev_.newpl.eventsHas["jr"],
       ev_.newpl.eventsHas["topic"], ev_.newpl.eventsHas["msg"], ev_.newpl.eventsHas["redaction"],
       ev_.newpl.eventsHas["tpi"], ev_.newpl.eventsHas["custom"], ev_.newpl.notifHas["room"],
       ev_.newpl.notifHas["here"], ev_.newpl.usersHas["creator"], ev_.newpl.usersHas["alice"],
       ev_.newpl.usersHas["bob"], ev_.newpl.usersHas["carol"] >>

\* same shape: everything that is not an integer coincides
SameShape ==
    /\ st.plPresent = st2.plPresent /\ st.addl = st2.addl
    /\ ev.sender = ev2.sender /\ ev.isState = ev2.isState
    /\ ev.newpl.spkind = ev2.newpl.spkind /\ ev.newpl.baduser = ev2.newpl.baduser
    /\ \A i \in 1..NSlots : SlotLives(st, ev)[i] = SlotLives(st2, ev2)[i]

\* same order: the live integers of the two scenarios are ordered the same way
SameOrder ==
    LET L == SlotLives(st, ev)  X == SlotVals(st, ev)  Y == SlotVals(st2, ev2) IN
    \A i \in 1..NSlots, j \in 1..NSlots :
       (L[i] /\ L[j]) => ((X[i] < X[j]) = (Y[i] < Y[j]))

\* one direction suffices: SameShape and SameOrder are symmetric in the two scenarios
OrderOnly_R10   == (SameShape /\ SameOrder /\ R10_PowerLevels(v, st, ev)) => R10_PowerLevels(v, st2, ev2)
OrderOnly_NoEsc == (SameShape /\ SameOrder /\ NoEscInt(v, st, ev)) => NoEscInt(v, st2, ev2)
OrderOnly_Inf   == SameShape => (UserLevel(v, st, ev.sender).inf = UserLevel(v, st2, ev2.sender).inf)
OrderOnly == OrderOnly_R10 /\ OrderOnly_NoEsc /\ OrderOnly_Inf

(***************************************************************************)
(* Departure A2 gives privileged creators the level 2^53, the model an     *)
(* "above every integer" flag.  The two cannot be told apart as long as    *)
(* every level that is present is a canonical-JSON integer (at most        *)
(* 2^53-1): the rule and the invariant give the same verdicts at both.     *)
(***************************************************************************)
InfIsTwo53 ==
    LET L == SlotLives(st, ev)  X == SlotVals(st, ev) IN
    (\A i \in 1..NSlots : L[i] => X[i] <= 2^53 - 1) =>
       /\ R10_At(v, st, ev, InfLevel) = R10_At(v, st, ev, Fin(2^53))
       /\ NoEsc_At(v, st, ev, InfLevel) = NoEsc_At(v, st, ev, Fin(2^53))
\* (an obligation of the combined run, see H_Lemma)
H_InfIsTwo53 == Fault \in Benign => InfIsTwo53
\* ... and the bound is needed: with a level above 2^53 the two differ (must be refuted)
X_InfNoBound == Fault = "w_two53" => (R10_At(v, st, ev, InfLevel) = R10_At(v, st, ev, Fin(2^53)))
=============================================================================
