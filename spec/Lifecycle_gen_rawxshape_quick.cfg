SPECIFICATION Spec
CONSTANTS
  Family = "rawevent"
  Versions <- VersionsAll
  TypesC <- TypesShape
  Depth = "xshape"
  FieldSet = "core"
  Entries <- EntriesUntrusted
  MaxOps = 1
  Heavy <- NoOps
  HeavyAfter <- NoOps
  Muts <- NoOps
INVARIANTS TypeOK NoPanic WellOrdered ShapeIsForeign Emit
CHECK_DEADLOCK FALSE
