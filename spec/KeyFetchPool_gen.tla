-------------------------- MODULE KeyFetchPool_gen --------------------------
(* Completion orders and fault patterns for the replay against the real          *)
(* DirectKeyFetcher.  The yield points of the code are the two KeyClient calls;   *)
(* taking a server from the channel, merging and exiting have no hook, so the     *)
(* wrapper lets them run with priority.  `hist` is the sequence of KeyClient       *)
(* completions [s, stage, o]; it is printed with the expected result at return.   *)
(* The cancellation of the caller's context is a step of the schedule (stage        *)
(* "cancel"); once the context is done every KeyClient call fails at once, without    *)
(* a yield point: those completions run with priority and are not in `hist`.          *)
EXTENDS KeyFetchPool, Sequences, SequencesExt, Json

VARIABLE hist
gvars == <<vars, hist>>

Urgent(i) == w[i].pc \in {"take", "merge"} \/ (ctx = "done" /\ w[i].pc \in {"direct", "notary"})
Quiet == caller = "wait" /\ \A i \in Workers : ~Urgent(i)

GInit == Init /\ hist = << >>

GNext ==
  \/ \E i \in Workers : (Take(i) \/ Merge(i)) /\ UNCHANGED hist
  \/ \E i \in Workers : ctx = "done" /\ (Direct(i, "ctx") \/ Notary(i, "ctx")) /\ UNCHANGED hist
  \/ Quiet /\ Cancel /\ hist' = Append(hist, [s |-> "", stage |-> "cancel", o |-> ""])
  \/ \E i \in Workers, o \in DirectOutcomes :
        Quiet /\ Direct(i, o) /\ hist' = Append(hist, [s |-> w[i].s, stage |-> "direct", o |-> o])
  \/ \E i \in Workers, o \in NotaryOutcomes :
        Quiet /\ Notary(i, o) /\ hist' = Append(hist, [s |-> w[i].s, stage |-> "notary", o |-> o])
  \/ ((\E s \in Servers : Send(s)) \/ Close \/ StartWorkers \/ Return) /\ UNCHANGED hist

GSpec == GInit /\ [][GNext]_gvars

Emit == returned => PrintT(ToJson([servers |-> SetToSeq(Servers), local |-> HasLocal, keyids |-> SetToSeq(KeyIds),
                                   steps |-> hist, succ |-> SetToSeq(succ), mode |-> mode]))
=============================================================================
