----------------------------- MODULE CheckerSel -----------------------------
(***************************************************************************)
(* C09 - "the auth events that AddAuthEvents selects for a new event are   *)
(* sufficient for every other server to reach the same verdict".           *)
(*                                                                         *)
(* A server builds an event over a provider that holds SOME of the room's  *)
(* state (`have`): the whole state, exactly the needed state, the needed   *)
(* state without the create event (in room versions whose room ID names    *)
(* the create event that event is implied and callers look the state up    *)
(* without it), or less.  Select walks the accessors in the order of       *)
(* StateNeeded.AuthEventReferences (create, join rules, power levels,      *)
(* members, third-party invite), skipping what the provider does not hold, *)
(* and - in the versions with an implied create event - strips the create  *)
(* event.  The property:                                                   *)
(*   Exactly    : listed = (needed /\ held) minus the implied create event *)
(*   Sufficient : another server, judging against the listed events plus   *)
(*                the create event the room ID implies, reaches the        *)
(*                verdict the builder's state gives                        *)
(* Strip = "byid" is the design; "first" (drop the first reference,        *)
(* "because the create event is always listed first") is refuted by TLC.   *)
(***************************************************************************)
EXTENDS CheckerShapes

CONSTANTS Versions, Strip, Drops

Aliases(u) == [BaseEv EXCEPT !.type = "aliases", !.sender = u, !.skey = "server_self"]

SelPool ==
  << \*  1 state event by the moderator (power levels decide)
     [st |-> RoomWith("public", "absent"), ev |-> [BaseEv EXCEPT !.sender = "bob", !.type = "topic", !.skey = "empty"]],
     \*  2 message by an ordinary member (membership decides)
     [st |-> RoomWith("public", "absent"), ev |-> [BaseEv EXCEPT !.sender = "alice"]],
     \*  3 join of a public room (join rules decide)
     [st |-> RoomWith("public", "absent"), ev |-> MemberEv("carol", "carol", "join")],
     \*  4 join by an invited user of an invite-only room (the target's membership decides)
     [st |-> RoomWith("invite", "invite"), ev |-> MemberEv("carol", "carol", "join")],
     \*  5 restricted join authorised by the creator (the authoriser's membership decides)
     [st |-> RoomWith("restricted", "absent"), ev |-> [MemberEv("carol", "carol", "join") EXCEPT !.authvia = "creator"]],
     \*  6 invite by the moderator
     [st |-> RoomWith("invite", "absent"), ev |-> MemberEv("bob", "carol", "invite")],
     \*  7 third-party invite by the moderator (the third-party-invite event decides)
     [st |-> RoomWith("invite", "absent"), ev |-> [MemberEv("bob", "carol", "invite") EXCEPT !.tpi = "ok"]],
     \*  8 the moderator re-sends the power levels
     [st |-> RoomWith("public", "absent"), ev |-> [BaseEv EXCEPT !.type = "pl", !.sender = "bob", !.skey = "empty", !.newpl = PLRoom]],
     \*  9 kick by the moderator
     [st |-> RoomWith("public", "join"), ev |-> MemberEv("bob", "carol", "leave")],
     \* 10 knock
     [st |-> RoomWith("knock", "absent"), ev |-> MemberEv("carol", "carol", "knock")],
     \* 11 aliases event (needs the create event only)
     [st |-> RoomWith("public", "absent"), ev |-> Aliases("alice")],
     \* 12 leave
     [st |-> RoomWith("public", "join"), ev |-> MemberEv("carol", "carol", "leave")]
  >>
NSel == 12
SelPoolC == SelPool    \* evaluated once

UserSeq == <<"alice", "bob", "carol", "creator">>    \* the order of the user IDs as strings

VARIABLES ver, n, have, refs, phase
vars == <<ver, n, have, refs, phase>>

\* the providers a scenario is built over: the whole state or exactly the needed state, minus up to Drops components
Haves(ev) == { NMinus(base, OfNames(d)) : base \in {FullShape, Needed(ev)},
                                           d \in {x \in SUBSET CompNames : Cardinality(x) <= Drops} }

Init == /\ ver \in Versions /\ n \in 1..NSel /\ have \in Haves(SelPoolC[n].ev)
        /\ refs = <<>> /\ phase = "built"

\* AuthEventReferences: one accessor after the other, what the provider does not hold is skipped
Walk(st, need, h) ==
    LET held == NAnd(NAnd(need, h), Present(st))
        mem == SelectSeq(UserSeq, LAMBDA u : u \in held.members)
    IN (IF held.create THEN <<"create">> ELSE <<>>) \o (IF held.jr THEN <<"jr">> ELSE <<>>)
       \o (IF held.pl THEN <<"pl">> ELSE <<>>) \o [i \in 1..Len(mem) |-> MemName(mem[i])]
       \o (IF held.tpi THEN <<"tpi">> ELSE <<>>)

Select ==
    /\ phase = "built"
    /\ LET s == SelPoolC[n]
           need == Needed(s.ev)
           all == Walk(s.st, need, have)
       IN refs' = IF ~DomainlessRoomIDs(ver) THEN all
                  ELSE IF Strip = "byid" THEN SelectSeq(all, LAMBDA c : c # "create")
                  ELSE IF need.create /\ Len(all) > 0 THEN Tail(all) ELSE all
    /\ phase' = "selected"
    /\ UNCHANGED <<ver, n, have>>

Next == Select
Spec == Init /\ [][Next]_vars

\* ---- the property -----------------------------------------------------------------------------
Listed == {refs[i] : i \in 1..Len(refs)}
Implied == IF DomainlessRoomIDs(ver) THEN CreateOnly ELSE NoneShape
Verdict(shape) == Allowed(ver, RestrictTo(SelPoolC[n].st, shape), SelPoolC[n].ev)
Want == Verdict(NOr(have, Implied))

Exactly == phase = "selected" =>
    Listed = Names(NAnd(NAnd(Needed(SelPoolC[n].ev), have), Present(SelPoolC[n].st))) \ Names(Implied)

Sufficient == phase = "selected" => Verdict(NOr(OfNames(Listed), Implied)) = Want

\* sanity of the pool: every kind of component decides the verdict of some scenario (else a selection that loses it
\* could not be told from one that keeps it)
SelPoolSane ==
    \A c \in CompNames : \E v \in {"10", "12"}, i \in 1..NSel :
        LET s == SelPoolC[i] IN
        Allowed(v, s.st, s.ev) # Allowed(v, RestrictTo(s.st, NMinus(FullShape, One(c))), s.ev)
ASSUME SelPoolSane
=============================================================================
