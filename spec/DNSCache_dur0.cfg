SPECIFICATION Spec
CONSTANTS
  Procs = {"c1", "c2"}
  Hosts = {"a", "b"}
  Size = 1
  MaxCalls = 2
  MaxExpire = 0
  Kinds = {"lookup", "dial"}
  ZeroDuration = TRUE
  Faults = TRUE
VIEW View
INVARIANTS TypeOK SizeBound ServedFreshAndSequential NoCrossHost RefinesSequential MissReturnsOwnAnswer MutexDiscipline
INVARIANTS NeverServedWhenZeroDuration
