SPECIFICATION Spec
CONSTANTS
  Versions <- VersionsSpread
  Family = "alias"
  ShapeIds <- ShapesAliasQuick
  VariantIds <- Variants12
  MaxOps = 0
  Alphabet <- NoOps
  PreOps <- PreAliasQuick
  SibFields <- NoFields
  SidPairs <- NoSid
  TamperMax = 0
INVARIANTS TypeOK PIdStable PRoundTrip PRedactKeeps PV12 PBuildOrRefuse PAliasIndependent PAliasEdited Emit
CHECK_DEADLOCK FALSE
