SPECIFICATION Spec
CONSTANTS
  Versions <- VersionsAll
  Family = "tamper"
  ShapeIds <- ShapesAll
  VariantIds <- Variants1
  MaxOps = 0
  Alphabet <- NoOps
  PreOps <- PreTamperQuick
  SibFields <- NoFields
  SidPairs <- NoSid
  TamperMax = 2
  WireVersions <- VersionsSpread
  DupShapes <- ShapesLite
  BulkVersions <- VersionsSpread
INVARIANTS TypeOK PRedactedIffMismatch PRedactedNoop PRedactedForm PIntact PIdSigIff PSigsTogether
  PSpellingNeutral PCaseIsAnotherKey PVariantIsAnotherKey PDupOneReading PDupGenuineOnly PDupNoReadingHash PDupForgerOnly PDupSummaries PSizeOfTheEvent PBulkStrippedNeutral PBulkRedactable PBulkIsOverOnTheWire Emit
CHECK_DEADLOCK FALSE
