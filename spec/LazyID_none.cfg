SPECIFICATION Spec
CONSTANTS
  Readers = {"g1", "g2", "g3"}
  Sync = "none"
  MaxCalls = 2
INVARIANTS NoDataRace SameCorrectID EagerNeverStores
