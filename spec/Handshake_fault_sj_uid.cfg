\* C15 planted design fault: the handlers put their questions to R's tables under another identity than the member's
\* sender ID (Handshake!AskKey).  TLC must refute SendJoinExact (checks/c15.py FAULTS).
SPECIFICATION GSpec
CONSTANTS
  Family = "sj_pseudo"
  Width = "quick"
  MaxForge = 0
  ScenarioSet = "none"
  AskKey <- AskUid
INVARIANTS SendJoinExact
CHECK_DEADLOCK FALSE
