SPECIFICATION Spec
CONSTANTS
  Family = "event2"
  Versions <- VersionsQuick
  TypesC <- TypesAll
  Depth = "core"
  FieldSet = "core"
  Entries <- EntriesUntrusted
  MaxOps = 2
  Heavy <- Heavy2
  HeavyAfter <- NoOps
  Muts <- NoOps
INVARIANTS TypeOK NoPanic WellOrdered Emit
CHECK_DEADLOCK FALSE
