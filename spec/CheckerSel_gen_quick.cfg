SPECIFICATION Spec
CONSTANTS
  Versions <- VersionsQuick
  Strip = "byid"
  Drops = 2
INVARIANTS Exactly Sufficient EmitPool Emit
CHECK_DEADLOCK FALSE
