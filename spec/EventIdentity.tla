--------------------------- MODULE EventIdentity ---------------------------
(***************************************************************************)
(* C03 / C04 - what an event IS, from the proto-event to the wire and      *)
(* back (Matrix specification: "Room version N / Event format / Event      *)
(* IDs", server-server API "Calculating the reference hash for an event",  *)
(* "Calculating the content hash for an event", "Checking for a signature /*)
(* Validating hashes and signatures on received events").  Written from    *)
(* the specification, NOT from eventV*.go.                                 *)
(*                                                                         *)
(* Abstract event (vocabulary of Redaction.tla):                           *)
(*    [type, top : present top-level keys -> value token,                  *)
(*           con : present content keys   -> value token, tpi]             *)
(* Every value is an opaque token, except                                  *)
(*    top["hashes"]  = H(everything but signatures / unsigned / hashes)    *)
(*                     as it was when the event was built (content hash)   *)
(*    sigs[s]        = what signer s signed: SignedProj of the event       *)
(* H is the symbolic injective hash [h |-> x]: two hashes are equal iff    *)
(* what they cover is equal (SHA-256 collision resistance is an            *)
(* assumption recorded in the evidence).                                   *)
(*                                                                         *)
(* Identity:  room versions 1-2   the event_id field                       *)
(*            room versions 3+    Id == H(IdentityProj(event)), i.e. the    *)
(*            hash of the redacted event without signatures / unsigned.    *)
(*                                                                         *)
(* Families (constant Family):                                             *)
(*   ops     Build, then MaxOps operations out of Alphabet                 *)
(*           (ReparseUntrusted/Trusted/Headered, SetUnsigned,              *)
(*            SetUnsignedField, AddSignature, Redact)                      *)
(*   sib     Build, one optional operation, then Sibling(f): a second      *)
(*           event built from the proto-event changed in exactly field f   *)
(*   tamper  Build, one optional operation, Tamper(T, hm, sp) on the wire  *)
(*           (sp: how the names of the keys stripped on receipt are spelt) *)
(*           or TamperDup (a top-level member written twice), then         *)
(*           ReparseUntrusted                                              *)
(*   sid     as ops, with every enumerated spelling of the signer identity *)
(*           (server name x key ID, SidPairs); the other families rotate   *)
(*           the spellings over their scenarios                            *)
(*   edge    as ops, on proto-events at the edge of what is an event: a     *)
(*           content / unsigned in which an object below the top level      *)
(*           names a member twice (RepKinds), a depth at or beyond 2^53     *)
(*           (HighDepths; the sib family pairs them: Sibling(depth_up))     *)
(*   alias   Build, one optional operation, Fork (every way to a second     *)
(*           handle on the SAME bytes), Edit(who, o): one operation on one  *)
(*           handle; every other handle must report what it did before     *)
(*   tamper  ... also TamperBulk: a wire form over the size limit whose     *)
(*           event proper (after the keys stripped on receipt are gone,    *)
(*           after redaction if the hash fails) may be within it           *)
(***************************************************************************)
EXTENDS Redaction

CONSTANTS Versions,     \* room versions enumerated
          Family,       \* "ops" | "num" | "len" | "sid" | "edge" | "sib" | "alias" | "tamper"
          ShapeIds,     \* event shapes (type x state key x content) enumerated
          VariantIds,   \* prev/auth/depth/unsigned variants enumerated
          MaxOps,       \* ops: length of the behaviours
          Alphabet,     \* ops: operations enumerated
          PreOps,       \* sib / tamper: the optional operation before ("none" = skip)
          SibFields,    \* sib: fields f enumerated
          TamperMax,    \* tamper: subsets T with at most TamperMax or at least (all - 1) elements
          SidPairs      \* sid: spellings <<server name class, key ID class>> of the signer identity enumerated

VARIABLES ver,       \* room version
          proto,     \* the proto-event handed to EventBuilder.Build
          built,     \* history: the event as built
          ev,        \* the event now
          sigs,      \* signer -> what that signature covers
          redacted,  \* the flag Redacted() reports
          ids,       \* history: identity tokens, first the built event's, then one per step
          hist,      \* history: steps [op, arg, idc, red]; idc = index in ids of the first equal token
          wire,      \* tamper: the event as tampered with on the wire
          out,       \* sib / tamper / alias: the outcome record
          hs,        \* alias: handle -> [e, red, sigs], what each handle on the shared bytes reports now
          kept,      \* alias, history: what every handle reported when it was made (= the bytes a caller kept)
          phase
vars == <<ver, proto, built, ev, sigs, redacted, ids, hist, wire, out, hs, kept, phase>>

A == RedactionAlgo(ver)

\* --- symbolic hash ---------------------------------------------------------------------
H(x) == [h |-> x]
NoEvent == [type |-> "none", top |-> EmptyFn, con |-> EmptyFn, tpi |-> NoTpi]
Garbage == H(NoEvent)                  \* a hash value that is the hash of no event ever built

SetTop(e, k, val) == [e EXCEPT !.top = [x \in DOMAIN e.top \cup {k} |-> IF x = k THEN val ELSE e.top[x]]]
SetCon(e, k, val) == [e EXCEPT !.con = [x \in DOMAIN e.con \cup {k} |-> IF x = k THEN val ELSE e.con[x]]]

\* "content hash": the event without signatures, unsigned and hashes
HashInput(e) == DropTop(e, {"signatures", "unsigned", "hashes"})
ContentHash(e) == H(HashInput(e))
\* the check reads the sha256 entry of `hashes` (field h); other entries of the object play no part in it
HashOK(e) == IF "hashes" \in DOMAIN e.top THEN e.top["hashes"].h = HashInput(e) ELSE FALSE

\* identity token
Id(v, e) == IF EventIDFormat(v) = 1
            THEN [given |-> IF "event_id" \in DOMAIN e.top THEN e.top["event_id"] ELSE "absent"]
            ELSE H(IdentityProj(RedactionAlgo(v), e))

\* keys a receiving server strips before it looks at the event (added by other servers in transit;
\* from room version 3 on the event ID is not part of the event)
Stripped(v) == {"outlier", "destinations", "age_ts", "unsigned"}
               \cup (IF EventFormat(v) = 2 THEN {"event_id"} ELSE {})
Received(v, e) == DropTop(e, Stripped(v))

\* "Validating hashes and signatures on received events": content hash mismatch => use the redacted form
ParseUntrusted(v, e) ==
    LET r == Received(v, e) IN
    IF HashOK(r) THEN [e |-> r, red |-> FALSE] ELSE [e |-> RedactV(v, r), red |-> TRUE]

SigValid(s) == sigs[s] = SignedProj(A, ev)

\* --- proto-events ----------------------------------------------------------------------------
StdTpi == [obj |-> TRUE, keys |-> ("signed" :> "v1" @@ "display_name" :> "v1")]

Shape(i) ==
    CASE i = 1 -> [type |-> "other", sk |-> "none", redacts |-> "none", tpi |-> NoTpi,
                   con |-> ("body" :> "v1" @@ "msgtype" :> "v1")]
      [] i = 2 -> [type |-> "other", sk |-> "none", redacts |-> "none", tpi |-> NoTpi, con |-> EmptyFn]
      [] i = 3 -> [type |-> "otherstate", sk |-> "empty", redacts |-> "none", tpi |-> NoTpi,
                   con |-> ("topic" :> "v1")]
      [] i = 4 -> [type |-> "m.room.member", sk |-> "user", redacts |-> "none", tpi |-> NoTpi,
                   con |-> ("membership" :> "v1" @@ "displayname" :> "v1")]
      [] i = 5 -> [type |-> "m.room.member", sk |-> "user", redacts |-> "none", tpi |-> StdTpi,
                   con |-> ("membership" :> "v1" @@ "join_authorised_via_users_server" :> "v1"
                            @@ NestedKey :> "obj")]
      [] i = 6 -> [type |-> "m.room.member", sk |-> "self", redacts |-> "none", tpi |-> NoTpi,   \* state key = sender
                   con |-> ("membership" :> "v1")]
      [] i = 7 -> [type |-> "m.room.create", sk |-> "empty", redacts |-> "none", tpi |-> NoTpi,
                   con |-> ("creator" :> "v1" @@ "room_version" :> "v1" @@ "m.federate" :> "v1")]
      [] i = 8 -> [type |-> "m.room.join_rules", sk |-> "empty", redacts |-> "none", tpi |-> NoTpi,
                   con |-> ("join_rule" :> "v1" @@ "allow" :> "v1")]
      [] i = 9 -> [type |-> "m.room.power_levels", sk |-> "empty", redacts |-> "none", tpi |-> NoTpi,
                   con |-> ("ban" :> "v1" @@ "users" :> "v1" @@ "invite" :> "v1" @@ "notifications" :> "v1")]
      [] i = 10 -> [type |-> "m.room.history_visibility", sk |-> "empty", redacts |-> "none", tpi |-> NoTpi,
                    con |-> ("history_visibility" :> "v1" @@ "foo" :> "v1")]
      [] i = 11 -> [type |-> "m.room.aliases", sk |-> "server", redacts |-> "none", tpi |-> NoTpi,
                    con |-> ("aliases" :> "v1")]
      [] i = 12 -> [type |-> "m.room.redaction", sk |-> "none", redacts |-> "r1", tpi |-> NoTpi,
                    con |-> ("redacts" :> "v1" @@ "reason" :> "v1")]
      \* type m.room.create but NOT the create event (that is the one with state key ""): an ordinary event
      [] i = 13 -> [type |-> "m.room.create", sk |-> "none", redacts |-> "none", tpi |-> NoTpi,
                    con |-> ("creator" :> "v1" @@ "room_version" :> "v1")]
      [] i = 14 -> [type |-> "m.room.create", sk |-> "user", redacts |-> "none", tpi |-> NoTpi,
                    con |-> ("creator" :> "v1" @@ "m.federate" :> "v1")]
      \* membership events that need a second server's signature (C04: the validity of the signatures of the
      \* redacted form equals the original's, also when the original lacks a required signature)
      [] i = 15 -> [type |-> "m.room.member", sk |-> "user", redacts |-> "none", tpi |-> NoTpi,
                    con |-> ("membership" :> "invite" @@ "displayname" :> "v1")]          \* invited user on hs2
      [] i = 16 -> [type |-> "m.room.member", sk |-> "user", redacts |-> "none", tpi |-> NoTpi,
                    con |-> ("membership" :> "v1" @@ "join_authorised_via_users_server" :> "hs2" @@ "displayname" :> "v1")]
AllShapes == 1..16
\* shapes 13-14 matter where the create event is special (domainless room IDs); elsewhere they are one more
\* m.room.create content and are not enumerated
ShapesOf(v) == IF DomainlessRoomIDs(v) THEN ShapeIds ELSE ShapeIds \ {13, 14}

Variant(w) ==
    CASE w = 1 -> [prev |-> "p1", auth |-> "a2", depth |-> "d2", unsigned |-> "none", ts |-> "t1"]
      [] w = 2 -> [prev |-> "p0", auth |-> "a0", depth |-> "d1", unsigned |-> "u1", ts |-> "t1"]
      [] w = 3 -> [prev |-> "p2", auth |-> "a1", depth |-> "d3", unsigned |-> "none", ts |-> "t1"]
      [] w = 4 -> [prev |-> "p2", auth |-> "a2", depth |-> "d2", unsigned |-> "u2", ts |-> "t1"]
      \* boundaries: lists absent in the proto-event (not merely empty), depth 0, unsigned {}, origin_server_ts 0
      [] w = 5 -> [prev |-> "pn", auth |-> "an", depth |-> "d0", unsigned |-> "u0", ts |-> "t0"]
      \* multiplicity: the same event referenced twice in prev_events and in auth_events
      [] w = 6 -> [prev |-> "pd", auth |-> "ad", depth |-> "d3", unsigned |-> "none", ts |-> "t1"]
      \* domainless room versions: the create event listed explicitly in auth_events (as servers with a partial
      \* implementation do) - last, in the middle, first and last.  "Every other event reports the create event
      \* as its first auth event": the implied reference comes first, what the event lists follows unchanged.
      [] w = 7 -> [prev |-> "p1", auth |-> "acl", depth |-> "d2", unsigned |-> "none", ts |-> "t1"]   \* [a1, create]
      [] w = 8 -> [prev |-> "p1", auth |-> "acm", depth |-> "d2", unsigned |-> "none", ts |-> "t1"]   \* [a1, create, a2]
      [] w = 9 -> [prev |-> "p1", auth |-> "acx", depth |-> "d2", unsigned |-> "none", ts |-> "t1"]   \* [create, a1, create]
      \* depths at and beyond 2^53 - 1 (family edge; family sib: with Sibling(depth_up / depth_max)):
      \* d3 = 2^53 - 1, d4 = 2^53, d5 = 2^53 + 1, d6 = 2^63 - 2, d7 = 2^63 - 1 (the largest a 64-bit reader holds)
      [] w = 10 -> [prev |-> "p1", auth |-> "a2", depth |-> "d4", unsigned |-> "none", ts |-> "t1"]
      [] w = 11 -> [prev |-> "p1", auth |-> "a2", depth |-> "d5", unsigned |-> "none", ts |-> "t1"]
      [] w = 12 -> [prev |-> "p1", auth |-> "a2", depth |-> "d6", unsigned |-> "none", ts |-> "t1"]
      [] w = 13 -> [prev |-> "p1", auth |-> "a2", depth |-> "d7", unsigned |-> "none", ts |-> "t1"]
      [] w = 14 -> [prev |-> "p1", auth |-> "a2", depth |-> "d3", unsigned |-> "none", ts |-> "t1"]
      \* an unsigned section in which a nested object names a member twice (see RepKinds)
      [] w = 15 -> [prev |-> "p1", auth |-> "a2", depth |-> "d2", unsigned |-> "urep", ts |-> "t1"]
AllVariants == 1..9
CreateCiting == {7, 8, 9}
EdgeVariants == 10..15            \* enumerated by the families edge and sib only, on EdgeShapes
DepthVariants == 10..14
EdgeShapes == {1, 3, 7}           \* message, custom state event, create event
\* Depth: an integer.  Room versions 6+ are canonical JSON, whose integers end at 2^53 - 1: a proto-event of greater
\* depth is no event there and Build must refuse it; room versions 1-5 take any depth a 64-bit reader holds, the event
\* round-trips and - the depth being part of the redacted event - events that differ in it have different IDs.
HighDepths == {"d4", "d5", "d6", "d7"}

\* --- numbers in the content (family num) --------------------------------------------------------------
\* Room versions 6+ ("Canonical JSON" of room version 6): an event is canonical JSON: every number is an integer
\* in [-(2^53)+1, (2^53)-1], written without fraction, exponent or negative zero.  Anything else is not an
\* event of such a room: a receiving server refuses it, so EventBuilder.Build must not hand it out.  The
\* content key zz_num carries one number of the named class (nested: the fraction sits in an array in an object).
CanonicalNums == {"max", "min", "zero"}            \* 9007199254740991, -9007199254740991, 0
NonCanonicalNums == {"frac", "exp", "capexp", "big", "negbig", "negzero", "fraczero", "nested"}
                                                  \* 1.5, 1e3, 1E2, 2^53, -(2^53), -0, 2.0, {"a":[1.5]}
AllNumKinds == CanonicalNums \cup NonCanonicalNums
\* --- a member name repeated below the top level (family edge) ---------------------------------------------------
\* The content (and unsigned) of a proto-event is JSON text the caller supplies.  A text in which an object names a
\* member twice is ambiguous (RFC 8259, section 4) but it is JSON, no clause of the event format excludes it, and Build
\* signs and hands out what it is given: so the event Build hands out must be an event for every parse path - in
\* particular it re-parses from its own JSON as untrusted input (PBuildOrRefuse; a Build that refuses such a
\* proto-event is consistent too: RepMayRefuse).  The content key zz_num carries the repeat:
\*   rep-content  the member zz_num itself stands twice in the content      {"zz_num":"first",...,"zz_num":"second"}
\*   rep-nested   its value is an object naming a member twice              {"zz_num":{"a":1,"a":2}}
\*   rep-deeper   two levels down                                           {"zz_num":{"m":{"event_id":"$a","event_id":"$b"}}}
\*   rep-array    inside an array element                                   {"zz_num":[1,{"k":"a","k":"b"}]}
\* (the unsigned section with a repeat: Variant 15).  To the model the text is one opaque value like any other.
RepKinds == {"rep-content", "rep-nested", "rep-deeper", "rep-array"}
NumKinds == IF Family = "num" THEN AllNumKinds ELSE IF Family = "edge" THEN {"none"} \cup RepKinds ELSE {"none"}
NumOf(e) == IF "zz_num" \in DOMAIN e.con THEN e.con["zz_num"] ELSE "none"
DepthOf(e) == IF "depth" \in DOMAIN e.top THEN e.top["depth"] ELSE "none"
\* what a receiving server of the room version accepts as an event at all
Acceptable(v, e) == ~EnforcedCanonJSON(v) \/ (NumOf(e) \notin NonCanonicalNums /\ DepthOf(e) \notin HighDepths)
\* Build refuses the proto-events that cannot become an event
\* --- lengths at the limit (family len) ------------------------------------------------------------------
\* "The length of type / state_key / sender must not exceed 255 bytes" (and not 255 code points either).  One
\* field of the proto-event is stretched: b255 = exactly 255 bytes of ASCII (an event: Build must hand it out and
\* it passes its own field checks), cp255 = exactly 255 code points in more than 255 bytes, b256 = 256 bytes of
\* ASCII (not events: Build reports the field check's error; for cp255 that error is marked persistable).
FineLims == {"sk-b255", "type-b255", "sender-b255"}
OverLims == {"sk-cp255", "sk-b256", "type-cp255", "type-b256", "sender-b256"}
\* cp255 ("persistable"): the library hands such an event over next to the error and callers may keep it
\* (EventJSONs.UntrustedEvents does).  For C04 it is an event like any other: the tamper family carries it.
PersistLims == {"sk-cp255", "type-cp255"}
LimKinds(v) == IF Family = "len" THEN (FineLims \cup OverLims) \ (IF PseudoIDs(v) THEN {"sender-b255", "sender-b256"} ELSE {})
               ELSE IF Family = "tamper" THEN {"none"} \cup PersistLims
               ELSE {"none"}
BuildRefuses(v, p) == \/ (EnforcedCanonJSON(v) /\ p.num \in NonCanonicalNums)
                      \/ (EnforcedCanonJSON(v) /\ p.depth \in HighDepths)
                      \/ (p.lim \in OverLims /\ ~(Family = "tamper" /\ p.lim \in PersistLims))
\* an ambiguous text: Build may refuse it (then there is no event and nothing to hold)
RepMayRefuse(p) == p.num \in RepKinds \/ p.unsigned = "urep"

\* --- signer identities (family sid; rotated over the scenarios of the other families) ----------------------
\* "All signer identities": a signer is (server name, key ID, key).  origin / sigkey say WHICH server and WHICH of
\* its keys signs; how the server name and the key ID are SPELT is a dimension of its own.  Every class is inside
\* the grammar of the Matrix specification - Appendices "Server name": dns-name (letters, digits, "-", "."; up to
\* 255 characters) / IPv4 literal / bracketed IPv6 literal, each with an optional port; server-server API
\* "Publishing keys": key ID = algorithm ":" version, the version made of [a-zA-Z0-9_] - so the event signed under
\* such an identity is an event like any other: no clause reads the spelling, Build must hand the event out
\* (PBuildOrRefuse) and every operation must treat it as it treats the plainly spelt one.
NameSpellings == {"dns", "port", "ipv4", "ipv4port", "ipv6", "ipv6port", "label", "long"}
    \* hs1.example.org  ...:8448  203.0.113.1  ...:8448  [2001:db8::1]  [...]:8448  one label with "-"  207 characters
KeySpellings == {"alnum", "under", "leadunder", "digits", "upper", "long"}
    \* ed25519:k1  ed25519:a_RXGk1  ed25519:_k1  ed25519:1  ed25519:K1  ed25519:<128 characters of all four kinds>
AllSpellings == NameSpellings \X KeySpellings
PlainSpelling == <<"dns", "alnum">>
NameSeq == <<"dns", "port", "ipv4", "ipv6port", "label", "ipv4port", "ipv6", "long">>
KeySeq == <<"alnum", "under", "digits", "long", "upper", "leadunder">>
ASSUME /\ {NameSeq[k] : k \in DOMAIN NameSeq} = NameSpellings
       /\ {KeySeq[k] : k \in DOMAIN KeySeq} = KeySpellings
VerRank(v) == 2 * BaseOf(v) + (IF v \in UnstableVersions THEN 1 ELSE 0)
\* the spellings enumerated for a scenario: family sid all of SidPairs; elsewhere one, rotating with the scenario.
\* Pseudo-ID room versions: the signer is the sender's key under the key ID the MSC fixes - nothing to spell.
\* Family tamper (C04) reads the verdict of the signature check, which asks for the signature of the SENDER's
\* server: the name stays the sender's, the key ID rotates.
SpellingsOf(v, i, w) ==
    LET k == VerRank(v) + i + w IN
    IF PseudoIDs(v) THEN {PlainSpelling}
    ELSE IF Family = "sid" THEN SidPairs
    ELSE IF Family = "tamper" THEN {<<"dns", KeySeq[(k % Len(KeySeq)) + 1]>>}
    ELSE {<<NameSeq[(k % Len(NameSeq)) + 1], KeySeq[(k % Len(KeySeq)) + 1]>>}

\* --- sizes (family tamper, TamperBulk) ----------------------------------------------------------------------------
\* "The complete event MUST NOT be larger than 65536 bytes".  The limit is on the EVENT: the keys a receiving server
\* strips (added in transit by other servers) are not part of it, the white space between its members is not, and
\* when the content hash fails the event that surfaces - and is measured - is the redacted one.  Sizes are ranks in
\* KiB: every event of the model weighs 1, a value token "big40" 40 (the genuine, large event: content key zz_big,
\* outside every keep list but the create event's from room version 11 on), "bulk30" / "bulk70" what a tampering adds.
SizeLimit == 64
Heavy(e, tok) == Cardinality({k \in DOMAIN e.top \ {"hashes"} : e.top[k] = tok}) + Cardinality({k \in DOMAIN e.con : e.con[k] = tok})
Size(e) == 1 + 40 * Heavy(e, "big40") + 30 * Heavy(e, "bulk30") + 70 * Heavy(e, "bulk70")
TooLarge(e) == Size(e) > SizeLimit
\* room versions and shapes on which the size dimension is enumerated (a configuration may override; no versions = off)
BulkVersions == Versions
BulkShapes == {1, 7}               \* message; create event (all of its content is kept from room version 11 on)
BigKinds == IF Family = "tamper" /\ BulkVersions # {} THEN {"none", "mid"} ELSE {"none"}

ProtoOf(i, w, n, lm, sp, bg) ==
    LET s == Shape(i)  x == Variant(w)
        extra == (IF n = "none" THEN {} ELSE {"zz_num"}) \cup (IF bg = "none" THEN {} ELSE {"zz_big"})
    IN
    [type |-> s.type, redacts |-> s.redacts, tpi |-> s.tpi, num |-> n, lim |-> lm, big |-> bg,
     sk |-> IF lm \in {"sk-b255", "sk-cp255", "sk-b256"} THEN "long" ELSE s.sk,
     con |-> [k \in DOMAIN s.con \cup extra |-> IF k = "zz_num" THEN n ELSE IF k = "zz_big" THEN "big40" ELSE s.con[k]],
     prev |-> x.prev, auth |-> x.auth, depth |-> x.depth, unsigned |-> x.unsigned,
     room |-> "r1", sender |-> "alice", ts |-> x.ts, origin |-> "hs1", sigkey |-> "k1",
     sname |-> sp[1], skey |-> sp[2], edge |-> w \in EdgeVariants]

IsCreate(p) == p.type = "m.room.create" /\ p.sk = "empty"
\* room versions with domainless room IDs: the create event carries no room_id (the room ID *is* its event ID)
Roomless(v, p) == DomainlessRoomIDs(v) /\ IsCreate(p)

\* --- EventBuilder.Build ---------------------------------------------------------------------------
BaseKeys(v, p) ==
    {"type", "content", "sender", "depth", "prev_events", "auth_events", "origin", "origin_server_ts"}
    \cup (IF Roomless(v, p) THEN {} ELSE {"room_id"})
    \cup (IF p.sk # "none" THEN {"state_key", "prev_state"} ELSE {})
    \cup (IF p.redacts # "none" THEN {"redacts"} ELSE {})
    \cup (IF p.unsigned # "none" THEN {"unsigned"} ELSE {})
    \cup (IF EventFormat(v) = 1 THEN {"event_id"} ELSE {})

TopVal(k, p, nonce) ==
    CASE k = "type" -> p.type [] k = "content" -> "content" [] k = "sender" -> p.sender
      [] k = "depth" -> p.depth [] k = "prev_events" -> p.prev [] k = "auth_events" -> p.auth
      [] k = "origin" -> p.origin [] k = "origin_server_ts" -> p.ts [] k = "room_id" -> p.room
      [] k = "state_key" -> p.sk [] k = "prev_state" -> "empty-list" [] k = "redacts" -> p.redacts
      [] k = "unsigned" -> p.unsigned
      [] k = "event_id" -> nonce         \* room versions 1-2: a fresh random ID under the origin's name

BuildEvent(v, p, nonce) ==
    LET e0 == [type |-> p.type, top |-> [k \in BaseKeys(v, p) |-> TopVal(k, p, nonce)],
               con |-> p.con, tpi |-> p.tpi]
        hv == ContentHash(e0)
    IN [e0 EXCEPT !.top = [k \in DOMAIN e0.top \cup {"hashes", "signatures"} |->
                               IF k = "hashes" THEN hv ELSE IF k = "signatures" THEN "sigs" ELSE e0.top[k]]]

SignerOf(p) == p.origin \o "/" \o p.sigkey

\* --- the accessors the room version derives ------------------------------------------------------------
\* room reference: the token the event's RoomID() stands for
\* the create event: type m.room.create with the empty state key, nothing else
IsCreateEvent(e) == /\ e.type = "m.room.create"
                    /\ (IF "state_key" \in DOMAIN e.top THEN e.top["state_key"] = "empty" ELSE FALSE)
RoomRef(v, e) == IF DomainlessRoomIDs(v) /\ IsCreateEvent(e)
                 THEN [own |-> Id(v, e)]                  \* own event ID, sigil swapped
                 ELSE [given |-> e.top["room_id"]]
\* auth references reported: in room versions with domainless room IDs every event but the create event
\* reports the create event (named by its room ID) first
AuthRefs(v, e) == IF DomainlessRoomIDs(v)
                  THEN IF IsCreateEvent(e) THEN <<>>
                       ELSE <<"create-of-" \o e.top["room_id"], e.top["auth_events"]>>
                  ELSE <<e.top["auth_events"]>>

\* --- history ---------------------------------------------------------------------------------------------
ClassOf(seq, x) == CHOOSE i \in 1..(Len(seq) + 1) :
                       /\ (i = Len(seq) + 1 \/ seq[i] = x)
                       /\ \A j \in 1..(i - 1) : seq[j] # x

Log(op, arg, e2, r2) ==
    /\ hist' = Append(hist, [op |-> op, arg |-> arg, idc |-> ClassOf(ids, Id(ver, e2)), red |-> r2])
    /\ ids' = Append(ids, Id(ver, e2))

NoOut == [kind |-> "none"]
OpsFamilies == {"ops", "num", "len", "sid", "edge"}      \* Build, then MaxOps operations

Init ==
    /\ \E v \in Versions, w \in VariantIds, n \in NumKinds : \E i \in ShapesOf(v) : \E lm \in LimKinds(v) :
       \E sp \in SpellingsOf(v, i, w), bg \in BigKinds :
          LET p == ProtoOf(i, w, n, lm, sp, bg) IN
          \* the create event cited explicitly: where there is a room ID to derive it from
          /\ (w \in CreateCiting => DomainlessRoomIDs(v) /\ ~Roomless(v, p))
          \* tamper: the over-long state key / type on the custom state event
          /\ (Family = "tamper" /\ lm # "none" => i = 3)
          \* the edge of what is an event: one dimension at a time, on three shapes; the high depths also in the
          \* sib family (where an edge variant meets the sibling fields that can tell: SibEdgeFields)
          /\ (w \in EdgeVariants => Family \in {"edge", "sib"} /\ i \in EdgeShapes /\ n = "none")
          /\ (w = 15 => Family = "edge")
          /\ (n \in RepKinds => i \in EdgeShapes)
          /\ (Family = "edge" => w \in EdgeVariants \/ n # "none")
          \* tamper: the event that is large in itself (BigKinds) is the message or the create event
          /\ (bg # "none" => i \in BulkShapes /\ lm = "none" /\ v \in BulkVersions)
          /\ ver = v
          /\ proto = p
          /\ built = BuildEvent(v, p, "E1")
          /\ sigs = (SignerOf(p) :> SignedProj(RedactionAlgo(v), BuildEvent(v, p, "E1")))
    /\ ev = built
    /\ redacted = FALSE
    /\ ids = <<Id(ver, built)>>
    /\ hist = <<>>
    /\ wire = NoEvent
    /\ out = NoOut
    /\ hs = EmptyFn
    /\ kept = [e |-> NoEvent, red |-> FALSE, sigs |-> EmptyFn]
    /\ phase = IF BuildRefuses(ver, proto) THEN "refused"       \* no event: nothing else can happen
              ELSE IF Family \in OpsFamilies THEN "ops" ELSE "pre"

\* --- operations (each is one public call on the PDU) -----------------------------------------------------------
OpNames == {"RU", "RT", "RH", "SU1", "SU2", "SF", "AS1", "AS2", "RD"}
EditNames == {"SU1", "SU2", "SF", "SFs", "SFe", "SFl", "AS2", "RD"}        \* alias: the operations that change an event

\* the effect of operation o on an event x = [e, red, sigs]: the event it leaves / returns
\* SFs / SFe / SFl: SetUnsignedField on a field the unsigned section HAS (age), the new value's encoding shorter than /
\* as long as / longer than the one it replaces; SF: a field it has not
EffectOf(x, o) ==
    CASE o = "RU" -> LET r == ParseUntrusted(ver, x.e) IN [e |-> r.e, red |-> r.red, sigs |-> x.sigs]
      [] o = "RT" -> x                                                  \* NewEventFromTrustedJSON(json, Redacted())
      [] o = "RH" -> x                                                  \* ToHeaderedJSON + NewEventFromHeaderedJSON
      [] o = "SU1" -> [x EXCEPT !.e = SetTop(x.e, "unsigned", "u8")]
      [] o = "SU2" -> [x EXCEPT !.e = SetTop(x.e, "unsigned", "u9")]
      [] o = "SF" -> [x EXCEPT !.e = SetTop(x.e, "unsigned", "uf")]
      [] o = "SFs" -> [x EXCEPT !.e = SetTop(x.e, "unsigned", "ufs")]
      [] o = "SFe" -> [x EXCEPT !.e = SetTop(x.e, "unsigned", "ufe")]
      [] o = "SFl" -> [x EXCEPT !.e = SetTop(x.e, "unsigned", "ufl")]
      [] o = "AS1" -> [x EXCEPT !.sigs =                                \* same server, another key
                       [s \in DOMAIN x.sigs \cup {"hs1/k2"} |-> IF s = "hs1/k2" THEN SignedProj(A, x.e) ELSE x.sigs[s]]]
      [] o = "AS2" -> [x EXCEPT !.sigs =                                \* another server
                       [s \in DOMAIN x.sigs \cup {"hs2/k1"} |-> IF s = "hs2/k1" THEN SignedProj(A, x.e) ELSE x.sigs[s]]]
      [] o = "RD" -> [e |-> RedactV(ver, x.e), red |-> TRUE, sigs |-> x.sigs]
Now == [e |-> ev, red |-> redacted, sigs |-> sigs]
Effect(o) == EffectOf(Now, o)
\* unsigned sections that have the field age
HasAge(e) == IF "unsigned" \in DOMAIN e.top THEN e.top["unsigned"] \in {"u1", "u2", "u8", "ufs", "ufe", "ufl"} ELSE FALSE

Do(o) ==
    LET x == Effect(o) IN
    /\ ev' = x.e
    /\ redacted' = x.red
    /\ sigs' = x.sigs
    /\ Log(o, "", x.e, x.red)

ReparseUntrusted == phase = "ops" /\ "RU" \in Alphabet /\ Do("RU")
ReparseTrusted   == phase = "ops" /\ "RT" \in Alphabet /\ Do("RT")
ReparseHeadered  == phase = "ops" /\ "RH" \in Alphabet /\ Do("RH")
SetUnsigned      == phase = "ops" /\ \E o \in {"SU1", "SU2"} \cap Alphabet : Do(o)
SetUnsignedField == phase = "ops" /\ "SF" \in Alphabet /\ Do("SF")
AddSignature     == phase = "ops" /\ \E o \in {"AS1", "AS2"} \cap Alphabet : Do(o)
RedactOp         == phase = "ops" /\ "RD" \in Alphabet /\ Do("RD")

OpsNext ==
    /\ Len(hist) < MaxOps
    /\ (ReparseUntrusted \/ ReparseTrusted \/ ReparseHeadered \/ SetUnsigned \/ SetUnsignedField
        \/ AddSignature \/ RedactOp)
    /\ UNCHANGED <<ver, proto, built, wire, out, hs, kept, phase>>

\* sib / tamper: the optional operation before
Pre ==
    /\ phase = "pre"
    /\ \E o \in PreOps :
          /\ (proto.big # "none" => o = "none")
          /\ IF o = "none" THEN UNCHANGED <<ev, redacted, sigs, hist, ids>> ELSE Do(o)
    /\ phase' = IF Family = "sib" THEN "sib" ELSE IF Family = "alias" THEN "fork" ELSE "tamper"
    /\ UNCHANGED <<ver, proto, built, wire, out, hs, kept>>

\* --- Sibling(f) ----------------------------------------------------------------------------------------------
AllSibFields == {"type", "sk", "con_kept", "con_unkept", "con_add", "con_del", "tpi", "prev", "auth", "depth",
                 "depth_up", "depth_max", "redacts", "room", "sender", "ts", "origin", "unsigned", "sigkey"}
\* depth_up: the sibling's depth is the next boundary value above (2^53 - 1 -> 2^53 -> 2^53 + 1 -> 2^63 - 2 -> 2^63 - 1),
\* depth_max: the largest; both only where the sibling is an event of the room version (BuildRefuses)
DepthUp(d) == CASE d = "d3" -> "d4" [] d = "d4" -> "d5" [] d = "d5" -> "d6" [] d = "d6" -> "d7" [] OTHER -> d
\* an edge variant meets the sibling fields that can tell
SibEdgeFields == {"depth", "depth_up", "depth_max", "unsigned", "con_add"}
\* fields that are not part of the identity
NonIdentityFields == {"unsigned", "sigkey"}

ProtoEventAbs(p) == [type |-> p.type, top |-> EmptyFn, con |-> p.con, tpi |-> p.tpi]
KeptOf(v, p) == (DOMAIN p.con \cap KeptContentKeys(RedactionAlgo(v), ProtoEventAbs(p))) \ {NestedKey}
UnkeptOf(v, p) == (DOMAIN p.con \ KeptContentKeys(RedactionAlgo(v), ProtoEventAbs(p))) \ {NestedKey}
Pick(S) == CHOOSE k \in S : TRUE
Next3(x, a, b, c) == IF x = a THEN b ELSE IF x = b THEN c ELSE b

SibApplicable(v, p, f) ==
    CASE f \in {"type", "room"} -> ~Roomless(v, p)             \* a create event of these versions has no room_id
      [] f = "sk" -> ~Roomless(v, p) /\ ~(DomainlessRoomIDs(v) /\ p.type = "m.room.create" /\ p.sk = "none")
      [] f = "con_kept" -> KeptOf(v, p) # {}
      [] f = "con_unkept" -> UnkeptOf(v, p) # {}
      [] f = "con_del" -> DOMAIN p.con \ {NestedKey} # {}
      [] f = "tpi" -> p.tpi.obj
      [] f = "depth_up" -> p.depth \in {"d3", "d4", "d5", "d6"} /\ ~EnforcedCanonJSON(v)
      [] f = "depth_max" -> p.depth \in {"d3", "d4", "d5"} /\ ~EnforcedCanonJSON(v)
      [] f = "depth" -> p.depth \notin HighDepths \/ ~EnforcedCanonJSON(v)
      [] OTHER -> TRUE

SetPCon(p, k, val) == [p EXCEPT !.con = [x \in DOMAIN p.con \cup {k} |-> IF x = k THEN val ELSE p.con[x]]]

SibProto(v, p, f) ==
    CASE f = "type" -> [p EXCEPT !.type = IF p.type = "other" THEN "other2" ELSE "other"]
      [] f = "sk" -> [p EXCEPT !.sk = IF p.sk = "none" THEN "empty" ELSE IF p.sk = "user" THEN "user2" ELSE "user"]   \* self -> user
      [] f = "con_kept" -> SetPCon(p, Pick(KeptOf(v, p)), "v2")
      [] f = "con_unkept" -> SetPCon(p, Pick(UnkeptOf(v, p)), "v2")
      [] f = "con_add" -> SetPCon(p, "zz_added", "v1")
      [] f = "con_del" -> LET k == Pick(DOMAIN p.con \ {NestedKey}) IN [p EXCEPT !.con = Proj(p.con, DOMAIN p.con \ {k})]
      [] f = "tpi" -> [p EXCEPT !.tpi = [obj |-> TRUE, keys |-> [k \in DOMAIN p.tpi.keys |-> IF k = "signed" THEN "v2" ELSE p.tpi.keys[k]]]]
      [] f = "prev" -> [p EXCEPT !.prev = Next3(p.prev, "p0", "p1", "p2")]
      [] f = "auth" -> [p EXCEPT !.auth = Next3(p.auth, "a0", "a1", "a2")]
      [] f = "depth" -> [p EXCEPT !.depth = Next3(p.depth, "d1", "d2", "d3")]
      [] f = "depth_up" -> [p EXCEPT !.depth = DepthUp(p.depth)]
      [] f = "depth_max" -> [p EXCEPT !.depth = "d7"]
      [] f = "redacts" -> [p EXCEPT !.redacts = Next3(p.redacts, "none", "r1", "r2")]
      [] f = "room" -> [p EXCEPT !.room = "r2"]
      [] f = "sender" -> [p EXCEPT !.sender = "bob"]
      [] f = "ts" -> [p EXCEPT !.ts = "t2"]
      [] f = "origin" -> [p EXCEPT !.origin = "hs2"]
      [] f = "unsigned" -> [p EXCEPT !.unsigned = Next3(p.unsigned, "none", "u1", "u2")]
      [] f = "sigkey" -> [p EXCEPT !.sigkey = "k2"]

Sibling(f) ==
    /\ phase = "sib"
    /\ SibApplicable(ver, proto, f) = TRUE
    /\ (proto.edge => f \in SibEdgeFields)
    /\ LET p2 == SibProto(ver, proto, f)
           e2 == BuildEvent(ver, p2, "E2")
       IN out' = [kind |-> "sib", f |-> f, proto2 |-> p2,
                  same |-> Id(ver, e2) = Id(ver, ev),
                  sameh |-> e2.top["hashes"] = built.top["hashes"]]
    /\ phase' = "done"
    /\ UNCHANGED <<ver, proto, built, ev, sigs, redacted, ids, hist, wire, hs, kept>>

\* --- several handles on the same bytes (family alias) ---------------------------------------------------------------
\* The parse paths that trust their input take the caller's bytes as they are and JSON() hands out the event's own:
\* after  q := NewEventFromTrustedJSON(p.JSON(), ..),  w := NewEventFromTrustedJSONWithEventID(id, p.JSON(), ..),
\* h := NewEventFromHeaderedJSON(p.ToHeaderedJSON(), ..)  and  s := p.JSON()  there are several HANDLES on one text.
\* An event is a value: an operation on one handle - an edit of unsigned (the whole section; one field that is new,
\* or that is there, with a value shorter than / as long as / longer than the one it replaces), a further signature,
\* a redaction - yields that handle's new event and is no business of any other handle: each of them, and the bytes
\* a caller kept, still report exactly what they reported when they were made (same JSON, same ID - also an ID that
\* is only computed now -, same fields, same flag), and the kept bytes still parse.  `cold`: no accessor of the other
\* handles was read before the edit.
Handles == {"built", "RT", "RW", "RH"}
AliasEdits == EditNames            \* a configuration may override
Fork ==
    /\ phase = "fork"
    /\ hs' = [h \in Handles |-> Now]
    /\ kept' = Now
    /\ phase' = "edit"
    /\ UNCHANGED <<ver, proto, built, ev, sigs, redacted, ids, hist, wire, out>>
Edit(who, o) ==
    /\ phase = "edit"
    /\ (o \in {"SFs", "SFe", "SFl"} => HasAge(hs[who].e))
    /\ hs' = [hs EXCEPT ![who] = EffectOf(hs[who], o)]
    /\ \E c \in BOOLEAN : out' = [kind |-> "alias", who |-> who, o |-> o, cold |-> c,
                                  red |-> EffectOf(hs[who], o).red,
                                  idsame |-> Id(ver, EffectOf(hs[who], o).e) = Id(ver, built)]
    /\ phase' = "done"
    /\ UNCHANGED <<ver, proto, built, ev, sigs, redacted, ids, hist, wire, kept>>
AliasNext == Fork \/ \E who \in Handles, o \in AliasEdits : Edit(who, o)

\* --- Tamper(T, hm) on the wire, then ReparseUntrusted -------------------------------------------------------------
TamperElems == {"con_out_chg", "con_out_add", "con_in", "tpi_chg", "top_add", "origin_chg", "depth_chg", "unsigned",
                "age_ts", "outdest", "event_id"}
\* extra: another algorithm's entry is put next to the untouched sha256 (the check still passes or fails as
\* before, but `hashes` - protected, signed, part of the identity - is no longer what was signed)
HashModes == {"keep", "garbage", "rehash", "remove", "extra"}

OutKeys(v, e) == (DOMAIN e.con \ KeptContentKeys(RedactionAlgo(v), e)) \ {NestedKey}
InKeys(v, e) == (DOMAIN e.con \cap KeptContentKeys(RedactionAlgo(v), e)) \ {NestedKey}
TamperApplicable(v, e, x) ==
    CASE x = "con_out_chg" -> OutKeys(v, e) # {}
      [] x = "con_in" -> InKeys(v, e) # {}
      [] x = "tpi_chg" -> e.tpi.obj /\ "signed" \in DOMAIN e.tpi.keys     \* content.third_party_invite.signed
      [] x = "origin_chg" -> "origin" \in DOMAIN e.top
      [] OTHER -> TRUE
ApplicableElems(v, e) == {x \in TamperElems : TamperApplicable(v, e, x)}

\* How the NAME of a key that is stripped on receipt is written on the wire (class: unusual spellings).  A member
\* name is a JSON string: "\u0061ge_ts" IS the name age_ts (RFC 8259, section 7: the escapes are part of the
\* spelling, not of the string), so "esc" is the plain tampering in other bytes - the model has ONE event for both
\* and therefore one outcome.  A name in other letter case ("Age_TS") is ANOTHER name (names are compared code point
\* by code point): not stripped, on no keep list, covered by the content hash - one more unknown top-level key.
WireSpells == {"plain", "esc", "case"}
StrippedElems(v) == {"unsigned", "age_ts", "outdest"} \cup (IF EventFormat(v) = 2 THEN {"event_id"} ELSE {})
OtherCase(k) == CASE k = "unsigned" -> "Unsigned" [] k = "age_ts" -> "Age_TS" [] k = "outlier" -> "OUTLIER"
                  [] k = "destinations" -> "Destinations" [] k = "event_id" -> "Event_ID"
NameOnWire(v, k, sp) == IF sp = "case" /\ k \in Stripped(v) THEN OtherCase(k) ELSE k
\* room versions on which the spelling and the multiplicity dimensions are enumerated (a configuration may
\* override the definition with a spread)
WireVersions == Versions
DupShapes == ShapeIds

\* tk: the value token the tampering writes ("tampered"; TamperBulk: a heavy one)
ApplyTk(v, e, T, sp, tk) ==
    LET OnIf(c, x, k, val) == IF c THEN SetTop(x, k, tk) ELSE x
        e1 == IF "con_out_chg" \in T THEN SetCon(e, Pick(OutKeys(v, e)), tk) ELSE e
        e2 == IF "con_out_add" \in T THEN SetCon(e1, "zz_added", tk) ELSE e1
        e3 == IF "con_in" \in T THEN SetCon(e2, Pick(InKeys(v, e)), tk) ELSE e2
        e3b == IF "tpi_chg" \in T
               THEN [e3 EXCEPT !.tpi = [obj |-> TRUE, keys |-> [k \in DOMAIN e3.tpi.keys |->
                                                                    IF k = "signed" THEN "tampered" ELSE e3.tpi.keys[k]]]]
               ELSE e3
        e4 == OnIf("top_add" \in T, e3b, "zz_top", "tampered")
        e5 == OnIf("origin_chg" \in T, e4, "origin", "tampered")
        e6 == OnIf("depth_chg" \in T, e5, "depth", "tampered")
        e7 == OnIf("unsigned" \in T, e6, NameOnWire(v, "unsigned", sp), "tampered")
        e8 == OnIf("age_ts" \in T, e7, NameOnWire(v, "age_ts", sp), "tampered")
        e8b == IF "outdest" \in T THEN SetTop(e8, NameOnWire(v, "outlier", sp), "tampered") ELSE e8     \* a flag: never heavy
        e9 == OnIf("outdest" \in T, e8b,
                   NameOnWire(v, "destinations", sp), "tampered")
    IN OnIf("event_id" \in T, e9, NameOnWire(v, "event_id", sp), "tampered")
ApplyT(v, e, T, sp) == ApplyTk(v, e, T, sp, "tampered")

ApplyH(v, e, hm) ==
    CASE hm = "keep" -> e
      [] hm = "garbage" -> SetTop(e, "hashes", Garbage)
      [] hm = "extra" -> SetTop(e, "hashes", [h |-> e.top["hashes"].h, more |-> "md5"])
      [] hm = "remove" -> DropTop(e, {"hashes"})
      [] hm = "rehash" -> SetTop(e, "hashes", ContentHash(Received(v, e)))   \* the hash a forger would compute

\* elements that change what the content hash covers (after the keys stripped on receipt are gone)
HashedElems(v) == TamperElems \ ({"unsigned", "age_ts", "outdest"} \cup (IF EventFormat(v) = 2 THEN {"event_id"} ELSE {}))
\* ... under a spelling: a name in other letter case is not the stripped key, it stays and is hashed
HashedElemsSp(v, sp) == HashedElems(v) \cup (IF sp = "case" THEN StrippedElems(v) ELSE {})

Tamper(T, hm, sp) ==
    /\ phase = "tamper"
    /\ wire' = ApplyH(ver, ApplyT(ver, ev, T, sp), hm)
    /\ out' = [kind |-> "tampered", T |-> T, hm |-> hm, sp |-> sp,
               kout |-> IF "con_out_chg" \in T THEN Pick(OutKeys(ver, ev)) ELSE "",
               kin |-> IF "con_in" \in T THEN Pick(InKeys(ver, ev)) ELSE "",
               vk |-> "", vs |-> "", vpos |-> "", bulk |-> "none"]
    /\ phase' = "parse"
    /\ UNCHANGED <<ver, proto, built, ev, sigs, redacted, ids, hist, hs, kept>>

\* the receiving server parses what arrived
ParseSingle ==
    /\ phase = "parse" /\ out.kind = "tampered"
    /\ LET r == ParseUntrusted(ver, wire) IN
          /\ ev' = r.e
          /\ redacted' = r.red
          /\ Log("TRU", out.hm, r.e, r.red)
          /\ out' = [kind |-> "tamper", T |-> out.T, hm |-> out.hm, sp |-> out.sp, kout |-> out.kout, kin |-> out.kin,
                     vk |-> out.vk, vs |-> out.vs, vpos |-> out.vpos, bulk |-> out.bulk,
                     red |-> r.red,
                     refused |-> TooLarge(r.e),             \* what surfaces is over the limit: no event is handed out
                     noop |-> RedactV(ver, Received(ver, wire)) = Received(ver, wire),   \* nothing to redact
                     topk |-> DOMAIN r.e.top, conk |-> DOMAIN r.e.con, tpik |-> DOMAIN r.e.tpi.keys,
                     idsame |-> Id(ver, r.e) = Id(ver, built),
                     valid |-> {s \in DOMAIN sigs : sigs[s] = SignedProj(A, r.e)}]
    /\ phase' = "done"
    /\ UNCHANGED <<ver, proto, built, sigs, wire, hs, kept>>

TamperSets(E) == {T \in SUBSET E : Cardinality(T) <= TamperMax \/ Cardinality(T) >= Cardinality(E) - 1}

\* after a Redact() before (the event on the wire is invariant under redaction in every room version): only
\* the hash tamperings alone or with one more element; after any other operation before (second signature,
\* SetUnsigned): small tamper sets (the large ones are enumerated on the event as built)
PreRedacted == Len(hist) > 0 /\ hist[1].op = "RD"
\* shapes 15-16 repeat 4-5 for the sake of who must sign: single tamperings suffice
SecondSignerShape == "membership" \in DOMAIN proto.con /\ (proto.con["membership"] = "invite"
                        \/ (IF "join_authorised_via_users_server" \in DOMAIN proto.con
                            THEN proto.con["join_authorised_via_users_server"] = "hs2" ELSE FALSE))
TamperPlain ==
    /\ phase = "tamper" /\ proto.big = "none"
    /\ \E T \in (IF PreRedacted \/ SecondSignerShape \/ Len(hist) > 0 \/ proto.lim # "none"
                  THEN {X \in SUBSET ApplicableElems(ver, ev) : Cardinality(X) <= (IF TamperMax > 2 /\ ~PreRedacted THEN 2 ELSE 1)}
                  ELSE TamperSets(ApplicableElems(ver, ev))) :
       \E hm \in HashModes :
        \* a forger's re-hash of unchanged hashed material is the original hash: same as "keep"
        /\ ((hm = "rehash") => (T \cap HashedElems(ver) # {})) = TRUE
        /\ Tamper(T, hm, "plain")

\* the spelling dimension: every key stripped on receipt alone, two of them, and one next to a forged content key
\* (so that the redacted path strips them too), in the two other spellings x {hash kept, garbage, the forger's}
\* on the event as built
SpeltSets(v) == {T \in SUBSET (StrippedElems(v) \cup {"con_out_add"}) :
                    /\ T \cap StrippedElems(v) # {}
                    /\ Cardinality(T) <= (IF TamperMax > 2 THEN 3 ELSE 2)
                    /\ (TamperMax <= 2 /\ Cardinality(T) = 2 => "con_out_add" \in T)}
TamperSpelt ==
    /\ phase = "tamper" /\ Len(hist) = 0 /\ proto.lim = "none" /\ proto.big = "none" /\ ver \in WireVersions
    /\ \E T \in SpeltSets(ver), sp \in WireSpells \ {"plain"}, hm \in {"keep", "garbage", "rehash"} :
        /\ ((hm = "rehash") => (T \cap HashedElemsSp(ver, sp) # {})) = TRUE
        \* "Event_ID": enumerated with the variants of the protected names (TamperVariant), for every room version
        /\ ((sp = "case") => ("event_id" \notin T)) = TRUE
        /\ Tamper(T, hm, sp)

\* --- a top-level member that occurs TWICE in the wire text (class: multiplicity) -----------------------------------
\* RFC 8259: "when the names within an object are not unique, the behavior of software that receives such an
\* object is unpredictable"; the usual parsers take the first or the last copy.  Such a text has two READINGS (the
\* event with the first copy, the event with the last copy), each an ordinary event.  What C04 entitles us to demand
\* of the parser is modest: whatever it makes of the text, what it hands out is ONE reading - unredacted only if the
\* content hash of THAT reading matches, else that reading's redacted form - or it refuses the text.  So a copy that
\* the hash check did not see is observable nowhere.
\*   m    the member that is doubled: one genuine copy and one smuggled copy (content with forged keys, another
\*        type / depth / state key / event_id, a garbage `hashes`), or - for the keys stripped on receipt, which the
\*        built event does not carry - two different added copies
\*   pos  where the smuggled copy stands: "before" or "after" the genuine one
\*   sp   how the smuggled copy's name is spelt ("esc": with a \u escape - the same name)
\*   hm   the `hashes` the text carries: "keep" as built; "rehash": the smuggled reading's hash; "both" / "bothswap":
\*        the hash of the text with both copies in it (in wire order / swapped; of the keys stripped on receipt: with
\*        only the first / only the last copy removed), which is the content hash of NO reading
DupMembers == {"content", "type", "depth", "state_key", "event_id", "hashes", "unsigned", "age_ts"}
DupApplicable(v, e, m) == m \in DOMAIN e.top \/ m \in Stripped(v)
DupAdded(v, e, m) == m \notin DOMAIN e.top          \* both copies are additions
\* the smuggled type: m.room.create, whose keep list differs most (all of the content from room version 11 on).
\* Room versions with domainless room IDs: type m.room.create + empty state key + a room_id is the create event
\* of a partial implementation, which the library tolerates on purpose; its RoomID() is C03's subject - there the
\* smuggled type is m.room.member.
SmuggledType(v, e) ==
    IF e.type = "m.room.create" THEN "other"
    ELSE IF DomainlessRoomIDs(v) /\ (IF "state_key" \in DOMAIN e.top THEN e.top["state_key"] = "empty" ELSE FALSE)
         THEN "m.room.member"
    ELSE "m.room.create"
Smuggled(v, e, m) ==
    CASE m = "content" -> [e EXCEPT !.con = [k \in DOMAIN e.con \cup {"zz_added"} |->
                                                 IF k = NestedKey THEN e.con[k] ELSE "tampered"]]
      [] m = "type" -> [SetTop(e, "type", SmuggledType(v, e)) EXCEPT !.type = SmuggledType(v, e)]
      [] m = "hashes" -> SetTop(e, "hashes", Garbage)
      [] OTHER -> SetTop(e, m, "tampered")
NoReading(tag) == H([NoEvent EXCEPT !.type = tag])       \* the hash of a text that is no event
DupHashModes(v, e, m) ==
    IF m = "hashes" THEN {"keep"}
    ELSE IF m = "unsigned" THEN {"keep"}                  \* never covered by the content hash, stripped or not
    ELSE IF DupAdded(v, e, m) THEN {"keep", "both", "bothswap"}
    ELSE {"keep", "rehash", "both", "bothswap"}
DupReadings(v, e, m, pos, hm) ==
    LET g == IF DupAdded(v, e, m) THEN SetTop(e, m, "tampered2") ELSE e
        s == Smuggled(v, e, m)
        hv == CASE hm = "rehash" -> ContentHash(Received(v, s))
                [] hm = "both" -> NoReading("both")
                [] hm = "bothswap" -> NoReading("bothswap")
                [] OTHER -> Garbage
        wh(x) == IF hm = "keep" THEN x ELSE SetTop(x, "hashes", hv)
    IN [first |-> wh(IF pos = "before" THEN s ELSE g), last |-> wh(IF pos = "before" THEN g ELSE s)]

TamperDup ==
    /\ phase = "tamper" /\ Len(hist) = 0 /\ proto.lim = "none" /\ proto.big = "none" /\ ver \in WireVersions
    /\ \E i \in DupShapes : proto.con = Shape(i).con /\ proto.type = Shape(i).type /\ proto.sk = Shape(i).sk
    /\ \E m \in DupMembers, pos \in {"before", "after"}, sp \in {"plain", "esc"} :
       \E hm \in DupHashModes(ver, ev, m) :
        /\ DupApplicable(ver, ev, m)
        /\ (DupAdded(ver, ev, m) => pos = "before")                      \* two additions: the order says nothing
        /\ (sp = "esc" => m \in {"content", "type", "event_id", "age_ts"})
        /\ wire' = DupReadings(ver, ev, m, pos, hm).last
        /\ out' = [kind |-> "duplicated", m |-> m, pos |-> pos, sp |-> sp, hm |-> hm,
                   rd |-> DupReadings(ver, ev, m, pos, hm)]
        /\ phase' = "parse"
        /\ UNCHANGED <<ver, proto, built, ev, sigs, redacted, ids, hist, hs, kept>>

\* the parser settles for one reading (which one is its business) and treats it as the event that arrived
Readings == {"first", "last"}
DupSummary(v, x) ==
    LET rc == Received(v, x)  rr == RedactV(v, rc) IN
    [ok |-> HashOK(rc), typ |-> x.type,
     itop |-> DOMAIN rc.top, icon |-> DOMAIN rc.con,
     rtop |-> DOMAIN rr.top, rcon |-> DOMAIN rr.con, rtpi |-> DOMAIN rr.tpi.keys]
ParseDuplicated ==
    /\ phase = "parse" /\ out.kind = "duplicated"
    /\ \E c \in Readings :
       LET r == ParseUntrusted(ver, out.rd[c]) IN
          /\ ev' = r.e
          /\ redacted' = r.red
          /\ Log("TRU", out.hm, r.e, r.red)
          /\ out' = [kind |-> "dup", m |-> out.m, pos |-> out.pos, sp |-> out.sp, hm |-> out.hm, rd |-> out.rd,
                     chosen |-> c, red |-> r.red,
                     styp |-> IF out.m = "type" THEN SmuggledType(ver, built) ELSE "",
                     first |-> DupSummary(ver, out.rd["first"]), last |-> DupSummary(ver, out.rd["last"])]
    /\ phase' = "done"
    /\ UNCHANGED <<ver, proto, built, sigs, wire, hs, kept>>

\* --- a name that differs from a name the event format knows only in letter case (class: unusual spellings) ---------
\* Member names are compared code point by code point: "Sender", "TYPE", "Event_ID" - or "\u017Fender", whose first
\* letter (long s) case-folds to s - are NOT sender / type / event_id but unknown top-level keys: covered by the
\* content hash, on no keep list, read by no accessor.  One such member is added next to the genuine one (before or
\* after it; where the event has no such member it stands alone), the hash kept (so it fails: redacted form, the
\* extra member gone, ID and signatures the original's) or the forger's (so it matches: the event intact, the extra
\* member in it as the unknown key it is, every accessor reporting the genuine members).  In the model this IS the
\* tampering {top_add} under another name, so every C04 invariant applies as it stands; the names are tokens
\* (name ~ kind), the harness writes the letters.
ProtectedNames == TopKeepOld \cup {"redacts"}         \* every name some keep list has, and redacts (an accessor reads it)
VariantKinds == {"case", "fold"}                      \* other letter case; a non-ASCII letter that folds to the ASCII one
Foldable == {"sender", "state_key", "hashes", "signatures", "prev_events", "prev_state", "auth_events",
             "origin_server_ts", "membership", "redacts"}        \* names with an s (U+017F) or a k (U+212A)
VariantName(k, vs) == k \o "~" \o vs
TamperVariant ==
    /\ phase = "tamper" /\ Len(hist) = 0 /\ proto.lim = "none" /\ proto.big = "none" /\ ver \in WireVersions
    /\ \E i \in DupShapes : proto.con = Shape(i).con /\ proto.type = Shape(i).type /\ proto.sk = Shape(i).sk
    /\ \E k \in ProtectedNames, vs \in VariantKinds, pos \in {"before", "after"}, hm \in {"keep", "rehash"} :
        /\ (vs = "fold" => k \in Foldable)
        /\ (k \notin DOMAIN ev.top => pos = "before")                 \* no genuine member to stand next to
        /\ wire' = ApplyH(ver, SetTop(ev, VariantName(k, vs), "tampered"), hm)
        /\ out' = [kind |-> "tampered", T |-> {"top_add"}, hm |-> hm, sp |-> "plain", kout |-> "", kin |-> "",
                   vk |-> k, vs |-> vs, vpos |-> pos, bulk |-> "none"]
        /\ phase' = "parse"
        /\ UNCHANGED <<ver, proto, built, ev, sigs, redacted, ids, hist, hs, kept>>

\* --- a wire form over the size limit (class: sizes) -----------------------------------------------------------------
\* Bulk - 70 KiB on the small event, 30 KiB on the event of 40 KiB, so that the wire form is over the limit and what
\* was added is not, nor is the event - goes into ONE place: a key stripped on receipt (unsigned, age_ts, destinations
\* next to outlier, event_id from room version 3 on), a content key off the keep list (changed / added), an extra
\* top-level key, a kept content key; into a stripped key and an added content key at once; or between the members
\* (white space: "pad", the same event in more bytes).  Hash as built, garbage, or the forger's.
BulkTokens == {"bulk30", "bulk70"}
BulkElems(v) == StrippedElems(v) \cup {"con_out_chg", "con_out_add", "top_add", "con_in"}
BulkSets(v, e) == {T \in SUBSET (BulkElems(v) \cap ApplicableElems(v, e)) :
                      \/ Cardinality(T) <= 1
                      \/ (Cardinality(T) = 2 /\ "con_out_add" \in T /\ T \cap StrippedElems(v) # {})}
TamperBulk ==
    /\ phase = "tamper" /\ Len(hist) = 0 /\ proto.lim = "none" /\ ver \in BulkVersions
    /\ \E i \in BulkShapes : /\ proto.type = Shape(i).type /\ proto.sk = Shape(i).sk
                              /\ DOMAIN proto.con \ {"zz_big"} = DOMAIN Shape(i).con
    /\ \E T \in BulkSets(ver, ev), bk \in BulkTokens, hm \in {"keep", "rehash", "garbage"} :
        /\ ((proto.big = "none") <=> (bk = "bulk70")) = TRUE
        /\ ((hm = "rehash") => (T \cap HashedElems(ver) # {})) = TRUE
        \* hashed material tampered with fails the hash as built already: garbage with the stripped keys / the padding
        /\ ((hm = "garbage") => (T \subseteq StrippedElems(ver))) = TRUE
        /\ wire' = ApplyH(ver, ApplyTk(ver, ev, T, "plain", bk), hm)
        /\ out' = [kind |-> "tampered", T |-> T, hm |-> hm, sp |-> "plain",
                   kout |-> IF "con_out_chg" \in T THEN Pick(OutKeys(ver, ev)) ELSE "",
                   kin |-> IF "con_in" \in T THEN Pick(InKeys(ver, ev)) ELSE "",
                   vk |-> "", vs |-> "", vpos |-> "", bulk |-> IF T = {} THEN "pad" ELSE bk]
        /\ phase' = "parse"
        /\ UNCHANGED <<ver, proto, built, ev, sigs, redacted, ids, hist, hs, kept>>

TamperNext == TamperPlain \/ TamperSpelt \/ TamperDup \/ TamperVariant \/ TamperBulk
ParseTampered == ParseSingle \/ ParseDuplicated

Next ==
    \/ (Family \in OpsFamilies /\ OpsNext)
    \/ (Family \notin OpsFamilies /\ Pre)
    \/ (Family = "sib" /\ \E f \in SibFields : Sibling(f))
    \/ (Family = "alias" /\ AliasNext)
    \/ (Family = "tamper" /\ TamperNext)
    \/ (Family = "tamper" /\ ParseTampered)

Spec == Init /\ [][Next]_vars

\* =============================== the properties ==========================================================
\* (stated over the history variables, independent of how the operations are written)
Steps == 1..Len(hist)
HashedIdentity == EventIDFormat(ver) # 1         \* room versions 3+: the ID is a hash

\* C03: no operation changes the identity
PIdStable == Family # "tamper" => \A i \in Steps : hist[i].idc = 1
\* C03: reparsing on any path, editing unsigned and adding signatures leave every field of the built event
\* but unsigned (stripped on receipt) in place, and the event is not marked redacted
Untouching == {"RU", "RT", "RH", "SU1", "SU2", "SF", "AS1", "AS2"}
PRoundTrip ==
    (Family # "tamper" /\ \A i \in Steps : hist[i].op \in Untouching) =>
        /\ ~redacted
        /\ DropTop(ev, {"unsigned"}) = DropTop(built, {"unsigned"})
        /\ \A s \in DOMAIN sigs : SigValid(s)
\* C03: Build either refuses or hands out an event every receiving server accepts (and for which every clause
\* above holds); it refuses nothing that can be an event
PBuildOrRefuse ==
    /\ (phase # "refused" => /\ Acceptable(ver, built) /\ proto.lim \notin OverLims
                             /\ (ParseUntrusted(ver, built).red = FALSE))
    /\ (phase = "refused" => ~Acceptable(ver, built) \/ proto.lim \in OverLims)
\* C03: redaction keeps identity and signatures
PRedactKeeps ==
    Family # "tamper" => /\ Id(ver, ev) = Id(ver, built)
                         /\ \A s \in DOMAIN sigs : SigValid(s)
                         /\ RoomRef(ver, ev) = RoomRef(ver, built)
                         /\ AuthRefs(ver, ev) = AuthRefs(ver, built)
\* C03: a sibling differing in exactly one field has another identity, unless the field is unsigned / signatures
PSibling ==
    (phase = "done" /\ Family = "sib" /\ HashedIdentity) =>
        (out.same <=> out.f \in NonIdentityFields)
\* ... and the content hash covers every field but unsigned / signatures as well
PSiblingHash ==
    (phase = "done" /\ Family = "sib" /\ HashedIdentity) => (out.sameh <=> out.f \in NonIdentityFields)
\* C03: an operation on one handle leaves every observation of every other handle on the same bytes, and the bytes a
\* caller kept, as they were; and is itself one of the operations that do not change the identity
ADone == phase = "done" /\ Family = "alias"
PAliasIndependent ==
    ADone => /\ \A h \in Handles \ {out.who} : hs[h] = kept
             /\ \A h \in Handles : Id(ver, hs[h].e) = Id(ver, built)
             /\ out.idsame
             /\ ParseUntrusted(ver, kept.e) = ParseUntrusted(ver, ev)
\* (sanity) the edit did happen: the handle it was made on reports something else, or was redacted before already
PAliasEdited ==
    (ADone /\ out.o \in {"SU2", "SF", "SFs", "SFe", "SFl"}) => hs[out.who] # kept
\* C03: domainless room IDs
PV12 ==
    DomainlessRoomIDs(ver) =>
        /\ (IsCreate(proto) => RoomRef(ver, built) = [own |-> Id(ver, built)] /\ AuthRefs(ver, built) = <<>>)
        /\ (~IsCreate(proto) => /\ AuthRefs(ver, built) = <<"create-of-" \o proto.room, proto.auth>>
                                 /\ RoomRef(ver, built) = [given |-> proto.room])

\* C04 ------------------------------------------------------------------------------------------------
TDone == phase = "done" /\ Family = "tamper" /\ out.kind = "tamper"
HashAltered == out.hm \in {"garbage", "remove", "extra"} \/ (out.hm = "rehash" /\ out.T \cap HashedElemsSp(ver, out.sp) # {})
\* the content hash no longer matches the hashed fields
\* (an event redacted before it is sent keeps the hash of its unredacted form: no match unless nothing was removed)
BaseOK == PreRedacted => HashOK(Received(ver, RedactV(ver, built)))
Mismatch == out.hm \in {"garbage", "remove"} \/ (out.hm \in {"keep", "extra"} /\ (out.T \cap HashedElemsSp(ver, out.sp) # {} \/ ~BaseOK))
\* material the redaction algorithm of the version strips (or the receiver strips)
Redactable(x) ==
    CASE x = "con_out_chg" -> TRUE
      [] x = "con_out_add" -> ~KeepAllContent(A, proto.type)
      [] x = "tpi_chg" -> "signed" \notin NestedKeep(A, proto.type) /\ ~KeepAllContent(A, proto.type)
      [] x = "top_add" -> TRUE
      [] x = "origin_chg" -> "origin" \notin TopKeep(A)
      [] x \in {"unsigned", "age_ts", "outdest"} -> TRUE
      [] x = "event_id" -> EventFormat(ver) = 2
      [] OTHER -> FALSE
OnlyRedactable == ~HashAltered /\ \A x \in out.T : Redactable(x) = TRUE

PRedactedIffMismatch == TDone => (out.red <=> Mismatch)
\* ... in particular when redaction has nothing to remove: the flag still tells that the hash failed
PRedactedNoop == (TDone /\ out.noop /\ out.hm \in {"garbage", "remove"}) => (out.red /\ redacted)
PRedactedForm ==
    (TDone /\ out.red) =>
        /\ out.topk = (DOMAIN wire.top \ Stripped(ver)) \cap TopKeep(A)
        /\ out.conk \subseteq DOMAIN wire.con
        /\ (~KeepAllContent(A, proto.type) => out.conk \ {NestedKey} = (DOMAIN wire.con \cap ContentKeep(A, proto.type)) \ {NestedKey})
        /\ \A k \in out.conk : ev.con[k] = wire.con[k]
        /\ \A k \in out.topk : ev.top[k] = wire.top[k]
PIntact ==
    (TDone /\ ~out.red) => ev = Received(ver, wire)
PIdSigIff ==
    TDone => ((out.idsame /\ out.valid = DOMAIN sigs) <=> OnlyRedactable)
\* signatures stand or fall together (all cover the same projection)
PSigsTogether == TDone => (out.valid = DOMAIN sigs \/ out.valid = {})
\* "adding a key that is stripped on receipt never breaks the hash", however its name is written - as long as it IS
\* that name: the escaped spelling has the outcome of the plain one, field by field (one abstract event), and a
\* tampering made of stripped keys only leaves the event as built
PSpellingNeutral ==
    (TDone /\ out.sp # "case" /\ out.T \subseteq StrippedElems(ver) /\ out.hm = "keep" /\ ~PreRedacted) =>
        (~out.red /\ ev = Received(ver, built) /\ out.idsame /\ out.valid = DOMAIN sigs)
\* ... and a name in other letter case is an unknown top-level key like any other: hashed, and gone after redaction
PCaseIsAnotherKey ==
    (TDone /\ out.sp = "case" /\ out.hm = "keep") =>
        (out.red /\ \A k \in Stripped(ver) : OtherCase(k) \notin out.topk)

\* ... and so is a name that differs from a protected name only in case / by a folding letter: the hash fails ->
\* redacted, the member gone, ID and signatures the original's; the hash matches -> the event as sent, the member in
\* it, every genuine member as built (nothing the variant carries has replaced one)
PVariantIsAnotherKey ==
    (TDone /\ out.vk # "") =>
        LET n == VariantName(out.vk, out.vs) IN
        /\ (out.hm = "keep" => out.red /\ n \notin out.topk /\ out.idsame /\ out.valid = DOMAIN sigs
                                /\ ev = RedactV(ver, Received(ver, built)))
        /\ (out.hm = "rehash" => ~out.red /\ n \in out.topk
                                  /\ DropTop(ev, {n, "hashes"}) = DropTop(Received(ver, built), {"hashes"}))

\* C04 and the size limit: it is the event that surfaces that is measured - the wire form minus the keys stripped on
\* receipt (minus the white space), redacted first if the content hash fails
PSizeOfTheEvent ==
    TDone => (out.refused <=> TooLarge(IF Mismatch THEN RedactV(ver, Received(ver, wire)) ELSE Received(ver, wire)))
\* ... so bulk in what is stripped on receipt, or between the members, changes nothing: the untampered event's outcome
PBulkStrippedNeutral ==
    (TDone /\ out.sp = "plain" /\ out.T \subseteq StrippedElems(ver) /\ out.hm = "keep" /\ ~PreRedacted) =>
        (ev = Received(ver, built) /\ (out.refused <=> TooLarge(Received(ver, built))))
\* ... and bulk in redactable material whose hash fails is gone with the redaction: the redacted original's outcome
PBulkRedactable ==
    (TDone /\ OnlyRedactable /\ Mismatch /\ ~PreRedacted) =>
        (ev = RedactV(ver, Received(ver, built)) /\ (out.refused <=> TooLarge(RedactV(ver, Received(ver, built)))))
\* (sanity) the dimension is there: a bulk tampering makes the wire form larger than the limit
PBulkIsOverOnTheWire ==
    (TDone /\ out.bulk \in BulkTokens) => TooLarge(wire)

\* C04, a member that occurs twice: what is handed out is ONE reading of the text - unredacted only if the content
\* hash of that reading matches, otherwise its redacted form ((ii) and (iii); a refusal hands out nothing)
DDone == phase = "done" /\ Family = "tamper" /\ out.kind = "dup"
PDupOneReading ==
    DDone => \E c \in Readings :
                LET rc == Received(ver, out.rd[c]) IN
                IF redacted THEN ev = RedactV(ver, rc) ELSE (ev = rc /\ HashOK(rc))
\* consequences that must hold (sanity of the model): under the hash of the built event nothing but the built event
\* is handed out unredacted; the hash of the two-copy text admits no reading; the summaries the generator emits
\* describe the candidates
PDupGenuineOnly ==
    (DDone /\ out.hm = "keep" /\ ~redacted) => ev = Received(ver, built)
PDupNoReadingHash ==
    (DDone /\ out.hm \in {"both", "bothswap"}) => (redacted /\ ~out.first.ok /\ ~out.last.ok)
PDupForgerOnly ==
    (DDone /\ out.hm = "rehash" /\ ~redacted) =>
        DropTop(ev, {"hashes"}) = DropTop(Received(ver, Smuggled(ver, built, out.m)), {"hashes"})
PDupSummaries ==
    DDone => LET s == IF out.chosen = "first" THEN out.first ELSE out.last IN
             /\ (~redacted => s.ok /\ DOMAIN ev.top = s.itop /\ DOMAIN ev.con = s.icon)
             /\ (redacted => DOMAIN ev.top = s.rtop /\ DOMAIN ev.con = s.rcon /\ DOMAIN ev.tpi.keys = s.rtpi)
             /\ ev.type = s.typ

TypeOK ==
    /\ WellFormed(ev) /\ WellFormed(built)
    /\ <<proto.sname, proto.skey>> \in AllSpellings
    /\ Len(ids) = Len(hist) + 1
    /\ phase \in {"ops", "pre", "sib", "fork", "edit", "tamper", "parse", "done", "refused"}
=============================================================================
