SPECIFICATION Spec
CONSTANTS
  Family = "event1"
  Versions <- VersionsAll
  TypesC <- TypesAll
  Depth = "full"
  FieldSet = "sig"
  Entries <- EntriesUntrusted
  MaxOps = 3
  Heavy <- HeavySign
  HeavyAfter <- HeavySign
  Muts <- MutsAll
INVARIANTS TypeOK NoPanic WellOrdered Emit
CHECK_DEADLOCK FALSE
