------------------------- MODULE EventIdentity_gen -------------------------
(***************************************************************************)
(* Generation wrapper for EventIdentity.tla: one JSON record per complete  *)
(* behaviour, replayed against EventBuilder.Build / the parse paths /      *)
(* SetUnsigned / Sign / Redact by harness/cmd/c03 (commands c03 and c04).  *)
(*   ops     [fam, ver, shape, variant, proto, steps: [op, arg, idc, red]] *)
(*   sid     as ops (fam "sid"): proto.sname / proto.skey enumerated        *)
(*   sib     [fam, ver, ..., proto, pre, f, proto2, same]                  *)
(*   tamper  [fam, ver, ..., proto, pre, sp, vk, vs, vpos (a variant of a  *)
(*            protected name added: name, kind, position), T, hm, kout,    *)
(*            kin, red, topk,                                              *)
(*            conk, tpik, idsame, valid, signers]                          *)
(*   edge    as ops (fam "ops"): proto.num a RepKind / proto.depth high;    *)
(*           mayrefuse: Build may refuse the (ambiguous) proto-event        *)
(*   alias   [fam, ver, ..., proto, steps (the operation before), who, o,   *)
(*            cold, red, idsame]                                            *)
(*   tamper  also bulk ("none" | "bulk30" | "bulk70" | "pad"), refused,     *)
(*           proto.big                                                     *)
(*   dup     [fam, ver, ..., proto, m, pos, sp, hm, styp, first, last]     *)
(*           (a member written twice; first / last: the two readings)      *)
(***************************************************************************)
EXTENDS EventIdentity, Json

VersionsAll == AllVersions
ShapesAll == AllShapes
ShapesC03 == 1..14        \* 15-16 differ from 4-5 only in who must sign: C04's subject
ShapesOpsQuick == {1, 2, 3, 4, 5, 6, 7, 9, 12, 13, 14}   \* length-3 behaviours: without join_rules, history_visibility, aliases (in opsb, sib)
ShapesLite == {1, 2, 5, 7, 9, 12}
ShapesNum == {1, 7, 9}         \* message (number redactable), create (kept whole from v11), power levels
VariantsAll == AllVariants
Variants12 == {1, 2}
Variants1 == {1}
Variants2 == {2}
Variants256 == {2, 5, 6, 7, 8, 9}
ShapesLen == {3}                \* a custom state event: type, state key and sender are free
Variants125 == {1, 2, 5}
AlphabetFull == OpNames
AlphabetQuick == {"RU", "RT", "RH", "SU1", "SF", "AS2", "RD"}
NoOps == {}
PreNone == {"none"}
PreSib == {"none", "RU", "RD", "AS2", "SU1"}
PreSibQuick == {"none", "RD"}
PreTamper == {"none", "AS2", "SU1", "RD"}
PreTamperQuick == {"none", "AS2", "RD"}
\* C04, spelling / multiplicity dimensions: the quick tier enumerates them on a spread of room versions (both event
\* formats, every redaction algorithm but 3, domainless room IDs, an unstable version) and on six shapes
VersionsSpread == {"1", "3", "6", "10", "11", "12", "org.matrix.msc4014"}
NoVersions == {}
SibAll == AllSibFields
NoFields == {}
\* family sid (signer identities): every server-name spelling and every key-ID spelling with every room version
\* family edge: repeated member names, high depths
VariantsEdge == {1} \cup EdgeVariants
AlphabetEdge == {"RU", "RT", "RH", "RD"}
ShapesEdgeQuick == {1, 7}
\* family sib: the quick variants and the high depths
VariantsSibQuick == {1, 2, 5} \cup DepthVariants
VariantsSibAll == AllVariants \cup DepthVariants
\* family alias
ShapesAliasQuick == {1, 7}
ShapesAlias == {1, 3, 5, 7, 12}
Variants124 == {1, 2, 4}
PreAlias == {"none", "SU1", "AS2", "RD"}
PreAliasQuick == {"none", "SU1", "RD"}
NoSid == {}
SidQuick == {sp \in AllSpellings : sp[1] = "dns" \/ sp[2] = "alnum"} \cup {<<"ipv6port", "long">>, <<"long", "under">>}
SidAll == AllSpellings
ShapesSidQuick == {1}
ShapesSid == {1, 5, 7, 12}
AlphabetSid == {"RU", "RT", "RH", "AS1", "AS2", "RD"}

ProtoJson(p) ==
    [type |-> p.type, sk |-> p.sk, redacts |-> p.redacts, num |-> p.num, lim |-> p.lim, big |-> p.big, con |-> p.con, tpiobj |-> p.tpi.obj, tpi |-> p.tpi.keys,
     prev |-> p.prev, auth |-> p.auth, depth |-> p.depth, unsigned |-> p.unsigned, room |-> p.room,
     sender |-> p.sender, ts |-> p.ts, origin |-> p.origin, sigkey |-> p.sigkey,
     sname |-> p.sname, skey |-> p.skey]

Complete ==
    \/ phase = "refused"
    \/ (Family \in OpsFamilies /\ Len(hist) = MaxOps)
    \/ (Family \notin OpsFamilies /\ phase = "done"
        /\ (out.kind = "dup" => out.chosen = "first"))      \* one record per two-copy text (it carries both readings)

Emit ==
    Complete =>
        PrintT(ToJson(
            IF Family \in OpsFamilies \/ phase = "refused" THEN
                [fam |-> IF Family = "sid" THEN "sid" ELSE "ops", ver |-> ver, idfmt |-> EventIDFormat(ver), proto |-> ProtoJson(proto), steps |-> hist,
                 refuse |-> phase = "refused", mayrefuse |-> RepMayRefuse(proto)]
            ELSE IF Family = "alias" THEN
                [fam |-> "alias", ver |-> ver, idfmt |-> EventIDFormat(ver), proto |-> ProtoJson(proto), steps |-> hist,
                 who |-> out.who, o |-> out.o, cold |-> out.cold, red |-> out.red, idsame |-> out.idsame]
            ELSE IF Family = "sib" THEN
                [fam |-> "sib", ver |-> ver, idfmt |-> EventIDFormat(ver), proto |-> ProtoJson(proto), steps |-> hist,
                 f |-> out.f, proto2 |-> ProtoJson(out.proto2), same |-> out.same]
            ELSE IF out.kind = "dup" THEN
                \* a member written twice: the two readings, each with what it would be intact and redacted
                [fam |-> "dup", ver |-> ver, idfmt |-> EventIDFormat(ver), algo |-> A, proto |-> ProtoJson(proto),
                 pre |-> "none", m |-> out.m, pos |-> out.pos, sp |-> out.sp, hm |-> out.hm, styp |-> out.styp,
                 first |-> out.first, last |-> out.last, signers |-> DOMAIN sigs]
            ELSE
                [fam |-> "tamper", ver |-> ver, idfmt |-> EventIDFormat(ver), algo |-> A, proto |-> ProtoJson(proto),
                 pre |-> IF Len(hist) = 2 THEN hist[1].op ELSE "none", sp |-> out.sp,
                 vk |-> out.vk, vs |-> out.vs, vpos |-> out.vpos, bulk |-> out.bulk, refused |-> out.refused,
                 T |-> out.T, hm |-> out.hm, kout |-> out.kout, kin |-> out.kin, red |-> out.red, noop |-> out.noop,
                 topk |-> out.topk, conk |-> out.conk, tpik |-> out.tpik, idsame |-> out.idsame,
                 valid |-> out.valid, signers |-> DOMAIN sigs]))
=============================================================================
