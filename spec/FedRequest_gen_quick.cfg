SPECIFICATION Spec
CONSTANTS
  Methods <- MethodsAll
  URIs <- URIsQuick
  OriginShapes <- ShapesO
  DestShapes <- ShapesD
  Spellings <- SpellingsAll
  Bodies <- BodiesAll
  Styles <- StylesAll
  KeyVals <- KeyValsAll
  Cfgs <- CfgsAll
  Entries <- EntriesAll
  NKeys <- NKeysAll
  Knowns <- KnownsAll
  DestOwns <- DestOwnsAll
  Laters <- LatersAll
  TamperKinds <- AllTamperKinds
  MaxTamper = 2
  Budget = 2
INVARIANTS TypeOK NonInterference ReportStable Complete RefuseForeign RefuseNoHeader RefuseBadOrigin RefuseBadBody RefuseBadKey RefuseChanged RefuseBadSig Emit_
CHECK_DEADLOCK FALSE
