SPECIFICATION Spec
CONSTANTS
  Family = "event1"
  Versions <- VersionsAll
  TypesC <- TypesAll
  Depth = "none"
  FieldSet = "core"
  Entries <- EntriesAll
  MaxOps = 3
  Heavy <- HeavyEverything
  HeavyAfter <- HeavyLiteSet
  Muts <- MutsAll
INVARIANTS TypeOK NoPanic WellOrdered Emit
CHECK_DEADLOCK FALSE
