--------------------------- MODULE KeyRing_trace ---------------------------
(***************************************************************************)
(* Trace validation (code -> spec) for KeyRing.tla.  The recorder (c12rec) *)
(* runs seeded random batches through a real KeyRing; its scripted         *)
(* database and fetchers log one line per DBFetch / Fetch / Store call at  *)
(* the real call boundary, framed by a "begin" line (the scenario) and an  *)
(* "end" line (per-request results, top-level error).                      *)
(*                                                                         *)
(* The stages of KeyRing.tla are replayed along the trace: stages that     *)
(* call nobody (Prepare, EarlyCheck, FetchDone, FinalCheck) are taken      *)
(* silently; every stage that calls the database or a fetcher must be      *)
(* matched by the next line (same callee, same set of key names; for       *)
(* Store: everything adopted from a fetcher is among what was stored and   *)
(* nothing was stored that was not obtained); the "end" line must carry    *)
(* the results the specification derives.  A line the specification does   *)
(* not explain is recorded in `bad` and the rest of its batch is skipped.  *)
(***************************************************************************)
EXTENDS KeyRing, Json, IOUtils, TLC

MB == INSTANCE MatrixBase

Trace == ndJsonDeserialize(IOEnv.TRACE_FILE)

VARIABLES l,      \* next trace line
          bad,    \* lines the specification does not explain
          skip    \* the rest of the current batch is ignored
tvars == <<l, bad, skip>>

SeqSet(s) == {s[i] : i \in DOMAIN s}
NormTab(t) == [k \in DOMAIN t |-> [key |-> t[k].key, vu |-> t[k].vu, exp |-> t[k].exp]]
\* a request judged by a room version's own check (ver # "") is strict iff the Matrix specification says so
NormReq(r) == [srv |-> r.srv, form |-> r.form, sigs |-> SeqSet(r.sigs), ts |-> r.ts, ver |-> r.ver,
               strict |-> IF r.ver = "" THEN r.strict ELSE MB!StrictKeyValidity(r.ver)]
NormF(f) == [mode |-> f.mode, tab |-> NormTab(f.tab), all |-> f.all]

Line == Trace[l]
More == l <= Len(Trace)

Init ==
    /\ l = 1 /\ bad = <<>> /\ skip = FALSE
    /\ requests = <<>> /\ db = <<>> /\ dbmode = "ok" /\ fetchers = <<>> /\ now = 0
    /\ stage = "idle" /\ fi = 1 /\ results = <<>> /\ pending = {} /\ have = <<>>
    /\ fetched = <<>> /\ stored = <<>> /\ toperr = FALSE /\ calls = <<>>

\* a new batch: load the scenario the recorder scripted
Load ==
    /\ More /\ Line.ev = "begin"
    /\ requests' = [i \in DOMAIN Line.sc.requests |-> NormReq(Line.sc.requests[i])]
    /\ db' = NormTab(Line.sc.db)
    /\ dbmode' = Line.sc.dbmode
    /\ fetchers' = [i \in DOMAIN Line.sc.fetchers |-> NormF(Line.sc.fetchers[i])]
    /\ now' = 0
    /\ stage' = "prepare" /\ fi' = 1 /\ results' = <<>> /\ pending' = {} /\ have' = <<>>
    /\ fetched' = <<>> /\ stored' = <<>> /\ toperr' = FALSE /\ calls' = <<>>
    /\ bad' = IF stage = "idle" \/ skip THEN bad ELSE Append(bad, l)   \* previous batch never ended
    /\ skip' = FALSE /\ l' = l + 1

Skipping ==
    /\ More /\ skip /\ Line.ev # "begin"
    /\ l' = l + 1 /\ UNCHANGED <<bad, skip, vars>>

\* the database write is not owed when nothing was adopted from a fetcher
StoreOptional == fetched = <<>>

Silent ==
    /\ More /\ ~skip
    /\ \/ Prepare \/ EarlyCheck \/ FetchDone \/ FinalCheck
       \/ /\ stage = "store" /\ StoreOptional /\ Line.ev = "end"
          /\ stage' = "done"
          /\ UNCHANGED <<scenario, fi, results, pending, have, fetched, stored, toperr, calls>>
    /\ UNCHANGED tvars

CallMatches(c) ==
    IF c.op = "store"
    THEN /\ Line.ev = "store"
         /\ SubTab(fetched, NormTab(Line.stored))
         /\ SubTab(NormTab(Line.stored), have)
    ELSE /\ Line.ev = c.op /\ Line.who = c.who /\ SeqSet(Line.keys) = c.keys

CallStep ==
    /\ More /\ ~skip /\ Line.ev # "begin"
    /\ ~(stage = "store" /\ StoreOptional /\ Line.ev = "end")
    /\ DBFetch \/ (\E i \in DOMAIN fetchers : Fetch(i)) \/ Store
    /\ LET c == calls'[Len(calls')] IN
       IF CallMatches(c) THEN UNCHANGED <<bad, skip>>
       ELSE bad' = Append(bad, l) /\ skip' = TRUE
    /\ l' = l + 1

\* the key ring returned early and still wrote back what it had
StoreAfterDone ==
    /\ More /\ ~skip /\ stage = "done" /\ Line.ev = "store"
    /\ IF StoreOptional /\ ~toperr /\ SubTab(NormTab(Line.stored), have) THEN UNCHANGED <<bad, skip>>
       ELSE bad' = Append(bad, l) /\ skip' = TRUE
    /\ l' = l + 1 /\ UNCHANGED vars

EndStep ==
    /\ More /\ ~skip /\ stage = "done" /\ Line.ev = "end"
    /\ bad' = IF Line.toperr = toperr /\ (toperr \/ Line.results = results) THEN bad ELSE Append(bad, l)
    /\ stage' = "idle" /\ l' = l + 1
    /\ UNCHANGED <<skip, scenario, fi, results, pending, have, fetched, stored, toperr, calls>>

\* a call the specification does not make (or a line outside any batch)
Unexpected ==
    /\ More /\ ~skip
    /\ \/ stage = "done" /\ Line.ev \in {"dbfetch", "fetch"}
       \/ stage = "idle" /\ Line.ev # "begin"
    /\ bad' = Append(bad, l) /\ skip' = TRUE /\ l' = l + 1
    /\ UNCHANGED vars

Next == Load \/ Skipping \/ Silent \/ CallStep \/ StoreAfterDone \/ EndStep \/ Unexpected
Spec == Init /\ [][Next]_<<vars, tvars>>

Report == (l = Len(Trace) + 1 /\ bad # <<>>) => PrintT("TRACE_REJECTED " \o ToJson(bad))
TraceAccepted == TLCGet("stats").diameter - 1 >= Len(Trace)
=============================================================================
