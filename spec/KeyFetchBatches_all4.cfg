SPECIFICATION FairSpec
CONSTANTS
  Batches = {"b1", "b2"}
  Servers = {"s1", "s2"}
  Reqs <- AllReqs
  Behaviours = {"direct", "notary", "down", "flaky"}
  Cancellable = {"b1", "b2"}
  Coalesce = FALSE
INVARIANTS TypeOK LiveCallerGetsWhatTheServersAnswer NothingFromADeadServer OwnFetchesOnly TransientFaultHitsOneCaller NothingEarly
PROPERTIES EveryBatchReturns
