SPECIFICATION Spec
CONSTANTS
  Modes = {"check", "pubkey", "direct", "persp"}
  Tier = "thorough"
INVARIANTS SaneDirect SanePersp SaneCheck SanePubKey Emit
CHECK_DEADLOCK FALSE
