SPECIFICATION Spec
CONSTANTS
  Fault = "none"
  Depth = "thorough"
INVARIANTS SeqInvs Terminates Sane Emit
CHECK_DEADLOCK FALSE
