--------------------------- MODULE CheckerShapes ---------------------------
(***************************************************************************)
(* C09 - vocabulary shared by CheckerSel.tla and CheckerBatch.tla: sets of *)
(* auth-state components ("shapes", the form Auth!Needed gives: create /   *)
(* power levels / join rules / the memberships of some users / the         *)
(* third-party invite), their algebra, and one room whose every component  *)
(* matters to some verdict.                                                *)
(***************************************************************************)
EXTENDS Auth

Shape(c, p, j, ms, t) == [create |-> c, pl |-> p, jr |-> j, members |-> ms, tpi |-> t]
NoneShape == Shape(FALSE, FALSE, FALSE, {}, FALSE)
FullShape == Shape(TRUE, TRUE, TRUE, Users, TRUE)
CreateOnly == Shape(TRUE, FALSE, FALSE, {}, FALSE)
NAnd(a, b) == Shape(a.create /\ b.create, a.pl /\ b.pl, a.jr /\ b.jr, a.members \cap b.members, a.tpi /\ b.tpi)
NOr(a, b) == Shape(a.create \/ b.create, a.pl \/ b.pl, a.jr \/ b.jr, a.members \cup b.members, a.tpi \/ b.tpi)
NMinus(a, b) == Shape(a.create /\ ~b.create, a.pl /\ ~b.pl, a.jr /\ ~b.jr, a.members \ b.members, a.tpi /\ ~b.tpi)

\* components by name
CompNames == {"create", "pl", "jr", "tpi", "m_creator", "m_alice", "m_bob", "m_carol"}
MemName(u) == "m_" \o u
One(c) == CASE c = "create" -> CreateOnly
            [] c = "pl" -> Shape(FALSE, TRUE, FALSE, {}, FALSE)
            [] c = "jr" -> Shape(FALSE, FALSE, TRUE, {}, FALSE)
            [] c = "tpi" -> Shape(FALSE, FALSE, FALSE, {}, TRUE)
            [] OTHER -> Shape(FALSE, FALSE, FALSE, {u \in Users : MemName(u) = c}, FALSE)
Names(s) == (IF s.create THEN {"create"} ELSE {}) \cup (IF s.pl THEN {"pl"} ELSE {}) \cup (IF s.jr THEN {"jr"} ELSE {})
            \cup (IF s.tpi THEN {"tpi"} ELSE {}) \cup {MemName(u) : u \in s.members}
OfNames(ns) == Shape("create" \in ns, "pl" \in ns, "jr" \in ns, {u \in Users : MemName(u) \in ns}, "tpi" \in ns)

\* the components for which a state holds an event at all
Present(st) == Shape(st.create.present, st.pl.present, st.jr # "absent", {u \in Users : st.mem[u] # "absent"}, st.tpi # "absent")

\* component-wise: what `a` says for the components in `sa`, what `b` says for the others
Merge(a, sa, b) ==
    [b EXCEPT !.create = IF sa.create THEN a.create ELSE @,
              !.pl = IF sa.pl THEN a.pl ELSE @,
              !.jr = IF sa.jr THEN a.jr ELSE @,
              !.mem = [u \in Users |-> IF u \in sa.members THEN a.mem[u] ELSE @[u]],
              !.tpi = IF sa.tpi THEN a.tpi ELSE @,
              !.tpisender = IF sa.tpi THEN a.tpisender ELSE @]

\* ---- a room in which every component decides some verdict --------------------------------------------
\* bob (level 50) may send state and invite; alice and carol are ordinary; a third-party invite sent by bob is pending
\* (events of the type the rules do not name need level 0 only: an ordinary member may send them as state)
PLRoom == [EmptyPL EXCEPT !.users = [u \in Users |-> IF u = "bob" THEN 3 ELSE Absent], !.invite = 3,
                          !.events = [k \in EvKeys |-> IF k = "custom" THEN 1 ELSE Absent]]
PLRoomAlt == [PLRoom EXCEPT !.users = [u \in Users |-> IF u = "bob" THEN 1 ELSE Absent]]
RoomWith(jr, carol) ==
    [WithPL(WithMem(WithMem(WithMem(WithMem(BaseSt, "creator", "join"), "alice", "join"), "bob", "join"), "carol", carol), PLRoom)
        EXCEPT !.jr = jr, !.tpi = "match", !.tpisender = "bob"]
=============================================================================
