SPECIFICATION GSpec
CONSTANTS
  Family = "mj_qerr"
  Versions <- RVersionsQuick
  Width = "quick"
  MaxForge = 0
  ScenarioSet = "none"
INVARIANTS TypeOK MakeJoinExact MakeLeaveExact TemplateShape SendJoinExact InviteExact ReturnsCountersigned PerformJoinExact NoJoinWithoutBothHandlers BannedNeverJoins UnforgedPublicJoinSucceeds UnforgedRestrictedJoinSucceeds TamperedNeverAccepted Emit
CHECK_DEADLOCK FALSE
