------------------------------ MODULE Room_gen ------------------------------
(* Emits, for every reachable room and every fork pair ending in the newest event, one resolution query:   *)
(* the events, the two state sets, the expected resolved state and the expected intermediate stages.        *)
EXTENDS Room, Json

CONSTANTS Triples,   \* also emit queries with three state sets
          SpellSet,  \* spellings of power-levels events in this run (the configurations say Spells <- GenSpells)
          PadTypes   \* event types for which StateRes!PadNeutral is checked on every query (it costs one more
                     \* resolution per type: the harness pads the queries of every run, TLC checks the lemma on some)

GenSpells == SpellSet


EvJson(i) == [id |-> i, type |-> E[i].type, sender |-> E[i].sender, skey |-> E[i].skey, membership |-> E[i].membership,
              plu |-> E[i].plu, jr |-> E[i].jr, prev |-> E[i].prev, auth |-> E[i].auth, depth |-> E[i].depth,
              ts |-> E[i].ts, idr |-> E[i].idr, sha |-> E[i].sha, addl |-> E[i].addl, pud |-> E[i].pud, spell |-> E[i].spell]

\* free events that some other event cites as an auth event: candidates for the caller's rejected-event oracle
RejectCandidates == {x \in DOMAIN E : x > Base /\ \E y \in DOMAIN E : x \in E[y].auth}

WithRejected(rej) == [i \in DOMAIN E |-> [E[i] EXCEPT !.rejected = (i \in rej)]]

Query(tips, rej) ==
    LET Sets == [k \in DOMAIN tips |-> after[tips[k]]]
        ER == WithRejected(rej) IN
    IF StateRes(Ver) = "v1"
    THEN [ver |-> Ver, events |-> [i \in DOMAIN E |-> EvJson(i)], sets |-> Sets, tips |-> tips, rejected |-> rej, dishonest |-> Dishonest,
          result |-> ResultV1(ER, Ver, Sets), unconflicted |-> UnconflictedV1(ER, Sets), power |-> <<>>, others |-> <<>>,
          authdiff |-> {}, subgraph |-> {}, spower |-> <<>>]
    ELSE LET st == StagesV2(ER, Ver, Sets) IN
         [ver |-> Ver, events |-> [i \in DOMAIN E |-> EvJson(i)], sets |-> Sets, tips |-> tips, rejected |-> rej, dishonest |-> Dishonest,
          result |-> st.result, unconflicted |-> st.unconflicted, power |-> st.power, others |-> st.others,
          authdiff |-> st.authdiff, subgraph |-> st.subgraph,
          \* the sender power (rank) each event of the power order was sorted with (R2): diagnosis only
          spower |-> [k \in DOMAIN st.power |-> SenderPower(ER, Ver, st.power[k])]]

\* the lemmas that license what the concretiser varies freely (spelling of levels, realisation of depth ranks) and
\* the padded variants of C11
LemmasOK(Sets) ==
    /\ \A i \in DOMAIN E : SpellAdmitted(Ver, E[i].spell) /\ (E[i].type # "pl" => E[i].spell = "int")
    /\ (RoomSpells # {"int"} => LevelsSpellingFree(E, Ver, Sets))
    /\ (StateRes(Ver) = "v1" =>
          /\ V1DepthRankOnly(E, Ver, Sets)
          /\ \A e \in AllIds(Sets) : V1StrictTotal(E, ForKey(E, AllIds(Sets), KeyOf(E, e))))
    /\ \A t \in PadTypes : PadNeutral(E, Ver, Sets, t)

\* one evaluation of the stages per query: check the definition's properties and emit the query
QueryOK(tips, rej) ==
    LET q == Query(tips, rej) IN
    /\ WellFormedR(E, q.sets, q.result)
    /\ (Len(tips) = 2 => PairOK(tips[1], tips[2], q.result))
    /\ (rej = {} => LemmasOK(q.sets))
    /\ PrintT(ToJson(q))

\* three state sets: the newest event, an event it is incomparable with, and any third event that is not an
\* ancestor of both (state sets need not sit on three different branches: a branch may contribute an earlier
\* and a later state)
ForkTriples ==
    {t \in (DOMAIN E) \X (DOMAIN E) \X (DOMAIN E) :
        /\ t[3] = last /\ t[1] < t[2] /\ t[2] < t[3] /\ t[1] >= ForkFrom
        /\ (Incomparable(E, t[2], t[3]) \/ Incomparable(E, t[1], t[3]))
        /\ after[t[1]] # after[t[2]]}

\* state sets of an event and of one of its ancestors (a server resolving a stale state with a newer one): used
\* for dishonest rooms, where the newer set carries events that resolution has to throw out again
StalePairs ==
    IF Dishonest /\ last # 0
    THEN {<<a, last>> : a \in {x \in Ancestors(E, last) : x >= ForkFrom /\ after[x] # after[last]}}
    ELSE {}

Emit == /\ HistoryNoEsc
        /\ PowerSenderOK
        /\ \A p \in ForkPairs \cup StalePairs :
              /\ QueryOK(p, {})
              /\ (StateRes(Ver) # "v1" => \A x \in RejectCandidates : QueryOK(p, {x}))
        /\ (Triples => \A t \in ForkTriples : QueryOK(<<t[2], t[1], t[3]>>, {}))
=============================================================================
