------------------------------ MODULE Room_gen ------------------------------
(* Emits, for every reachable room and every fork pair ending in the newest event, one resolution query:   *)
(* the events, the two state sets, the expected resolved state and the expected intermediate stages.        *)
EXTENDS Room, Json


EvJson(i) == [id |-> i, type |-> E[i].type, sender |-> E[i].sender, skey |-> E[i].skey, membership |-> E[i].membership,
              plu |-> E[i].plu, jr |-> E[i].jr, prev |-> E[i].prev, auth |-> E[i].auth, depth |-> E[i].depth,
              ts |-> E[i].ts, idr |-> E[i].idr, sha |-> E[i].sha]

Query(a, b) ==
    LET Sets == <<after[a], after[b]>> IN
    IF StateRes(Ver) = "v1"
    THEN [ver |-> Ver, events |-> [i \in DOMAIN E |-> EvJson(i)], sets |-> Sets, tips |-> <<a, b>>,
          result |-> ResultV1(E, Ver, Sets), unconflicted |-> UnconflictedV1(E, Sets), power |-> <<>>, others |-> <<>>,
          authdiff |-> {}, subgraph |-> {}]
    ELSE LET st == StagesV2(E, Ver, Sets) IN
         [ver |-> Ver, events |-> [i \in DOMAIN E |-> EvJson(i)], sets |-> Sets, tips |-> <<a, b>>,
          result |-> st.result, unconflicted |-> st.unconflicted, power |-> st.power, others |-> st.others,
          authdiff |-> st.authdiff, subgraph |-> st.subgraph]

\* one evaluation of the stages per fork pair: check the definition's properties and emit the query
QueryOK(a, b) ==
    LET q == Query(a, b) IN PairOK(a, b, q.result) /\ PrintT(ToJson(q))

Emit == \A p \in ForkPairs : QueryOK(p[1], p[2])
=============================================================================
