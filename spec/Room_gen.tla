------------------------------ MODULE Room_gen ------------------------------
(* Emits, for every reachable room and every fork pair ending in the newest event, one resolution query:   *)
(* the events, the two state sets, the expected resolved state and the expected intermediate stages.        *)
EXTENDS Room, Json


EvJson(i) == [id |-> i, type |-> E[i].type, sender |-> E[i].sender, skey |-> E[i].skey, membership |-> E[i].membership,
              plu |-> E[i].plu, jr |-> E[i].jr, prev |-> E[i].prev, auth |-> E[i].auth, depth |-> E[i].depth,
              ts |-> E[i].ts, idr |-> E[i].idr, sha |-> E[i].sha]

\* free events that some other event cites as an auth event: candidates for the caller's rejected-event oracle
RejectCandidates == {x \in DOMAIN E : x > Base /\ \E y \in DOMAIN E : x \in E[y].auth}

WithRejected(rej) == [i \in DOMAIN E |-> [E[i] EXCEPT !.rejected = (i \in rej)]]

Query(a, b, rej) ==
    LET Sets == <<after[a], after[b]>>
        ER == WithRejected(rej) IN
    IF StateRes(Ver) = "v1"
    THEN [ver |-> Ver, events |-> [i \in DOMAIN E |-> EvJson(i)], sets |-> Sets, tips |-> <<a, b>>, rejected |-> rej,
          result |-> ResultV1(ER, Ver, Sets), unconflicted |-> UnconflictedV1(ER, Sets), power |-> <<>>, others |-> <<>>,
          authdiff |-> {}, subgraph |-> {}]
    ELSE LET st == StagesV2(ER, Ver, Sets) IN
         [ver |-> Ver, events |-> [i \in DOMAIN E |-> EvJson(i)], sets |-> Sets, tips |-> <<a, b>>, rejected |-> rej,
          result |-> st.result, unconflicted |-> st.unconflicted, power |-> st.power, others |-> st.others,
          authdiff |-> st.authdiff, subgraph |-> st.subgraph]

\* one evaluation of the stages per fork pair (and per rejected-event oracle): check the definition's
\* properties and emit the query
QueryOK(a, b, rej) ==
    LET q == Query(a, b, rej) IN PairOK(a, b, q.result) /\ PrintT(ToJson(q))

Emit == /\ HistoryNoEsc
        /\ \A p \in ForkPairs :
              /\ QueryOK(p[1], p[2], {})
              /\ (StateRes(Ver) # "v1" => \A x \in RejectCandidates : QueryOK(p[1], p[2], {x}))
=============================================================================
