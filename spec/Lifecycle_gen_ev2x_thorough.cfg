SPECIFICATION Spec
CONSTANTS
  Family = "event2x"
  Versions <- VersionsMid
  TypesC <- TypesShape
  Depth = "core"
  FieldSet = "core"
  Entries <- EntriesUntrusted
  MaxOps = 2
  Heavy <- Heavy2
  HeavyAfter <- NoOps
  Muts <- NoOps
INVARIANTS TypeOK NoPanic WellOrdered ShapeIsForeign Emit
CHECK_DEADLOCK FALSE
