SPECIFICATION Spec
CONSTANTS
  Versions <- VersionsAll
  Family = "tamper"
  ShapeIds <- ShapesAll
  VariantIds <- Variants1
  MaxOps = 0
  Alphabet <- NoOps
  PreOps <- PreTamper
  SibFields <- NoFields
  SidPairs <- NoSid
  TamperMax = 3
INVARIANTS TypeOK PRedactedIffMismatch PRedactedNoop PRedactedForm PIntact PIdSigIff PSigsTogether
  PSpellingNeutral PCaseIsAnotherKey PVariantIsAnotherKey PDupOneReading PDupGenuineOnly PDupNoReadingHash PDupForgerOnly PDupSummaries PSizeOfTheEvent PBulkStrippedNeutral PBulkRedactable PBulkIsOverOnTheWire Emit
CHECK_DEADLOCK FALSE
