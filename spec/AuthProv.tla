------------------------------ MODULE AuthProv ------------------------------
(***************************************************************************)
(* C07 - the auth-event PROVIDER (gomatrixserverlib.AuthEvents) as a state *)
(* machine used over several steps, and Allowed()'s one-room guard.        *)
(*                                                                         *)
(* A provider is created from a list of events (New), events are added to  *)
(* it one by one (AddEvent: an event for a (type, state_key) it already    *)
(* holds REPLACES the old one) and it can be emptied (Clear) and refilled. *)
(* What the provider is, at any time, is the map it holds:                 *)
(*                                                                         *)
(*   held   - slot (type, state_key) -> the event last given for that slot *)
(*            since the last Clear, or "none"                              *)
(*                                                                         *)
(* and everything it answers is a function of that map alone, whatever the *)
(* history that led to it:                                                 *)
(*                                                                         *)
(*   Create / PowerLevels / Member serve held[slot];                       *)
(*   Valid() is TRUE iff the events REALLY held are all of one room;       *)
(*   Allowed(e, provider) = the events held are of one room /\ the        *)
(*                          authorisation rules (Auth!Allowed) accept e    *)
(*                          against the state they make up.                *)
(*                                                                         *)
(* "Events whose auth events come from different rooms are refused" - and  *)
(* events whose auth events come from one room are judged by the rules: an *)
(* event that is no longer held (replaced, cleared away) counts for        *)
(* nothing, an event that is still held counts whatever was put into       *)
(* another slot since.                                                     *)
(*                                                                         *)
(* Every behaviour of at most MaxOps operations ends with Judge, which     *)
(* emits the behaviour (the list given to New, the operations, the map and *)
(* Valid after every step, the verdicts on a message of the user alice in  *)
(* room A and in room B) for replay against the real provider.             *)
(***************************************************************************)
EXTENDS Auth, Json

CONSTANTS Versions,   \* room versions (room IDs are domainless - derived from the create event - from version 12)
          MaxOps      \* entries of the list given to New + operations afterwards

Rooms == {"A", "B"}
Slots == {"create", "pl", "alice", "bob"}
SlotSeq == <<"create", "pl", "alice", "bob">>

\* the events that can be given to the provider: slot, room, what they say
Entries == {
    [code |-> "cA",  slot |-> "create", room |-> "A", val |-> "create"],
    [code |-> "cB",  slot |-> "create", room |-> "B", val |-> "create"],
    [code |-> "pA",  slot |-> "pl",     room |-> "A", val |-> "mute"],     \* events_default above alice's level
    [code |-> "pB",  slot |-> "pl",     room |-> "B", val |-> "mute"],
    [code |-> "aAj", slot |-> "alice",  room |-> "A", val |-> "join"],
    [code |-> "aAl", slot |-> "alice",  room |-> "A", val |-> "leave"],
    [code |-> "aBj", slot |-> "alice",  room |-> "B", val |-> "join"],
    [code |-> "bAj", slot |-> "bob",    room |-> "A", val |-> "join"],
    [code |-> "bBj", slot |-> "bob",    room |-> "B", val |-> "join"] }

EntryFn == [c \in {e.code : e \in Entries} |-> CHOOSE e \in Entries : e.code = c]   \* (a constant: evaluated once)
EntryOf(c) == EntryFn[c]
NoEvents == [s \in Slots |-> "none"]

VARIABLES ver,
          phase,    \* "list": the argument of New is being written down; "live": the provider exists; "done"
          list,     \* the list given to New (codes)
          ops,      \* the operations after New (codes, "clr")
          held,     \* the provider
          hist      \* history: the map and Valid after New and after every operation

vars == <<ver, phase, list, ops, held, hist>>

(***************************************************************************)
(* What the provider answers - functions of `held` only                    *)
(***************************************************************************)
RoomsHeld(h) == {EntryOf(h[s]).room : s \in {t \in Slots : h[t] # "none"}}
Valid(h) == Cardinality(RoomsHeld(h)) <= 1

MuteC == [EmptyPL EXCEPT !.events_default = 2]

\* the auth state the held events make up, seen from an event of room r
StOf(h, r) ==
    [BaseSt EXCEPT !.create.present = h["create"] # "none",
                   !.create.room = IF h["create"] # "none" /\ EntryOf(h["create"]).room # r THEN "other" ELSE "same",
                   !.pl = IF h["pl"] # "none" THEN [present |-> TRUE, c |-> MuteC] ELSE BaseSt.pl,
                   !.mem = [u \in Users |-> IF u \in {"alice", "bob"} /\ h[u] # "none" THEN EntryOf(h[u]).val ELSE "absent"],
                   !.mixedrooms = ~Valid(h)]

Msg == [BaseEv EXCEPT !.type = "msg", !.sender = "alice", !.skey = "none"]

AllowedIn(v, h, r) == Valid(h) /\ Allowed(v, StOf(h, r), Msg)

Snap(h) == [h |-> [i \in 1..Len(SlotSeq) |-> h[SlotSeq[i]]], valid |-> Valid(h)]

Budget == Len(list) + Len(ops) < MaxOps

\* rooms A and B are interchangeable (both are judged): the first event ever given is of room A
FirstIsA(e) == (list = <<>> /\ ops = <<>>) => e.room = "A"

(***************************************************************************)
(* Actions                                                                 *)
(***************************************************************************)
Init == /\ ver \in Versions
        /\ phase = "list" /\ list = <<>> /\ ops = <<>> /\ held = NoEvents /\ hist = <<>>

\* one more entry of the list handed to New (the list may name a slot twice)
Push(e) == /\ phase = "list" /\ Budget /\ FirstIsA(e)
           /\ list' = Append(list, e.code)
           /\ UNCHANGED <<ver, phase, ops, held, hist>>

Put(h, e) == [h EXCEPT ![e.slot] = e.code]

RECURSIVE PutAll(_, _)
PutAll(h, l) == IF l = <<>> THEN h ELSE PutAll(Put(h, EntryOf(Head(l))), Tail(l))

\* New(list): the provider holds, for every slot, the LAST entry of the list for it
New == /\ phase = "list"
       /\ phase' = "live"
       /\ held' = PutAll(NoEvents, list)
       /\ hist' = <<Snap(held')>>
       /\ UNCHANGED <<ver, list, ops>>

AddEvent(e) == /\ phase = "live" /\ Budget /\ FirstIsA(e)
               /\ held' = Put(held, e)
               /\ ops' = Append(ops, e.code)
               /\ hist' = Append(hist, Snap(held'))
               /\ UNCHANGED <<ver, phase, list>>

Clear == /\ phase = "live" /\ Budget
         /\ held # NoEvents                       \* emptying an empty provider changes nothing
         /\ held' = NoEvents
         /\ ops' = Append(ops, "clr")
         /\ hist' = Append(hist, Snap(held'))
         /\ UNCHANGED <<ver, phase, list>>

Judge == /\ phase = "live"
         /\ phase' = "done"
         /\ UNCHANGED <<ver, list, ops, held, hist>>

Next == \/ \E e \in Entries : Push(e) \/ AddEvent(e)
        \/ New \/ Clear \/ Judge

Spec == Init /\ [][Next]_vars

(***************************************************************************)
(* The property, stated over the history alone (independent of PutAll/Put) *)
(***************************************************************************)
AllOps == list \o ops
\* the operations since the last Clear
RECURSIVE SinceClear(_)
SinceClear(s) == IF s = <<>> THEN <<>>
                 ELSE IF s[Len(s)] = "clr" THEN <<>>
                 ELSE Append(SinceClear(SubSeq(s, 1, Len(s) - 1)), s[Len(s)])
\* the event a slot holds according to the history: the last one given for it since the last Clear
LastFor(s, slot) ==
    LET idx == {i \in 1..Len(s) : EntryOf(s[i]).slot = slot} IN
    IF idx = {} THEN "none" ELSE s[CHOOSE i \in idx : \A j \in idx : j <= i]

HeldIsLatest == phase # "list" => \A slot \in Slots : held[slot] = LastFor(SinceClear(AllOps), slot)

\* Valid iff all events held are of one room; different rooms are never accepted; and what is accepted is accepted
\* by the rules on the state held
ValidIffOneRoom == phase # "list" =>
    (Valid(held) <=> \A s, t \in Slots : (held[s] # "none" /\ held[t] # "none") => EntryOf(held[s]).room = EntryOf(held[t]).room)
MixedNeverPass == \A r \in Rooms : ~Valid(held) => ~AllowedIn(ver, held, r)
\* oracle sanity: a message passes only on a create event of its own room and a join of the sender in that room
PassNeedsOwnRoom == \A r \in Rooms : AllowedIn(ver, held, r) =>
    /\ held["create"] # "none" /\ EntryOf(held["create"]).room = r
    /\ held["alice"] # "none" /\ EntryOf(held["alice"]).room = r /\ EntryOf(held["alice"]).val = "join"
    /\ held["pl"] = "none"

Emit == phase = "done" =>
          PrintT(ToJson([ver |-> ver, list |-> list, ops |-> ops, hist |-> hist,
                         want |-> [r \in Rooms |-> AllowedIn(ver, held, r)], fam |-> "provider"]))
=============================================================================
