SPECIFICATION Spec
CONSTANTS
  MaxOps = 2
  Lookup = "tuple"
  Rooms = "ever"
INVARIANTS ValidHeld
CHECK_DEADLOCK FALSE
