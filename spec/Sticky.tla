------------------------------- MODULE Sticky -------------------------------
(***************************************************************************)
(* Growth beyond the listed properties (DESIGN.md section 9, item 6):      *)
(* sticky events (MSC4354) as a small timed model.  An event carries a     *)
(* stickiness duration (stable key `sticky.duration_ms`, falling back to   *)
(* the unstable `msc4354_sticky.duration_ms`); it is sticky from           *)
(* min(origin_server_ts, time of receipt) for min(duration, 1 h).          *)
(*                                                                         *)
(* Actions: Send (the origin stamps the event), Receive (a server records  *)
(* when it got it), Tick, Query (IsSticky / StickyEndTime at `now`).       *)
(* Properties: a sticky event stops being sticky at most one hour after    *)
(* it was received, whatever origin_server_ts and duration claim; an event *)
(* without a duration is never sticky; the end time never moves.           *)
(***************************************************************************)
EXTENDS Integers, TLC

CONSTANTS Instants,    \* candidate instants (ms) for origin_server_ts, receipt and queries
          Durations    \* candidate durations (ms), 0 = key absent

Hour == 3600000
None == -1

VARIABLES phase,     \* "init" -> "sent" -> "received" -> "queried"
          ev,        \* [ts, stable, unstable]
          received,  \* instant of receipt
          now,       \* instant of the query
          out        \* [sticky, endtime]

vars == <<phase, ev, received, now, out>>

Min(a, b) == IF a <= b THEN a ELSE b

EffDuration(e) == LET d == IF e.stable # 0 THEN e.stable ELSE e.unstable IN Min(d, Hour)
StartOf(e, rcv) == Min(e.ts, rcv)
EndOf(e, rcv) == IF EffDuration(e) = 0 THEN None ELSE StartOf(e, rcv) + EffDuration(e)
IsStickyAt(e, rcv, t) == EndOf(e, rcv) # None /\ EndOf(e, rcv) > t

Init == /\ phase = "init" /\ ev = [ts |-> 0, stable |-> 0, unstable |-> 0] /\ received = 0 /\ now = 0
        /\ out = [sticky |-> FALSE, endtime |-> None]

Send == /\ phase = "init" /\ phase' = "sent"
        /\ \E ts \in Instants, st \in Durations, un \in Durations : ev' = [ts |-> ts, stable |-> st, unstable |-> un]
        /\ UNCHANGED <<received, now, out>>

Receive == /\ phase = "sent" /\ phase' = "received"
           /\ \E r \in Instants : received' = r
           /\ UNCHANGED <<ev, now, out>>

Query == /\ phase = "received" /\ phase' = "queried"
         /\ \E t \in Instants :
              /\ now' = t
              /\ out' = [sticky |-> IsStickyAt(ev, received, t), endtime |-> EndOf(ev, received)]
         /\ UNCHANGED <<ev, received>>

Next == Send \/ Receive \/ Query
Spec == Init /\ [][Next]_vars

\* ---- properties ------------------------------------------------------------------------
BoundedByReceipt == (phase = "queried" /\ out.sticky) => now < received + Hour
NoDurationNotSticky == (phase = "queried" /\ ev.stable = 0 /\ ev.unstable = 0) => ~out.sticky /\ out.endtime = None
StablePreferred == (phase = "queried" /\ ev.stable # 0 /\ out.endtime # None) => out.endtime = Min(ev.ts, received) + Min(ev.stable, Hour)
=============================================================================
