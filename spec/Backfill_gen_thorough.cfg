\* X04 thorough tier, one plan (checks/x04.py derives the other plans - room version, creation prefix, bounds - from this text)
SPECIFICATION BSpec
CONSTANTS
  Start = 3
  Ver = "10"
  MaxFree = 0
  ForkFrom = 5
  TSChoices = {1}
  IdDesc = FALSE
  Dishonest = FALSE
  MaxBad = 0
  Addl = {}
  NServers = 3
  LimitSet <- Limits24
  FromModes <- FromAll
  SliceKinds <- SlicesAll
  WireKinds <- WiresAll
  Budget = 3
  MaxWorld = 1
  SigTolerance = "only"
  Fault = "none"
INVARIANTS TypeOK ReturnedSafe NothingLost NoDuplicates AskDiscipline TopoOrdered Quiescence ErrorReport StateCallsInOrder HonestWorld HonestRun FaultsShow CollectionMatches Emit
CHECK_DEADLOCK FALSE
