---------------------------- MODULE VersionTable ----------------------------
(***************************************************************************)
(* C17 (third sentence) - the room-version trait matrix as data.           *)
(*                                                                         *)
(*   "Each registered room version reports the state-resolution algorithm, *)
(*    event format, event-ID format, redaction algorithm, key-validity     *)
(*    rule, canonical-JSON enforcement, power-level parsing, knock and     *)
(*    restricted-join support and creator privileges that the Matrix       *)
(*    specification assigns to it, and events built for it have that       *)
(*    format."                                                             *)
(*                                                                         *)
(* Rows: the 12 stable versions (spec.matrix.org "Room versions") and the  *)
(* 4 unstable identifiers registered by the library, each taken from the   *)
(* MSC it implements.  The matrix is written out row by row; the invariant *)
(* MatchesMatrixBase compares it with the formulae of MatrixBase.tla that  *)
(* the other specifications use (two independent transcriptions).          *)
(*                                                                         *)
(* Every trait is decided by the getter that reports it (where one exists) *)
(* and by behavioural probes: an observable outcome of the per-version     *)
(* function, so that a table entry pointing at the wrong function is seen  *)
(* even when the reported constant is right.                               *)
(***************************************************************************)
EXTENDS MatrixBase

Row(sr, ef, idf, red, strict, canon, intpl, knock, restricted, knockrestricted, creators, domainless) ==
    [stateres |-> sr, format |-> ef, idformat |-> idf, redaction |-> red, strictkeys |-> strict, canonjson |-> canon,
     intpl |-> intpl, knock |-> knock, restricted |-> restricted, knockrestricted |-> knockrestricted,
     creators |-> creators, domainless |-> domainless]

T == TRUE
F == FALSE
\*                                     state  ev   id   red  key canon int  knock restr k_r  creat dom
\*                                     res    fmt  fmt  alg  val JSON  PL
Matrix ==
    [v \in AllVersions |->
       CASE v = "1"                   -> Row("v1",   1,   1,   1,   F,  F,    F,   F,    F,    F,   F,    F)
         [] v = "2"                   -> Row("v2",   1,   1,   1,   F,  F,    F,   F,    F,    F,   F,    F)
         [] v = "3"                   -> Row("v2",   2,   2,   1,   F,  F,    F,   F,    F,    F,   F,    F)
         [] v = "4"                   -> Row("v2",   2,   3,   1,   F,  F,    F,   F,    F,    F,   F,    F)
         [] v = "5"                   -> Row("v2",   2,   3,   1,   T,  F,    F,   F,    F,    F,   F,    F)
         [] v = "6"                   -> Row("v2",   2,   3,   2,   T,  T,    F,   F,    F,    F,   F,    F)
         [] v = "7"                   -> Row("v2",   2,   3,   2,   T,  T,    F,   T,    F,    F,   F,    F)
         [] v = "8"                   -> Row("v2",   2,   3,   3,   T,  T,    F,   T,    T,    F,   F,    F)
         [] v = "9"                   -> Row("v2",   2,   3,   4,   T,  T,    F,   T,    T,    F,   F,    F)
         [] v = "10"                  -> Row("v2",   2,   3,   4,   T,  T,    T,   T,    T,    T,   F,    F)
         [] v = "11"                  -> Row("v2",   2,   3,   5,   T,  T,    T,   T,    T,    T,   F,    F)
         [] v = "12"                  -> Row("v2.1", 2,   3,   5,   T,  T,    T,   T,    T,    T,   T,    T)
         [] v = "org.matrix.msc3667"  -> Row("v2",   2,   3,   2,   T,  T,    T,   T,    F,    F,   F,    F)   \* v7 + integer power levels
         [] v = "org.matrix.msc3787"  -> Row("v2",   2,   3,   4,   T,  T,    F,   T,    T,    T,   F,    F)   \* v9 + knock_restricted
         [] v = "org.matrix.msc4014"  -> Row("v2",   2,   3,   4,   T,  T,    T,   T,    T,    T,   F,    F)   \* v10 base
         [] v = "org.matrix.hydra.11" -> Row("v2.1", 2,   3,   5,   T,  T,    T,   T,    T,    T,   T,    T)]  \* v12 under its unstable name

\* auxiliary columns (not among the traits the property names; rules that came with a version and that
\* the library also selects through its table)
Aux == [v \in AllVersions |->
          [stable |-> v \in StableVersions,
           notifications |-> BaseOf(v) >= 6,      \* v6: notifications levels are checked in power-level events
           creatorfield |-> BaseOf(v) <= 10,      \* v11: content.creator is no longer required
           pseudoids |-> v = "org.matrix.msc4014"]] \* MSC4014: the sender is a per-room key, not a user ID

Traits == {"stateres", "format", "idformat", "redaction", "strictkeys", "canonjson", "intpl", "knock",
           "restricted", "knockrestricted", "creators", "domainless"}

\* --- probes ---------------------------------------------------------------------
\* [probe name |-> trait it decides]; "getter" probes are the reported constants
ProbeTrait ==
    [ build_refs |-> "format", build_event_id_key |-> "format", receipt_own_format |-> "format",
      build_id |-> "idformat",
      redact_aliases |-> "redaction", redact_allow |-> "redaction", redact_via |-> "redaction",
      redact_create_extra |-> "redaction", redact_pl_invite |-> "redaction", redact_redacts |-> "redaction",
      redact_origin |-> "redaction", redact_prev_state |-> "redaction", redact_membership_key |-> "redaction",
      key_expired |-> "strictkeys", key_far_future |-> "strictkeys", key_within |-> "strictkeys",
      canon_float |-> "canonjson", canon_bigint |-> "canonjson", canon_int |-> "canonjson", receipt_float |-> "canonjson",
      pl_string |-> "intpl", pl_string_event |-> "intpl", pl_int |-> "intpl",
      knock_func |-> "knock", knock_auth |-> "knock",
      restricted_func |-> "restricted", restricted_servername |-> "restricted", restricted_auth |-> "restricted",
      creator_power |-> "creators", creator_in_pl |-> "creators",
      domainless_create |-> "domainless", create_with_room_id |-> "domainless",
      notif_check |-> "aux:notifications", create_no_creator |-> "aux:creatorfield",
      \* hardening pass: second entry points, boundaries, fields that must have no effect
      headered_roundtrip |-> "format", build_reuse |-> "format",
      key_boundary |-> "strictkeys",
      canon_maxint |-> "canonjson", canon_exponent |-> "canonjson",
      pl_string_users |-> "intpl",
      restricted_assist |-> "restricted",
      addl_creator_power |-> "creators",
      receipt_domainless_room_id |-> "domainless",
      sender_not_user_id |-> "aux:pseudoids" ]
Probes == DOMAIN ProbeTrait

Kept(b) == IF b THEN "kept" ELSE "dropped"
Acc(b) == IF b THEN "allowed" ELSE "rejected"

\* the observable outcome the specification assigns to the probe in version v
Want(p, v) ==
    LET m == Matrix[v] IN
    CASE p = "build_refs"           -> IF m.format = 1 THEN "tuples" ELSE "ids"
      [] p = "build_event_id_key"   -> IF m.format = 1 THEN "present" ELSE "absent"
      [] p = "receipt_own_format"   -> "accepted"
      [] p = "build_id"             -> CASE m.idformat = 1 -> "given" [] m.idformat = 2 -> "b64std" [] OTHER -> "b64url"
      [] p = "redact_aliases"       -> Kept(m.redaction = 1)           \* content.aliases of m.room.aliases
      [] p = "redact_allow"         -> Kept(m.redaction >= 3)          \* content.allow of m.room.join_rules
      [] p = "redact_via"           -> Kept(m.redaction >= 4)          \* content.join_authorised_via_users_server of m.room.member
      [] p = "redact_create_extra"  -> Kept(m.redaction = 5)           \* any other content key of m.room.create
      [] p = "redact_pl_invite"     -> Kept(m.redaction = 5)           \* content.invite of m.room.power_levels
      [] p = "redact_redacts"       -> Kept(m.redaction = 5)           \* content.redacts of m.room.redaction
      [] p = "redact_origin"        -> Kept(m.redaction <= 4)          \* top-level origin
      [] p = "redact_prev_state"    -> Kept(m.redaction <= 4)          \* top-level prev_state
      [] p = "redact_membership_key" -> Kept(m.redaction <= 4)         \* top-level membership
      [] p = "key_expired"          -> IF m.strictkeys THEN "invalid" ELSE "valid"   \* event after valid_until_ts
      [] p = "key_far_future"       -> IF m.strictkeys THEN "invalid" ELSE "valid"   \* event 8 days ahead, key valid for 30: the 7-day cap
      [] p = "key_within"           -> "valid"
      [] p = "canon_float"          -> IF m.canonjson THEN "rejected" ELSE "accepted"
      [] p = "canon_bigint"         -> IF m.canonjson THEN "rejected" ELSE "accepted"
      [] p = "canon_int"            -> "accepted"
      [] p = "receipt_float"        -> IF m.canonjson THEN "rejected" ELSE "accepted"
      [] p = "pl_string"            -> IF m.intpl THEN "rejected" ELSE "ok:50"
      [] p = "pl_string_event"      -> IF m.intpl THEN "rejected" ELSE "ok:50"
      [] p = "pl_int"               -> "ok:50"
      [] p = "knock_func"           -> Acc(m.knock)
      [] p = "knock_auth"           -> Acc(m.knock)
      [] p = "restricted_func"      -> Acc(m.restricted)
      [] p = "restricted_servername" -> IF m.restricted THEN "hs2" ELSE ""
      [] p = "restricted_auth"      -> Acc(m.restricted)
      [] p = "creator_power"        -> Acc(m.creators)                 \* creator absent from users, state_default 50
      [] p = "creator_in_pl"        -> IF m.creators THEN "rejected" ELSE "allowed"
      [] p = "domainless_create"    -> IF m.domainless THEN "derived" ELSE "needs_room_id"
      [] p = "create_with_room_id"  -> IF m.domainless THEN "rejected" ELSE "ok"
      [] p = "notif_check"          -> IF Aux[v].notifications THEN "rejected" ELSE "allowed"
      [] p = "create_no_creator"    -> IF Aux[v].creatorfield THEN "rejected" ELSE "allowed"
      [] p = "headered_roundtrip"   -> "same"                          \* ToHeaderedJSON / NewEventFromHeaderedJSON: same version, same ID
      [] p = "build_reuse"          -> "stable"                        \* one builder, two Builds: both in the version's format
      [] p = "key_boundary"         -> "valid"                         \* event exactly at valid_until_ts
      [] p = "canon_maxint"         -> "accepted"                      \* 2^53 - 1 and -(2^53 - 1)
      [] p = "canon_exponent"       -> IF m.canonjson THEN "rejected" ELSE "accepted"   \* 1e2
      [] p = "pl_string_users"      -> IF m.intpl THEN "rejected" ELSE "ok:50"          \* a string level inside the users map
      [] p = "restricted_assist"    -> IF m.restricted THEN "@creator:hs1" ELSE ""      \* CheckRestrictedJoin names an authorising user
      [] p = "addl_creator_power"   -> Acc(m.creators)                 \* additional_creators has no effect without privileged creators
      [] p = "receipt_domainless_room_id" -> IF m.domainless THEN "accepted" ELSE "rejected"
      [] p = "sender_not_user_id"   -> IF Aux[v].pseudoids THEN "accepted" ELSE "rejected"

\* traits without a behavioural probe of their own: stateres (an enumeration the caller dispatches on in
\* ResolveConflicts; the algorithms are C10/C11) and knockrestricted (departure A7 of DESIGN.md section 5.1:
\* knock_restricted is honoured wherever knocking / restricted joins exist; C07 owns it)
GetterOnly == {"stateres", "knockrestricted"}

CONSTANTS Versions
VARIABLES ver, probe, phase, want
vars == <<ver, probe, phase, want>>

Init == ver \in Versions /\ probe \in Probes \cup {"getters"} /\ phase = "chosen" /\ want = ""
Look == /\ phase = "chosen" /\ phase' = "done"
        /\ want' = IF probe = "getters" THEN "row" ELSE Want(probe, ver)
        /\ UNCHANGED <<ver, probe>>
Spec == Init /\ [][Look]_vars

\* --- sanity of the matrix -----------------------------------------------------------
MatchesMatrixBase ==
    \A v \in AllVersions : LET m == Matrix[v] IN
       /\ m.stateres = StateRes(v) /\ m.format = EventFormat(v) /\ m.idformat = EventIDFormat(v)
       /\ m.redaction = RedactionAlgo(v) /\ m.strictkeys = StrictKeyValidity(v) /\ m.canonjson = EnforcedCanonJSON(v)
       /\ m.intpl = IntegerPowerLevels(v) /\ m.knock = KnockSupported(v) /\ m.restricted = RestrictedSupported(v)
       /\ m.knockrestricted = KnockRestrictedInSpec(v) /\ m.creators = PrivilegedCreators(v)
       /\ m.domainless = DomainlessRoomIDs(v)
       /\ Aux[v].notifications = NotificationsChecked(v) /\ Aux[v].creatorfield = CreatorFieldRequired(v)
       /\ Aux[v].stable = Stable(v) /\ Aux[v].pseudoids = PseudoIDs(v)
\* later versions only add: every boolean trait is monotone along the stable line, numeric ones never decrease
Monotone ==
    \A a, c \in StableVersions : BaseOf(a) <= BaseOf(c) =>
       /\ \A t \in {"strictkeys", "canonjson", "intpl", "knock", "restricted", "knockrestricted", "creators", "domainless"} :
             Matrix[a][t] => Matrix[c][t]
       /\ Matrix[a].format <= Matrix[c].format /\ Matrix[a].idformat <= Matrix[c].idformat
       /\ Matrix[a].redaction <= Matrix[c].redaction
\* every trait is decided by something
EveryTraitProbed == \A t \in Traits \ GetterOnly : \E p \in Probes : ProbeTrait[p] = t
SixteenRows == Cardinality(AllVersions) = 16 /\ Cardinality(Traits) = 12
=============================================================================
