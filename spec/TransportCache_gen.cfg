SPECIFICATION GSpec
CONSTANTS
  Procs = {"c1", "c2"}
  Names = {"a", "b"}
  MaxCalls = 1
  MaxAge = 1
  MaxReap = 1
  Faults = TRUE
  SplitGet = FALSE
  TouchOutside = FALSE
INVARIANTS TypeOK OneTransportPerName CallersShareTheCachedTransport SameNameSameTransport IdentitiesNeverReused NeverHalfInitialised ReaperNeverMeetsAnUnstampedTransport BoundedRetries OnlyAgedAreReaped Emit
CHECK_DEADLOCK FALSE
