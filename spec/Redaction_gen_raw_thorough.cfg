SPECIFICATION Spec
CONSTANTS
  Versions <- VersionsAll
  FullVersions <- VersionsAll
  Families <- FamRaw
  Kinds <- KindsLattice
  ChunkSize = 1
  MaxHist = 0
  FullOffsets <- OffAll
  LiteOffsets <- OffNone
  AllOnlyOffsets <- OffNone
INVARIANTS TypeOK PExact PIdempotent PHistory PCore PIdentity PModule PSanity Emit
CHECK_DEADLOCK FALSE
