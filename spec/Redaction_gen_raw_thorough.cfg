SPECIFICATION Spec
CONSTANTS
  Versions <- VersionsAll
  Family = "raw"
  FullOffsets <- OffAll
  LiteOffsets <- OffNone
INVARIANTS TypeOK PExact PIdempotent PCore PIdentity PModule PSanity Emit
CHECK_DEADLOCK FALSE
