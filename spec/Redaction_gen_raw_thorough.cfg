SPECIFICATION Spec
CONSTANTS
  Versions <- VersionsAll
  FullVersions <- VersionsAll
  Families <- FamRaw
  Kinds <- KindsLattice
  ChunkSize = 1
  MaxHist = 0
  FullOffsets <- OffAll
  LiteOffsets <- OffNone
  AllOnlyOffsets <- OffNone
  RouteSteps = 0
  RouteFull = FALSE
INVARIANTS TypeOK PExact PIdempotent PHistory PCore PIdentity PRoute PModule PSanity Emit
CHECK_DEADLOCK FALSE
