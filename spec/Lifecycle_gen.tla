---------------------------- MODULE Lifecycle_gen ----------------------------
(***************************************************************************)
(* Generation wrapper for Lifecycle.tla: Init picks the abstract datum     *)
(* from one family, the actions of Lifecycle.tla run pipelines of at most  *)
(* MaxOps operations on it, Emit prints every pipeline for execution       *)
(* against the real library.                                               *)
(*                                                                         *)
(* Relevance pruning (what keeps the families small):                      *)
(*  - an accessor / helper is only paired with a fault in a field group it *)
(*    reads (Reads); heavy operations read everything;                     *)
(*  - observers end a pipeline (they do not change the event); only        *)
(*    mutators are followed by a further operation;                        *)
(*  - nothing follows a parse the design fixes to fail (ParseVerdict).     *)
(***************************************************************************)
EXTENDS Lifecycle, Json

CONSTANTS Family,     \* "event1" | "event2" | "event2x" | "raw" | "rawevent" | "join"
          Versions,   \* room versions to enumerate
          TypesC,     \* subject types to enumerate
          Depth,      \* "core" | "full" | "extra" | "edge" | "none" (only the well-formed subject): class sets;
                      \* "xshape": the room ID has the shape of the other family of room versions (CrossShapeClasses)
          FieldSet,   \* "core": identifier / structure / content fields only; "edge": those plus numbers, signatures,
                      \* pseudo-ID keys, spellings and a few duplicated keys; "full": every field (few duplicated
                      \* keys); "all": every field and every duplicated key; "sig": the signatures object
          Entries,    \* the constructors that start a pipeline (ParseOps)
          MaxOps,     \* longest pipeline (operations, the parse included)
          Heavy,      \* heavy observers applied directly after the parse
          HeavyAfter, \* heavy observers applied after a mutator
          Muts        \* mutators

VersionsAll == AllVersions
\* one version per combination of parser, canonical-JSON enforcement, power-level parser, redaction algorithm,
\* create-event check, state resolution algorithm and sender-ID kind
VersionsQuick == {"1", "2", "5", "9", "11", "12", "org.matrix.msc4014"}
VersionsMid == {"1", "2", "3", "6", "8", "10", "11", "12", "org.matrix.msc4014", "org.matrix.hydra.11",
                "org.matrix.msc3667", "org.matrix.msc3787"}
TypesAll == Types
TypesA == {"create", "member", "member_tpi"}
TypesB == {"power_levels", "join_rules", "third_party_invite"}
TypesC4 == {"redaction", "aliases", "history_visibility", "message"}
HeavyAll == HeavyBase
\* the heavy operations under normal callbacks without the duplicate / bare roles and the handlers (those are
\* enumerated by the all-versions, well-formed and environment families)
HeavyClassic == HeavyBase \ (ResolveDup \cup ResolveBare \cup HandlerOps \cup {"Resolve:backfill:all"})
HeavyEnv == EnvOps
HeavyEverything == HeavyOps
\* the all-versions family: one representative of every kind of heavy operation, the new roles, handlers, and the
\* callbacks answering nothing / failing
HeavyEdge == {"VerifySignatures", "AuthCheck:provider", "Resolve:new:bare", "Resolve:backfill:dup", "Handle:Invite", "Perform:Invite",
              "AuthCheck:event@qnil"}
HeavyMid11 == {"VerifySignatures", "AuthCheck:event", "AuthCheck:provider", "AddToProvider", "Resolve:new:both", "Resolve:old:both",
               "Resolve:direct:both", "Resolve:topo_auth:all", "Resolve:checkstate:state", "Resolve:sendjoin:auth", "Resolve:load:all"}
Heavy2 == {"AuthCheck:event", "Resolve:new:both"}
\* the stages a remote event goes through after parsing, the auth check of the event ITSELF first (a create event is
\* judged by createEventAllowed there), then the same check reached through the auth chain, a state response, a
\* send_join answer, the loaders, state resolution (every algorithm and role) and the handlers
HeavyShape == {"AuthCheck:event", "AuthCheck:provider", "AddToProvider", "VerifySignatures", "Resolve:authchain:all",
               "Resolve:checkstate:state", "Resolve:checkstate:auth", "Resolve:sendjoin:auth", "Resolve:load:all", "Resolve:backfill:all",
               "Resolve:new:both", "Resolve:old:both", "Resolve:direct:both", "Resolve:new:bare", "Resolve:linearise:state",
               "Resolve:topo_auth:all", "Handle:Invite", "Handle:SendJoin", "Handle:MakeJoin", "Handle:MakeLeave", "Perform:Invite",
               "AuthCheck:event@qnil", "AuthCheck:event@qerr", "Resolve:authchain:all@pnil"}
HeavyShapeAfter == {"AuthCheck:event", "Resolve:authchain:all", "Resolve:new:both"}
MutsShape == {"Redact", "Sign", "Reload", "Headered"}
HeavyShapeAfterQ == {"AuthCheck:event"}
MutsShapeQ == {"Redact", "Reload"}
TypesShape == {"create", "member", "message"}
TypesShapeMore == {"create", "member", "member_tpi", "power_levels", "join_rules", "redaction", "message"}
Heavy8 == {"VerifySignatures", "AuthCheck:event", "AuthCheck:provider", "AddToProvider", "Resolve:new:both", "Resolve:direct:both",
           "Resolve:checkstate:state"}
VersionsFourQ == {"2", "5", "12", "org.matrix.msc4014"}
EntriesAll == ParseOps
EntriesUntrusted == {"Parse:untrusted"}
MutsTwo == {"Redact", "Sign"}
\* the family of signature entries x the pipelines that (counter)sign
MutsSign == {"Sign", "SetUnsigned"}
HeavySign == {"Handle:Invite", "Handle:SendJoin", "Perform:Invite", "VerifySignatures"}
TypesSign == {"member", "member_tpi", "message"}
VersionsFive == {"2", "5", "11", "12", "org.matrix.msc4014"}
HeavyLiteSet == HeavyLite
HeavyMid == {"VerifySignatures", "AuthCheck:event", "AuthCheck:provider", "AddToProvider", "Resolve:new:both", "Resolve:old:both",
             "Resolve:direct:both", "Resolve:topo_auth:all", "Resolve:checkstate:state", "Resolve:sendjoin:auth", "Resolve:load:all",
             "Resolve:new:bare", "Resolve:direct:dup", "Resolve:backfill:dup", "Handle:Invite", "Handle:SendJoin", "Handle:MakeJoin"}
Heavy3 == {"AuthCheck:event", "AuthCheck:provider", "Resolve:new:both"}
VersionsTwo == {"5", "12"}
VersionsPair == {"2", "12"}
VersionsSix == {"1", "2", "5", "11", "12", "org.matrix.msc4014"}
VersionsThree == {"2", "10", "12"}
VersionsFour == {"2", "10", "12", "org.matrix.msc4014"}
TypesThree == {"create", "member", "power_levels"}
TypesTwo == {"member", "power_levels"}
MutsAll == Mutators
MutsQuick == {"Redact", "Sign", "SetUnsigned"}
NoOps == {}

\* ---- event families ---------------------------------------------------------------------
CoreGroups == {"room_id", "sender", "state_key", "redacts", "type", "content", "prev", "auth", "event_id"}
EdgeGroups == {"room_id", "sender", "state_key", "type", "content", "auth", "depth", "signatures", "spelling"}
EdgeDup == {F("dupfirst/room_id", "room", "room_id"), F("duplast/room_id", "room", "room_id"),
            F("dupfirst/content", "json", "content"), F("duplast/state_key", "user", "state_key")}
FieldsC(v, t) ==
    CASE FieldSet = "core" ->
           {f \in Fields(v, t) : /\ f.grp \in CoreGroups /\ f \notin DupFields /\ f.kind # "pseudokey"
                                  /\ (f.grp = "event_id" => EventFormat(v) = 1)}
      [] FieldSet = "edge" ->
           {f \in Fields(v, t) : /\ f.grp \in EdgeGroups /\ (f \in DupFields => f \in EdgeDup) /\ f.kind # "sigentry"
                                  /\ (f.kind = "json" => f.path = "content")      \* of the JSON-valued fields only the content itself
                                  /\ (f.grp = "event_id" => EventFormat(v) = 1)}
      [] FieldSet = "sig" -> {f \in Fields(v, t) : f.kind \in {"sigentry", "sigs"} /\ f.grp = "signatures"}   \* the signatures object only
      [] FieldSet = "full" -> Fields(v, t) \ (DupFields \ EdgeDup)     \* every field; of the duplicated keys a selection
      [] OTHER -> Fields(v, t)                                         \* "all"

\* the cross-version room-ID-shape dimension: every place a room ID is written at (the key itself and, with
\* FieldSet "all", a second occurrence of the key before / after the well-formed one) x the shapes foreign to v
ShapeFaults(v, t) ==
    {Fault(f, c) : f \in {g \in FieldsC(v, t) : g.grp = "room_id"}, c \in CrossShapeClasses(v, t)}

SingleFaults(v, t) ==
    IF Depth = "none" THEN {}
    ELSE IF Depth = "xshape" THEN ShapeFaults(v, t)
    ELSE UNION {{Fault(f, c) : c \in ClassesOf(f.kind, Depth)} : f \in FieldsC(v, t)}

\* double faults: one identifier / structure field together with a second field, core classes
PairA == <<F("top/room_id", "room", "room_id"), F("top/sender", "user", "sender"), F("top/state_key", "user", "state_key")>>
PairB(t) == {F("top/sender", "user", "sender"), F("top/state_key", "user", "state_key"), F("content", "json", "content"),
             F("top/auth_events", "refs", "auth"), F("top/prev_events", "refs", "prev"), F("top/type", "str", "type")}
               \cup {f \in ContentFields(t) : f.kind \in {"user", "event", "membership", "join_rule"}}
PairClasses(kind) == CASE kind \in {"room", "user", "event"} -> {"missing", "empty", "sigil_only", "sigil_colon", "nodomain", "baddomain_space", "long_mb"}
                       [] kind = "json" -> {"null", "array", "string", "empty_obj"}
                       [] kind = "refs" -> {"empty", "other_format", "self", "cycle"}
                       [] kind = "str" -> {"missing", "empty_str"}
                       [] OTHER -> ClassesOf(kind, "core")

InitEvent1 ==
    \E v \in Versions, t \in TypesC :
    \E f \in SingleFaults(v, t) \cup (IF Depth \in {"extra", "xshape"} THEN {} ELSE {NoFault}) :
       subject = [fam |-> "event", ver |-> v, type |-> t, f1 |-> f, f2 |-> NoFault]

InitEvent2 ==
    \E v \in Versions, t \in TypesC, i \in 1..Len(PairA) :
    \E fb \in PairB(t) :
    \E c1 \in PairClasses(PairA[i].kind), c2 \in PairClasses(fb.kind) :
       /\ fb.path # PairA[i].path
       /\ (\A j \in 1..Len(PairA) : PairA[j].path = fb.path => j > i)      \* each unordered pair once
       /\ subject = [fam |-> "event", ver |-> v, type |-> t, f1 |-> Fault(PairA[i], c1), f2 |-> Fault(fb, c2)]

\* a room ID of the other family's shape together with a second faulty field (core classes): the checks that run
\* before / after the room ID is looked at see something unusual too
InitEvent2X ==
    \E v \in Versions, t \in TypesC :
    \E fb \in PairB(t), c1 \in CrossShapeClasses(v, t) :
    \E c2 \in PairClasses(fb.kind) :
       subject = [fam |-> "event", ver |-> v, type |-> t, f1 |-> Fault(PairA[1], c1), f2 |-> Fault(fb, c2)]

\* ---- raw family: inputs that are not events ------------------------------------------------
DocOnly == {"empty_doc", "space", "truncated", "minus", "minus_in", "lone_escape", "unicode_trunc", "unicode_trunc_in",
            "surrogate_trunc", "surrogate_pair_trunc", "surrogate_lone", "surrogate_then_char", "dupkeys", "bom",
            "trailing", "ctrl_in_string", "key_128", "wellformed",
            \* valid but unusual spellings of strings: every ASCII code point as \uXXXX (in a value / in a key),
            \* upper-case hex and two-character escapes, UTF-8 length boundaries and surrogate pairs
            "escapes_ascii", "escapes_ascii_key", "escapes_upper", "escapes_wide"}
DocClasses == (Values \ {"missing"}) \cup DocOnly
SigClasses == {"valid", "missing", "wrong_server", "wrong_key", "short", "long", "empty", "bad_b64", "sig_number",
               "server_null", "server_string", "tampered", "two_keys_good_first", "two_keys_bad_only", "two_servers", "padded", "null", "string", "array", "number", "garbage"}
KeyClasses == {"valid", "short", "len31", "len33", "len64", "empty", "bad_b64", "key_missing", "key_null", "key_number",
               "entry_null", "entry_string"}
\* the ID of the current key listed among the old keys too (once good, once bad)
DupKeyClasses == {"dup_valid", "dup_short", "dup_len33", "dup_empty", "dup_key_null"}
HeaderClasses == {"valid", "empty", "scheme_only", "scheme_space", "other_scheme", "no_eq", "empty_values", "only_quotes",
                  "commas", "dup_origin", "bad_origin", "long", "nul", "unicode", "eq_only", "short_sig", "bad_sig",
                  "unknown_key", "other_alg", "unknown_origin", "other_destination"}
\* a request carrying 0 to 3 Authorization headers: another scheme, or X-Matrix with an origin (a, the same name in
\* another letter case A, another server b), one of two key IDs, and the destination present / absent / another one
HdrItems == {"other"} \cup {"xm:" \o o \o ":" \o k \o ":" \o d : o \in {"a", "A", "b"}, k \in {"k1", "k2"}, d \in {"d", "n", "x", "s"}}
HdrSeqs == UNION {[1..n -> HdrItems] : n \in 0..3}
HdrName(s) == LET f[i \in 0..Len(s)] == IF i = 0 THEN "" ELSE IF i = 1 THEN s[1] ELSE f[i - 1] \o "|" \o s[i]
              IN IF Len(s) = 0 THEN "none" ELSE f[Len(s)]
VersionedRawOps == {"Canonicalise:Enforced", "RedactJSON"} \cup BodyOps

RawSubject(v, kind, k1, c1, c2) ==
    [fam |-> "raw", ver |-> v, type |-> kind,
     f1 |-> [path |-> "input", kind |-> k1, grp |-> "input", cls |-> c1],
     f2 |-> [path |-> IF c2 = "none" THEN "none" ELSE "input2", kind |-> "none", grp |-> "none", cls |-> c2]]

\* the raw family fixes the operation in the subject (field `op`): one pipeline of one operation per subject
InitRaw ==
    \/ \E k \in {"room", "user", "event", "server"}, c \in IdStrings \cup {"valid"}, op \in IdentOps :
          subject = RawSubject("10", "ident", k, c, "none") @@ [op |-> op]
    \/ \E c \in DocClasses, op \in JsonOps :
       \E v \in (IF op \in VersionedRawOps THEN Versions ELSE {"10"}) :
          subject = RawSubject(v, "json", "json", c, "none") @@ [op |-> op]
    \/ \E c \in SigClasses, op \in {"VerifyJSON", "SignJSON", "ListKeyIDs", "Canonicalise:CanonicalJSON"} :
          subject = RawSubject("10", "signed", "json", c, "none") @@ [op |-> op]
    \/ \E c1 \in KeyClasses, c2 \in KeyClasses \cup {"none"} \cup DupKeyClasses, op \in KeyOps \cup {Dec("ServerKeys")} :
          subject = RawSubject("10", "keys", "json", c1, c2) @@ [op |-> op]
    \* the key-ID-shape x key-length x place dimension of a key response (f1.kind carries the place)
    \/ \E c1 \in KeyIdShapes, c2 \in KeyIdLens, pl \in KeyIdPlaces, op \in KeyOps \cup {Dec("ServerKeys")} :
          subject = RawSubject("10", "keyid", pl, c1, c2) @@ [op |-> op]
    \/ \E c \in HeaderClasses, op \in HeaderOps :
          subject = RawSubject("10", "header", "json", c, "none") @@ [op |-> op]
    \/ \E hs \in HdrSeqs :
          subject = RawSubject("10", "headers", "json", HdrName(hs), "none") @@ [op |-> "VerifyHTTPRequest"]
    \/ \E c \in DocClasses, op \in {Dec(t) : t \in DecodeTargets} \cup (BodyOps \ {"Body:PerformJoin"}) :
       \E v \in (IF op \in VersionedRawOps THEN Versions ELSE {"10"}) :
          subject = RawSubject(v, "body", "json", c, "none") @@ [op |-> op]

\* event JSON (one fault) handed to the Raw operations that the handlers apply to remote events
InitRawEvent ==
    \E v \in Versions, t \in TypesC :
    \E f \in SingleFaults(v, t), op \in {"RedactJSON", "SignJSON", "Canonicalise:Enforced", Dec("ProtoEvent"),
                                        "Body:CheckStateResponse", "Body:SendJoin", "Body:Transaction", "Body:LoadAndVerify",
                                        "Body:Backfill", "Handle:InviteV3"} :
       subject = [fam |-> "raw", ver |-> v, type |-> "event", f1 |-> f,
                  f2 |-> [path |-> t, kind |-> "none", grp |-> "none", cls |-> "none"], op |-> op]

\* ---- join family: PerformJoin with a make_join and a send_join answer from the remote server ---------
MakeJoinFields ==
    {F("top/room_version", "rvj", "x"), F("top/event", "json", "x"), F("top/event/content", "json", "x"),
     F("top/event/content/membership", "membership", "x"), F("top/event/prev_events", "refs", "x"),
     F("top/event/auth_events", "refs", "x"), F("top/event/type", "str", "x"), F("top/event/sender", "user", "x"),
     F("top/event/state_key", "user", "x"), F("top/event/room_id", "room", "x"), F("top/event/depth", "int", "x"),
     F("top/event/signatures", "json", "x"), F("top/event/unsigned", "json", "x"), F("top/event/redacts", "event", "x")}
JoinClasses(kind) == IF kind = "rvj" THEN {"missing", "null", "number", "array", "empty_str"} \cup Lit({"1", "12", "bogus", "org.matrix.msc4014"})
                     ELSE IF kind = "refs" THEN RefShapes       \* the builder converts the references of the template
                     ELSE ClassesOf(kind, Depth)
SendJoinVariants ==
    {<<"none", "echo">>}
      \cup {<<"top/event", c>> : c \in {"null", "number", "string", "empty_obj", "array"}}
      \cup {<<"none", "ev:top/room_id=" \o c>> : c \in IdStringsCore \cup {"opaque43", "missing"}}
      \cup {<<"none", "ev:top/state_key=" \o c>> : c \in {"missing", "empty", "sigil_only"}}
      \cup {<<"none", "ev:content=" \o c>> : c \in {"null", "array", "missing"}}
      \cup {<<"none", "ev:content/membership=" \o c>> : c \in {"missing", "null", "v:leave"}}
      \cup {<<p, c>> : p \in {"top/state", "top/auth_chain"}, c \in {"null", "empty_arr", "arr_null", "arr_number", "arr_obj", "string", "missing"}}
      \cup {<<"top/origin", c>> : c \in {"missing", "null", "number"}}

InitJoin ==
    \E v \in Versions :
       \/ \E f \in MakeJoinFields : \E c \in JoinClasses(f.kind) :
             subject = [fam |-> "join", ver |-> v, type |-> "join", f1 |-> Fault(f, c), f2 |-> NoFault, op |-> "Body:PerformJoin"]
       \/ \E sj \in SendJoinVariants :
             subject = [fam |-> "join", ver |-> v, type |-> "join", f1 |-> NoFault,
                        f2 |-> [path |-> sj[1], kind |-> "json", grp |-> "x", cls |-> sj[2]], op |-> "Body:PerformJoin"]
       \* the room that the send_join answer describes is built around a create event whose room ID has the shape of
       \* the other family of room versions
       \/ \E c \in CrossShapeClasses(v, "create") :
             subject = [fam |-> "join", ver |-> v, type |-> "join", f1 |-> NoFault,
                        f2 |-> [path |-> "none", kind |-> "json", grp |-> "x", cls |-> "room:top/room_id=" \o c], op |-> "Body:PerformJoin"]

IsEventFam == Family \in {"event1", "event2", "event2x"}

Init ==
    /\ st = "raw" /\ hist = <<>>
    /\ CASE Family = "event1" -> InitEvent1
         [] Family = "event2" -> InitEvent2
         [] Family = "event2x" -> InitEvent2X
         [] Family = "raw" -> InitRaw
         [] Family = "rawevent" -> InitRawEvent
         [] Family = "join" -> InitJoin

\* ---- pipelines -----------------------------------------------------------------------------
Groups == {subject.f1.grp, subject.f2.grp} \ {"none"}
Relevant(a) == IF Groups = {} \/ "spelling" \in Groups THEN TRUE ELSE Reads(a) \cap Groups # {}
Applicable(a) == /\ (a = "Creators" => subject.type = "create")
                 /\ (a = "Version" => Groups = {})
LightObservers == {Acc(a) : a \in {x \in Accessors : Relevant(x) /\ Applicable(x)}}
                    \cup {Hlp(h) : h \in {x \in Helpers : Relevant(x) /\ Applicable(x)}}
AfterMutator == LightObservers \cup {Acc("EventID"), Acc("RoomID"), Acc("JSON"), Acc("Content")} \cup HeavyAfter

Verdict == ParseVerdict(subject.ver, subject.f1, subject.f2)

\* The sibling constructors (trusted, headered) are given bytes the untrusted parser accepted; their pipelines are
\* the light observers, the heavy observers under normal callbacks and the mutators, two operations deep.
NextEvent ==
    \/ /\ Len(hist) = 0
       /\ \E entry \in Entries :
            \/ Verdict # "mustnot" /\ Parse(entry, "ok")
            \/ Verdict # "must" /\ Parse(entry, "error")
    \/ /\ Len(hist) = 1 /\ MaxOps >= 2
       /\ \E op \in LightObservers \cup (IF hist[1].op = "Parse:untrusted" THEN Heavy ELSE Heavy \ EnvOps) \cup Muts : ParsedCall(op)
    \/ /\ Len(hist) = 2 /\ MaxOps >= 3 /\ hist[2].op \in Mutators /\ hist[1].op = "Parse:untrusted"
       /\ \E op \in AfterMutator \cup (Muts \ {hist[2].op}) : ParsedCall(op)

NextRaw == Len(hist) = 0 /\ RawCall(subject.op)

Next == IF IsEventFam THEN NextEvent ELSE NextRaw
Spec == Init /\ [][Next]_vars

\* ---- sanity of the cross-shape dimension ------------------------------------------------------
\* The faulty room ID never has the shape of the subject's own family - except on the create event of a family
\* whose create events carry no room ID at all - and it sits where a room ID is written.
SubjType == IF subject.fam = "raw" THEN subject.f2.path ELSE subject.type
ShapeIsForeign ==
    (Depth = "xshape" \/ Family = "event2x") =>
        /\ subject.f1.grp = "room_id"
        /\ \/ subject.f1.cls \in ShapeClasses(OtherShape(RoomIDShape(subject.ver)))
           \/ DomainlessRoomIDs(subject.ver) /\ SubjType = "create"
        /\ subject.f1.cls \in ShapeStrings
\* every version belongs to exactly one family and is offered at least one member of the other family's shape
ASSUME \A v \in AllVersions : \A t \in Types :
          /\ CrossShapeClasses(v, t) # {}
          /\ (t # "create" => CrossShapeClasses(v, t) \cap ShapeClasses(RoomIDShape(v)) = {})

\* ---- emission ------------------------------------------------------------------------------
\* A pipeline is emitted once: in the state where its last operation has just run.  The two branches of a parse
\* that the design leaves open are one pipeline (the library decides), so only one of them prints it.
Emit ==
    (/\ Len(hist) >= 1
     /\ (st = "error" => Verdict = "mustnot")) =>
        PrintT(ToJson([fam |-> subject.fam, ver |-> subject.ver, type |-> subject.type,
                       p1 |-> subject.f1.path, k1 |-> subject.f1.kind, c1 |-> subject.f1.cls,
                       p2 |-> subject.f2.path, k2 |-> subject.f2.kind, c2 |-> subject.f2.cls,
                       ops |-> OpsOf(hist), pv |-> IF IsEventFam THEN Verdict ELSE "may"]))
=============================================================================
