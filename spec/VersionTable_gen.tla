-------------------------- MODULE VersionTable_gen --------------------------
(* Generation wrapper for VersionTable.tla: one record per (version, probe) with the outcome the matrix *)
(* assigns, and one "getters" record per version with the whole row.                                    *)
EXTENDS VersionTable, Json

VersionsAll == AllVersions

Emit == phase = "done" =>
          PrintT(ToJson([ver |-> ver, probe |-> probe,
                         trait |-> IF probe = "getters" THEN "row" ELSE ProbeTrait[probe],
                         want |-> want,
                         row |-> [Matrix[ver] EXCEPT !.stateres = @],
                         stable |-> Aux[ver].stable,
                         registered |-> AllVersions, stableset |-> StableVersions]))
=============================================================================
