SPECIFICATION Spec
CONSTANTS
  Entities <- GenEntities
  KeyIDs <- GenKeyIDs
  Keys <- GenKeys
  PlainMembers <- GenPlain
  NestedMembers <- GenNested
  Vals <- GenVals
  NVals <- GenNVals
  UVals <- GenUVals
  Presentations <- GenPres
  ForeignForms <- BaseForms
  EntityForms <- BaseEntForms
  Starts <- StartsBase
  MaxLen = 3
  MaxSigns = 3
INVARIANTS TypeOK Complete CompleteNet Sound SoundTamper OneKey SignPreserves UncoveredFree EditsKeepSignatures ForeignEntryLocal ForeignEntityLocal FormsIrrelevant
CHECK_DEADLOCK FALSE
