SPECIFICATION Spec
CONSTANTS
  Entities <- GenEntities
  KeyIDs <- GenKeyIDs
  Keys <- GenKeys
  PlainMembers <- GenPlain
  NestedMembers <- GenNested
  Vals <- GenVals
  NVals <- GenNVals
  UVals <- GenUVals
  Presentations <- GenPres
  Starts <- StartsBase
  MaxLen = 3
  MaxSigns = 3
INVARIANTS TypeOK Complete CompleteNet Sound SoundTamper OneKey SignPreserves UncoveredFree EditsKeepSignatures 
CHECK_DEADLOCK FALSE
