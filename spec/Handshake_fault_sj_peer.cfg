\* C15 planted design fault: the handlers put their questions to R's tables under another identity than the member's
\* sender ID (Handshake!AskKey).  TLC must refute OtherIdentitiesIrrelevant (checks/c15.py FAULTS).
SPECIFICATION GSpec
CONSTANTS
  Family = "sjv"
  Width = "quick"
  MaxForge = 0
  ScenarioSet = "none"
  AskKey <- AskPeer
INVARIANTS OtherIdentitiesIrrelevant
CHECK_DEADLOCK FALSE
