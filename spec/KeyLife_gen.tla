---------------------------- MODULE KeyLife_gen ----------------------------
(***************************************************************************)
(* Behaviour generator for KeyLife.tla.                                    *)
(*                                                                         *)
(* Mode "cover": the history is hidden from the fingerprint (VIEW), the    *)
(*   last step (with the database before it) is not.  TLC then visits      *)
(*   every reachable TRANSITION (state x Verify request) within the bounds *)
(*   once, and each is emitted together with one complete behaviour that   *)
(*   leads from the initial state (empty database) to it.  The real key    *)
(*   ring keeps no state but its database, which the replay compares after *)
(*   every step, so agreement on every transition carries over to every    *)
(*   behaviour by induction.                                               *)
(* Mode "paths": no VIEW - every behaviour within (tighter) bounds is a    *)
(*   state of its own and is emitted when it is complete (MaxReq calls).   *)
(*   Interleavings of events that commute are generated in one order only: *)
(*   outages / recoveries directly before the call they affect (direct     *)
(*   fetcher first, each at most once), a notary Sync never directly       *)
(*   after a Tick (Sync; Tick is the same as Tick; Sync).                  *)
(***************************************************************************)
EXTENDS KeyLife, Json, TLC

CONSTANTS Mode

VARIABLE ph    \* "paths" only: 0 free, 3 just ticked, 1 / 2 the direct / notary fetcher was just toggled

gvars == <<vars, ph>>

BothOrders == {<<"d", "n">>, <<"n", "d">>}
DirectFirst == {<<"d", "n">>}
NotaryFirst == {<<"n", "d">>}
NAny == {"any"}
NBoth == {"any", "match"}
SGood == {"good"}
SBoth == {"good", "bad"}
TS03 == 0..3
TS04 == 0..4
TS02 == 0..2

Free == Mode = "cover"

GInit == Init /\ ph = 0

GNext ==
  \/ /\ nreq < MaxReq
     /\ \/ (Free \/ ph \in {0, 3}) /\ Tick /\ ph' = (IF Free THEN 0 ELSE 3)
        \/ (Free \/ ph \in {0, 3}) /\ (Rotate \/ Renew) /\ ph' = 0
        \/ (Free \/ ph = 0) /\ Sync /\ ph' = 0
        \/ (Free \/ ph \in {0, 3}) /\ (Outage("d") \/ Recover("d")) /\ ph' = (IF Free THEN 0 ELSE 1)
        \/ (Free \/ ph \in {0, 3, 1}) /\ (Outage("n") \/ Recover("n")) /\ ph' = (IF Free THEN 0 ELSE 2)
  \/ (\E rq \in Requests : Verify(rq)) /\ ph' = 0

GSpec == GInit /\ [][GNext]_gvars

NoStep == EnvStep("-", "-")
LastIsVerify == hist # <<>> /\ hist[Len(hist)].a = "verify"
LastStep == hist[Len(hist)]

\* "cover": everything but the history, plus the last step
View == <<now, cur, ovu, oexp, snap, dirUp, notUp, order, nmode, db, nreq, ph,
          IF LastIsVerify THEN LastStep ELSE NoStep>>

\* ----------------------------------------------------------------- emission
Tab(t) == IF t = <<>> THEN <<>> ELSE [k \in DOMAIN t |-> <<t[k].vu, t[k].exp>>]
StepOut(s) ==
    IF s.a = "verify"
    THEN [a |-> s.a, f |-> s.f, kid |-> s.rq.kid, ts |-> s.rq.ts, strict |-> s.rq.strict, sig |-> s.rq.sig,
          res |-> s.res, con |-> s.con, t |-> s.t, du |-> s.du, nu |-> s.nu,
          tr |-> Tab(s.tr), sn |-> Tab(s.sn), dbb |-> Tab(s.dbb), dba |-> Tab(s.dba)]
    ELSE [a |-> s.a, f |-> s.f, kid |-> 0, ts |-> NoTS, strict |-> FALSE, sig |-> "-",
          res |-> "-", con |-> <<>>, t |-> s.t, du |-> s.du, nu |-> s.nu,
          tr |-> <<>>, sn |-> <<>>, dbb |-> <<>>, dba |-> <<>>]

Emit == (LastIsVerify /\ (Free \/ nreq = MaxReq)) =>
    PrintT(ToJson([nk |-> NK, v |-> V, order |-> order, nmode |-> nmode,
                   steps |-> [i \in DOMAIN hist |-> StepOut(hist[i])]]))
=============================================================================
