---------------------------- MODULE KeyLife_gen ----------------------------
(***************************************************************************)
(* Behaviour generator for KeyLife.tla.                                    *)
(*                                                                         *)
(* Mode "cover": the history is hidden from the fingerprint (VIEW) and the *)
(*   number of calls is not bounded (the state space is finite without     *)
(*   it).  TLC then visits every reachable state within the bounds and     *)
(*   takes every TRANSITION (state x Verify request) exactly once; the     *)
(*   Verify action itself prints, for each, one complete behaviour that    *)
(*   leads from the initial state (empty database) to the state and ends   *)
(*   with that call.  The per-call clauses are checked on every transition *)
(*   (action property EveryCallOK), the state clauses on every state.      *)
(*   The real key ring keeps no state but its database, which the replay   *)
(*   compares after every step, so agreement on every transition carries   *)
(*   over to every behaviour by induction.                                 *)
(* Mode "paths": no VIEW - every behaviour within (tighter) bounds is a    *)
(*   state of its own and is emitted when it is complete (MaxReq calls).   *)
(*   Interleavings of events that commute are generated in one order only: *)
(*   outages / recoveries directly before the call they affect (direct     *)
(*   fetcher first, each at most once), a notary Sync never directly       *)
(*   after a Tick (Sync; Tick is the same as Tick; Sync).                  *)
(***************************************************************************)
EXTENDS KeyLife, Json, TLC

CONSTANTS Mode

VARIABLE ph    \* "paths" only: 0 free, 3 just ticked, 1 / 2 the direct / notary fetcher was just toggled

gvars == <<vars, ph>>

\* values for the cfg files
BothOrders == {<<"d", "n">>, <<"n", "d">>}
DirectFirst == {<<"d", "n">>}
NotaryFirst == {<<"n", "d">>}
NAny == {"any"}
NBoth == {"any", "match"}
SGood == {"good"}
SBoth == {"good", "bad"}
RBoth == BOOLEAN
RStrict == {TRUE}
TS01 == 0..1
TS02 == 0..2
TS03 == 0..3
TS04 == 0..4

Free == Mode = "cover"

\* ----------------------------------------------------------------- emission
\* compact: a table is a sequence (by key ID) of <<vu, exp>>; an environment step is <<name>> or
\* <<name, fetcher>>; a call is <<"verify", kid, ts, strict, sig, res, con, t, du, nu, tr, sn, dbb, dba>>
Tab(t) == [k \in DOMAIN t |-> <<t[k].vu, t[k].exp>>]
StepOut(s) ==
    IF s.a = "verify"
    THEN <<s.a, s.rq.kid, s.rq.ts, s.rq.strict, s.rq.sig, s.res, s.con, s.t, s.du, s.nu,
           Tab(s.tr), Tab(s.sn), Tab(s.dbb), Tab(s.dba)>>
    ELSE IF s.f = "-" THEN <<s.a>> ELSE <<s.a, s.f>>

EmitHist(h) == PrintT(ToJson([nk |-> NK, v |-> V, order |-> order, nmode |-> nmode,
                              steps |-> [i \in DOMAIN h |-> StepOut(h[i])]]))

LastIsVerify == hist # <<>> /\ hist[Len(hist)].a = "verify"
\* "paths": one record per complete behaviour
Emit == (~Free /\ LastIsVerify /\ nreq = MaxReq) => EmitHist(hist)

\* --------------------------------------------------------------- behaviours
GInit == Init /\ ph = 0

GVerify(rq) == IF Free THEN Call(rq) ELSE Verify(rq)

GNext ==
  \/ /\ (Free \/ nreq < MaxReq)
     /\ \/ (Free \/ ph \in {0, 3}) /\ Tick /\ ph' = (IF Free THEN 0 ELSE 3)
        \/ (Free \/ ph \in {0, 3}) /\ (Rotate \/ Renew) /\ ph' = 0
        \/ (Free \/ ph = 0) /\ Sync /\ ph' = 0
        \/ (Free \/ ph \in {0, 3}) /\ (Outage("d") \/ Recover("d")) /\ ph' = (IF Free THEN 0 ELSE 1)
        \/ (Free \/ ph \in {0, 3, 1}) /\ (Outage("n") \/ Recover("n")) /\ ph' = (IF Free THEN 0 ELSE 2)
  \/ (\E rq \in Requests : GVerify(rq) /\ (Free => EmitHist(hist'))) /\ ph' = 0

GSpec == GInit /\ [][GNext]_gvars

\* "cover": everything but the history
View == <<now, cur, ovu, oexp, snap, dirUp, notUp, order, nmode, db, known>>
=============================================================================
