\* all exhaustive families in one run (quick tier: one TLC start instead of five)
SPECIFICATION Spec
CONSTANTS
  Families = {"single", "twin", "versions", "pair", "dberr"}
  Tier = "quick"
VIEW View
INVARIANTS OneResultEach Sound Complete SoundOnScenario OnlyNeeded InOrder NothingWithoutKeys StoredFetched NothingInvented TopErrOnlyDB ClassSane Emit
CHECK_DEADLOCK FALSE
