------------------------------ MODULE JSONSign ------------------------------
(***************************************************************************)
(* C02 - JSON signatures (signing.go: SignJSON, VerifyJSON, ListKeyIDs).   *)
(*                                                                         *)
(* Written from the Matrix specification ("Signing JSON", appendices):     *)
(* the signature of an entity covers the canonical encoding of the object  *)
(* without its `signatures` and `unsigned` members and is stored under     *)
(* signatures[entity][key ID].                                             *)
(*                                                                         *)
(* The object is abstract: a function member -> value token.  Members are  *)
(* plain (a, b), nested (c, whose token says what c.d is) and `unsigned`.  *)
(* The `signatures` member is the variable `sigs`.  How the object is      *)
(* written down (whitespace, key order, escape spelling) is the variable   *)
(* `pres`: a tag the harness realises; nothing below reads it, which is    *)
(* exactly the claim "verification does not depend on the presentation".   *)
(*                                                                         *)
(* Crypto is symbolic: a signature is the record [key, payload] of what it *)
(* binds; it verifies iff the verifier's key is that key and the payload   *)
(* is the current projection of the object.                                *)
(***************************************************************************)
EXTENDS Integers, Sequences, FiniteSets, TLC

CONSTANTS Entities,        \* signing names
          KeyIDs,          \* key identifiers
          Keys,            \* ed25519 key pairs (a public key is named like its private key)
          PlainMembers,    \* top-level members with opaque values
          NestedMembers,   \* top-level members whose value is an object (token = state of its inner member)
          Vals,            \* value tokens of plain members
          NVals,           \* value tokens of nested members
          UVals,           \* value tokens of `unsigned`
          Presentations,   \* presentation tags
          Starts,          \* initial documents: [obj, pres, sigs (how the empty signature map is written),
                           \*   depth, signs (budgets of this start: actions / signing actions)]
          ForeignForms,    \* forms, other than a string of unpadded base64, in which the value of an entry
                           \*   signatures[entity][key ID] may have been left by somebody else (see below)
          EntityForms,     \* forms, other than an object, in which signatures[entity] as a whole may have been left
          MaxLen,          \* bound on the number of actions of a behaviour
          MaxSigns         \* bound on the number of signing actions of a behaviour

Absent   == "absent"
Unsigned == "unsigned"
\* the key of an entry that is not a signature by any key a verifier holds: well-formed base64 that is not an
\* ed25519 signature of anything, or of the wrong length (written by ForeignSign with this pseudo key)
Junk     == "junk"

(***************************************************************************)
(* The FORM of an entry.  A signature is written as a JSON string of       *)
(* unpadded base64 (form B64): that is what the Matrix specification       *)
(* prescribes and the only thing SignJSON emits.  Entities that do not run *)
(* this library, and whoever else may edit the `signatures` member, leave  *)
(* other things in the place of a signature - under their own name, or     *)
(* under the name of a signer with another key ID (a key ID of another     *)
(* algorithm, a retired key):                                              *)
(*   "padded"  base64 WITH '=' padding,                                    *)
(*   "text"    a string that is not base64 at all (armoured signature of   *)
(*             another algorithm, "(revoked)", line-wrapped base64),       *)
(*   "scalar"  a number or a boolean,                                      *)
(*   "object"  a structured signature value,                               *)
(*   "list"    an array,                                                   *)
(*   "blank"   a blanked entry: null or the empty string.                  *)
(* Such an entry is not a signature under any key (its key is Junk).  What *)
(* the property says about it is that it does not matter to anybody else:  *)
(* Verifies reads the one entry it is asked about and nothing else.        *)
(*                                                                         *)
(* One level up the same holds for signatures[entity] as a whole: instead  *)
(* of an object of key ID -> signature somebody may have left a string, a  *)
(* number, an array or null there.  That is the entry <<entity, Whole>>:   *)
(* while it is there the entity has no key IDs and no signatures.          *)
(***************************************************************************)
B64       == "b64"
Whole     == "*"
Forms     == {B64} \cup ForeignForms \cup EntityForms
\* forms a signer can carry over when it rewrites the signatures member: base64 strings (a blank entry is the
\* empty byte string)
Carriable == {B64, "blank"}

SignOps   == {"Sign", "ForeignSign", "ForeignEntry", "ForeignEntity"}
\* the ones that leave something that is no signature: <<op, entity, key ID or Whole, form>>
JunkOps   == {"ForeignEntry", "ForeignEntity"}
TamperOps == {"Mutate", "Insert", "Delete", "NestedEdit"}

(***************************************************************************)
(* Pure part (shared with JSONSign_trace).  An action is a 4-tuple of      *)
(* strings <<op, x, y, z>>.                                                *)
(***************************************************************************)
\* what a signature covers: the object minus `signatures` (kept apart in sigs) and `unsigned`
Proj(o) == [m \in (DOMAIN o) \ {Unsigned} |-> o[m]]

NoSigs == [x \in {} |-> TRUE]

SigEntry(k, o, f) == [key |-> k, payload |-> Proj(o), form |-> f]

\* the key and the form of the entry a signing action <<op, entity, key ID, z>> writes: ForeignEntry's fourth
\* component is the form (its key is Junk), the others' is the key (their form is B64)
KeyOf(a)  == IF a[1] \in JunkOps THEN Junk ELSE a[4]
FormOf(a) == IF a[1] \in JunkOps THEN a[4] ELSE B64

\* what writing signatures[e][kid] (or, with kid = Whole, signatures[e]) displaces besides what was in that very
\* place: a non-object signatures[e] becomes an object / every entry of e goes
Displaced(s, e, kid) ==
    IF kid = Whole THEN {x \in DOMAIN s : x[1] = e} ELSE {<<e, Whole>>} \cap DOMAIN s

PutSig(s, e, kid, ent) ==
    [x \in ((DOMAIN s) \ Displaced(s, e, kid)) \cup {<<e, kid>>} |-> IF x = <<e, kid>> THEN ent ELSE s[x]]

\* VerifyJSON(e, kid, public key k, document)
Verifies(o, s, e, kid, k) ==
    /\ <<e, kid>> \in DOMAIN s
    /\ s[<<e, kid>>].form = B64
    /\ s[<<e, kid>>].key = k
    /\ s[<<e, kid>>].payload = Proj(o)

\* some entry is in a form a signer cannot carry over
Unreadable(s) == \E x \in DOMAIN s : s[x].form \notin Carriable

\* ListKeyIDs(e, document)
KeyIDsOf(s, e) == {x[2] : x \in {y \in DOMAIN s : y[1] = e /\ y[2] # Whole}}

Matrix(o, s, E, K, P) == {t \in E \X K \X P : Verifies(o, s, t[1], t[2], t[3])}

\* state-dependent legality of an action (parameter ranges are the business of Next)
Legal(o, s, a) ==
    CASE a[1] \in SignOps        -> TRUE
      [] a[1] = "SignRefused"    -> Unreadable(s)
      [] a[1] = "Mutate"         -> a[2] # Unsigned /\ o[a[2]] # Absent /\ a[3] # Absent /\ a[3] # o[a[2]]
      [] a[1] = "NestedEdit"     -> a[2] # Unsigned /\ o[a[2]] # Absent /\ a[3] # Absent /\ a[3] # o[a[2]]
      [] a[1] = "Insert"         -> a[2] # Unsigned /\ o[a[2]] = Absent /\ a[3] # Absent
      [] a[1] = "Delete"         -> a[2] # Unsigned /\ o[a[2]] # Absent
      [] a[1] = "EditUnsigned"   -> a[2] # o[Unsigned]
      [] a[1] = "Reserialise"    -> TRUE
      [] OTHER                   -> FALSE

ObjAfter(o, a) ==
    CASE a[1] \in {"Mutate", "NestedEdit", "Insert"} -> [o EXCEPT ![a[2]] = a[3]]
      [] a[1] = "Delete"                             -> [o EXCEPT ![a[2]] = Absent]
      [] a[1] = "EditUnsigned"                       -> [o EXCEPT ![Unsigned] = a[2]]
      [] OTHER                                       -> o

SigsAfter(o, s, a) ==
    IF a[1] \in SignOps THEN PutSig(s, a[2], a[3], SigEntry(KeyOf(a), o, FormOf(a))) ELSE s

\* SignJSON returns the canonical encoding; an external signer and an editor keep the presentation they were
\* given; Reserialise picks another one.
PresAfter(p, a) ==
    CASE a[1] = "Sign"        -> "canon"
      [] a[1] = "Reserialise" -> a[2]
      [] OTHER                -> p

(***************************************************************************)
(* State.                                                                  *)
(***************************************************************************)
VARIABLES obj,      \* member -> value token (Absent = no such member); includes `unsigned`
          sigs,     \* <<entity, key ID>> -> [key, payload]   (partial: DOMAIN = entries present)
          pres,     \* presentation tag of the document in flight
          start,    \* history: the element of Starts this behaviour began with
          hist,     \* history: sequence of actions taken
          slog,     \* history: signing events [e, kid, key, snap (projection signed), at (index in hist), how]
          prev      \* history: [obj, sigs, ver] just before the last action

vars == <<obj, sigs, pres, start, hist, slog, prev>>

Universe == Entities \X KeyIDs \X Keys
Ver      == Matrix(obj, sigs, Entities, KeyIDs, Keys)
NSigns   == Len(slog)
Last     == hist[Len(hist)]

Do(a) ==
    /\ Len(hist) < MaxLen
    /\ Len(hist) < start.depth
    /\ Legal(obj, sigs, a)
    /\ obj'  = ObjAfter(obj, a)
    /\ sigs' = SigsAfter(obj, sigs, a)
    /\ pres' = PresAfter(pres, a)
    /\ hist' = Append(hist, a)
    /\ slog' = IF a[1] \in SignOps
               THEN Append(slog, [e |-> a[2], kid |-> a[3], key |-> KeyOf(a), snap |-> Proj(obj),
                                  at |-> Len(hist) + 1, how |-> a[1]])
               ELSE slog
    /\ prev' = [obj |-> obj, sigs |-> sigs, ver |-> Ver]
    /\ UNCHANGED start

\* --- SignJSON(entity, key ID, private key, document) ---------------------
CanSign == NSigns < MaxSigns /\ NSigns < start.signs

Sign(e, kid, k) == CanSign /\ Do(<<"Sign", e, kid, k>>)

\* --- another entity (another implementation) adds its signature by editing the signatures member;
\*     with k = Junk what it adds is not a signature under any key of the universe ---
ForeignSign(e, kid, k) == CanSign /\ Do(<<"ForeignSign", e, kid, k>>)

\* --- somebody leaves, in the place of a signature of entity e with key ID kid, a value of form f that is no
\*     signature (an entity that writes its signatures differently, a signature of another algorithm, a
\*     blanked or retired entry).  It replaces whatever was in that place and touches nothing else. ---
ForeignEntry(e, kid, f) == CanSign /\ Do(<<"ForeignEntry", e, kid, f>>)

\* --- the same one level up: signatures[e] as a whole becomes a value of form f that is no object; whatever e
\*     had there is gone, nobody else is concerned ---
ForeignEntity(e, f) == CanSign /\ Do(<<"ForeignEntity", e, Whole, f>>)

\* --- SignJSON declines (returns an error, no document).  It rewrites the whole `signatures` member, so it
\*     may decline when an entry is there that it cannot carry over; if it signs nevertheless that is the
\*     action Sign and everything is kept (SignPreserves).  What it may never do is drop or rewrite. ---
SignRefused(e, kid, k) == Do(<<"SignRefused", e, kid, k>>)

\* --- tampering: single-member changes -------------------------------------
Mutate(m, v)     == Do(<<"Mutate", m, v, "">>)
Insert(m, v)     == Do(<<"Insert", m, v, "">>)
Delete(m)        == Do(<<"Delete", m, "", "">>)
NestedEdit(m, v) == Do(<<"NestedEdit", m, v, "">>)

\* --- changes the signatures do not cover ------------------------------------
EditUnsigned(u)  == Do(<<"EditUnsigned", u, "", "">>)
Reserialise(p)   == p # pres /\ Do(<<"Reserialise", p, "", "">>)

Init ==
    /\ start \in Starts
    /\ obj = start.obj
    /\ pres = start.pres
    /\ sigs = NoSigs
    /\ hist = <<>>
    /\ slog = <<>>
    /\ prev = [obj |-> start.obj, sigs |-> NoSigs, ver |-> {}]

Next ==
    \/ \E e \in Entities, kid \in KeyIDs, k \in Keys : Sign(e, kid, k) \/ ForeignSign(e, kid, k)
    \/ \E e \in Entities, kid \in KeyIDs : ForeignSign(e, kid, Junk)
    \/ \E e \in Entities, kid \in KeyIDs, f \in ForeignForms : ForeignEntry(e, kid, f)
    \/ \E e \in Entities, f \in EntityForms : ForeignEntity(e, f)
    \/ \E e \in Entities, kid \in KeyIDs, k \in Keys : SignRefused(e, kid, k)
    \/ \E m \in PlainMembers, v \in Vals : Mutate(m, v) \/ Insert(m, v)
    \/ \E m \in NestedMembers, v \in NVals : NestedEdit(m, v) \/ Insert(m, v)
    \/ \E m \in PlainMembers \cup NestedMembers : Delete(m)
    \/ \E u \in UVals \cup {Absent} : EditUnsigned(u)
    \/ \E p \in Presentations : Reserialise(p)

Spec == Init /\ [][Next]_vars

(***************************************************************************)
(* The property, over the history variables (hist, slog, prev) only:       *)
(* none of these formulas mentions payloads.                               *)
(***************************************************************************)
\* index in slog of the most recent writing of the place <<e, kid>> (that place itself, or signatures[e] as a
\* whole), 0 if none
LastSignIdx(e, kid) ==
    LET S == {i \in 1..Len(slog) : slog[i].e = e /\ slog[i].kid \in {kid, Whole}}
    IN IF S = {} THEN 0 ELSE CHOOSE i \in S : \A j \in S : j <= i

TamperedAfter(n) == \E j \in (n + 1)..Len(hist) : hist[j][1] \in TamperOps

\* Completeness: a signature that has not been replaced verifies under the signer's name, key ID and key as long
\* as only re-serialisations, further signatures, entries of whatever form in OTHER places of the signatures
\* member and changes of `unsigned` happened since.  (An entry that is no signature, how \in JunkOps, is not
\* spoken about.)
Complete ==
    \A i \in 1..Len(slog) :
        LET g == slog[i] IN
        (g.how \notin JunkOps /\ LastSignIdx(g.e, g.kid) = i /\ ~TamperedAfter(g.at))
            => Verifies(obj, sigs, g.e, g.kid, g.key)

\* ... and, more generally, whenever the signed members are (again) what was signed
CompleteNet ==
    \A i \in 1..Len(slog) :
        LET g == slog[i] IN
        (g.how \notin JunkOps /\ LastSignIdx(g.e, g.kid) = i /\ g.snap = Proj(obj))
            => Verifies(obj, sigs, g.e, g.kid, g.key)

\* Soundness: whatever verifies was signed under exactly that name and key ID with exactly that key, and the
\* signed members are what they were then.
Sound ==
    \A t \in Universe :
        Verifies(obj, sigs, t[1], t[2], t[3]) =>
            LET i == LastSignIdx(t[1], t[2]) IN
            /\ i > 0
            /\ slog[i].key = t[3]
            /\ slog[i].snap = Proj(obj)

\* a single-member change invalidates every signature that verified before it
SoundTamper == (hist # <<>> /\ Last[1] \in TamperOps) => (Ver \cap prev.ver = {})

\* at most one public key verifies per name and key ID
OneKey == \A t, u \in Ver : (t[1] = u[1] /\ t[2] = u[2]) => t[3] = u[3]

\* signing keeps the object (in particular `unsigned`) and every other signature entry intact
SignPreserves ==
    (hist # <<>> /\ Last[1] \in SignOps) =>
        /\ obj = prev.obj
        /\ DOMAIN sigs = ((DOMAIN prev.sigs) \ Displaced(prev.sigs, Last[2], Last[3])) \cup {<<Last[2], Last[3]>>}
        /\ \A x \in (DOMAIN sigs) \ {<<Last[2], Last[3]>>} : sigs[x] = prev.sigs[x]
        /\ IF Last[1] \in JunkOps
           THEN sigs[<<Last[2], Last[3]>>].form = Last[4] /\ sigs[<<Last[2], Last[3]>>].key = Junk
           ELSE Verifies(obj, sigs, Last[2], Last[3], Last[4])

\* changes outside the signed projection, and a signing that was declined, leave every verification result alone
UncoveredFree ==
    (hist # <<>> /\ Last[1] \in {"EditUnsigned", "Reserialise", "SignRefused"}) => (Ver = prev.ver /\ sigs = prev.sigs)

\* what somebody leaves in one place of the signatures member, in whatever form, matters to that place only:
\* every other <<name, key ID, key>> verifies exactly as before, nothing verifies in that place any more, and the
\* key-ID lists are the old ones plus that key ID under that name
ForeignEntryLocal ==
    (hist # <<>> /\ Last[1] = "ForeignEntry") =>
        /\ Ver = {t \in prev.ver : <<t[1], t[2]>> # <<Last[2], Last[3]>>}
        /\ \A e \in Entities :
              KeyIDsOf(sigs, e) = KeyIDsOf(prev.sigs, e) \cup (IF e = Last[2] THEN {Last[3]} ELSE {})
        /\ obj = prev.obj

ForeignEntityLocal ==
    (hist # <<>> /\ Last[1] = "ForeignEntity") =>
        /\ Ver = {t \in prev.ver : t[1] # Last[2]}
        /\ \A e \in Entities : KeyIDsOf(sigs, e) = (IF e = Last[2] THEN {} ELSE KeyIDsOf(prev.sigs, e))
        /\ obj = prev.obj

\* a genuine signer is still listed and still verifies whatever the forms of the other entries are
FormsIrrelevant ==
    \A t \in Ver : \A x \in (DOMAIN sigs) \ {<<t[1], t[2]>>}, f \in Forms :
        Verifies(obj, [sigs EXCEPT ![x].form = f], t[1], t[2], t[3]) /\ t[2] \in KeyIDsOf([sigs EXCEPT ![x].form = f], t[1])

\* oracle sanity
EditsKeepSignatures == (hist # <<>> /\ Last[1] \notin SignOps) => sigs = prev.sigs

TypeOK ==
    /\ Len(hist) <= MaxLen
    /\ NSigns <= MaxSigns
    /\ pres \in Presentations
    /\ DOMAIN sigs \subseteq Entities \X (KeyIDs \cup {Whole})
    /\ \A x \in DOMAIN sigs : sigs[x].key \in Keys \cup {Junk} /\ sigs[x].form \in Forms
    /\ \A x \in DOMAIN sigs : IF x[2] = Whole THEN sigs[x].form \in EntityForms /\ \A y \in DOMAIN sigs : y[1] = x[1] => y = x
                                ELSE sigs[x].form \in {B64} \cup ForeignForms
    /\ \A x \in DOMAIN sigs : sigs[x].form # B64 => sigs[x].key = Junk
    /\ DOMAIN obj = PlainMembers \cup NestedMembers \cup {Unsigned}
    /\ \A m \in PlainMembers : obj[m] \in Vals \cup {Absent}
    /\ \A m \in NestedMembers : obj[m] \in NVals \cup {Absent}
    /\ obj[Unsigned] \in UVals \cup {Absent}
=============================================================================
