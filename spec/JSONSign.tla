------------------------------ MODULE JSONSign ------------------------------
(***************************************************************************)
(* C02 - JSON signatures (signing.go: SignJSON, VerifyJSON, ListKeyIDs).   *)
(*                                                                         *)
(* Written from the Matrix specification ("Signing JSON", appendices):     *)
(* the signature of an entity covers the canonical encoding of the object  *)
(* without its `signatures` and `unsigned` members and is stored under     *)
(* signatures[entity][key ID].                                             *)
(*                                                                         *)
(* The object is abstract: a function member -> value token.  Members are  *)
(* plain (a, b), nested (c, whose token says what c.d is) and `unsigned`.  *)
(* The `signatures` member is the variable `sigs`.  How the object is      *)
(* written down (whitespace, key order, escape spelling) is the variable   *)
(* `pres`: a tag the harness realises; nothing below reads it, which is    *)
(* exactly the claim "verification does not depend on the presentation".   *)
(*                                                                         *)
(* Crypto is symbolic: a signature is the record [key, payload] of what it *)
(* binds; it verifies iff the verifier's key is that key and the payload   *)
(* is the current projection of the object.                                *)
(***************************************************************************)
EXTENDS Integers, Sequences, FiniteSets, TLC

CONSTANTS Entities,        \* signing names
          KeyIDs,          \* key identifiers
          Keys,            \* ed25519 key pairs (a public key is named like its private key)
          PlainMembers,    \* top-level members with opaque values
          NestedMembers,   \* top-level members whose value is an object (token = state of its inner member)
          Vals,            \* value tokens of plain members
          NVals,           \* value tokens of nested members
          UVals,           \* value tokens of `unsigned`
          Presentations,   \* presentation tags
          Starts,          \* initial documents: [obj, pres, sigs (how the empty signature map is written),
                           \*   depth, signs (budgets of this start: actions / signing actions)]
          MaxLen,          \* bound on the number of actions of a behaviour
          MaxSigns         \* bound on the number of signing actions of a behaviour

Absent   == "absent"
Unsigned == "unsigned"
\* the key of an entry that is not a signature by any key a verifier holds: well-formed base64 that is not an
\* ed25519 signature of anything, or of the wrong length (written by ForeignSign with this pseudo key)
Junk     == "junk"

SignOps   == {"Sign", "ForeignSign"}
TamperOps == {"Mutate", "Insert", "Delete", "NestedEdit"}

(***************************************************************************)
(* Pure part (shared with JSONSign_trace).  An action is a 4-tuple of      *)
(* strings <<op, x, y, z>>.                                                *)
(***************************************************************************)
\* what a signature covers: the object minus `signatures` (kept apart in sigs) and `unsigned`
Proj(o) == [m \in (DOMAIN o) \ {Unsigned} |-> o[m]]

NoSigs == [x \in {} |-> TRUE]

SigEntry(k, o) == [key |-> k, payload |-> Proj(o)]

PutSig(s, e, kid, ent) ==
    [x \in (DOMAIN s) \cup {<<e, kid>>} |-> IF x = <<e, kid>> THEN ent ELSE s[x]]

\* VerifyJSON(e, kid, public key k, document)
Verifies(o, s, e, kid, k) ==
    /\ <<e, kid>> \in DOMAIN s
    /\ s[<<e, kid>>].key = k
    /\ s[<<e, kid>>].payload = Proj(o)

\* ListKeyIDs(e, document)
KeyIDsOf(s, e) == {x[2] : x \in {y \in DOMAIN s : y[1] = e}}

Matrix(o, s, E, K, P) == {t \in E \X K \X P : Verifies(o, s, t[1], t[2], t[3])}

\* state-dependent legality of an action (parameter ranges are the business of Next)
Legal(o, a) ==
    CASE a[1] \in SignOps        -> TRUE
      [] a[1] = "Mutate"         -> a[2] # Unsigned /\ o[a[2]] # Absent /\ a[3] # Absent /\ a[3] # o[a[2]]
      [] a[1] = "NestedEdit"     -> a[2] # Unsigned /\ o[a[2]] # Absent /\ a[3] # Absent /\ a[3] # o[a[2]]
      [] a[1] = "Insert"         -> a[2] # Unsigned /\ o[a[2]] = Absent /\ a[3] # Absent
      [] a[1] = "Delete"         -> a[2] # Unsigned /\ o[a[2]] # Absent
      [] a[1] = "EditUnsigned"   -> a[2] # o[Unsigned]
      [] a[1] = "Reserialise"    -> TRUE
      [] OTHER                   -> FALSE

ObjAfter(o, a) ==
    CASE a[1] \in {"Mutate", "NestedEdit", "Insert"} -> [o EXCEPT ![a[2]] = a[3]]
      [] a[1] = "Delete"                             -> [o EXCEPT ![a[2]] = Absent]
      [] a[1] = "EditUnsigned"                       -> [o EXCEPT ![Unsigned] = a[2]]
      [] OTHER                                       -> o

SigsAfter(o, s, a) ==
    IF a[1] \in SignOps THEN PutSig(s, a[2], a[3], SigEntry(a[4], o)) ELSE s

\* SignJSON returns the canonical encoding; an external signer and an editor keep the presentation they were
\* given; Reserialise picks another one.
PresAfter(p, a) ==
    CASE a[1] = "Sign"        -> "canon"
      [] a[1] = "Reserialise" -> a[2]
      [] OTHER                -> p

(***************************************************************************)
(* State.                                                                  *)
(***************************************************************************)
VARIABLES obj,      \* member -> value token (Absent = no such member); includes `unsigned`
          sigs,     \* <<entity, key ID>> -> [key, payload]   (partial: DOMAIN = entries present)
          pres,     \* presentation tag of the document in flight
          start,    \* history: the element of Starts this behaviour began with
          hist,     \* history: sequence of actions taken
          slog,     \* history: signing events [e, kid, key, snap (projection signed), at (index in hist), how]
          prev      \* history: [obj, sigs, ver] just before the last action

vars == <<obj, sigs, pres, start, hist, slog, prev>>

Universe == Entities \X KeyIDs \X Keys
Ver      == Matrix(obj, sigs, Entities, KeyIDs, Keys)
NSigns   == Len(slog)
Last     == hist[Len(hist)]

Do(a) ==
    /\ Len(hist) < MaxLen
    /\ Len(hist) < start.depth
    /\ Legal(obj, a)
    /\ obj'  = ObjAfter(obj, a)
    /\ sigs' = SigsAfter(obj, sigs, a)
    /\ pres' = PresAfter(pres, a)
    /\ hist' = Append(hist, a)
    /\ slog' = IF a[1] \in SignOps
               THEN Append(slog, [e |-> a[2], kid |-> a[3], key |-> a[4], snap |-> Proj(obj),
                                  at |-> Len(hist) + 1, how |-> a[1]])
               ELSE slog
    /\ prev' = [obj |-> obj, sigs |-> sigs, ver |-> Ver]
    /\ UNCHANGED start

\* --- SignJSON(entity, key ID, private key, document) ---------------------
CanSign == NSigns < MaxSigns /\ NSigns < start.signs

Sign(e, kid, k) == CanSign /\ Do(<<"Sign", e, kid, k>>)

\* --- another entity (another implementation) adds its signature by editing the signatures member;
\*     with k = Junk what it adds is not a signature under any key of the universe ---
ForeignSign(e, kid, k) == CanSign /\ Do(<<"ForeignSign", e, kid, k>>)

\* --- tampering: single-member changes -------------------------------------
Mutate(m, v)     == Do(<<"Mutate", m, v, "">>)
Insert(m, v)     == Do(<<"Insert", m, v, "">>)
Delete(m)        == Do(<<"Delete", m, "", "">>)
NestedEdit(m, v) == Do(<<"NestedEdit", m, v, "">>)

\* --- changes the signatures do not cover ------------------------------------
EditUnsigned(u)  == Do(<<"EditUnsigned", u, "", "">>)
Reserialise(p)   == p # pres /\ Do(<<"Reserialise", p, "", "">>)

Init ==
    /\ start \in Starts
    /\ obj = start.obj
    /\ pres = start.pres
    /\ sigs = NoSigs
    /\ hist = <<>>
    /\ slog = <<>>
    /\ prev = [obj |-> start.obj, sigs |-> NoSigs, ver |-> {}]

Next ==
    \/ \E e \in Entities, kid \in KeyIDs, k \in Keys : Sign(e, kid, k) \/ ForeignSign(e, kid, k)
    \/ \E e \in Entities, kid \in KeyIDs : ForeignSign(e, kid, Junk)
    \/ \E m \in PlainMembers, v \in Vals : Mutate(m, v) \/ Insert(m, v)
    \/ \E m \in NestedMembers, v \in NVals : NestedEdit(m, v) \/ Insert(m, v)
    \/ \E m \in PlainMembers \cup NestedMembers : Delete(m)
    \/ \E u \in UVals \cup {Absent} : EditUnsigned(u)
    \/ \E p \in Presentations : Reserialise(p)

Spec == Init /\ [][Next]_vars

(***************************************************************************)
(* The property, over the history variables (hist, slog, prev) only:       *)
(* none of these formulas mentions payloads.                               *)
(***************************************************************************)
\* index in slog of the most recent signing for <<e, kid>>, 0 if none
LastSignIdx(e, kid) ==
    LET S == {i \in 1..Len(slog) : slog[i].e = e /\ slog[i].kid = kid}
    IN IF S = {} THEN 0 ELSE CHOOSE i \in S : \A j \in S : j <= i

TamperedAfter(n) == \E j \in (n + 1)..Len(hist) : hist[j][1] \in TamperOps

\* Completeness: a signature that has not been replaced verifies under the signer's name, key ID and key as long
\* as only re-serialisations, further signatures and changes of `unsigned` happened since.
Complete ==
    \A i \in 1..Len(slog) :
        LET g == slog[i] IN
        (LastSignIdx(g.e, g.kid) = i /\ ~TamperedAfter(g.at)) => Verifies(obj, sigs, g.e, g.kid, g.key)

\* ... and, more generally, whenever the signed members are (again) what was signed
CompleteNet ==
    \A i \in 1..Len(slog) :
        LET g == slog[i] IN
        (LastSignIdx(g.e, g.kid) = i /\ g.snap = Proj(obj)) => Verifies(obj, sigs, g.e, g.kid, g.key)

\* Soundness: whatever verifies was signed under exactly that name and key ID with exactly that key, and the
\* signed members are what they were then.
Sound ==
    \A t \in Universe :
        Verifies(obj, sigs, t[1], t[2], t[3]) =>
            LET i == LastSignIdx(t[1], t[2]) IN
            /\ i > 0
            /\ slog[i].key = t[3]
            /\ slog[i].snap = Proj(obj)

\* a single-member change invalidates every signature that verified before it
SoundTamper == (hist # <<>> /\ Last[1] \in TamperOps) => (Ver \cap prev.ver = {})

\* at most one public key verifies per name and key ID
OneKey == \A t, u \in Ver : (t[1] = u[1] /\ t[2] = u[2]) => t[3] = u[3]

\* signing keeps the object (in particular `unsigned`) and every other signature entry intact
SignPreserves ==
    (hist # <<>> /\ Last[1] \in SignOps) =>
        /\ obj = prev.obj
        /\ DOMAIN sigs = (DOMAIN prev.sigs) \cup {<<Last[2], Last[3]>>}
        /\ \A x \in (DOMAIN prev.sigs) \ {<<Last[2], Last[3]>>} : sigs[x] = prev.sigs[x]
        /\ Verifies(obj, sigs, Last[2], Last[3], Last[4])

\* changes outside the signed projection leave every verification result alone
UncoveredFree ==
    (hist # <<>> /\ Last[1] \in {"EditUnsigned", "Reserialise"}) => (Ver = prev.ver /\ sigs = prev.sigs)

\* oracle sanity
EditsKeepSignatures == (hist # <<>> /\ Last[1] \notin SignOps) => sigs = prev.sigs

TypeOK ==
    /\ Len(hist) <= MaxLen
    /\ NSigns <= MaxSigns
    /\ pres \in Presentations
    /\ DOMAIN sigs \subseteq Entities \X KeyIDs
    /\ \A x \in DOMAIN sigs : sigs[x].key \in Keys \cup {Junk}
    /\ DOMAIN obj = PlainMembers \cup NestedMembers \cup {Unsigned}
    /\ \A m \in PlainMembers : obj[m] \in Vals \cup {Absent}
    /\ \A m \in NestedMembers : obj[m] \in NVals \cup {Absent}
    /\ obj[Unsigned] \in UVals \cup {Absent}
=============================================================================
