SPECIFICATION Spec
CONSTANTS
  Family = "join"
  Versions <- VersionsAll
  TypesC <- TypesAll
  Depth = "full"
  FieldSet = "full"
  Entries <- EntriesUntrusted
  MaxOps = 1
  Heavy <- NoOps
  HeavyAfter <- NoOps
  Muts <- NoOps
INVARIANTS TypeOK NoPanic WellOrdered Emit
CHECK_DEADLOCK FALSE
