SPECIFICATION Spec
CONSTANTS
  Family = "cache"
  Depth = "quick"
INVARIANTS CacheSane Emit
CHECK_DEADLOCK FALSE
