------------------------------ MODULE Tokens ------------------------------
(***************************************************************************)
(* C20 - login tokens (tokens/tokens.go, tokens/tokens_handlers.go).       *)
(*                                                                         *)
(* The token is a macaroon.  Its mechanics are modelled symbolically:      *)
(*   sig_0 = HMAC(secret, id)   sig_i = HMAC(sig_{i-1}, caveat_i)          *)
(* so a signature is the record [root, id, cavs] of everything it covers.  *)
(* Anyone holding a token can append a caveat and extend the chain         *)
(* (AddCaveat); nobody without the root secret can produce a signature     *)
(* covering a different prefix (all other alterations leave sig behind).   *)
(*                                                                         *)
(* One action per public call (GenerateLoginToken, ValidateToken,          *)
(* GetUserFromToken) plus the environment: Tick (time passes) and the      *)
(* attacker / faulty-issuer alterations; and one action for the caller     *)
(* pattern GetUserFromToken-then-ValidateToken (ValidateRead: the user     *)
(* validated for is the one the previous call READ from the token).        *)
(*                                                                         *)
(* User IDs are opaque byte strings to every rule here: identity is byte   *)
(* for byte.  The section "user IDs" below names the dimension the         *)
(* property quantifies over (the ALPHABET of the user ID: which character  *)
(* class occurs where) and the neighbourhood a user ID has under the       *)
(* textual transformations a codec between issue and read could apply.     *)
(***************************************************************************)
EXTENDS Integers, Sequences, FiniteSets, TLC

CONSTANTS Secrets,        \* root keys (model values or strings)
          Users,          \* user IDs
          Durations,      \* requested validity in seconds (0 = default)
          Offsets,        \* instants of validation relative to the expiry instant
          MaxAlter        \* bound on the number of alterations

DefaultDuration == 120
T0 == 1000                \* issue instant of the model clock

Gen          == [k |-> "gen"]
UserCav(u)   == [k |-> "user", u |-> u]
TimeCav(t)   == [k |-> "time", t |-> t]
UnknownCav   == [k |-> "unknown"]
NoToken      == [none |-> TRUE]

AlterKinds == {"flip_sig", "flip_caveat", "flip_id", "truncate", "text_pad",   \* text_pad: '=' appended to the text
               "add_unknown", "add_gen", "add_time_past", "add_time_future",
               "add_user_other", "add_user_same",
               "mint_no_time", "mint_no_gen", "mint_no_user",
               "mint_extra_unknown",
               \* a required caveat replaced by an unknown one whose text merely resembles it (the required text
               \* followed by more characters, another letter case, other spacing): the token lacks a required
               \* caveat and carries an unknown one
               "mint_gen_near", "mint_user_near", "mint_time_near",
               \* a THIRD-party caveat appended by the holder (needs no key): alone, and presented together with a
               \* discharge macaroon the holder minted for it (the slice form macaroon libraries use) - an additional
               \* caveat either way
               "add_third_party", "add_third_party_discharged"}

MintKinds == {"mint_no_time", "mint_no_gen", "mint_no_user", "mint_extra_unknown",
              "mint_gen_near", "mint_user_near", "mint_time_near"}

\* --- user IDs ------------------------------------------------------------
(* "only for the user ID it was issued for, reveals that user ID": for ALL user IDs, i.e. all non-empty byte      *)
(* strings - the token layer does not restrict the alphabet (Matrix localparts may contain + = / . _ -, historical *)
(* ones anything; third-party identifiers such as +15551234567 are user IDs to this layer too).  A structured user *)
(* ID is a FRAME (a full Matrix ID @alicework:example.org or the bare localpart alicework), one MARK - a class -   *)
(* and the POSITION of the mark.  The classes are the characters that some textual codec treats specially:         *)
(*   URL escaping (query and path flavours disagree on + ; % introduces an escape, valid or not), separators of    *)
(*   URLs / forms / caveat texts (/ ? # & = ; : @ , and " = "), JSON and log escaping (quote, backslash, control   *)
(*   characters, a trailing newline), base64 alphabets (- _ + / =), Unicode (composed / decomposed / astral /      *)
(*   bytes that are not UTF-8), NUL, and length (longer than one length byte / two length bytes can say).          *)
(* Model user IDs are NAMES (strings "~frame~class~position"); the harness realises the bytes and asserts that     *)
(* distinct names give distinct byte strings, so "another user" in the model is another byte string in the run.    *)
Frames    == {"mxid", "bare"}
Classes   == {"none",
              "plus", "space", "pct_plus", "pct_plus_lc", "pct_space", "pct_pct", "pct_bare", "pct_hex", "pct_trunc",
              "slash", "pct_slash", "question", "hash", "amp", "eq", "semicolon", "colon", "at", "comma", "dot",
              "cav_sep", "cav_user", "quote", "backslash", "newline", "crlf", "tab", "nul", "del",
              "b64url", "lt", "nonascii", "nfd", "astral", "notutf8", "bom", "long200", "long300", "long70k"}
Positions == {"lead", "mid", "trail", "end", "only", "twice"}

\* which (frame, class, position) triples name a user ID: no mark = one ID per frame; after the server name only
\* where there is a server name; the mark alone is a user ID too (the bare frame: the whole ID is the mark)
WellPlaced(f, c, p) == /\ (c = "none") => (p = "mid")
                       /\ (p = "end") => (f = "mxid")
                       /\ (c \in {"long200", "long300", "long70k"}) => (p = "mid")
ClassUser(f, c, p) == "~" \o f \o "~" \o c \o "~" \o p
Placed == {t \in Frames \X Classes \X Positions : WellPlaced(t[1], t[2], t[3])}
ClassUsers == {ClassUser(t[1], t[2], t[3]) : t \in Placed}

\* the neighbours of a structured user ID: the same frame with the mark replaced by every other class at the same
\* position (what any character-level transformation - escaping, unescaping, trimming, dropping, folding - of the
\* mark can turn it into is among them), and the unmarked ID of the frame
PartsOf == [u \in ClassUsers |-> CHOOSE t \in Placed : ClassUser(t[1], t[2], t[3]) = u]     \* the name read back
NeighbourTable ==
    [u \in ClassUsers |->
        LET t == PartsOf[u]
        IN ({ClassUser(t[1], c, t[3]) : c \in {c \in Classes : WellPlaced(t[1], c, t[3])}}
             \cup {ClassUser(t[1], "none", "mid")}) \ {u}]
Neighbours(u) == NeighbourTable[u]

VARIABLES clock,      \* current instant
          tok,        \* the token in flight (or NoToken)
          origin,     \* history: [secret, user, dur, at] of the Issue that made it
          altered,    \* history: sequence of alteration kinds applied
          out         \* last call outcome: [call, ...]

vars == <<clock, tok, origin, altered, out>>

EffDur(d) == IF d = 0 THEN DefaultDuration ELSE d

Sig(s, id, cavs) == [root |-> s, id |-> id, cavs |-> cavs]

Mint(s, id, cavs) == [id |-> id, cavs |-> cavs, sig |-> Sig(s, id, cavs), parse |-> TRUE]

\* --- GenerateLoginToken ------------------------------------------------
Issue(s, u, d) ==
    /\ tok = NoToken
    /\ tok' = Mint(s, u, <<Gen, UserCav(u), TimeCav(clock + EffDur(d))>>)
    /\ origin' = [secret |-> s, user |-> u, dur |-> d, at |-> clock]
    /\ altered' = <<>>
    /\ out' = [call |-> "issue"]
    /\ UNCHANGED clock

\* --- environment -------------------------------------------------------
\* the "other" user an attacker / faulty issuer names: bob, or alice for bob's own tokens
OtherUser(u) == IF u = "@bob:example.org" THEN "@alice:example.org" ELSE "@bob:example.org"
OtherSecret(s) == CHOOSE v \in Secrets : v # s

Alter(kind) ==
    /\ tok # NoToken
    /\ Len(altered) < MaxAlter
    \* a token minted by a faulty issuer (mint_*) is judged as minted: a holder extending such a
    \* token (e.g. adding the missing expiry himself) is outside the property
    /\ \A i \in 1..Len(altered) : altered[i] \notin MintKinds
    /\ altered' = Append(altered, kind)
    /\ LET s == origin.secret
           u == origin.user
           exp == origin.at + EffDur(origin.dur)
           add(c) == [tok EXCEPT !.cavs = Append(@, c), !.sig.cavs = Append(@, c)]
       IN tok' =
          CASE kind = "flip_sig"        -> [tok EXCEPT !.sig.root = "corrupt"]
            [] kind = "flip_caveat"     -> [tok EXCEPT !.cavs = [@ EXCEPT ![Len(@)] = UnknownCav]]
            [] kind = "flip_id"         -> [tok EXCEPT !.id = "corrupt"]
            [] kind = "truncate"        -> [tok EXCEPT !.parse = FALSE]
            [] kind = "text_pad"        -> [tok EXCEPT !.parse = FALSE]   \* not the unpadded alphabet any more
            [] kind = "add_unknown"     -> add(UnknownCav)
            [] kind = "add_gen"         -> add(Gen)
            [] kind = "add_time_past"   -> add(TimeCav(0))
            [] kind = "add_time_future" -> add(TimeCav(exp + 100000))
            [] kind = "add_user_other"  -> add(UserCav(OtherUser(u)))
            [] kind = "add_user_same"   -> add(UserCav(u))
            [] kind = "add_third_party" -> add(UnknownCav)
            [] kind = "add_third_party_discharged" -> add(UnknownCav)
            [] kind = "mint_no_time"    -> Mint(s, u, <<Gen, UserCav(u)>>)
            [] kind = "mint_no_gen"     -> Mint(s, u, <<UserCav(u), TimeCav(exp)>>)
            [] kind = "mint_no_user"    -> Mint(s, u, <<Gen, TimeCav(exp)>>)
            [] kind = "mint_extra_unknown" -> Mint(s, u, <<Gen, UserCav(u), TimeCav(exp), UnknownCav>>)
            [] kind = "mint_gen_near"   -> Mint(s, u, <<UnknownCav, UserCav(u), TimeCav(exp)>>)
            [] kind = "mint_user_near"  -> Mint(s, u, <<Gen, UnknownCav, TimeCav(exp)>>)
            [] kind = "mint_time_near"  -> Mint(s, u, <<Gen, UserCav(u), UnknownCav>>)
    /\ out' = [call |-> "alter", kind |-> kind]
    /\ UNCHANGED <<clock, origin>>

\* a second server (holding another root key) mints the same claims under its own key:
\* this is an issue by that key, not an alteration
Remint ==
    /\ tok # NoToken /\ altered = <<>> /\ out.call = "issue"
    /\ tok' = Mint(OtherSecret(origin.secret), tok.id, tok.cavs)
    /\ origin' = [origin EXCEPT !.secret = OtherSecret(@)]
    /\ out' = [call |-> "remint"]
    /\ UNCHANGED <<clock, altered>>

\* time jumps to an instant `off` seconds after the expiry instant of the issued token
TickTo(off) ==
    /\ tok # NoToken
    /\ LET t == origin.at + EffDur(origin.dur) + off IN
       /\ t > clock
       /\ clock' = t
    /\ out' = [call |-> "tick"]
    /\ UNCHANGED <<tok, origin, altered>>

\* --- ValidateToken -----------------------------------------------------
SigOK(t, s) == t.parse /\ t.sig = Sig(s, t.id, t.cavs)

Count(cavs, P(_)) == Cardinality({i \in 1..Len(cavs) : P(cavs[i])})

\* the design: exactly the three caveats, each satisfied, nothing else
CaveatsOK(cavs, u, now) ==
    /\ Len(cavs) = 3
    /\ Count(cavs, LAMBDA c : c = Gen) = 1
    /\ Count(cavs, LAMBDA c : c = UserCav(u)) = 1
    /\ Count(cavs, LAMBDA c : c.k = "time" /\ now < c.t) = 1

ValidateVerdict(t, s, u, now) == SigOK(t, s) /\ CaveatsOK(t.cavs, u, now)

Validate(s, u) ==
    /\ tok # NoToken
    /\ out.call \notin {"validate", "validate_read"}
    /\ out' = [call |-> "validate", secret |-> s, user |-> u, at |-> clock,
               ok |-> ValidateVerdict(tok, s, u, clock)]
    /\ UNCHANGED <<clock, tok, origin, altered>>

\* --- GetUserFromToken (does not validate) -------------------------------
GetUser ==
    /\ tok # NoToken
    /\ out.call \notin {"getuser", "validate", "validate_read"}
    /\ out' = [call |-> "getuser", ok |-> tok.parse, user |-> tok.id]
    /\ UNCHANGED <<clock, tok, origin, altered>>

\* --- the caller pattern: read the user from the token, then validate for THAT user ---------------
\* (the user argument is not chosen by the environment: it is whatever GetUserFromToken just returned)
ValidateRead(s) ==
    /\ tok # NoToken
    /\ out.call = "getuser" /\ out.ok
    /\ out' = [call |-> "validate_read", secret |-> s, user |-> out.user, at |-> clock,
               ok |-> ValidateVerdict(tok, s, out.user, clock)]
    /\ UNCHANGED <<clock, tok, origin, altered>>

Init == /\ clock = T0 /\ tok = NoToken /\ origin = NoToken /\ altered = <<>> /\ out = [call |-> "none"]

Next == \/ \E s \in Secrets, u \in Users, d \in Durations : Issue(s, u, d)
        \/ \E k \in AlterKinds : Alter(k)
        \/ \E o \in Offsets : TickTo(o)
        \/ \E s \in Secrets, u \in Users : Validate(s, u)
        \/ GetUser
        \* (the key dimension of a validation is explored by Validate; what ValidateRead adds is the user READ)
        \/ tok # NoToken /\ ValidateRead(origin.secret)
        \/ Remint

Spec == Init /\ [][Next]_vars

(***************************************************************************)
(* The property, stated over the history variables (independent of the     *)
(* macaroon mechanics above).                                              *)
(***************************************************************************)
Unaltered == altered = <<>>

Validated == out.call \in {"validate", "validate_read"}

Sound == (Validated /\ out.ok) =>
            /\ out.secret = origin.secret
            /\ out.user = origin.user
            /\ Unaltered
            /\ out.at < origin.at + EffDur(origin.dur)

Complete == (Validated /\ Unaltered /\ out.secret = origin.secret
             /\ out.user = origin.user /\ out.at < origin.at + EffDur(origin.dur)) => out.ok

\* byte for byte: the user ID read is the user ID of the issue, whatever its alphabet
RevealsUser == (out.call = "getuser" /\ Unaltered) => (out.ok /\ out.user = origin.user)

\* read-then-validate: a genuine, unexpired token validates under its key for the user READ from it (a consequence of
\* Complete and RevealsUser together; stated on its own because neither call shows it alone), and an accepted
\* read-then-validate names the user of the issue
ReadThenValidate ==
    (out.call = "validate_read") =>
        /\ (Unaltered /\ out.secret = origin.secret /\ out.at < origin.at + EffDur(origin.dur)) => out.ok
        /\ out.ok => out.user = origin.user

TypeOK == clock \in Nat /\ Len(altered) <= MaxAlter
=============================================================================
