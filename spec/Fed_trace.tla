----------------------------- MODULE Fed_trace -----------------------------
(***************************************************************************)
(* Trace validation (code -> spec) for Fed.tla (X06).                      *)
(*                                                                         *)
(* The trace is the log of harness/cmd/x06 x06rec: three REAL servers      *)
(* (every decision made by gomatrixserverlib) driven through random        *)
(* histories.  One line per step, in the vocabulary of Fed.tla's actions:  *)
(*   reset                                  a new room (run) begins        *)
(*   create                                 Create                         *)
(*   join    s u via ts                     JoinWith                       *)
(*   send    s u kind t lvl rule ts         SendWith                       *)
(*   stale   s u kind t lvl rule ts x       SendStaleWith                  *)
(*   try     s u kind t lvl rule ts         a send the library refused on  *)
(*                                          the server's own state         *)
(*   deliver s e                            Deliver                        *)
(*   gap     s e                            DeliverGap                     *)
(* with the prev / auth events the real server gave the new event and what *)
(* the acting servers held afterwards (verdict, state after the event,     *)
(* extremities, current state).                                            *)
(*                                                                         *)
(* The specification takes the SAME action (Fed.tla's, with the logged     *)
(* parameters) and the line is explained iff the action is enabled and     *)
(* leaves the model's servers holding exactly what the real ones held; a   *)
(* "try" line is explained iff the action is NOT enabled.  After the first *)
(* unexplained line of a run the rest of that run is skipped (the model    *)
(* and the servers are out of step); at a line whose action is not enabled *)
(* at all the search ends and the line is reported.  All of Fed.tla's      *)
(* invariants are checked along the way.                                   *)
(***************************************************************************)
EXTENDS Fed, Json, IOUtils

Trace == ndJsonDeserialize(IOEnv.TRACE_FILE)

VARIABLES l,       \* the line to explain next
          bad,    \* lines the specification does not explain
          broken   \* the current run has an unexplained line

tvars == <<fvars, l, bad, broken>>

ToSetOf(seq) == {seq[i] : i \in DOMAIN seq}

\* what the model's server holds about event o.e against the logged out-record o
SameOut(o, full) ==
    LET L == srv'[o.s] IN
    /\ o.e \in L.kn /\ L.vd[o.e] = o.v
    /\ o.e \in HasState(L) /\ L.sa[o.e] = ToSetOf(o.sa)
    /\ (full => L.tips = ToSetOf(o.tips) /\ L.cur = ToSetOf(o.cur))

\* a new event: the real server built it on the same prev events, citing the same auth events
SameEvent(ln) ==
    /\ Len(E') = ln.e
    /\ E'[ln.e].prev = ToSetOf(ln.prev)
    /\ E'[ln.e].auth = ToSetOf(ln.auth)

Agrees(ln) ==
    CASE ln.a \in {"create", "send", "stale"} -> SameEvent(ln) /\ Len(ln.res) = 1 /\ SameOut(ln.res[1], TRUE)
      [] ln.a = "join" -> SameEvent(ln) /\ Len(ln.res) = 2 /\ SameOut(ln.res[1], TRUE) /\ SameOut(ln.res[2], TRUE)
      [] ln.a = "deliver" -> Len(ln.res) = 1 /\ SameOut(ln.res[1], TRUE)
      \* a fetched batch: per event the verdict and the state after it (the library may process incomparable events
      \* in another order than the model: the results per event do not depend on it), extremities and current state
      \* once the whole batch is in
      [] ln.a = "gap" -> /\ Len(ln.res) = Len(hist'[Len(hist')].res)
                         /\ \A k \in DOMAIN ln.res : SameOut(ln.res[k], k = Len(ln.res))
      [] OTHER -> FALSE

\* the action of Fed.tla the line names
Act(ln) ==
    CASE ln.a = "create" -> Create
      [] ln.a = "join" -> JoinWith(ln.s, ln.u, ln.via, ln.ts)
      [] ln.a \in {"send", "try"} -> SendWith(ln.s, ln.u, ln.kind, ln.t, ln.lvl, ln.rule, ln.ts)
      [] ln.a = "stale" -> SendStaleWith(ln.s, ln.u, ln.kind, ln.t, ln.lvl, ln.rule, ln.ts, ln.x)
      [] ln.a = "deliver" -> Deliver(ln.s, ln.e)
      [] ln.a = "gap" -> DeliverGap(ln.s, ln.e)
      [] OTHER -> FALSE

Reset ==
    /\ E' = <<>> /\ after' = <<>> /\ last' = 0 /\ before' = {} /\ nbad' = 0
    /\ srv' = [s \in {Obs} \cup Servers |-> Empty]
    /\ badEv' = {} /\ stale' = {}
    /\ hist' = <<>>

TInit == FInit /\ l = 1 /\ bad = <<>> /\ broken = FALSE /\ TLCSet(1, <<>>)

TNext ==
    /\ l <= Len(Trace)
    /\ l' = l + 1
    /\ LET ln == Trace[l] IN
       \/ /\ ln.a = "reset"
          /\ Reset /\ broken' = FALSE /\ bad' = bad
       \/ /\ ln.a # "reset" /\ broken                       \* out of step: skip to the next run
          /\ UNCHANGED <<fvars, bad, broken>>
       \/ /\ ln.a \notin {"reset", "try"} /\ ~broken
          /\ Act(ln)
          /\ IF Agrees(ln) THEN bad' = bad /\ broken' = FALSE
                           ELSE bad' = Append(bad, l) /\ broken' = TRUE
       \/ /\ ln.a = "try" /\ ~broken                        \* the library refused to send: so must the specification
          /\ IF ENABLED Act(ln) THEN bad' = Append(bad, l) ELSE bad' = bad
          /\ UNCHANGED <<fvars, broken>>
    /\ TLCSet(1, bad')

TSpec == TInit /\ [][TNext]_tvars

Report == (l = Len(Trace) + 1 /\ bad # <<>>) => PrintT("TRACE_REJECTED " \o ToJson(bad))

\* every line was consumed - or the search stopped at a line whose action the specification cannot take at all (the
\* real servers did something Fed.tla has no step for): that line is reported with the unexplained lines before it
TraceAccepted ==
    LET d == TLCGet("stats").diameter - 1 IN
    IF d = Len(Trace) THEN TRUE
    ELSE PrintT("TRACE_REJECTED " \o ToJson(Append(TLCGet(1), d + 1)))

\* values for the cfg files
NoByz == {}
NotListed == Absent
Byz3 == {3}
AllKinds == Kinds
=============================================================================
