SPECIFICATION Spec
CONSTANTS
  MaxTotal = 9
  Defects <- DefectsAll
  Brackets <- BracketsAll
  Ports <- PortsAll
INVARIANTS SaneLiteral SaneDefect SaneZone SaneSimple Emit_
CHECK_DEADLOCK FALSE
