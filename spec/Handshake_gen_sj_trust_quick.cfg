SPECIFICATION GSpec
CONSTANTS
  Family = "sj_trust"
  Versions <- VersionsQuick1
  Width = "quick"
  MaxForge = 0
  ScenarioSet = "none"
INVARIANTS TypeOK MakeJoinExact MakeLeaveExact TemplateShape SendJoinExact InviteExact ReturnsCountersigned PerformJoinExact NoJoinWithoutBothHandlers BannedNeverJoins UnforgedPublicJoinSucceeds UnforgedRestrictedJoinSucceeds TamperedNeverAccepted Emit
CHECK_DEADLOCK FALSE
