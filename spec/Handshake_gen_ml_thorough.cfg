SPECIFICATION GSpec
CONSTANTS
  Family = "ml"
  Width = "thorough"
  MaxForge = 0
  ScenarioSet = "none"
INVARIANTS TypeOK CaseVariantIsAnotherServer MakeJoinExact MakeLeaveExact TemplateShape SendJoinExact InviteExact InviteV3Exact ReturnsCountersigned PerformJoinExact NoJoinWithoutBothHandlers BannedNeverJoins RetrySucceedsWhereAFreshJoinWould UnforgedPublicJoinSucceeds UnforgedRestrictedJoinSucceeds TamperedNeverAccepted TemplateAuthoriser OtherIdentitiesIrrelevant Emit
CHECK_DEADLOCK FALSE
