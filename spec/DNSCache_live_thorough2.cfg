SPECIFICATION FairSpec
CONSTANTS
  Procs = {"c1", "c2"}
  Hosts = {"a", "b"}
  Size = 1
  MaxCalls = 2
  MaxExpire = 1
  Kinds = {"dial"}
  ZeroDuration = FALSE
  Faults = TRUE
INVARIANTS TypeOK SizeBound
PROPERTIES EveryCallReturns
