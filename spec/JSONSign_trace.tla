--------------------------- MODULE JSONSign_trace ---------------------------
(***************************************************************************)
(* Trace validation (code -> spec) for JSONSign.tla.  The trace is a       *)
(* sequence of recorded runs of the real library (harness/cmd/c02 c02rec): *)
(* a line with op "Init" starts a run (abstract object, presentation),     *)
(* every other line is one action of JSONSign.tla with its parameters and  *)
(* what the library answered afterwards: `ver`, the triples <<entity, key  *)
(* ID, key>> for which VerifyJSON returned nil, and `kids`, ListKeyIDs per *)
(* entity.  Each line is explained iff the action is legal in the current  *)
(* state of the specification and the state it leads to derives exactly    *)
(* the logged answers.  The specification's own actions (Do) are taken, so *)
(* the recorded runs are behaviours of JSONSign.tla.                       *)
(***************************************************************************)
EXTENDS JSONSign, Json, IOUtils, SequencesExt

Trace == ndJsonDeserialize(IOEnv.TRACE_FILE)

VARIABLES l,     \* next trace line
          bad    \* lines whose logged answers the specification does not explain
tvars == <<l, bad, obj, sigs, pres, start, hist, slog, prev>>

ActOf(r) == <<r.op, r.p[1], r.p[2], r.p[3]>>

\* member actions must name a member of the run's object
WellFormed(o, a) ==
    IF a[1] \in {"Mutate", "NestedEdit", "Insert", "Delete"} THEN a[2] \in DOMAIN o
    ELSE IF a[1] = "ForeignEntity" THEN a[2] \in Entities /\ a[3] = Whole /\ a[4] \in EntityForms
    ELSE IF a[1] = "ForeignEntry" THEN a[2] \in Entities /\ a[3] \in KeyIDs /\ a[4] \in ForeignForms
    ELSE IF a[1] \in SignOps THEN a[2] \in Entities /\ a[3] \in KeyIDs /\ a[4] \in Keys \cup {Junk}
    ELSE IF a[1] = "SignRefused" THEN a[2] \in Entities /\ a[3] \in KeyIDs /\ a[4] \in Keys
    ELSE TRUE

ObsOK(r, o, s) ==
    /\ ToSet(r.ver) = Matrix(o, s, Entities, KeyIDs, Keys)
    /\ \A e \in Entities : ToSet(r.kids[e]) = KeyIDsOf(s, e)

Blank == [unsigned |-> Absent]

TInit ==
    /\ l = 1 /\ bad = <<>>
    /\ obj = Blank /\ sigs = NoSigs /\ pres = "canon"
    /\ start = [obj |-> Blank, pres |-> "canon", sigs |-> "absent", depth |-> 0, signs |-> 0]
    /\ hist = <<>> /\ slog = <<>>
    /\ prev = [obj |-> Blank, sigs |-> NoSigs, ver |-> {}]

Reset(r) ==
    /\ obj' = r.obj /\ sigs' = NoSigs /\ pres' = r.pres
    /\ start' = [obj |-> r.obj, pres |-> r.pres, sigs |-> "absent", depth |-> MaxLen, signs |-> MaxSigns]
    /\ hist' = <<>> /\ slog' = <<>>
    /\ prev' = [obj |-> r.obj, sigs |-> NoSigs, ver |-> {}]

Explicable(r) == WellFormed(obj, ActOf(r)) /\ Legal(obj, sigs, ActOf(r)) /\ Len(hist) < MaxLen /\ Len(hist) < start.depth

\* One step per logged line.  A line the specification does not explain is recorded (so the rest of the trace
\* is still checked in the same run of TLC) and makes the trace rejected.
Step ==
    /\ l <= Len(Trace)
    /\ l' = l + 1
    /\ LET r == Trace[l] IN
       \/ /\ r.op = "Init"
          /\ Reset(r)
          /\ bad' = IF ObsOK(r, obj', sigs') THEN bad ELSE Append(bad, l)
       \/ /\ r.op # "Init" /\ Explicable(r)
          /\ Do(ActOf(r))
          /\ bad' = IF ObsOK(r, obj', sigs') THEN bad ELSE Append(bad, l)
       \/ /\ r.op # "Init" /\ ~Explicable(r)
          /\ bad' = Append(bad, l)
          /\ UNCHANGED vars

TNext == Step
TSpec == TInit /\ [][TNext]_tvars

Report == (l = Len(Trace) + 1 /\ bad # <<>>) => PrintT("TRACE_REJECTED " \o ToJson(bad))
TraceAccepted == TLCGet("stats").diameter - 1 = Len(Trace)
=============================================================================
