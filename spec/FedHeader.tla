----------------------------- MODULE FedHeader -----------------------------
(***************************************************************************)
(* C13 - grammar of the "Authorization: X-Matrix ..." header, stated       *)
(* declaratively over a token alphabet (Matrix server-server API, request  *)
(* authentication; RFC 9110 section 11.4 credentials):                     *)
(*                                                                         *)
(*   header  ::= scheme [ sp list ]                                        *)
(*   list    ::= elem ( comma elem )*          OWS allowed between tokens  *)
(*   elem    ::= (empty) | name eq value                                   *)
(*   value   ::= q (quoted-string) | b (bare token, colons allowed)        *)
(*                                                                         *)
(* A token is [k |-> kind, s |-> text]; kinds: scheme sp name eq q b comma *)
(* ows.  The header text is the concatenation of the token texts (a q      *)
(* token is written between double quotes).  The order of list elements    *)
(* carries no meaning, so the list is read as the SET of its elements.     *)
(* Values never contain comma, quote or backslash (no server name, key ID  *)
(* or base64 signature does).                                              *)
(***************************************************************************)
EXTENDS Integers, Sequences, FiniteSets

Tok(k, s) == [k |-> k, s |-> s]

Required == {"origin", "key", "sig"}
Known    == Required \cup {"destination"}

NoOws(toks) == SelectSeq(toks, LAMBDA t : t.k # "ows")

\* scheme token "X-Matrix", then nothing or the separating space(s)
SchemeOK(toks) ==
    /\ Len(toks) >= 1
    /\ toks[1] = Tok("scheme", "X-Matrix")
    /\ Len(toks) >= 2 => toks[2].k = "sp"

\* the list part: everything after the separating space, optional whitespace removed
ListPart(toks) == IF Len(toks) <= 2 THEN <<>> ELSE NoOws(SubSeq(toks, 3, Len(toks)))

\* the list elements: the maximal comma-free segments
Elems(toks) ==
    LET s == ListPart(toks)
        bounds == {0, Len(s) + 1} \cup {i \in 1..Len(s) : s[i].k = "comma"}
        nxt(a) == CHOOSE b \in bounds : b > a /\ \A c \in bounds : c > a => b <= c
    IN { SubSeq(s, a + 1, nxt(a) - 1) : a \in bounds \ {Len(s) + 1} }

IsParam(e) == Len(e) = 3 /\ e[1].k = "name" /\ e[2].k = "eq" /\ e[3].k \in {"q", "b"}
\* "name=" followed by nothing: a parameter with an empty value
IsEmptyParam(e) == Len(e) = 2 /\ e[1].k = "name" /\ e[2].k = "eq"
ElemOK(e) == e = <<>> \/ IsParam(e)

\* values the elements es give to parameter n (a set: more than one if the name is repeated)
ValsOf(es, n) ==
    {e[3].s : e \in {x \in es : IsParam(x) /\ x[1].s = n}}
    \cup {"" : e \in {x \in es : IsEmptyParam(x) /\ x[1].s = n}}
Vals(toks, n) == ValsOf(Elems(toks), n)

\* strictly well formed: every element an auth-param or empty, no name repeated with two values
WellFormed(toks) ==
    /\ SchemeOK(toks)
    /\ Len(toks) >= 2
    /\ \A e \in Elems(toks) : ElemOK(e)
    /\ \A n \in Known : Cardinality(Vals(toks, n)) <= 1

\* usable as X-Matrix credentials: every required parameter present with a non-empty value
\* (with a repeated name: in one of the readings the grammar leaves open)
Usable(toks) ==
    /\ SchemeOK(toks)
    /\ \A n \in Required : \E v \in Vals(toks, n) : v # ""

\* what a parser may report for parameter n ("" = absent).  Where the grammar leaves the choice open
\* (repeated name) any of the occurrences is allowed.
MayReport(toks, n, v) ==
    IF ~SchemeOK(toks) THEN TRUE          \* not X-Matrix credentials: parameters are not looked at
    ELSE IF Vals(toks, n) = {} THEN v = "" ELSE v \in Vals(toks, n)

TheVal(toks, n) == IF Vals(toks, n) = {} THEN "" ELSE CHOOSE v \in Vals(toks, n) : TRUE

\* one reading of a header: is it X-Matrix credentials, are they usable, and the parameter values
Read(toks) ==
    LET es == Elems(toks)
        val(n) == IF ValsOf(es, n) = {} THEN "" ELSE CHOOSE v \in ValsOf(es, n) : TRUE
    IN [x |-> SchemeOK(toks),
        usable |-> SchemeOK(toks) /\ \A n \in Required : \E v \in ValsOf(es, n) : v # "",
        origin |-> val("origin"), destination |-> val("destination"), key |-> val("key"), sig |-> val("sig")]
=============================================================================
