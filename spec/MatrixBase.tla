----------------------------- MODULE MatrixBase -----------------------------
(***************************************************************************)
(* Shared vocabulary of all gomatrixserverlib specifications: the room     *)
(* version trait table transcribed from the Matrix specification           *)
(* (spec.matrix.org, "Room versions") and the MSCs behind the unstable     *)
(* identifiers registered in eventversion.go.                              *)
(***************************************************************************)
EXTENDS Integers, Sequences, FiniteSets, TLC

StableVersions == {"1", "2", "3", "4", "5", "6", "7", "8", "9", "10", "11", "12"}
UnstableVersions == {"org.matrix.msc3667", "org.matrix.msc3787", "org.matrix.msc4014", "org.matrix.hydra.11"}
AllVersions == StableVersions \cup UnstableVersions

\* the stable version whose rules an identifier follows (unstable ones: the base named by their MSC)
BaseOf(v) == CASE v = "org.matrix.msc3667" -> 7     \* v7 + integer-only power levels
               [] v = "org.matrix.msc3787" -> 9     \* v9 + knock_restricted
               [] v = "org.matrix.msc4014" -> 10    \* pseudo IDs on a v10 base
               [] v = "org.matrix.hydra.11" -> 12   \* v12 (hydra) under its unstable name
               [] v = "1" -> 1 [] v = "2" -> 2 [] v = "3" -> 3 [] v = "4" -> 4
               [] v = "5" -> 5 [] v = "6" -> 6 [] v = "7" -> 7 [] v = "8" -> 8
               [] v = "9" -> 9 [] v = "10" -> 10 [] v = "11" -> 11 [] v = "12" -> 12

\* --- traits ---------------------------------------------------------------
StateRes(v)        == IF BaseOf(v) = 1 THEN "v1" ELSE IF BaseOf(v) >= 12 THEN "v2.1" ELSE "v2"
EventFormat(v)     == IF BaseOf(v) <= 2 THEN 1 ELSE 2            \* 1: references with hashes + event_id; 2: ID lists
EventIDFormat(v)   == IF BaseOf(v) <= 2 THEN 1 ELSE IF BaseOf(v) = 3 THEN 2 ELSE 3   \* 1 given, 2 base64, 3 url-safe base64
RedactionAlgo(v)   == CASE BaseOf(v) <= 5 -> 1        \* original
                        [] BaseOf(v) \in {6, 7} -> 2  \* drops aliases
                        [] BaseOf(v) = 8 -> 3         \* join_rules keeps allow
                        [] BaseOf(v) \in {9, 10} -> 4 \* member keeps join_authorised_via_users_server
                        [] OTHER -> 5                 \* v11 overhaul
StrictKeyValidity(v) == BaseOf(v) >= 5
EnforcedCanonJSON(v) == BaseOf(v) >= 6
NotificationsChecked(v) == BaseOf(v) >= 6
KnockSupported(v)    == BaseOf(v) >= 7
RestrictedSupported(v) == BaseOf(v) >= 8 /\ v # "org.matrix.msc3667"
KnockRestrictedInSpec(v) == BaseOf(v) >= 10 \/ v = "org.matrix.msc3787"
IntegerPowerLevels(v) == BaseOf(v) >= 10 \/ v = "org.matrix.msc3667"
CreatorFieldRequired(v) == BaseOf(v) <= 10
PrivilegedCreators(v)   == BaseOf(v) >= 12
DomainlessRoomIDs(v)    == BaseOf(v) >= 12
PseudoIDs(v)            == v = "org.matrix.msc4014"
RedactionAuthRule(v)    == BaseOf(v) <= 2       \* rule 11 of the v1/v2 auth rules
Stable(v) == v \in StableVersions

\* --- abstract users -------------------------------------------------------
\* "creator" is always the sender of the create event.  hs1 is the creating server.
Users == {"creator", "alice", "bob", "carol"}
Dom(u) == IF u \in {"creator", "alice"} THEN "hs1" ELSE "hs2"

\* --- abstract power levels --------------------------------------------------
\* Only order and equality matter to every rule, so levels are ranks.  The
\* harness maps ranks to concrete integers through a monotone ladder that
\* always realises rank 1 as 0 and rank 3 as 50 (the specification's defaults).
Absent == -1
Ranks == 0..4
R0 == 1         \* the level 0
R50 == 3        \* the level 50
NoPLCreator == 8  \* creator without a power_levels event (departure A2: 2^53-1)
Inf == 9          \* creators in rooms with privileged creators (2^53)
LevelOrAbsent == {Absent} \cup Ranks

Max2(a, b) == IF a >= b THEN a ELSE b
=============================================================================
