\* X04: configuration for a `-coverage 1` run (X04_COVERAGE=1 bin/check X04): creation prefix 1 with one more event,
\* Room!Prefix3 replaced (see Backfill_gen.tla).
SPECIFICATION BSpec
CONSTANTS
  Start = 1
  Ver = "10"
  MaxFree = 1
  ForkFrom = 5
  TSChoices = {1}
  IdDesc = FALSE
  Dishonest = FALSE
  MaxBad = 0
  Addl = {}
  NServers = 2
  LimitSet <- Limits013
  FromModes <- FromAll
  SliceKinds <- SlicesAll
  WireKinds <- WiresAll
  Budget = 2
  MaxWorld = 1
  SigTolerance = "only"
  Fault = "none"
  Prefix3 <- CheapPrefix3
INVARIANTS TypeOK ReturnedSafe NothingLost NoDuplicates AskDiscipline TopoOrdered Quiescence ErrorReport StateCallsInOrder HonestWorld HonestRun FaultsShow CollectionMatches
CHECK_DEADLOCK FALSE
